(* Resolve: resolver.resolve_target_state over the tree of state keys (without custom ids).  Definitions only.
   A state is named by its path of keys below the machine root ([] = the root). *)
From XSM Require Export Model.Generic.
Open Scope list_scope.

Inductive ktree := KT (key : string) (kids : list ktree).
Definition kkey (t : ktree) : string := match t with KT k _ => k end.
Definition kkids (t : ktree) : list ktree := match t with KT _ ks => ks end.

(* _find_descendant: follow the keys downwards *)
Fixpoint descend (t : ktree) (segs : list string) : option ktree :=
  match segs with
  | [] => Some t
  | k :: r =>
      (fix pick (ks : list ktree) : option ktree :=
         match ks with
         | [] => None
         | c :: cs => if String.eqb (kkey c) k then descend c r else pick cs
         end) (kkids t)
  end.
Definition exists_at (root : ktree) (p : list string) : bool := match descend root p with Some _ => true | None => false end.

Definition parent_path (p : list string) : list string := removelast p.
Definition last_key (root : ktree) (p : list string) : string := last p (kkey root).

(* strategy 4: plain identifier, bubbling up from the reference state *)
Fixpoint bubble (fuel : nat) (root : ktree) (cur : list string) (segs : list string) : option (list string) :=
  if exists_at root (cur ++ segs) then Some (cur ++ segs)
  else if match segs with [k] => String.eqb k (last_key root cur) | _ => false end then Some cur
  else match fuel, cur with
       | S f, _ :: _ => bubble f root (parent_path cur) segs
       | _, _ => None
       end.

Inductive spelling :=
| SAbs (segs : list string)      (* '#root.a.b' : segs = [root; a; b] *)
| SDot                           (* '.' *)
| SRel (segs : list string)      (* '.a.b' *)
| SPlain (segs : list string).   (* 'a.b' *)

Definition resolve_target (root : ktree) (ref : list string) (sp : spelling) : option (list string) :=
  match sp with
  | SAbs (k :: r) => if String.eqb k (kkey root) && forallb (fun s => negb (String.eqb s "")) r && exists_at root r then Some r else None
  | SAbs [] => None
  | SDot => Some (parent_path ref)
  | SRel segs =>
      if forallb (fun s => negb (String.eqb s "")) segs && exists_at root (parent_path ref ++ segs) then Some (parent_path ref ++ segs) else None
  | SPlain segs =>
      if forallb (fun s => negb (String.eqb s "")) segs then bubble (List.length ref) root ref segs else None
  end.

(* K-resolve: rows of (reference path, spelling, what the library resolved it to) *)
Fixpoint path_eqb (a b : list string) : bool :=
  match a, b with [], [] => true | x :: a', y :: b' => String.eqb x y && path_eqb a' b' | _, _ => false end.
Definition opt_path_eqb (a b : option (list string)) : bool :=
  match a, b with None, None => true | Some x, Some y => path_eqb x y | _, _ => false end.
Fixpoint bad_rows_from (i : nat) (root : ktree) (rows : list (list string * spelling * option (list string))) : list nat :=
  match rows with
  | [] => []
  | (ref, sp, want) :: r =>
      if opt_path_eqb (resolve_target root ref sp) want then bad_rows_from (S i) root r else i :: bad_rows_from (S i) root r
  end.
Definition check_resolve root rows := bad_rows_from 0 root rows.
