(* Actors: the bookkeeping of spawn / sendTo / sendParent / forwardTo / escalate / cancel / stopChild / stop over a
   tree of interpreters (property C15).  Definitions only.
   Models: BaseInterpreter._resolve_actor_target, _register_in_system, _system_registry, _cancel_scheduled_send;
   Interpreter._deliver / _stop_child_actor / _spawn_actor / stop; SyncInterpreter._deliver / STOP_CHILD branch /
   _spawn_actor (blocking and thread-managed, with the runner thread's poll) / stop.
   Every actor runs a machine that only records what it receives, so "processing" a delivered event is appending its
   tag to the recipient's inbox; operations are triggered from outside, one at a time, at quiescent points. *)
From XSM Require Export Model.Spawn.

Inductive aeng := ASync | AAsync.

(* python dict with insertion order: assignment to an existing key keeps its position *)
Fixpoint dset {V} (l : list (string * V)) (k : string) (v : V) : list (string * V) :=
  match l with
  | [] => [(k, v)]
  | (k', v') :: r => if String.eqb k' k then (k, v) :: r else (k', v') :: dset r k v
  end.
Definition dget {V} (l : list (string * V)) (k : string) : option V :=
  match find (fun p => String.eqb (fst p) k) l with Some p => Some (snd p) | None => None end.
Definition ddel {V} (l : list (string * V)) (k : string) : list (string * V) :=
  filter (fun p => negb (String.eqb (fst p) k)) l.

Fixpoint join_colon (l : list string) : string :=
  match l with [] => "" | [x] => x | x :: r => x ++ ":" ++ join_colon r end.

Record actor := {
  a_id : list string;                   (* the id, split at ':' - e.g. ["m"; "worker"; "u3"] *)
  a_parent : option nat;
  a_running : bool;
  a_inbox : list nat;                   (* tags of the events received, newest first *)
  a_queue : list nat;                   (* async engine: delivered but not yet processed (oldest first) *)
  a_children : list (string * nat);     (* _actors: full id -> actor *)
  a_sources : list (string * string);   (* _actor_sources: full id -> service key *)
  a_sends : list (string * nat);        (* _scheduled_sends: send id -> sequence number of the pending send *)
  a_threaded : bool }.                  (* sync engine: spawned non-blocking, i.e. managed by a runner thread *)

Record dsend := { d_due : nat; d_seq : nat; d_sender : nat; d_target : nat; d_tag : nat; d_sid : option string }.

Record sys := {
  actors : list actor;
  registry : list (string * nat);       (* root._system: systemId -> actor *)
  pending : list dsend;                 (* delayed sends waiting on the virtual clock *)
  now : nat;
  nseq : nat;
  drops : nat;                          (* "could not resolve" / "no parent" warnings: events dropped with a warning *)
  ambig : nat;                          (* "is ambiguous" warnings *)
  ties : nat }.                         (* two delayed sends fell due at the same instant: their order is the scheduler's business *)

Definition dummy_actor : actor :=
  {| a_id := []; a_parent := None; a_running := false; a_inbox := []; a_queue := []; a_children := []; a_sources := [];
     a_sends := []; a_threaded := false |}.
Definition aget (s : sys) (i : nat) : actor := nth i (actors s) dummy_actor.

Fixpoint list_upd {A} (l : list A) (i : nat) (f : A -> A) : list A :=
  match l, i with
  | [], _ => []
  | x :: r, 0 => f x :: r
  | x :: r, S j => x :: list_upd r j f
  end.
Definition aupd (s : sys) (i : nat) (f : actor -> actor) : sys :=
  {| actors := list_upd (actors s) i f; registry := registry s; pending := pending s; now := now s; nseq := nseq s;
     drops := drops s; ambig := ambig s; ties := ties s |}.
Definition with_registry r (s : sys) : sys :=
  {| actors := actors s; registry := r; pending := pending s; now := now s; nseq := nseq s; drops := drops s; ambig := ambig s; ties := ties s |}.
Definition with_pending_sends p q (s : sys) : sys :=
  {| actors := actors s; registry := registry s; pending := p; now := now s; nseq := q; drops := drops s; ambig := ambig s; ties := ties s |}.
Definition with_clock t (s : sys) : sys :=
  {| actors := actors s; registry := registry s; pending := pending s; now := t; nseq := nseq s; drops := drops s; ambig := ambig s; ties := ties s |}.
Definition note_drop (s : sys) : sys :=
  {| actors := actors s; registry := registry s; pending := pending s; now := now s; nseq := nseq s; drops := S (drops s); ambig := ambig s; ties := ties s |}.
Definition note_tie (s : sys) : sys :=
  {| actors := actors s; registry := registry s; pending := pending s; now := now s; nseq := nseq s; drops := drops s; ambig := ambig s; ties := S (ties s) |}.
Definition note_ambig (s : sys) : sys :=
  {| actors := actors s; registry := registry s; pending := pending s; now := now s; nseq := nseq s; drops := drops s; ambig := S (ambig s); ties := ties s |}.

Definition set_inbox l (a : actor) : actor :=
  {| a_id := a_id a; a_parent := a_parent a; a_running := a_running a; a_inbox := l; a_queue := a_queue a; a_children := a_children a;
     a_sources := a_sources a; a_sends := a_sends a; a_threaded := a_threaded a |}.
Definition set_running b (a : actor) : actor :=
  {| a_id := a_id a; a_parent := a_parent a; a_running := b; a_inbox := a_inbox a; a_queue := a_queue a; a_children := a_children a;
     a_sources := a_sources a; a_sends := a_sends a; a_threaded := a_threaded a |}.
Definition set_children c src (a : actor) : actor :=
  {| a_id := a_id a; a_parent := a_parent a; a_running := a_running a; a_inbox := a_inbox a; a_queue := a_queue a; a_children := c;
     a_sources := src; a_sends := a_sends a; a_threaded := a_threaded a |}.
Definition set_sends sd (a : actor) : actor :=
  {| a_id := a_id a; a_parent := a_parent a; a_running := a_running a; a_inbox := a_inbox a; a_queue := a_queue a;
     a_children := a_children a; a_sources := a_sources a; a_sends := sd; a_threaded := a_threaded a |}.
Definition set_queue q (a : actor) : actor :=
  {| a_id := a_id a; a_parent := a_parent a; a_running := a_running a; a_inbox := a_inbox a; a_queue := q;
     a_children := a_children a; a_sources := a_sources a; a_sends := a_sends a; a_threaded := a_threaded a |}.

(* interpreter.send(event) from another actor: a stopped interpreter drops it *)
Definition recv (eng : aeng) (t : nat) (tag : nat) (s : sys) : sys :=
  if a_running (aget s t)
  then match eng with
       | ASync => aupd s t (fun a => set_inbox (tag :: a_inbox a) a)      (* processed on the spot *)
       | AAsync => aupd s t (fun a => set_queue (a_queue a ++ [tag]) a)   (* queued; processed when the consumer task runs *)
       end
  else s.
(* the async consumers run: every running actor processes what is in its queue *)
Definition flush (s : sys) : sys :=
  {| actors := map (fun a => if a_running a then set_queue [] (set_inbox (rev (a_queue a) ++ a_inbox a) a) else set_queue [] a) (actors s);
     registry := registry s; pending := pending s; now := now s; nseq := nseq s; drops := drops s; ambig := ambig s; ties := ties s |}.

(* ---------------- _resolve_actor_target ---------------- *)
Inductive resolved := RActor (i : nat) | RNone | RAmbiguous.

Definition split_tail (full : string) (segs : list string) : list string := tl segs.

Definition resolve (s : sys) (me : nat) (spec : string) : resolved :=
  let a := aget s me in
  match dget (registry s) spec with
  | Some i => RActor i
  | None =>
    match dget (a_children a) spec with
    | Some i => RActor i
    | None =>
      let matches := filter (fun p => in_list spec (tl (a_id (aget s (snd p))))) (a_children a) in
      match matches with
      | [p] => RActor (snd p)
      | _ :: _ :: _ => RAmbiguous
      | [] =>
        match find (fun p => String.eqb (snd p) spec && match dget (a_children a) (fst p) with Some _ => true | None => false end)
                   (a_sources a) with
        | Some p => match dget (a_children a) (fst p) with Some i => RActor i | None => RNone end
        | None => if String.eqb spec "parent" || String.eqb spec "#parent"
                  then match a_parent a with Some p => RActor p | None => RNone end
                  else RNone
        end
      end
    end
  end.

(* ---------------- delivery ---------------- *)
Definition cancel_seq (q : nat) (s : sys) : sys :=
  with_pending_sends (filter (fun d => negb (Nat.eqb (d_seq d) q)) (pending s)) (nseq s) s.

Definition deliver_to (eng : aeng) (me t tag delay : nat) (sid : option string) (s : sys) : sys :=
  match delay with
  | 0 => recv eng t tag s
  | _ =>
    let q := nseq s in
    (* reusing a send id supersedes the earlier pending send *)
    let s1 := match sid with
              | Some k => match dget (a_sends (aget s me)) k with Some old => cancel_seq old s | None => s end
              | None => s end in
    let s2 := match sid with
              | Some k => aupd s1 me (fun a => set_sends (dset (a_sends a) k q) a)
              | None => s1 end in
    with_pending_sends (pending s2 ++ [{| d_due := now s + delay; d_seq := q; d_sender := me; d_target := t; d_tag := tag; d_sid := sid |}])
                       (S q) s2
  end.

(* a delayed send falls due *)
Definition fire (eng : aeng) (d : dsend) (s : sys) : sys :=
  let s1 := cancel_seq (d_seq d) s in
  let s2 := match d_sid d with
            | Some k => match dget (a_sends (aget s1 (d_sender d))) k with
                        | Some q => if Nat.eqb q (d_seq d) then aupd s1 (d_sender d) (fun a => set_sends (ddel (a_sends a) k) a) else s1
                        | None => s1 end
            | None => s1 end in
  flush (recv eng (d_target d) (d_tag d) s2).

Fixpoint ins_due (d : dsend) (l : list dsend) : list dsend :=
  match l with
  | [] => [d]
  | e :: r => if Nat.ltb (d_due e) (d_due d) || (Nat.eqb (d_due e) (d_due d) && Nat.ltb (d_seq e) (d_seq d))
              then e :: ins_due d r else d :: l
  end.

Fixpoint advance_to (fuel : nat) (eng : aeng) (t : nat) (s : sys) : sys :=
  match fuel with
  | 0 => with_clock t s
  | S f =>
    match fold_right ins_due [] (filter (fun d => Nat.leb (d_due d) t) (pending s)) with
    | [] => with_clock t s
    | d :: rest =>
        let s' := match rest with e :: _ => if Nat.eqb (d_due e) (d_due d) then note_tie s else s | [] => s end in
        advance_to f eng t (fire eng d (with_clock (d_due d) s'))
    end
  end.

(* ---------------- stop ---------------- *)
(* interpreter.stop(): idempotent; children stopped in dict order and dropped from the map; own pending delayed
   sends cancelled.  Fuel: the depth of the actor tree. *)
Definition unregister (j : nat) (s : sys) : sys :=
  with_registry (filter (fun r => negb (Nat.eqb (snd r) j)) (registry s)) s.

(* what stop() does after the children have been stopped *)
Definition stop_finish (eng : aeng) (i : nat) (s2 : sys) : sys :=
  let s3 := aupd s2 i (fun a => (match eng with ASync => set_sends [] | AAsync => fun x => x end) (set_children [] (a_sources a) a)) in
  let s4 := with_pending_sends (filter (fun d => negb (Nat.eqb (d_sender d) i)) (pending s3)) (nseq s3) s3 in
  (* sync engine, thread-managed child: its runner notices the stop and drops the child's entry from the parent's
     map - if the entry still is this child *)
  match eng, a_threaded (aget s4 i), a_parent (aget s4 i) with
  | ASync, true, Some p =>
      let key := join_colon (a_id (aget s4 i)) in
      match dget (a_children (aget s4 p)) key with
      | Some j => if Nat.eqb j i then aupd s4 p (fun a => set_children (ddel (a_children a) key) (a_sources a) a) else s4
      | None => s4
      end
  | _, _, _ => s4
  end.

Fixpoint stop_actor (fuel : nat) (eng : aeng) (i : nat) (s : sys) : sys :=
  match fuel with
  | 0 => s
  | S f =>
    if negb (a_running (aget s i)) then s else
    let s1 := aupd s i (fun a => set_queue [] (set_running false a)) in
    (* each child is stopped, then dropped from the actor-system registry *)
    stop_finish eng i (fold_left (fun s' p => unregister (snd p) (stop_actor f eng (snd p) s')) (a_children (aget s1 i)) s1)
  end.
Definition stop (eng : aeng) (i : nat) (s : sys) : sys := stop_actor (S (List.length (actors s))) eng i s.

(* ---------------- the runner thread of a thread-managed child (sync engine) ---------------- *)
(* SyncInterpreter._spawn_actor._runner polls every 10 ms `child.status == "running" and self._actors.get(actor_id) is child`.
   A child whose entry in the parent's map is no longer this child - its explicit id was reused by a later spawn, or
   the parent was stopped after that - is stopped by its runner at the next poll: the child's own stop(), so its
   subtree goes down and its delayed sends are cancelled; nobody takes the child itself out of the actor-system
   registry, and the entry of the newer child stays.  Blocking spawns and the async engine have no runner. *)
Definition orphaned (s : sys) (i : nat) : bool :=
  let a := aget s i in
  a_running a && a_threaded a &&
  match a_parent a with
  | Some p => match dget (a_children (aget s p)) (join_colon (a_id a)) with Some j => negb (Nat.eqb j i) | None => true end
  | None => false
  end.

Definition reap_orphans (eng : aeng) (s : sys) : sys :=
  match eng with
  | AAsync => s
  | ASync => fold_left (fun s' i => if orphaned s' i then stop ASync i s' else s') (seq 0 (List.length (actors s))) s
  end.

Definition poll_period : nat := 10.

(* the clock is about to move to t: the runners poll.  Whether a poll falls before or after a delayed send that is due
   within the same poll period (or whether there is a poll at all when the clock moves by less than a period) is the
   scheduler's business: counted as a tie *)
Definition runner_polls (eng : aeng) (t : nat) (s : sys) : sys :=
  match eng with
  | AAsync => s
  | ASync =>
      if existsb (orphaned s) (seq 0 (List.length (actors s))) && Nat.ltb (now s) t
      then let s' := reap_orphans ASync s in
           if Nat.ltb t (now s + poll_period) || existsb (fun d => Nat.leb (d_due d) (now s + poll_period)) (pending s)
           then note_tie s' else s'
      else s
  end.

(* ---------------- the operations an actor can perform ---------------- *)
Inductive aop :=
| OpSpawn (atype : string) (eid : option string) (sysid : option string)   (* a spawn_<key> / spawn_blocking_<key> action, or spawnChild(src) as spawn_<src> *)
| OpSendTo (spec : string) (tag : nat) (delay : nat) (sid : option string)
| OpSendParent (tag : nat) (delay : nat) (sid : option string)
| OpForward (spec : string)
| OpEscalate
| OpCancel (sid : string)
| OpStopChild (spec : string).

Definition nat_str (n : nat) : string := String.string_of_list_ascii (List.repeat "i"%char n).

Definition do_spawn (eng : aeng) (me : nat) (atype : string) (eid sysid : option string) (s : sys) : sys :=
  let key := spawn_service_key atype in
  let n := List.length (actors s) in
  let segs := match eid with
              | Some e => if String.eqb e "" then a_id (aget s me) ++ [key; ("u" ++ nat_str n)%string] else a_id (aget s me) ++ [e]
              | None => a_id (aget s me) ++ [key; ("u" ++ nat_str n)%string] end in
  let full := join_colon segs in
  let threaded := match eng with ASync => negb (startswith atype spawn_blocking_prefix) | AAsync => false end in
  let child := {| a_id := segs; a_parent := Some me; a_running := true; a_inbox := []; a_queue := []; a_children := []; a_sources := [];
                  a_sends := []; a_threaded := threaded |} in
  let reg := match sysid with
             | Some k => if String.eqb k "" then registry s else dset (registry s) k n
             | None => registry s end in
  let s1 := {| actors := actors s ++ [child]; registry := reg; pending := pending s; now := now s; nseq := nseq s;
               drops := drops s; ambig := ambig s; ties := ties s |} in
  aupd s1 me (fun a => set_children (dset (a_children a) full n) (dset (a_sources a) full key) a).

Definition escalate_tag : nat := 999999.

Definition do_op (eng : aeng) (me : nat) (trigger : nat) (o : aop) (s : sys) : sys :=
  match o with
  | OpSpawn atype eid sysid => do_spawn eng me atype eid sysid s
  | OpSendTo spec tag delay sid =>
      match resolve s me spec with
      | RActor t => deliver_to eng me t tag delay sid s
      | RNone => note_drop s
      | RAmbiguous => note_drop (note_ambig s)
      end
  | OpSendParent tag delay sid =>
      match a_parent (aget s me) with
      | Some p => deliver_to eng me p tag delay sid s
      | None => note_drop s
      end
  | OpForward spec =>
      match resolve s me spec with
      | RActor t => if Nat.eqb t me then note_tie s      (* the handler would run again, and again: outside the model *)
                    else deliver_to eng me t trigger 0 None s
      | RNone => note_drop s
      | RAmbiguous => note_drop (note_ambig s)
      end
  | OpEscalate =>
      match a_parent (aget s me) with
      | Some p => deliver_to eng me p escalate_tag 0 None s
      | None => s
      end
  | OpCancel k =>
      match dget (a_sends (aget s me)) k with
      | Some q => cancel_seq q (aupd s me (fun a => set_sends (ddel (a_sends a) k) a))
      | None => s
      end
  | OpStopChild spec =>
      match resolve s me spec with
      | RActor t =>
          (* the first entry of MY children that IS the actor goes; every registry entry that IS the actor goes *)
          let a := aget s me in
          let s1 := match find (fun p => Nat.eqb (snd p) t) (a_children a) with
                    | Some p => aupd s me (fun a' => set_children (ddel (a_children a') (fst p)) (ddel (a_sources a') (fst p)) a')
                    | None => s end in
          let s2 := with_registry (filter (fun p => negb (Nat.eqb (snd p) t)) (registry s1)) s1 in
          stop eng t s2
      | RNone => note_drop s
      | RAmbiguous => note_drop (note_ambig s)
      end
  end.

(* a scenario step: actor `me` (if running) receives trigger event number k whose handler runs `ops`; the clock
   moves; the root is stopped *)
Inductive astep :=
| SDo (me : nat) (k : nat) (ops : list aop)
| SAdvance (t : nat)
| SStop (i : nat).

Definition trigger_tag (k : nat) : nat := 2 * k + 1.
Definition msg_tag (n : nat) : nat := 2 * n.

Definition do_step (eng : aeng) (st : astep) (s : sys) : sys :=
  match st with
  | SDo me k ops =>
      if a_running (aget s me) then flush (fold_left (fun s' o => do_op eng me (trigger_tag k) o s') ops s) else s
  | SAdvance t => let s0 := runner_polls eng t s in advance_to (S (List.length (pending s0))) eng t s0
  | SStop i => stop eng i s
  end.

Definition sys_init (root_id : string) : sys :=
  {| actors := [{| a_id := [root_id]; a_parent := None; a_running := true; a_inbox := []; a_queue := []; a_children := [];
                   a_sources := []; a_sends := []; a_threaded := false |}];
     registry := []; pending := []; now := 0; nseq := 0; drops := 0; ambig := 0; ties := 0 |}.

Definition run_actors (eng : aeng) (steps : list astep) : sys := fold_left (fun s st => do_step eng st s) steps (sys_init "m").
