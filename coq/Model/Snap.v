(* Snap: get_persisted_snapshot / from_snapshot (without child actors: see Actors.v).  Definitions only. *)
From XSM Require Export Model.Macro.

Record snap := {
  sn_status : status;
  sn_ctx : ctx;
  sn_cfg : list nat;                    (* "configuration": every active state, sorted by id *)
  sn_output : option Z;
  sn_hist : list (nat * list nat) }.    (* "history": parent -> remembered ids, in recorded order *)

Definition lt_id (m : machine) (a b : nat) : bool := str_ltb (id_of m a) (id_of m b).

Definition persist (m : machine) (s : st) : snap :=
  {| sn_status := s_status s;
     sn_ctx := s_ctx s;
     sn_cfg := sort_by (lt_id m) (s_cfg s);
     sn_output := s_output s;
     sn_hist := s_hist s |}.

(* from_snapshot: a fresh interpreter; every listed state and all its ancestors become active;
   an id the machine does not have is rejected (StateNotFoundError) *)
Definition restore_cfg (m : machine) (ids : list nat) : config :=
  fold_left (fun C x => fold_left (fun C' a => cadd a C') (anc_self m x) C) ids [].

Definition restore (m : machine) (sn : snap) : option st :=
  if forallb (fun x => Nat.ltb x (size m)) (sn_cfg sn)
  then Some (mk (restore_cfg m (sn_cfg sn))
                (filter (fun e => match snd e with [] => false | _ => true end) (sn_hist sn))
                (sn_ctx sn) [] (sn_status sn) (sn_output sn) [] 0 0 [] 0)
  else None.
