(* Macro: the event queues and the drivers around Exec.process_event:
   sync start / send / send_events with the re-entrancy flag and the
   per-drain bound; async start / send / consumer loop with _raise_depth;
   the transient ("always") settle loop with its bound.  Definitions only. *)
From XSM Require Export Model.Exec.

Definition async_loop_fuel : nat := 400.
Definition transient_event : event := {| e_type := ""; e_kind := EPlain; e_tag := 0 |}.
Definition init_event : event := {| e_type := "___xstate_statemachine_init___"; e_kind := EPlain; e_tag := 0 |}.

(* _process_transient_transitions / _settle_transient_transitions:
   structural on the code's own counter (limit - iterations) *)
Fixpoint settle (n : nat) (eng : engine) (pr : bool) (m : machine) : M :=
  fun s =>
    match n with
    | 0 => (logo (OCut 1) s, None)
    | S n' =>
        match select m (s_cfg s) (s_ctx s) transient_event with
        | None => (s, Some EImplMissing)
        | Some ts =>
            if existsb (fun t => String.eqb (t_event t) "") ts
            then (process_event eng pr m transient_event ;; settle n' eng pr m) s
            else (s, None)
        end
    end.

(* ---------------- sync engine ---------------- *)

(* _process_event_queue (caller has checked and set _is_processing):
   structural on limit - processed *)
Fixpoint drain (n : nat) (eng : engine) (m : machine) : M :=
  fun s =>
    match s_queue s with
    | [] => (s, None)
    | ev :: q =>
        match n with
        | 0 => (logo (OCut 0) (with_queue [] s), None)
        | S n' =>
            (lift (fun s' => logo (OClock (s_now s')) (logo (OBegin (e_type ev) (e_tag ev)) (with_queue q s'))) ;;
             process_event eng true m ev ;;
             settle (m_max_iter m) eng true m ;;
             drain n' eng m) s
        end
    end.

Definition init_tid : nat := 0.
Definition hook_init (pre : list nat) : M := lift (fun s => logo (OTrans init_tid (sort_nat (s_cfg s))) s).

(* SyncInterpreter.start().  Some e = the exception that escapes start(). *)
Definition sync_start_with (eng : engine) (m : machine) : M :=
  fun s =>
    match s_status s with
    | Stopped => (s, Some EInvalidConfig)
    | Uninit =>
        (lift (fun s' => logo OStarted (with_status Running None s')) ;;
         enter eng true m [0] None ;;
         settle (m_max_iter m) eng true m ;;
         drain (m_max_iter m) eng m ;;
         hook_init []) s
    | _ => (s, None)
    end.

Definition sync_start (m : machine) : M := sync_start_with Sync m.

(* SyncInterpreter.send(ev) from outside any processing *)
Definition sync_send_with (eng : engine) (m : machine) (ev : event) : M :=
  fun s =>
    match s_status s with
    | Running => drain (m_max_iter m) eng m (with_queue (s_queue s ++ [ev]) s)
    | _ => (s, None)
    end.
Definition sync_send (m : machine) (ev : event) : M := sync_send_with Sync m ev.
Definition sync_send_events (m : machine) (evs : list event) : M :=
  fun s =>
    match s_status s with
    | Running => drain (m_max_iter m) Sync m (with_queue (s_queue s ++ evs) s)
    | _ => (s, None)
    end.

(* ---------------- pure API (helpers.py) ---------------- *)

(* what a PureSnapshot carries: configuration, context, status, output - no history, no queue *)
Record psnap := { ps_cfg : config; ps_ctx : ctx; ps_status : status; ps_output : option Z }.
Definition capture (s : st) : psnap :=
  {| ps_cfg := s_cfg s; ps_ctx := s_ctx s; ps_status := s_status s; ps_output := s_output s |}.
Definition reported (s : st) : list obs :=
  filter (fun o => match o with OPAct _ | OPBuiltin _ => true | _ => false end) (rev (s_log s)).

(* initial_transition(machine) *)
Definition pure_initial (m : machine) (cx : ctx) : st * option err :=
  sync_start_with Pure m (st_init cx).

(* transition(machine, snapshot, event): a fresh probe, status forced to running, the snapshot's
   configuration and context, EMPTY history *)
Definition pure_transition (m : machine) (p : psnap) (ev : event) : st * option err :=
  sync_send_with Pure m ev
    (mk (ps_cfg p) [] (ps_ctx p) [] Running None [] 0 0 [] 0).

(* a whole sync run: start, then one send per event; errors escaping
   start()/send() are recorded in the log (the caller sees an exception) *)
Definition catch (a : M) : st -> st :=
  fun s => match a s with (s', None) => s' | (s', Some e) => logo (OErr e) s' end.
Definition sync_run (m : machine) (cx : ctx) (evs : list event) : st :=
  fold_left (fun s ev => catch (sync_send m ev) s) evs (catch (sync_start m) (st_init cx)).

(* ---------------- async engine ---------------- *)

Definition async_start (m : machine) : M :=
  fun s =>
    match s_status s with
    | Stopped => (s, Some EInvalidConfig)
    | Uninit =>
        match (lift (fun s' => logo OStarted (with_status Running None s')) ;;
               enter Async false m [0] (Some init_event) ;;
               settle (m_max_iter m) Async false m) s with
        | (s', None) => (s', None)
        | (s', Some e) => (with_pending [] (s_seq s') (with_status Stopped (s_output s') s'), Some e)   (* releases what the partial entry armed *)
        end
    | _ => (s, None)
    end.

Definition async_send (ev : event) (s : st) : st :=
  match s_status s with
  | Stopped | Done | Errored => s
  | _ => with_queue (s_queue s ++ [ev]) s
  end.

(* one iteration of _run_event_loop's body, given the dequeued event *)
Definition async_step (m : machine) (ev : event) (s : st) : st :=
  if Nat.ltb (m_max_iter m) (s_raise_depth s)
  then logo (OCut 2) (with_rd 0 s)
  else
    let s1 := logo (OClock (s_now s)) (logo (OBegin (e_type ev) (e_tag ev)) s) in
    let d0 := s_raise_depth s1 in
    match (process_event Async true m ev ;; settle (m_max_iter m) Async true m) s1 with
    | (s2, None) => if Nat.eqb (s_raise_depth s2) d0 then with_rd 0 s2 else s2
    | (s2, Some e) => logo (OErr e) s2
    end.

(* the consumer loop until the queue is drained (quiescence) or the machine
   leaves "running".  The code does not bound this loop; the model uses
   explicit fuel and reports exhaustion (bool = out of fuel). *)
Fixpoint async_loop (fuel : nat) (m : machine) (s : st) : st * bool :=
  match fuel with
  | 0 => (s, true)
  | S f =>
      match s_status s with
      | Running => match s_queue s with
                   | ev :: q => async_loop f m (async_step m ev (with_queue q s))
                   | [] => (s, false)
                   end
      | _ => (s, false)
      end
  end.

Definition async_run (fuel : nat) (m : machine) (cx : ctx) (evs : list event) : st * bool :=
  fold_left (fun (sb : st * bool) (ev : event) =>
               if snd sb then sb else async_loop fuel m (async_send ev (fst sb)))
            evs
            (let s0 := catch (async_start m) (st_init cx) in async_loop fuel m s0).

(* ---------------- virtual time ---------------- *)

(* the interpreter is idle and the clock moves to t: each timer / service falling due is delivered at its own
   instant and processed to quiescence before the next one.  Explicit fuel (timers may re-arm); bool = out of fuel *)
Definition next_due (t : nat) (s : st) : option (pend * bool) :=
  match sort_pend (filter (fun p => Nat.leb (p_due p) t) (s_pending s)) with
  | [] => None
  | p :: [] => Some (p, false)
  | p :: q :: _ => Some (p, Nat.eqb (p_due p) (p_due q) && negb (is_start q))     (* bool: tie on the clock *)
  end.
Definition drop_pend (p : pend) (s : st) : st :=
  with_pending (filter (fun q => negb (Nat.eqb (p_seq q) (p_seq p))) (s_pending s)) (s_seq s) s.

(* The async consumer, when idle, is suspended in `queue.get()`: the status test of its `while` loop was made
   BEFORE it started waiting, so the next event to arrive is processed even if the status changed meanwhile
   (an unhandled service failure queues error.platform.* and then fails the machine). *)
Definition async_wake (m : machine) (s : st) : st * bool :=
  match s_queue s with
  | ev :: q => async_loop async_loop_fuel m (async_step m ev (with_queue q s))
  | [] => (s, false)
  end.

Fixpoint advance_idle (fuel : nat) (eng : engine) (m : machine) (t : nat) (s : st) : st * bool :=
  match fuel with
  | 0 => (s, true)
  | S f =>
      match next_due t s with
      | None => (with_now (Nat.max t (s_now s)) s, false)
      | Some (p, tie) =>
          if tie && negb (is_start p) then (logo (OCut 9) s, false)      (* inconclusive: see busy_loop *)
          else
          let s1 := with_now (Nat.max (p_due p) (s_now s)) (drop_pend p s) in
          match eng with
          | Async =>
              let was_running := match s_status s1 with Running => true | _ => false end in
              let s2 := deliver Async p s1 in
              match (if was_running then async_wake m s2 else (s2, false)) with
              | (s3, true) => (s3, true)
              | (s3, false) => advance_idle f eng m t s3
              end
          | _ =>
              (* the timer thread finds the interpreter idle and drains the queue itself *)
              let s2 := deliver eng p s1 in
              advance_idle f eng m t (catch (drain (m_max_iter m) eng m) s2)
          end
      end
  end.

(* ---------------- stop() ---------------- *)

(* both engines: a no-op when uninitialized or already stopped; otherwise the status becomes stopped, every armed
   timer / running service is cancelled, the on_interpreter_stop hook runs.  (Queued events stay where they are.) *)
Definition stop_interp (s : st) : st :=
  match s_status s with
  | Uninit | Stopped => s
  | _ => logo OStopped (with_pending [] (s_seq s) (with_status Stopped (s_output s) s))
  end.
