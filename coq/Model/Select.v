(* Select: guard evaluation (BaseInterpreter._is_guard_satisfied,
   _is_state_in) and transition selection (_collect_eligible_transitions,
   _select_transitions, can).  Definitions only.
   `option` results: None = ImplementationMissingError raised. *)
From XSM Require Export Model.Tree.

Definition ctx := list (nat * Z).
Definition ctx_get (c : ctx) (v : nat) : Z :=
  match find (fun p => Nat.eqb (fst p) v) c with Some p => snd p | None => 0%Z end.
Definition ctx_set (c : ctx) (v : nat) (z : Z) : ctx :=
  (v, z) :: filter (fun p => negb (Nat.eqb (fst p) v)) c.

(* _is_state_in: absolute id, '#'-prefixed id, or dotted suffix *)
Definition state_in (m : machine) (C : config) (target : string) : bool :=
  if String.eqb target "" then false
  else let norm := if startswith target "#" then drop_first 1 target else target in
       existsb (fun s => String.eqb (id_of m s) norm || endswith (id_of m s) ("." ++ norm)) C.

Fixpoint geval (m : machine) (C : config) (cx : ctx) (g : guard) : option bool :=
  match g with
  | GCtxGe v z => Some (Z.leb z (ctx_get cx v))
  | GRaises _ => Some false
  | GMissing _ => None
  | GStateIn t => Some (state_in m C t)
  | GAnd l => (fix all (l : list guard) : option bool :=
                 match l with
                 | [] => Some true
                 | x :: r => match geval m C cx x with
                             | None => None | Some false => Some false | Some true => all r end
                 end) l
  | GOr l => (fix any (l : list guard) : option bool :=
                match l with
                | [] => Some false
                | x :: r => match geval m C cx x with
                            | None => None | Some true => Some true | Some false => any r end
                end) l
  | GNot g' => match geval m C cx g' with None => None | Some b => Some (negb b) end
  end.

Definition passes (m : machine) (C : config) (cx : ctx) (t : trans) : option bool :=
  match t_guard t with None => Some true | Some g => geval m C cx g end.

Section Collect.
  Variable f : trans -> option bool.     (* the guard oracle for this selection pass *)

  Fixpoint filter_pass (l : list trans) : option (list trans) :=
    match l with
    | [] => Some []
    | t :: r => match f t with
                | None => None
                | Some b => match filter_pass r with
                            | None => None
                            | Some l' => Some (if b then t :: l' else l')
                            end
                end
    end.

  (* one `on[key]` bucket: stop at the first forbidden transition *)
  Fixpoint on_bucket (ts : list trans) : option (list trans * bool) :=
    match ts with
    | [] => Some ([], false)
    | t :: r => if t_forbidden t then Some ([], true)
                else match f t with
                     | None => None
                     | Some b => match on_bucket r with
                                 | None => None
                                 | Some (l, blk) => Some ((if b then t :: l else l), blk)
                                 end
                     end
    end.

  Definition lookup_on (on : list (string * list trans)) (key : string) : list trans :=
    match find (fun p => String.eqb (fst p) key) on with Some p => snd p | None => [] end.

  Fixpoint on_keys (on : list (string * list trans)) (keys : list string) : option (list trans * bool) :=
    match keys with
    | [] => Some ([], false)
    | k :: r => match on_bucket (lookup_on on k) with
                | None => None
                | Some (l, true) => Some (l, true)
                | Some (l, false) => match on_keys on r with
                                     | None => None
                                     | Some (l2, b) => Some (l ++ l2, b)
                                     end
                end
    end.

  Definition is_transient_check (ev : event) : bool :=
    negb (startswith_any (e_type ev) ["done."; "error."; "after."]).

  Definition obind {A B} (x : option A) (k : A -> option B) : option B :=
    match x with None => None | Some a => k a end.

  (* candidates contributed by one state of the upward walk; bool = forbidden hit *)
  Definition cands_state (m : machine) (ev : event) (s : nat) : option (list trans * bool) :=
    let n := nd m s in
    let ty := e_type ev in
    let keys := map fst (n_on n) in
    obind (if String.eqb ty "" then Some ([], false) else on_keys (n_on n) (matching keys ty)) (fun r1 =>
    if snd r1 then Some (fst r1, true) else
    obind (if is_transient_check ev && in_list "" keys then filter_pass (lookup_on (n_on n) "") else Some []) (fun l2 =>
    obind (match n_ondone n with
           | Some t => if String.eqb (t_event t) ty then filter_pass [t] else Some []
           | None => Some [] end) (fun l3 =>
    obind (match e_kind ev with
           | EAfter => filter_pass (filter (fun t => String.eqb (t_event t) ty) (List.concat (map snd (n_after n))))
           | _ => Some [] end) (fun l4 =>
    obind (match e_kind ev with
           | EDone src => filter_pass (filter (fun t => String.eqb (t_event t) ty)
                            (List.concat (map (fun i => if String.eqb src (i_id i) then i_ondone i ++ i_onerror i else [])
                                         (n_invoke n))))
           | _ => Some [] end) (fun l5 =>
    Some (fst r1 ++ l2 ++ l3 ++ l4 ++ l5, false)))))).

  Fixpoint collect_chain (m : machine) (ev : event) (chain : list nat) : option (list trans) :=
    match chain with
    | [] => Some []
    | s :: r => match cands_state m ev s with
                | None => None
                | Some (l, true) => Some l
                | Some (l, false) => match collect_chain m ev r with
                                     | None => None
                                     | Some l' => Some (l ++ l')
                                     end
                end
    end.

  Definition collect (m : machine) (ev : event) (leaf : nat) : option (list trans) :=
    collect_chain m ev (anc_self m leaf).
End Collect.

(* max(eligible, key=source.depth): the FIRST maximal element *)
Fixpoint first_max (key : trans -> nat) (l : list trans) : option trans :=
  match l with
  | [] => None
  | t :: r => match first_max key r with
              | None => Some t
              | Some u => if Nat.ltb (key t) (key u) then Some u else Some t
              end
  end.

Definition leaves (m : machine) (C : config) : list nat :=
  match filter (is_leaf m) C with [] => C | ls => ls end.

Fixpoint sel_loop (m : machine) (f : trans -> option bool) (ev : event) (ls : list nat)
         (seen : list nat) (acc : list trans) : option (list trans) :=
  match ls with
  | [] => Some acc
  | l :: r => match collect f m ev l with
              | None => None
              | Some el => match first_max (fun t => depth m (t_src t)) el with
                           | None => sel_loop m f ev r seen acc
                           | Some w => if mem (t_id w) seen then sel_loop m f ev r seen acc
                                       else sel_loop m f ev r (t_id w :: seen) (acc ++ [w])
                           end
              end
  end.

(* stable sort by decreasing source depth *)
Fixpoint ins_trans (m : machine) (t : trans) (l : list trans) : list trans :=
  match l with
  | [] => [t]
  | y :: r => if Nat.ltb (depth m (t_src t)) (depth m (t_src y)) then y :: ins_trans m t r else t :: l
  end.
Definition sort_trans (m : machine) (l : list trans) : list trans := fold_right (ins_trans m) [] l.

Definition select_with (m : machine) (f : trans -> option bool) (C : config) (ev : event) : option (list trans) :=
  match sel_loop m f ev (sort_by (lt_negdepth_id m) (leaves m C)) [] [] with
  | None => None
  | Some l => Some (sort_trans m l)
  end.

Definition select (m : machine) (C : config) (cx : ctx) (ev : event) : option (list trans) :=
  select_with m (passes m C cx) C ev.

(* can(): selection without execution; an error while selecting reports False *)
Definition can (m : machine) (C : config) (cx : ctx) (ev : event) : bool :=
  match select m C cx ev with Some (_ :: _) => true | _ => false end.
