(* Match: event-descriptor matching (BaseInterpreter._matching_descriptors),
   written by hand once; coq/Gen/GenMatch.v is the same function as the
   translator reads it from the source on every run, and
   Proofs/GenBridge.v proves the two equal. *)
From XSM Require Export Model.PyLib.

Definition internal_prefixes : list string := ["done."; "error."; "after."; "xstate."].
Definition is_internal (ev : string) : bool := startswith_any ev internal_prefixes.

(* key is a partial descriptor "p.*" (but not the bare "*") that matches ev *)
Definition partial_matches (ev key : string) : bool :=
  negb (String.eqb key "*") && endswith key ".*" &&
  (let p := drop_last 2 key in String.eqb ev p || startswith ev (p ++ ".")).

Definition exact_part (keys : list string) (ev : string) : list string :=
  if in_list ev keys then [ev] else [].
Definition partial_part (keys : list string) (ev : string) : list string :=
  sort_len_rev (filter (partial_matches ev) keys).
Definition star_part (keys : list string) : list string :=
  if in_list "*" keys then ["*"] else [].

(* keys = the state's `on` map keys in insertion order *)
Definition matching (keys : list string) (ev : string) : list string :=
  if negb (truthy_list keys) || negb (truthy_str ev) then []
  else if is_internal ev then exact_part keys ev
  else exact_part keys ev ++ partial_part keys ev ++ star_part keys.
