(* TreeLib: the Coq reading of the Python set / list / Optional primitives that the state-tree functions translated
   from source (coq/Gen/GenGeom.v, written by harness/py2coq_tree.py) are expressed in.  Definitions only.
   Sets of StateNode objects are read as duplicate-free lists in insertion order; where the source iterates over a set the
   translated text iterates over that list (the listing order of a Python set is the oracle of property C16). *)
From XSM Require Export Model.Exec.

Definition is_atomic m s : bool := match kind_of m s with KAtomic => true | _ => false end.
Definition is_deep m s : bool := match kind_of m s with KHistory true => true | _ => false end.

Definition is_some {A} (o : option A) : bool := match o with Some _ => true | None => false end.
(* `a is b` / `a == b` on Optional[StateNode] *)
Definition opt_eqb (a b : option nat) : bool :=
  match a, b with Some x, Some y => Nat.eqb x y | None, None => true | _, _ => false end.
(* `a or b` with a : Optional[StateNode], b : StateNode *)
Definition opt_or (a : option nat) (b : nat) : nat := match a with Some x => x | None => b end.
(* `a or b` on lists *)
Definition list_or (a b : list nat) : list nat := match a with [] => b | _ => a end.

(* s.add(x) *)
Definition set_add (x : nat) (l : list nat) : list nat := if mem x l then l else l ++ [x].
(* set(l) *)
Definition set_of (l : list nat) : list nat := fold_left (fun acc x => set_add x acc) l [].
(* a & b *)
Definition inter (a b : list nat) : list nat := filter (fun x => mem x b) a.

(* max(l, key=lambda n: n.depth): the first element of maximal depth; None stands for the ValueError on an empty
   argument (every call in the translated source is guarded by an emptiness test) *)
Definition max_depth (m : machine) (l : list nat) : option nat :=
  fold_left (fun best x => match best with
                           | None => Some x
                           | Some b => if Nat.ltb (depth m b) (depth m x) then Some x else Some b
                           end) l None.

(* ---- selection (coq/Gen/GenGeom.v: _collect_eligible_transitions, _select_transitions) ---- *)
(* isinstance(event, AfterEvent) / isinstance(event, DoneEvent) / event.src == s *)
Definition is_after_event (ev : event) : bool := match e_kind ev with EAfter => true | _ => false end.
Definition is_done_event (ev : event) : bool := match e_kind ev with EDone _ => true | _ => false end.
Definition ev_src_eqb (ev : event) (s : string) : bool := match e_kind ev with EDone src => String.eqb src s | _ => false end.
(* max(x0 :: xs, key=...): the first element with the maximal key *)
Definition py_max_by {A} (key : A -> nat) (x0 : A) (xs : list A) : A :=
  fold_left (fun best x => if Nat.ltb (key best) (key x) then x else best) xs x0.

(* ---- guards (coq/Gen/GenGuard.v: the composite part of _is_guard_satisfied) ---- *)
Definition g_is_composite (g : guard) : bool := match g with GAnd _ | GOr _ | GNot _ => true | _ => false end.
Definition g_type_is_and (g : guard) : bool := match g with GAnd _ => true | _ => false end.
Definition g_type_is_or (g : guard) : bool := match g with GOr _ => true | _ => false end.
Definition g_children (g : guard) : list guard := match g with GAnd l | GOr l => l | GNot x => [x] | _ => [] end.
(* all(f(x) for x in l) / any(...): left to right, stopping at the first False / True; an exception raised by an element
   that is reached (None) leaves the whole expression *)
Fixpoint py_all {A} (f : A -> option bool) (l : list A) : option bool :=
  match l with
  | [] => Some true
  | x :: r => match f x with None => None | Some false => Some false | Some true => py_all f r end
  end.
Fixpoint py_any {A} (f : A -> option bool) (l : list A) : option bool :=
  match l with
  | [] => Some false
  | x :: r => match f x with None => None | Some true => Some true | Some false => py_any f r end
  end.

(* ---- _check_and_fire_on_done: what entering a final state decides ---- *)
Inductive on_done_decision := DFire (a : nat) | DComplete | DNothing.

(* ---- _enter_states: what is entered by default below one state of the list being entered ---- *)
Inductive descent_decision := DescendInto (l : list nat) | DescendNone | DescendError.
