(* TreeLib: the Coq reading of the Python set / list / Optional primitives that the state-tree functions translated
   from source (coq/Gen/GenGeom.v, written by harness/py2coq_tree.py) are expressed in.  Definitions only.
   Sets of StateNode objects are read as duplicate-free lists in insertion order; where the source iterates over a set the
   translated text iterates over that list (the listing order of a Python set is the oracle of property C16). *)
From XSM Require Export Model.Exec.

Definition is_atomic m s : bool := match kind_of m s with KAtomic => true | _ => false end.
Definition is_deep m s : bool := match kind_of m s with KHistory true => true | _ => false end.

Definition is_some {A} (o : option A) : bool := match o with Some _ => true | None => false end.
(* `a is b` / `a == b` on Optional[StateNode] *)
Definition opt_eqb (a b : option nat) : bool :=
  match a, b with Some x, Some y => Nat.eqb x y | None, None => true | _, _ => false end.
(* `a or b` with a : Optional[StateNode], b : StateNode *)
Definition opt_or (a : option nat) (b : nat) : nat := match a with Some x => x | None => b end.
(* `a or b` on lists *)
Definition list_or (a b : list nat) : list nat := match a with [] => b | _ => a end.

(* s.add(x) *)
Definition set_add (x : nat) (l : list nat) : list nat := if mem x l then l else l ++ [x].
(* set(l) *)
Definition set_of (l : list nat) : list nat := fold_left (fun acc x => set_add x acc) l [].
(* a & b *)
Definition inter (a b : list nat) : list nat := filter (fun x => mem x b) a.

(* max(l, key=lambda n: n.depth): the first element of maximal depth; None stands for the ValueError on an empty
   argument (every call in the translated source is guarded by an emptiness test) *)
Definition max_depth (m : machine) (l : list nat) : option nat :=
  fold_left (fun best x => match best with
                           | None => Some x
                           | Some b => if Nat.ltb (depth m b) (depth m x) then Some x else Some b
                           end) l None.

(* ---- selection (coq/Gen/GenGeom.v: _collect_eligible_transitions, _select_transitions) ---- *)
(* isinstance(event, AfterEvent) / isinstance(event, DoneEvent) / event.src == s *)
Definition is_after_event (ev : event) : bool := match e_kind ev with EAfter => true | _ => false end.
Definition is_done_event (ev : event) : bool := match e_kind ev with EDone _ => true | _ => false end.
Definition ev_src_eqb (ev : event) (s : string) : bool := match e_kind ev with EDone src => String.eqb src s | _ => false end.
(* max(x0 :: xs, key=...): the first element with the maximal key *)
Definition py_max_by {A} (key : A -> nat) (x0 : A) (xs : list A) : A :=
  fold_left (fun best x => if Nat.ltb (key best) (key x) then x else best) xs x0.

(* ---- guards (coq/Gen/GenGuard.v: the composite part of _is_guard_satisfied) ---- *)
Definition g_is_composite (g : guard) : bool := match g with GAnd _ | GOr _ | GNot _ => true | _ => false end.
Definition g_type_is_and (g : guard) : bool := match g with GAnd _ => true | _ => false end.
Definition g_type_is_or (g : guard) : bool := match g with GOr _ => true | _ => false end.
Definition g_children (g : guard) : list guard := match g with GAnd l | GOr l => l | GNot x => [x] | _ => [] end.
(* all(f(x) for x in l) / any(...): left to right, stopping at the first False / True; an exception raised by an element
   that is reached (None) leaves the whole expression *)
Fixpoint py_all {A} (f : A -> option bool) (l : list A) : option bool :=
  match l with
  | [] => Some true
  | x :: r => match f x with None => None | Some false => Some false | Some true => py_all f r end
  end.
Fixpoint py_any {A} (f : A -> option bool) (l : list A) : option bool :=
  match l with
  | [] => Some false
  | x :: r => match f x with None => None | Some true => Some true | Some false => py_any f r end
  end.

(* ---- _check_and_fire_on_done: what entering a final state decides ---- *)
Inductive on_done_decision := DFire (a : nat) | DComplete | DNothing.

(* ---- _enter_states: what is entered by default below one state of the list being entered ---- *)
Inductive descent_decision := DescendInto (l : list nat) | DescendNone | DescendError.

(* ---- effect skeletons of _exit_states / _enter_states: the alphabets and their interpreters ---- *)
Inductive xeff := XCancel | XActions | XLeave.
Inductive xstep := XRecord | XLoop (body : list xeff).
Inductive neff := NAdd | NActions | NSchedule | NFinalCheck | NDescend.

Definition run_xeff (eng : engine) (pr : bool) (m : machine) (ev : option event) (x : nat) (e : xeff) : M :=
  match e with
  | XCancel => cancel x
  | XActions => (fun s => exec_actions eng pr (n_exit (nd m x)) (exit_event eng m ev x) s)
  | XLeave => lift (fun s => if mem x (s_cfg s) then logo (OLeave x) (with_cfg (cdel x (s_cfg s)) s) else s)
  end.
Definition run_xstep (eng : engine) (pr : bool) (m : machine) (l : list nat) (ev : option event) (st : xstep) : M :=
  match st with
  | XRecord => lift (record_history m l)
  | XLoop body => for_each (fun x => for_each (run_xeff eng pr m ev x) body) l
  end.
Definition run_exit_skeleton (sk : list xstep) (eng : engine) (pr : bool) (m : machine) (l : list nat) (ev : option event) : M :=
  for_each (run_xstep eng pr m l ev) sk.

(* what is entered by default below x (the decision of Proofs/EntryBridge.v, restated here as a function of the model) *)
Definition descent_of (m : machine) (l : list nat) (x : nat) : descent_decision :=
  match kind_of m x with
  | KCompound =>
      match n_initial (nd m x) with
      | Some i => if mem x (parents_of m l) then DescendNone else DescendInto [i]
      | None => match children m x with [] => DescendNone | _ => DescendError end
      end
  | KParallel =>
      match filter (fun c => negb (is_history m c) && negb (mem c (with_parent m l))) (children m x) with
      | [] => DescendNone
      | regions => DescendInto regions
      end
  | _ => DescendNone
  end.
Definition run_neff (eng : engine) (pr : bool) (m : machine) (rec : list nat -> option event -> M) (l : list nat) (ev : option event)
           (x : nat) (e : neff) : M :=
  match e with
  | NAdd => lift (fun s => logo (OEnter x) (with_cfg (cadd x (s_cfg s)) s))
  | NActions => (fun s => exec_actions eng pr (n_entry (nd m x)) (entry_event eng m ev x) s)
  | NSchedule => sched eng m x
  | NFinalCheck => if is_final m x then lift (fire_on_done eng pr m x) else ret
  | NDescend => match descent_of m l x with
                | DescendInto below => rec below (match eng with Async => Some (entry_event eng m ev x) | _ => ev end)
                | DescendNone => ret
                | DescendError => raise EInvalidConfig
                end
  end.
Definition run_entry_skeleton (sk : list neff) (eng : engine) (pr : bool) (m : machine) (rec : list nat -> option event -> M)
           (l : list nat) (ev : option event) (x : nat) : M :=
  for_each (run_neff eng pr m rec l ev x) sk.

(* ---- how a selected transition is dispatched (_execute_transition / _execute_transition_sync) ---- *)
Inductive dispatch_decision := DTargetless | DNotFound | DInternal | DExternal (tgt : nat).
Definition has_target (t : trans) : bool := match t_target t with TNone => false | _ => true end.
Definition resolved_target (t : trans) : option nat := match t_target t with TState g => Some g | _ => None end.

(* ---- _schedule_state_tasks: what is scheduled when a state is entered ---- *)
Inductive seff := SAfterTimers | SServices.
Definition run_seff (eng : engine) (m : machine) (x : nat) (e : seff) : M :=
  match e with
  | SAfterTimers => lift (fun s => fold_left (fun s' dt => fold_left (fun s'' t => arm x (s_now s'' + fst dt) (PAfter (t_event t)) s'') (snd dt) s')
                                             (n_after (nd m x)) s)
  | SServices => for_each (start_service eng x) (n_invoke (nd m x))
  end.
Definition run_schedule_skeleton (sk : list seff) (eng : engine) (m : machine) (x : nat) : M :=
  lift (logo (OSched x)) ;; for_each (run_seff eng m x) sk.

(* ---- snapshots (coq/Gen/GenGeom.v: get_persisted_snapshot / from_snapshot) ---- *)
(* machine.get_state_by_id(id): ids of the model are indices; an id the machine does not have yields None *)
Definition get_state_by_id (m : machine) (x : nat) : option nat := if Nat.ltb x (size m) then Some x else None.
(* [f(x) for x in l if f(x)] with f returning an Optional *)
Fixpoint filter_some {A B} (f : A -> option B) (l : list A) : list B :=
  match l with [] => [] | x :: r => match f x with Some y => y :: filter_some f r | None => filter_some f r end end.
(* how get_persisted_snapshot reads one field of the interpreter's own state *)
Inductive pfield := PStatus | PContextCopy | PConfigSortedIds | POutput | PHistoryInOrder.
