(* Tree: machine definition as the interpreter sees it after parsing:
   an array of state nodes in document (DFS pre-)order, root = 0.
   Definitions only. *)
From Coq Require Export ZArith.
From XSM Require Export Model.PyLib Model.Match.

Inductive kind := KAtomic | KCompound | KParallel | KFinal | KHistory (deep : bool).

(* the three event classes the engine distinguishes with isinstance *)
Inductive ekind := EPlain | EAfter | EDone (src : string).
Record event := { e_type : string; e_kind : ekind; e_tag : nat }.

(* guards: the Recorder language of DESIGN.md 2.1 *)
Inductive guard :=
| GCtxGe (v : nat) (z : Z)        (* user predicate: ctx[v] >= z *)
| GRaises (k : nat)               (* user predicate that raises *)
| GMissing (k : nat)              (* named but not implemented *)
| GStateIn (target : string)      (* built-in stateIn, params.state = target *)
| GAnd (l : list guard)
| GOr (l : list guard)
| GNot (g : guard).

Inductive act :=
| AMark (k : nat)                 (* user action: records (k, event) *)
| AFail (k : nat)                 (* user action: records, then raises *)
| AMissing (k : nat)              (* named but not implemented *)
| AAssign (v : nat) (z : Z)       (* built-in assign of a static value *)
| ARaise (ty : string) (tag : nat)(* built-in raise, zero delay *)
| ABadBuiltin (k : nat)           (* built-in whose params callable raises *)
| AEmit (k : nat)                 (* built-in emit of event EM<k>: reaches the typed, then the wildcard listener *)
| ASlow (k : nat) (d : nat)
| ADel (k : nat) (v : nat).       (* user action: records, then deletes context key v *)      (* user action: records, then takes d ms (awaits / blocks) while timers keep running *)

Inductive target := TNone | TState (s : nat) | TUnresolvable.

Record trans := {
  t_id : nat;            (* identity (position in the machine's transition table) *)
  t_src : nat;
  t_event : string;
  t_target : target;
  t_guard : option guard;
  t_actions : list act;
  t_reenter : bool;
  t_forbidden : bool }.

Record invoke := {
  i_id : string;
  i_src : nat;                   (* index into the Recorder's service table; 0 = not registered *)
  i_ondone : list trans;
  i_onerror : list trans;
  i_dur : nat;                   (* the Recorder service takes i_dur ms (async engine; the sync engine calls it inline) ... *)
  i_ok : bool;                   (* ... then returns (true) or raises (false) *)
  i_val : Z;                     (* returned value *)
  i_machine : bool }.            (* the service is a child machine (async engine): its task starts without the extra
                                    `sleep(0)` step a callable service takes, so it overtakes callable services whose
                                    tasks were created at the same instant *)

Record node := {
  n_id : string;
  n_parent : option nat;
  n_kind : kind;
  n_children : list nat;         (* dict (document) order *)
  n_initial : option nat;        (* resolved initial child; None = not declared / not inferable *)
  n_depth : nat;
  n_entry : list act;
  n_exit : list act;
  n_on : list (string * list trans);   (* `on` map incl. the "" (always) bucket, dict order *)
  n_ondone : option trans;
  n_after : list (nat * list trans);   (* resolved delay in ms, dict order *)
  n_invoke : list invoke;
  n_hist_default : option nat;   (* history: resolved default target *)
  n_output : option Z }.         (* final: static output *)

Record machine := {
  m_nodes : list node;
  m_max_iter : nat;
  m_output : option Z }.

Definition dummy_node : node :=
  {| n_id := ""; n_parent := None; n_kind := KAtomic; n_children := []; n_initial := None; n_depth := 0;
     n_entry := []; n_exit := []; n_on := []; n_ondone := None; n_after := []; n_invoke := [];
     n_hist_default := None; n_output := None |}.

Definition size (m : machine) : nat := List.length (m_nodes m).
Definition nd (m : machine) (s : nat) : node := nth s (m_nodes m) dummy_node.
Definition kind_of m s := n_kind (nd m s).
Definition parent m s := n_parent (nd m s).
Definition children m s := n_children (nd m s).
Definition depth m s := n_depth (nd m s).
Definition id_of m s := n_id (nd m s).

Definition mem (x : nat) (l : list nat) : bool := existsb (Nat.eqb x) l.

Definition is_history m s : bool := match kind_of m s with KHistory _ => true | _ => false end.
Definition is_final m s : bool := match kind_of m s with KFinal => true | _ => false end.
Definition is_compound m s : bool := match kind_of m s with KCompound => true | _ => false end.
Definition is_parallel m s : bool := match kind_of m s with KParallel => true | _ => false end.
(* `s.is_atomic or s.is_final or not s.states` *)
Definition is_leaf m s : bool :=
  match kind_of m s with KAtomic | KFinal => true | _ => match children m s with [] => true | _ => false end end.

(* proper ancestors, nearest first *)
Fixpoint anc_fuel (f : nat) (m : machine) (s : nat) : list nat :=
  match f with
  | 0 => []
  | S f' => match parent m s with None => [] | Some p => p :: anc_fuel f' m p end
  end.
Definition ancestors m s := anc_fuel (size m) m s.
Definition anc_self m s := s :: ancestors m s.
(* x is a, or below a *)
Definition is_desc m x a : bool := mem a (anc_self m x).
Definition is_proper_desc m x a : bool := mem a (ancestors m x).

(* boolean well-formedness of the node array *)
Definition node_wf (m : machine) (i : nat) (n : node) : bool :=
  match n_parent n with
  | None => Nat.eqb i 0 && Nat.eqb (n_depth n) 0
  | Some p => Nat.ltb p i && mem i (children m p) && Nat.eqb (n_depth n) (S (depth m p))
  end
  && forallb (fun c => Nat.ltb i c && Nat.ltb c (size m) &&
                       match parent m c with Some q => Nat.eqb q i | None => false end) (n_children n)
  && match n_initial n with Some c => mem c (n_children n) | None => true end
  && match n_kind n with
     | KAtomic | KFinal | KHistory _ => match n_children n with [] => true | _ => false end
     | _ => true end.

Fixpoint nodup_nat (l : list nat) : bool :=
  match l with [] => true | x :: r => negb (mem x r) && nodup_nat r end.

Fixpoint wf_from (m : machine) (i : nat) (l : list node) : bool :=
  match l with [] => true | n :: r => node_wf m i n && nodup_nat (n_children n) && wf_from m (S i) r end.
Definition wf (m : machine) : bool :=
  Nat.ltb 0 (size m) && wf_from m 0 (m_nodes m).

(* configurations: duplicate-free lists of state indices, any order *)
Definition config := list nat.
Definition cadd (s : nat) (C : config) : config := if mem s C then C else C ++ [s].
Definition cdel (s : nat) (C : config) : config := filter (fun x => negb (Nat.eqb x s)) C.

Definition count_active_children m (C : config) s : nat :=
  List.length (filter (fun c => mem c C) (children m s)).

(* the legality predicate of property C01 *)
Definition legal_at (m : machine) (C : config) (s : nat) : bool :=
  match parent m s with None => Nat.eqb s 0 | Some p => mem p C end
  && negb (is_history m s)
  && match kind_of m s with
     | KCompound => match children m s with
                    | [] => true
                    | _ => Nat.eqb (count_active_children m C s) 1
                    end
     | KParallel => forallb (fun c => is_history m c || mem c C) (children m s)
     | _ => true
     end.
Definition legal (m : machine) (C : config) : bool :=
  mem 0 C && forallb (fun s => Nat.ltb s (size m) && legal_at m C s) C && nodup_nat C.

(* sorting state lists *)
Fixpoint insert_by (lt : nat -> nat -> bool) (x : nat) (l : list nat) : list nat :=
  match l with [] => [x] | y :: r => if lt y x then y :: insert_by lt x r else x :: l end.
Definition sort_by (lt : nat -> nat -> bool) (l : list nat) : list nat := fold_right (insert_by lt) [] l.

(* Python tuple order (depth, id): ids compared as ASCII strings *)
Definition str_ltb (a b : string) : bool := match String.compare a b with Lt => true | _ => false end.
Definition lt_depth_id m (a b : nat) : bool :=
  Nat.ltb (depth m a) (depth m b) || (Nat.eqb (depth m a) (depth m b) && str_ltb (id_of m a) (id_of m b)).
(* key (-depth, id) *)
Definition lt_negdepth_id m (a b : nat) : bool :=
  Nat.ltb (depth m b) (depth m a) || (Nat.eqb (depth m a) (depth m b) && str_ltb (id_of m a) (id_of m b)).
Definition sort_nat (l : list nat) : list nat := sort_by Nat.ltb l.
