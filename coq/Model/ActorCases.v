(* K-actor: evaluates Model/Actors.v on a scenario and compares with what the implementation was observed to do.
   Definitions only. *)
From XSM Require Export Model.Actors Model.Cases.

Definition flat_actor (a : actor) : list tok :=
  [TS "actor"; TN (if a_running a then 1 else 0); TS "inbox"] ++ map TN (rev (a_inbox a)) ++
  [TS "children"] ++ map (fun p => TN (snd p)) (a_children a) ++
  [TS "sources"] ++ map (fun p => TS (snd p)) (a_sources a) ++
  [TS "sends"; TN (if a_running a then List.length (a_sends a) else 0)]   (* the send registry of a stopped interpreter is dead data *).

Definition flat_sys (s : sys) : list tok :=
  [TS "n"; TN (List.length (actors s))] ++ List.concat (map flat_actor (actors s)) ++
  [TS "registry"] ++ List.concat (map (fun p => [TS (fst p); TN (snd p)]) (registry s)) ++
  [TS "drops"; TN (drops s); TS "ambig"; TN (ambig s)].

Definition actor_case (eng : aeng) (steps : list astep) : list tok := flat_sys (run_actors eng steps).

(* rows: (scenario, what the implementation showed at the end); result: indices of the rows that differ *)
Definition check_actors (eng : aeng) (rows : list (list astep * list tok)) : list nat :=
  bad_idx (fun r => let s := run_actors eng (fst r) in Nat.ltb 0 (ties s) || toks_eqb (flat_sys s) (snd r)) rows.
