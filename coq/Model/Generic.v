(* Generic: labelled trees.  The translation-validation properties (C17, C18, C19) compare two machines built by
   different routes (JSON vs generated code, one spelling vs another, JSON vs Python DSL); harness/tomodel.py extracts
   from each built machine a labelled tree holding everything behaviour depends on (kinds, initial / history
   settings, RESOLVED transition targets, full guard trees with params, actions with params, delays, invoke
   definitions with their handlers, tags, meta, context); equality of the two trees is decided here.  Definitions only. *)
From Coq Require Export List String Bool.
Export ListNotations.
Open Scope string_scope.

Inductive gt := G (label : string) (kids : list gt).

Fixpoint gt_eqb (a b : gt) : bool :=
  match a, b with
  | G la ka, G lb kb =>
      String.eqb la lb &&
      (fix all2 (x y : list gt) : bool :=
         match x, y with
         | [], [] => true
         | p :: x', q :: y' => gt_eqb p q && all2 x' y'
         | _, _ => false
         end) ka kb
  end.

(* indices of the pairs that differ *)
Fixpoint bad_pairs_from (i : nat) (l : list (gt * gt)) : list nat :=
  match l with
  | [] => []
  | (a, b) :: r => if gt_eqb a b then bad_pairs_from (S i) r else i :: bad_pairs_from (S i) r
  end.
Definition bad_pairs := bad_pairs_from 0.

(* where two trees first differ: the path of child indices (for the replay file) *)
Fixpoint gt_diff (fuel : nat) (a b : gt) : option (list nat) :=
  match fuel with
  | 0 => Some []
  | S f =>
    match a, b with
    | G la ka, G lb kb =>
        if negb (String.eqb la lb) then Some []
        else (fix go (i : nat) (x y : list gt) : option (list nat) :=
                match x, y with
                | [], [] => None
                | p :: x', q :: y' => match gt_diff f p q with Some path => Some (i :: path) | None => go (S i) x' y' end
                | _, _ => Some [i]
                end) 0 ka kb
    end
  end.
