(* PyLib: the handful of Python list / str operations that the translated
   leaf functions (coq/Gen) and the hand model use.  Definitions only. *)
From Coq Require Export List Arith Bool String Ascii.
Export ListNotations.
Open Scope string_scope.
Open Scope list_scope.

(* truthiness: `not x` on a str / list / dict (dict = list of its keys) *)
Definition truthy_str (s : string) : bool := negb (String.eqb s "").
Definition truthy_list {A} (l : list A) : bool := match l with [] => false | _ => true end.

(* `x in l` for str elements *)
Definition in_list (x : string) (l : list string) : bool := existsb (String.eqb x) l.

(* s.startswith(p) *)
Definition startswith (s p : string) : bool := String.prefix p s.
(* s.startswith((p1, p2, ...)) *)
Definition startswith_any (s : string) (ps : list string) : bool := existsb (startswith s) ps.

(* s.endswith(suf) *)
Fixpoint endswith (s suf : string) : bool :=
  if String.eqb s suf then true
  else match s with String _ r => endswith r suf | EmptyString => false end.

(* s[:-n]  (n a literal, n > 0) *)
Definition drop_last (n : nat) (s : string) : string := substring 0 (String.length s - n) s.
(* s[n:] *)
Definition drop_first (n : nat) (s : string) : string := substring n (String.length s - n) s.

(* l.sort(key=len, reverse=True): stable, equal lengths keep their order *)
Fixpoint ins_len (x : string) (l : list string) : list string :=
  match l with
  | [] => [x]
  | y :: r => if Nat.ltb (String.length x) (String.length y) then y :: ins_len x r else x :: l
  end.
Definition sort_len_rev (l : list string) : list string := fold_right ins_len [] l.
