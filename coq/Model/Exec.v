(* Exec: executing one selected transition - domain, exit set, entry path,
   entry (both engines), exit (both engines), history record / resolve,
   done-ness, done events and completion, rollback.  Definitions only.

   The sync engine's copies live in sync_interpreter.py, the async ones in
   base_interpreter.py; where they differ the model branches on `engine`. *)
From XSM Require Export Model.Select.

(* Pure = the _Probe subclass of SyncInterpreter behind initial_transition / transition:
   actions are recorded instead of run (assign is applied), tasks are never scheduled *)
Inductive engine := Sync | Async | Pure.
Inductive status := Uninit | Running | Done | Errored | Stopped.
Inductive err := EImplMissing | EStateNotFound | EInvalidConfig | ENotSupported.

Inductive obs :=
| OAct (k : nat) (ety : string) (etag : nat)   (* user action k ran, with the event it received *)
| OActErr (k : nat)                            (* on_action_error notified for action k *)
| OSched (s : nat)                             (* _schedule_state_tasks(s) *)
| OCancel (s : nat)                            (* _cancel_state_tasks(s) *)
| OTrans (tid : nat) (cfg : list nat)          (* on_transition hook; configuration at that point, sorted *)
| ONotify (cfg : list nat)                     (* subscriber callback *)
| OBegin (ety : string) (etag : nat)           (* on_event_received *)
| ODone (out : option Z)                       (* on_done hook (machine completed) *)
| OCut (which : nat)                           (* a bound was hit: 0 drain, 1 settle, 2 raise chain *)
| OErr (e : err)                               (* an error escaped the processing of one event *)
| OCan (b : bool)
| OEnter (s : nat)                             (* state added to the active configuration *)
| OLeave (s : nat)                             (* state removed from the active configuration *)
| OEmit (k : nat) (which : nat)                (* an emit listener was called: 0 typed, 1 wildcard *)
| OPAct (k : nat)                              (* pure API: user action k reported (not run) *)
| OPBuiltin (code : nat)                       (* pure API: built-in reported: 1 assign, 2 raise, 3 emit, 4 other *)
| OFail                                        (* on_error hook: the machine entered the error status *)
| OClock (t : nat)
| OSvc (iid : string)                          (* an invoked service was called *)
| OStarted                                     (* on_interpreter_start hook *)
| OStopped.                                    (* on_interpreter_stop hook *)                            (* the virtual clock, recorded when an event starts processing and after a slow action *)                             (* answer of can(event), probed by the harness before a send *)

(* an armed after-timer or a running invoked service, on the virtual clock (ms) *)
Inductive pkind :=
| PAfter (evtype : string)                                 (* delivers AfterEvent(type) *)
| PSvc (iid : string) (ok : bool) (val : Z) (handled : bool)   (* delivers done.invoke / error.platform; unhandled error fails the machine *)
| PSvcStart (iid : string) (dur : nat) (ok : bool) (val : Z) (handled : bool) (mach : bool).  (* async: the service task has been created but not run yet *)
Record pend := { p_owner : nat; p_due : nat; p_seq : nat; p_kind : pkind }.

Record st := {
  s_cfg : config;
  s_hist : list (nat * list nat);      (* history: parent -> remembered states *)
  s_ctx : ctx;
  s_queue : list event;
  s_status : status;
  s_output : option Z;
  s_log : list obs;                    (* newest FIRST *)
  s_raise_depth : nat;
  s_now : nat;                         (* virtual clock, ms *)
  s_pending : list pend;               (* armed timers / running services *)
  s_seq : nat }.                       (* creation counter (ties on the clock fire in creation order) *)

Definition st_init (cx : ctx) : st :=
  {| s_cfg := []; s_hist := []; s_ctx := cx; s_queue := []; s_status := Uninit; s_output := None;
     s_log := []; s_raise_depth := 0; s_now := 0; s_pending := []; s_seq := 0 |}.

Definition mk (C : config) H c q x o l rd now pd sq : st :=
  {| s_cfg := C; s_hist := H; s_ctx := c; s_queue := q; s_status := x; s_output := o; s_log := l;
     s_raise_depth := rd; s_now := now; s_pending := pd; s_seq := sq |}.
Definition with_cfg C s := mk C (s_hist s) (s_ctx s) (s_queue s) (s_status s) (s_output s) (s_log s) (s_raise_depth s) (s_now s) (s_pending s) (s_seq s).
Definition with_hist H s := mk (s_cfg s) H (s_ctx s) (s_queue s) (s_status s) (s_output s) (s_log s) (s_raise_depth s) (s_now s) (s_pending s) (s_seq s).
Definition with_ctx c s := mk (s_cfg s) (s_hist s) c (s_queue s) (s_status s) (s_output s) (s_log s) (s_raise_depth s) (s_now s) (s_pending s) (s_seq s).
Definition with_queue q s := mk (s_cfg s) (s_hist s) (s_ctx s) q (s_status s) (s_output s) (s_log s) (s_raise_depth s) (s_now s) (s_pending s) (s_seq s).
Definition with_status x o s := mk (s_cfg s) (s_hist s) (s_ctx s) (s_queue s) x o (s_log s) (s_raise_depth s) (s_now s) (s_pending s) (s_seq s).
Definition with_log l s := mk (s_cfg s) (s_hist s) (s_ctx s) (s_queue s) (s_status s) (s_output s) l (s_raise_depth s) (s_now s) (s_pending s) (s_seq s).
Definition with_rd n s := mk (s_cfg s) (s_hist s) (s_ctx s) (s_queue s) (s_status s) (s_output s) (s_log s) n (s_now s) (s_pending s) (s_seq s).
Definition with_now n s := mk (s_cfg s) (s_hist s) (s_ctx s) (s_queue s) (s_status s) (s_output s) (s_log s) (s_raise_depth s) n (s_pending s) (s_seq s).
Definition with_pending pd sq s := mk (s_cfg s) (s_hist s) (s_ctx s) (s_queue s) (s_status s) (s_output s) (s_log s) (s_raise_depth s) (s_now s) pd sq.
Definition logo (o : obs) (s : st) : st := with_log (o :: s_log s) s.

(* computations that mutate the interpreter and may raise *)
Definition M := st -> st * option err.
Definition ret : M := fun s => (s, None).
Definition raise (e : err) : M := fun s => (s, Some e).
Definition bind (a b : M) : M := fun s => match a s with (s', None) => b s' | r => r end.
Definition lift (f : st -> st) : M := fun s => (f s, None).
Notation "a ;; b" := (bind a b) (at level 61, right associativity).
Fixpoint for_each {A} (f : A -> M) (l : list A) : M :=
  match l with [] => ret | x :: r => f x ;; for_each f r end.

(* ---------------- events sent by the engine to itself ---------------- *)

(* does send() accept an event in this status?  sync: only when running;
   async: unless stopped/done/error *)
Definition accepts (eng : engine) (x : status) : bool :=
  match eng, x with
  | (Sync | Pure), Running => true
  | (Sync | Pure), _ => false
  | Async, (Stopped | Done | Errored) => false
  | Async, _ => true
  end.
Definition send_self (eng : engine) (ev : event) (s : st) : st :=
  if accepts eng (s_status s) then with_queue (s_queue s ++ [ev]) s else s.

(* ---------------- armed timers and running services on the virtual clock ---------------- *)

(* _fail: terminal error status, on_error hook, subscribers notified *)
Definition fail_machine (s : st) : st :=
  match s_status s with
  | Running | Uninit => logo (ONotify (sort_nat (s_cfg s))) (logo OFail (with_status Errored (s_output s) s))
  | _ => s
  end.

Definition svc_event (iid : string) (ok : bool) : event :=
  {| e_type := ((if ok then "done.invoke." else "error.platform.") ++ iid)%string; e_kind := EDone iid; e_tag := 0 |}.

Definition arm (x : nat) (due : nat) (k : pkind) (s : st) : st :=
  with_pending (s_pending s ++ [{| p_owner := x; p_due := due; p_seq := s_seq s; p_kind := k |}]) (S (s_seq s)) s.

(* what an expiring timer / starting or finishing service does (the interpreter may be busy or idle; this only queues) *)
Definition deliver (eng : engine) (p : pend) (s : st) : st :=
  match p_kind p with
  | PAfter ty =>
      let ev := {| e_type := ty; e_kind := EAfter; e_tag := 0 |} in
      match eng with
      | Async => send_self eng ev s
      | _ => (* the sync timer thread re-checks that its owner is still active *)
             match s_status s with
             | Running => if mem (p_owner p) (s_cfg s) then send_self eng ev s else s
             | _ => s
             end
      end
  | PSvc iid ok val handled =>
      let s1 := send_self eng (svc_event iid ok) s in
      if ok || handled then s1 else fail_machine s1
  | PSvcStart iid dur ok val handled _ =>
      arm (p_owner p) (p_due p + dur) (PSvc iid ok val handled) (logo (OSvc iid) s)
  end.

(* order of what is pending: by due time, then creation order - except that, among service tasks created at one instant,
   child machines start before callable services (these take one more event-loop step before they call the service) *)
Definition is_mach_start (p : pend) : bool := match p_kind p with PSvcStart _ _ _ _ _ b => b | _ => false end.
Definition is_fun_start (p : pend) : bool := match p_kind p with PSvcStart _ _ _ _ _ b => negb b | _ => false end.
Definition pend_before (q p : pend) : bool :=
  Nat.ltb (p_due q) (p_due p)
  || (Nat.eqb (p_due q) (p_due p) &&
      (if is_mach_start q && is_fun_start p then true
       else if is_fun_start q && is_mach_start p then false
       else Nat.ltb (p_seq q) (p_seq p))).
Fixpoint ins_pend (p : pend) (l : list pend) : list pend :=
  match l with
  | [] => [p]
  | q :: r => if pend_before q p then q :: ins_pend p r else p :: l
  end.
Definition sort_pend (l : list pend) : list pend := fold_right ins_pend [] l.

Definition is_start (p : pend) : bool := match p_kind p with PSvcStart _ _ _ _ _ _ => true | _ => false end.

(* the interpreter is busy until `target` (a slow action): everything that falls due meanwhile is delivered
   (queued) in due order, nothing is processed.  Fuel: a delivery creates at most one new item. *)
Fixpoint busy_loop (fuel : nat) (eng : engine) (target : nat) (s : st) : st :=
  match fuel with
  | 0 => s
  | S f =>
      match sort_pend (filter (fun p => Nat.leb (p_due p) target) (s_pending s)) with
      | [] => s
      | p :: rest =>
          (* two timers / completions at the same instant: the real order is the event loop's / OS scheduler's
             business; the model marks the run inconclusive (OCut 9) instead of guessing *)
          let tie := match rest with q :: _ => Nat.eqb (p_due p) (p_due q) && negb (is_start p) && negb (is_start q) | [] => false end in
          let s1 := with_pending (filter (fun q => negb (Nat.eqb (p_seq q) (p_seq p))) (s_pending s)) (s_seq s) s in
          busy_loop f eng target ((if tie then logo (OCut 9) else (fun x => x)) (deliver eng p s1))
      end
  end.
Definition advance_busy (eng : engine) (d : nat) (s : st) : st :=
  let target := s_now s + d in
  with_now target (busy_loop (2 * List.length (s_pending s) + 2) eng target s).

(* ---------------- actions ---------------- *)

Fixpoint pure_actions (acts : list act) (s : st) : st :=
  match acts with
  | [] => s
  | a :: r =>
    pure_actions r
      match a with
      | AMark k | AFail k | AMissing k | ASlow k _ | ADel k _ => logo (OPAct k) s
      | AAssign v z => logo (OPBuiltin 1) (with_ctx (ctx_set (s_ctx s) v z) s)
      | ARaise _ _ => logo (OPBuiltin 2) s
      | AEmit _ => logo (OPBuiltin 3) s
      | ABadBuiltin _ => logo (OPBuiltin 4) s
      end
  end.

Fixpoint run_actions (eng : engine) (processing : bool) (acts : list act) (ev : event) (s : st) : st * option err :=
  match acts with
  | [] => (s, None)
  | a :: r =>
    match a with
    | AMark k => run_actions eng processing r ev (logo (OAct k (e_type ev) (e_tag ev)) s)
    | AFail k => (logo (OActErr k) (logo (OAct k (e_type ev) (e_tag ev)) s), None)
    | AMissing _ => (s, Some EImplMissing)
    | AAssign v z => run_actions eng processing r ev (with_ctx (ctx_set (s_ctx s) v z) s)
    | ARaise ty tag =>
        let s1 := match eng with
                  | Async => if processing then with_rd (S (s_raise_depth s)) s else s
                  | _ => s end in
        run_actions eng processing r ev (send_self eng {| e_type := ty; e_kind := EPlain; e_tag := tag |} s1)
    | ABadBuiltin k => (logo (OActErr k) s, None)
    | AEmit k => run_actions eng processing r ev (logo (OEmit k 1) (logo (OEmit k 0) s))
    | ADel k v => run_actions eng processing r ev
                    (with_ctx (filter (fun p => negb (Nat.eqb (fst p) v)) (s_ctx s)) (logo (OAct k (e_type ev) (e_tag ev)) s))
    | ASlow k d => run_actions eng processing r ev
                     (let s' := advance_busy eng d (logo (OAct k (e_type ev) (e_tag ev)) s) in logo (OClock (s_now s')) s')
    end
  end.

Definition exec_actions (eng : engine) (processing : bool) (acts : list act) (ev : event) (s : st) : st * option err :=
  match eng with
  | Pure => (pure_actions acts s, None)
  | _ => run_actions eng processing acts ev s
  end.

(* ---------------- geometry ---------------- *)

Definition root_or (o : option nat) : nat := match o with Some p => p | None => 0 end.

Definition find_domain (m : machine) (src tgt : nat) : nat :=
  let par := root_or (parent m src) in
  if Nat.eqb tgt src then par
  else if mem tgt (anc_self m src) then root_or (parent m tgt)
  else match filter (fun a => mem a (anc_self m tgt)) (anc_self m src) with
       | [] => par
       | a :: _ => a        (* anc_self lists nearest first: the first common one is the deepest *)
       end.

(* the child of d on the way to x (None if x is not strictly below d) *)
Definition branch_of (m : machine) (d x : nat) : option nat :=
  find (fun a => match parent m a with Some p => Nat.eqb p d | None => false end) (anc_self m x).

Definition exit_set (m : machine) (C : config) (d tgt : nat) : list nat :=
  let cands := filter (fun s => is_desc m s d && negb (Nat.eqb s d)) C in
  if is_parallel m d then
    match branch_of m d tgt with
    | Some b => filter (fun s => is_desc m s b) cands
    | None => cands
    end
  else cands.

Fixpoint take_until (d : nat) (l : list nat) : list nat :=
  match l with [] => [] | x :: r => if Nat.eqb x d then [] else x :: take_until d r end.
Definition path_to (m : machine) (tgt d : nat) : list nat := rev (take_until d (anc_self m tgt)).

(* ---------------- history ---------------- *)

Definition hist_get (H : list (nat * list nat)) (p : nat) : list nat :=
  match find (fun e => Nat.eqb (fst e) p) H with Some e => snd e | None => [] end.
Definition hist_set (H : list (nat * list nat)) (p : nat) (l : list nat) :=
  (p, l) :: filter (fun e => negb (Nat.eqb (fst e) p)) H.

Definition has_history_child m s : bool := existsb (is_history m) (children m s).

Fixpoint dedup (l : list nat) : list nat :=
  match l with [] => [] | x :: r => if mem x r then dedup r else x :: dedup r end.

Definition record_history (m : machine) (exiting : list nat) (s : st) : st :=
  let cands := dedup (List.concat (map (anc_self m) exiting)) in
  fold_left (fun s' p =>
      if has_history_child m p then
        let rem := sort_by (lt_depth_id m)
                     (filter (fun n => negb (Nat.eqb n p) && is_desc m n p) (s_cfg s)) in
        match rem with [] => s' | _ => with_hist (hist_set (s_hist s') p rem) s' end
      else s') cands s.

Definition resolve_history (m : machine) (H : list (nat * list nat)) (h : nat) : list nat :=
  match parent m h with
  | None => []
  | Some p =>
    match hist_get H p with
    | [] => match n_hist_default (nd m h) with
            | Some t => [t]
            | None => match n_initial (nd m p) with
                      | Some i => [i]
                      | None => if is_parallel m p then [p] else []
                      end
            end
    | rem =>
      match kind_of m h with
      | KHistory true => match filter (is_leaf m) rem with [] => rem | l => l end
      | _ => match filter (fun n => match parent m n with Some q => Nat.eqb q p | None => false end) rem with
             | [] => rem | l => l end
      end
    end
  end.

(* _compute_states_to_exit with a history target: the regions of a parallel domain that are exited are those
   holding the states the history pseudo-state resolves to (the states that will be entered) *)
Definition exit_set_h (m : machine) (C : config) (H : list (nat * list nat)) (d tgt : nat) : list nat :=
  if is_history m tgt then
    let cands := filter (fun s => is_desc m s d && negb (Nat.eqb s d)) C in
    if is_parallel m d then
      let bs := flat_map (fun x => match branch_of m d x with Some b => [b] | None => [] end) (resolve_history m H tgt) in
      filter (fun s => existsb (fun b => is_desc m s b) bs) cands
    else cands
  else exit_set m C d tgt.

(* ---------------- done-ness ---------------- *)

Fixpoint is_done (fuel : nat) (m : machine) (C : config) (s : nat) : bool :=
  match fuel with
  | 0 => false
  | S f =>
    match kind_of m s with
    | KFinal => true
    | KCompound =>
        match find (fun c => match parent m c with Some p => Nat.eqb p s | None => false end) C with
        | Some c => is_done f m C c
        | None => false
        end
    | KParallel =>
        forallb (fun r => if is_history m r then true
                          else if mem r C then is_done f m C r else false) (children m s)
    | _ => false
    end
  end.
Definition state_done m C s := is_done (S (size m)) m C s.

Definition complete (out : option Z) (s : st) : st :=
  match s_status s with
  | Running => logo (ODone out) (with_status Done out s)
  | _ => s
  end.

Definition done_event (m : machine) (a : nat) (tag : nat) : event :=
  {| e_type := ("done.state." ++ id_of m a)%string; e_kind := EDone (id_of m a); e_tag := tag |}.

(* _check_and_fire_on_done: nearest done ancestor declaring onDone, else
   top-level completion *)
(* _note_chained_event: the async engine counts an engine-raised event while it is processing another *)
Definition note_chained (eng : engine) (pr : bool) (s : st) : st :=
  match eng with Async => if pr then with_rd (S (s_raise_depth s)) s else s | _ => s end.

Definition fire_on_done (eng : engine) (pr : bool) (m : machine) (fin : nat) (s : st) : st :=
  match find (fun a => match n_ondone (nd m a) with Some _ => state_done m (s_cfg s) a | None => false end)
             (ancestors m fin) with
  | Some a => send_self eng (done_event m a 0) (note_chained eng pr s)
  | None =>
      match parent m fin with
      | Some (S _) => s
      | _ => complete (match m_output m with Some o => Some o | None => n_output (nd m fin) end) s
      end
  end.

(* ---------------- scheduling tasks (after timers, invoked services) ---------------- *)

(* at this level only the call and the "service not registered" failure are
   modelled; Timers.v refines what an armed task does later *)
(* _schedule_state_tasks: one timer per after-transition, then each invoked service (a service that is not
   registered is fatal; the async engine starts a task, the sync engine calls the service inline) *)
Definition start_service (eng : engine) (x : nat) (i : invoke) : M :=
  if Nat.eqb (i_src i) 0 then raise EImplMissing
  else match eng with
       | Async => lift (fun s => arm x (s_now s)
                                   (PSvcStart (i_id i) (i_dur i) (i_ok i) (i_val i) (match i_onerror i with [] => false | _ => true end) (i_machine i)) s)
       | _ => lift (logo (OSvc (i_id i))) ;;
              lift (fun s => deliver eng {| p_owner := x; p_due := s_now s; p_seq := 0;
                                             p_kind := PSvc (i_id i) (i_ok i) (i_val i)
                                                            (match i_onerror i with [] => false | _ => true end) |} s)
       end.
Definition sched_run (eng : engine) (m : machine) (x : nat) : M :=
  lift (logo (OSched x)) ;;
  lift (fun s => fold_left (fun s' dt => fold_left (fun s'' t => arm x (s_now s'' + fst dt) (PAfter (t_event t)) s'') (snd dt) s')
                           (n_after (nd m x)) s) ;;
  for_each (start_service eng x) (n_invoke (nd m x)).
Definition cancel (x : nat) : M :=
  lift (fun s => with_pending (filter (fun p => negb (Nat.eqb (p_owner p) x)) (s_pending s)) (s_seq s) (logo (OCancel x) s)).
(* where _schedule_state_tasks sits relative to the descent: before it (async), after it (sync); never (pure) *)
Definition sched (eng : engine) (m : machine) (x : nat) : M :=
  match eng with Pure => ret | _ => sched_run eng m x end.
Definition sched_before (eng : engine) (m : machine) (x : nat) : M :=
  match eng with Async => sched_run eng m x | _ => ret end.
Definition sched_after (eng : engine) (m : machine) (x : nat) : M :=
  match eng with Sync => sched_run eng m x | _ => ret end.

(* ---------------- entry ---------------- *)

Definition entry_event (eng : engine) (m : machine) (ev : option event) (x : nat) : event :=
  match ev with
  | Some e => e
  | None => match eng with
            | Sync | Pure => {| e_type := ("entry." ++ id_of m x)%string; e_kind := EPlain; e_tag := 0 |}
            | Async => {| e_type := "___xstate_statemachine_init___"; e_kind := EPlain; e_tag := 0 |}
            end
  end.

Definition parents_of (m : machine) (l : list nat) : list nat :=
  List.concat (map (fun x => match parent m x with Some p => [p] | None => [] end) l).
Definition with_parent (m : machine) (l : list nat) : list nat :=
  filter (fun x => match parent m x with Some _ => true | None => false end) l.

(* the loop body of _enter_states for one state; `rec` is the recursive call *)
Definition enter_one (eng : engine) (pr : bool) (m : machine) (rec : list nat -> option event -> M)
           (expl_parents expl_ids : list nat) (ev : option event) (x : nat) : M :=
  lift (fun s => logo (OEnter x) (with_cfg (cadd x (s_cfg s)) s)) ;;
  (fun s => exec_actions eng pr (n_entry (nd m x)) (entry_event eng m ev x) s) ;;
  sched_before eng m x ;;
  (if is_final m x then lift (fire_on_done eng pr m x) else ret) ;;
  match kind_of m x with
  | KCompound =>
      match n_initial (nd m x) with
      | Some i =>
          if mem x expl_parents then sched_after eng m x
          else rec [i] (match eng with Async => Some (entry_event eng m ev x) | _ => ev end) ;;
               sched_after eng m x
      | None =>
          match children m x with
          | [] => sched_after eng m x
          | _ => raise EInvalidConfig
          end
      end
  | KParallel =>
      let regions := filter (fun c => negb (is_history m c) && negb (mem c expl_ids)) (children m x) in
      (match regions with
       | [] => ret
       | _ => rec regions (match eng with Async => Some (entry_event eng m ev x) | _ => ev end)
       end) ;;
      sched_after eng m x
  | _ => sched_after eng m x
  end.

Fixpoint enter_states (fuel : nat) (eng : engine) (pr : bool) (m : machine) (l : list nat) (ev : option event) : M :=
  match fuel with
  | 0 => raise ENotSupported      (* out of fuel: unreachable for wf machines (depth < size) *)
  | S f =>
      for_each (enter_one eng pr m (enter_states f eng pr m) (parents_of m l) (with_parent m l) ev) l
  end.
Definition enter (eng : engine) (pr : bool) (m : machine) (l : list nat) (ev : option event) : M :=
  enter_states (S (size m)) eng pr m l ev.

(* ---------------- exit ---------------- *)

Definition exit_event (eng : engine) (m : machine) (ev : option event) (x : nat) : event :=
  match ev with
  | Some e => e
  | None => match eng with
            | Sync | Pure => {| e_type := ("exit." ++ id_of m x)%string; e_kind := EPlain; e_tag := 0 |}
            | Async => {| e_type := "___xstate_statemachine_exit___"; e_kind := EPlain; e_tag := 0 |}
            end
  end.

Definition exit_states (eng : engine) (pr : bool) (m : machine) (l : list nat) (ev : option event) : M :=
  lift (record_history m l) ;;
  match eng with
  | Sync | Pure =>
      for_each cancel l ;;
      for_each (fun x => (fun s => exec_actions eng pr (n_exit (nd m x)) (exit_event eng m ev x) s) ;;
                         lift (fun s => if mem x (s_cfg s) then logo (OLeave x) (with_cfg (cdel x (s_cfg s)) s) else s)) l
  | Async =>
      for_each (fun x => cancel x ;;
                         (fun s => exec_actions eng pr (n_exit (nd m x)) (exit_event eng m ev x) s) ;;
                         lift (fun s => if mem x (s_cfg s) then logo (OLeave x) (with_cfg (cdel x (s_cfg s)) s) else s)) l
  end.

(* ---------------- one transition ---------------- *)

Definition hook_trans (t : trans) : M := lift (fun s => logo (OTrans (t_id t) (sort_nat (s_cfg s))) s).
Definition hook_notify : M := lift (fun s => logo (ONotify (sort_nat (s_cfg s))) s).

Definition combined_path (m : machine) (d : nat) (hts : list nat) : list nat :=
  fold_left (fun acc h => fold_left (fun acc' x => if mem x acc' then acc' else acc' ++ [x]) (path_to m h d) acc) hts [].

(* A transition that targets the machine root (also: the root re-entering itself) has no parent domain:
   _find_transition_domain returns None, "the whole machine": every active state - the root included - is exited and the
   root is entered again, like any other re-entered state. *)
Definition ext_exit_set (m : machine) (C : config) (H : list (nat * list nat)) (d tgt : nat) : list nat :=
  if Nat.eqb tgt 0 then C else exit_set_h m C H d tgt.
Definition ext_path (m : machine) (tgt d : nat) : list nat :=
  if Nat.eqb tgt 0 then [0] else path_to m tgt d.

Definition exec_external (eng : engine) (pr : bool) (m : machine) (t : trans) (tgt : nat) (ev : event) : M :=
  fun s0 =>
    let snapshot := s_cfg s0 in
    let d := find_domain m (t_src t) tgt in
    let xs := ext_exit_set m snapshot (s_hist s0) d tgt in
    let hist := is_history m tgt in
    let hts := if hist then resolve_history m (s_hist s0) tgt else [] in
    let path := if hist then [] else ext_path m tgt d in
    let body :=
      exit_states eng pr m (rev (sort_by (lt_depth_id m) xs)) (Some ev) ;;
      (fun s => exec_actions eng pr (t_actions t) ev s) ;;
      enter eng pr m path (Some ev) ;;
      (if hist then match combined_path m d hts with [] => ret | cp => enter eng pr m cp (Some ev) end else ret) in
    match body s0 with
    | (s1, None) =>
        match eng with
        | Async => (hook_trans t ;; hook_notify) s1
        | _ => (hook_notify ;; hook_trans t) s1
        end
    | (s1, Some e) =>
        (* rollback: restore the configuration, re-arm what exiting tore down, re-raise *)
        match for_each (sched eng m) (filter (fun x => mem x xs) (sort_nat snapshot)) (with_cfg snapshot s1) with
        | (s2, None) => (s2, Some e)
        | r => r
        end
    end.

Definition exec_transition (eng : engine) (pr : bool) (m : machine) (t : trans) (ev : event) : M :=
  match t_target t with
  | TNone => (fun s => exec_actions eng pr (t_actions t) ev s) ;; hook_trans t
  | TUnresolvable => raise EStateNotFound
  | TState tgt =>
      if Nat.eqb tgt (t_src t) && negb (t_reenter t)
      then (fun s => exec_actions eng pr (t_actions t) ev s) ;; hook_trans t
      else exec_external eng pr m t tgt ev
  end.

(* _process_event: select, then execute each, skipping one whose source was
   exited by an earlier winner of the same step *)
Definition process_event (eng : engine) (pr : bool) (m : machine) (ev : event) : M :=
  fun s =>
    match select m (s_cfg s) (s_ctx s) ev with
    | None => (s, Some EImplMissing)
    | Some ts =>
        for_each (fun t => fun s' =>
                    if Nat.ltb 1 (List.length ts) && negb (mem (t_src t) (s_cfg s'))
                    then (s', None) else exec_transition eng pr m t ev s') ts s
    end.
