(* Spawn: models.is_spawn_action / models.spawn_service_key *)
From XSM Require Export Model.PyLib.

Definition spawn_prefix : string := "spawn_".
Definition spawn_blocking_prefix : string := "spawn_blocking_".

Definition is_spawn_action (a : string) : bool := startswith a spawn_prefix.

Definition spawn_service_key (a : string) : string :=
  if startswith a spawn_blocking_prefix then drop_first 15 a
  else if startswith a spawn_prefix then drop_first 6 a
  else a.
