(* Cases: helpers used by the generated correspondence files (build/cases/*.v).
   The harness embeds the implementation's answers; these functions evaluate
   the model on the same inputs and return the indices that differ. *)
From XSM Require Export Model.PyLib Model.Match.

Fixpoint list_eqb {A} (eqb : A -> A -> bool) (l1 l2 : list A) : bool :=
  match l1, l2 with
  | [], [] => true
  | x :: r1, y :: r2 => eqb x y && list_eqb eqb r1 r2
  | _, _ => false
  end.
Definition strs_eqb := list_eqb String.eqb.
Definition nats_eqb := list_eqb Nat.eqb.

Fixpoint bad_idx_from {A} (i : nat) (ok : A -> bool) (l : list A) : list nat :=
  match l with
  | [] => []
  | x :: r => if ok x then bad_idx_from (S i) ok r else i :: bad_idx_from (S i) ok r
  end.
Definition bad_idx {A} := @bad_idx_from A 0.

Fixpoint bad_idx2_from {A} (i : nat) (bad : A -> list nat) (l : list A) : list (nat * nat) :=
  match l with
  | [] => []
  | x :: r => map (fun j => (i, j)) (bad x) ++ bad_idx2_from (S i) bad r
  end.
Definition bad_idx2 {A} := @bad_idx2_from A 0.

(* K-match: one row = a key list and the implementation's answer per event *)
Definition check_match_row (events : list string) (row : list string * list (list string)) : list nat :=
  bad_idx (fun p => strs_eqb (matching (fst row) (fst p)) (snd p)) (combine events (snd row)).
Definition check_match (events : list string) (rows : list (list string * list (list string))) : list (nat * nat) :=
  bad_idx2 (check_match_row events) rows.

(* ------------------------------------------------------------------ *)
(* canonical token rendering of interpreter state, shared with harness/impl.py *)
From XSM Require Export Model.Macro Model.Snap.

Definition mkT := Build_trans.
Definition mkI := Build_invoke.
Definition mkN := Build_node.
Definition mkM := Build_machine.
Definition mkE := Build_event.

Inductive tok := TN (n : nat) | TS (s : string) | TZ (z : Z).
Definition tok_eqb (a b : tok) : bool :=
  match a, b with
  | TN x, TN y => Nat.eqb x y
  | TS x, TS y => String.eqb x y
  | TZ x, TZ y => Z.eqb x y
  | _, _ => false
  end.
Definition toks_eqb := list_eqb tok_eqb.

Definition err_code (e : err) : nat :=
  match e with EImplMissing => 0 | EStateNotFound => 1 | EInvalidConfig => 2 | ENotSupported => 3 end.
Definition status_code (x : status) : nat :=
  match x with Uninit => 0 | Running => 1 | Done => 2 | Errored => 3 | Stopped => 4 end.
Definition flat_optz (o : option Z) : list tok := match o with None => [TS "none"] | Some z => [TZ z] end.
Definition flat_cfg (l : list nat) : list tok := TS "[" :: map TN l ++ [TS "]"].

Definition flat_obs (o : obs) : list tok :=
  match o with
  | OAct k ty tag => [TS "act"; TN k; TS ty; TN tag]
  | OActErr k => [TS "acterr"; TN k]
  | OSched s => [TS "sched"; TN s]
  | OCancel s => [TS "cancel"; TN s]
  | OTrans tid cfg => TS "trans" :: TN tid :: flat_cfg cfg
  | ONotify cfg => TS "notify" :: flat_cfg cfg
  | OBegin ty tag => [TS "begin"; TS ty; TN tag]
  | ODone out => TS "done" :: flat_optz out
  | OCut w => [TS "cut"; TN w]
  | OErr e => [TS "err"; TN (err_code e)]
  | OCan b => [TS "can"; TN (if b then 1 else 0)]
  | OEnter x => [TS "enter"; TN x]
  | OLeave x => [TS "leave"; TN x]
  | OEmit k w => [TS "emit"; TN k; TN w]
  | OPAct k => [TS "pact"; TN k]
  | OPBuiltin c => [TS "pbuiltin"; TN c]
  | OFail => [TS "fail"]
  | OClock t => [TS "clock"; TN t]
  | OSvc iid => [TS "svc"; TS iid]
  | OStarted => [TS "started"]
  | OStopped => [TS "stopped"]
  end.

Fixpoint ins_hist (e : nat * list nat) (l : list (nat * list nat)) :=
  match l with [] => [e] | y :: r => if Nat.ltb (fst y) (fst e) then y :: ins_hist e r else e :: l end.
Definition sort_hist (l : list (nat * list nat)) := fold_right ins_hist [] l.

Definition flat_st (s : st) : list tok :=
  TS "cfg" :: map TN (sort_nat (s_cfg s))
  ++ TS "hist" :: List.concat (map (fun e => TN (fst e) :: flat_cfg (snd e))
                                   (sort_hist (filter (fun e => match snd e with [] => false | _ => true end) (s_hist s))))
  ++ TS "ctx" :: map (fun v => TZ (ctx_get (s_ctx s) v)) [0; 1; 2; 3]
  ++ TS "queue" :: List.concat (map (fun e => [TS (e_type e); TN (e_tag e)]) (s_queue s))
  ++ [TS "status"; TN (status_code (s_status s))]
  ++ TS "output" :: flat_optz (s_output s)
  ++ TS "armed" :: map TN (sort_nat (map p_owner (s_pending s)))
  ++ TS "log" :: List.concat (map flat_obs (rev (s_log s))).

(* `probe`: the harness calls can(ev) before each send and records the answer *)
Definition probe_can (probe : bool) (m : machine) (ev : event) (s : st) : st :=
  if probe then logo (OCan (can m (s_cfg s) (s_ctx s) ev)) s else s.

(* K-macro-s: snapshots after start() and after each send() *)
(* an operation is (t, events): let the virtual clock reach t (0 = leave it), then send the events
   (one event = send(ev), several = send_events([...]), none = just wait) *)
Definition probe_op (probe : bool) (m : machine) (op : list event) (s : st) : st :=
  match op with [ev] => probe_can probe m ev s | _ => s end.
Definition idle_fuel : nat := 60.
Definition timeout_snap : list (list tok) := [[TS "TIMEOUT"]].

Fixpoint sync_snaps (probe : bool) (m : machine) (s : st) (ops : list (nat * list event)) : list (list tok) :=
  match ops with
  | [] => []
  | (t, op) :: r =>
      match (if Nat.eqb t 0 then (s, false) else advance_idle idle_fuel Sync m t s) with
      | (_, true) => timeout_snap
      | (s1, false) =>
          let s' := match op with [] => s1 | _ => catch (sync_send_events m op) (probe_op probe m op s1) end in
          flat_st s' :: sync_snaps probe m s' r
      end
  end.
Definition sync_case (probe : bool) (m : machine) (cx : ctx) (ops : list (nat * list event)) : list (list tok) :=
  let s0 := catch (sync_start m) (st_init cx) in flat_st s0 :: sync_snaps probe m s0 ops.

(* K-macro-a: snapshots at quiescence after start() and after each operation *)
Definition async_fuel : nat := 400.
Fixpoint async_snaps (probe : bool) (m : machine) (s : st) (ops : list (nat * list event)) : list (list tok) :=
  match ops with
  | [] => []
  | (t, op) :: r =>
      match (if Nat.eqb t 0 then (s, false) else advance_idle idle_fuel Async m t s) with
      | (_, true) => timeout_snap
      | (s1, false) =>
          match async_loop async_fuel m (fold_left (fun s' ev => async_send ev s') op (probe_op probe m op s1)) with
          | (s2, false) =>
              match advance_idle idle_fuel Async m (s_now s2) s2 with
              | (s', false) => flat_st s' :: async_snaps probe m s' r
              | (_, true) => timeout_snap
              end
          | (_, true) => timeout_snap
          end
      end
  end.
Definition async_case (probe : bool) (m : machine) (cx : ctx) (ops : list (nat * list event)) : list (list tok) :=
  match async_loop async_fuel m (catch (async_start m) (st_init cx)) with
  | (s00, false) =>
      match advance_idle idle_fuel Async m 0 s00 with
      | (s0, false) => flat_st s0 :: async_snaps probe m s0 ops
      | (_, true) => timeout_snap
      end
  | (_, true) => timeout_snap
  end.

Definition snaps_eqb := list_eqb toks_eqb.
Fixpoint has_tie (t : list tok) : bool :=
  match t with
  | TS a :: ((TN 9 :: _) as r) => String.eqb a "cut" || has_tie r
  | _ :: r => has_tie r
  | [] => false
  end.
Definition is_timeout (t : list tok) : bool := match t with [TS s] => String.eqb s "TIMEOUT" | _ => false end.
(* a macro case: machine, engine, runs = (initial ctx, events, implementation snapshots).
   Result: (indices of runs that differ, indices of runs on which the MODEL ran out of fuel -
   inconclusive: the harness counts them, they are not disagreements). *)
Fixpoint check_runs (i : nat) (f : ctx -> list (nat * list event) -> list (list tok)) (runs : list (ctx * list (nat * list event) * list (list tok)))
  : list nat * list nat :=
  match runs with
  | [] => ([], [])
  | r :: rest =>
      let mine := f (fst (fst r)) (snd (fst r)) in
      let (bad, tmo) := check_runs (S i) f rest in
      if existsb is_timeout mine || existsb has_tie mine then (bad, i :: tmo)
      else if snaps_eqb mine (snd r) then (bad, tmo)
      else (i :: bad, tmo)
  end.
Definition check_macro (eng : engine) (probe : bool) (m : machine) (runs : list (ctx * list (nat * list event) * list (list tok))) :=
  check_runs 0 (match eng with Async => async_case | _ => sync_case end probe m) runs.

(* K-pure: initial_transition, then transition() threaded through the returned snapshots *)
Definition flat_pure (r : st * option err) : list tok :=
  let s := fst r in
  match snd r with
  | Some e => [TS "err"; TN (err_code e)]      (* the call raised: nothing else is observable *)
  | None =>
      TS "cfg" :: map TN (sort_nat (s_cfg s))
      ++ TS "ctx" :: map (fun v => TZ (ctx_get (s_ctx s) v)) [0; 1; 2; 3]
      ++ [TS "status"; TN (status_code (s_status s))]
      ++ TS "output" :: flat_optz (s_output s)
      ++ TS "actions" :: List.concat (map flat_obs (reported s))
  end.
Fixpoint pure_snaps (m : machine) (p : psnap) (evs : list event) : list (list tok) :=
  match evs with
  | [] => []
  | ev :: r => let res := pure_transition m p ev in
               flat_pure res :: match snd res with None => pure_snaps m (capture (fst res)) r | Some _ => [] end
  end.
Definition pure_case (m : machine) (cx : ctx) (evs : list event) : list (list tok) :=
  let res := pure_initial m cx in
  flat_pure res :: match snd res with None => pure_snaps m (capture (fst res)) evs | Some _ => [] end.
Definition check_pure (m : machine) (runs : list (ctx * list event * list (list tok))) : list nat :=
  bad_idx (fun r => snaps_eqb (pure_case m (fst (fst r)) (snd (fst r))) (snd r)) runs.

(* K-snap: run the first k operations, persist, restore into a fresh interpreter, continue on the restored one.
   Result: the token rendering of the snapshot (status ctx cfg output hist) followed by the restored run's snapshots. *)
Definition flat_snap (sn : snap) : list tok :=
  [TS "status"; TN (status_code (sn_status sn))]
  ++ TS "ctx" :: map (fun v => TZ (ctx_get (sn_ctx sn) v)) [0; 1; 2; 3]
  ++ TS "cfg" :: map TN (sn_cfg sn)
  ++ TS "output" :: flat_optz (sn_output sn)
  ++ TS "hist" :: List.concat (map (fun e => TN (fst e) :: flat_cfg (snd e))
                                   (sort_hist (filter (fun e => match snd e with [] => false | _ => true end) (sn_hist sn)))).

Fixpoint run_ops (eng : engine) (m : machine) (s : st) (ops : list (nat * list event)) : st :=
  match ops with
  | [] => s
  | (t, op) :: r =>
      let s1 := if Nat.eqb t 0 then s else fst (advance_idle idle_fuel eng m t s) in
      run_ops eng m
        (match eng with
         | Async => fst (async_loop async_fuel m (fold_left (fun s' ev => async_send ev s') op s1))
         | _ => match op with [] => s1 | _ => catch (sync_send_events m op) s1 end
         end) r
  end.

Definition snap_case (eng : engine) (m : machine) (cx : ctx) (k : nat) (ops : list (nat * list event)) : list (list tok) :=
  let s0 := match eng with
            | Async => fst (async_loop async_fuel m (catch (async_start m) (st_init cx)))
            | _ => catch (sync_start m) (st_init cx)
            end in
  let sk := run_ops eng m s0 (firstn k ops) in
  let sn := persist m sk in
  flat_snap sn ::
  match restore m sn with
  | None => [[TS "restore-error"]]
  | Some r =>
      (* async: start() on a restored interpreter only attaches the consumer loop *)
      flat_st r :: match eng with
                   | Async => async_snaps false m r (skipn k ops)
                   | _ => sync_snaps false m r (skipn k ops)
                   end
  end.
Definition check_snap (eng : engine) (m : machine) (runs : list (ctx * nat * list (nat * list event) * list (list tok))) : list nat :=
  bad_idx (fun r => match r with (cx, k, ops, expected) => snaps_eqb (snap_case eng m cx k ops) expected end) runs.

(* K-life: arbitrary sequences of lifecycle calls; a snapshot after each *)
Inductive lop := LStart | LStop | LOp (t : nat) (evs : list event).
Definition life_step (eng : engine) (m : machine) (o : lop) (s : st) : st * bool :=
  match o with
  | LStart => match eng with
              | Async => match async_loop async_fuel m (catch (async_start m) s) with
                         | (s1, false) => advance_idle idle_fuel Async m (s_now s1) s1
                         | r => r end
              | _ => (catch (sync_start m) s, false)
              end
  | LStop => (stop_interp s, false)
  | LOp t op =>
      match (if Nat.eqb t 0 then (s, false) else advance_idle idle_fuel eng m t s) with
      | (s1, true) => (s1, true)
      | (s1, false) =>
          match eng with
          | Async => match async_loop async_fuel m (fold_left (fun s' ev => async_send ev s') op s1) with
                     | (s2, false) => advance_idle idle_fuel Async m (s_now s2) s2
                     | r => r end
          | _ => (match op with [] => s1 | _ => catch (sync_send_events m op) s1 end, false)
          end
      end
  end.
Fixpoint life_snaps (eng : engine) (m : machine) (s : st) (ops : list lop) : list (list tok) :=
  match ops with
  | [] => []
  | o :: r => match life_step eng m o s with
              | (_, true) => timeout_snap
              | (s', false) => flat_st s' :: life_snaps eng m s' r
              end
  end.
Definition life_case (eng : engine) (m : machine) (cx : ctx) (ops : list lop) : list (list tok) :=
  life_snaps eng m (st_init cx) ops.
Definition check_life (eng : engine) (m : machine) (runs : list (ctx * list lop * list (list tok))) : list nat :=
  bad_idx (fun r => let mine := life_case eng m (fst (fst r)) (snd (fst r)) in
                    existsb is_timeout mine || existsb has_tie mine || snaps_eqb mine (snd r)) runs.
