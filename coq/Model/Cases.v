(* Cases: helpers used by the generated correspondence files (build/cases/*.v).
   The harness embeds the implementation's answers; these functions evaluate
   the model on the same inputs and return the indices that differ. *)
From XSM Require Export Model.PyLib Model.Match.

Fixpoint list_eqb {A} (eqb : A -> A -> bool) (l1 l2 : list A) : bool :=
  match l1, l2 with
  | [], [] => true
  | x :: r1, y :: r2 => eqb x y && list_eqb eqb r1 r2
  | _, _ => false
  end.
Definition strs_eqb := list_eqb String.eqb.
Definition nats_eqb := list_eqb Nat.eqb.

Fixpoint bad_idx_from {A} (i : nat) (ok : A -> bool) (l : list A) : list nat :=
  match l with
  | [] => []
  | x :: r => if ok x then bad_idx_from (S i) ok r else i :: bad_idx_from (S i) ok r
  end.
Definition bad_idx {A} := @bad_idx_from A 0.

Fixpoint bad_idx2_from {A} (i : nat) (bad : A -> list nat) (l : list A) : list (nat * nat) :=
  match l with
  | [] => []
  | x :: r => map (fun j => (i, j)) (bad x) ++ bad_idx2_from (S i) bad r
  end.
Definition bad_idx2 {A} := @bad_idx2_from A 0.

(* K-match: one row = a key list and the implementation's answer per event *)
Definition check_match_row (events : list string) (row : list string * list (list string)) : list nat :=
  bad_idx (fun p => strs_eqb (matching (fst row) (fst p)) (snd p)) (combine events (snd row)).
Definition check_match (events : list string) (rows : list (list string * list (list string))) : list (nat * nat) :=
  bad_idx2 (check_match_row events) rows.
