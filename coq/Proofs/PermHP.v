(* Whole steps do not depend on the listing order of the active set - HISTORY TARGETS INCLUDED (properties C16, C12).
   Proofs/PermP.v proves this for machines without history targets; with the legality theorem for history targets
   (Proofs/HistoryP.v) the bound "the configuration stays inside a legal one while entering" is available for them too. *)
From XSM Require Import Model.Macro Model.Snap Proofs.TreeP Proofs.GuardP Proofs.StepP Proofs.SortP Proofs.OrderP Proofs.HistP Proofs.SnapP
     Proofs.LegalP Proofs.DescentP Proofs.EffectP Proofs.PreserveP Proofs.InvariantP Proofs.SelectP Proofs.FaultP Proofs.PermP
     Proofs.TreeEntryP Proofs.HistoryP Proofs.InvariantHP.
From Coq Require Import Lia Permutation.

Section StepsH.
  Variable m : machine.
  Hypothesis Hwf : wf m = true.
  Hypothesis Htwf : twf m = true.
  Hypothesis Hgood : good_initials m = true.
  Hypothesis Hsafe : safe_targets_h m.
  Hypothesis Hids : ids_distinct m.

  Notation Inv := (InvariantHP.Inv m).

  (* an external transition to a history pseudo-state, from an active source *)
  Theorem exec_external_eqv_hist eng pr t tgt ev s1 s2 :
    eqv m s1 s2 -> Legal m (s_cfg s1) -> HistOK m (s_hist s1) -> In (t_src t) (s_cfg s1) ->
    tgt < size m -> is_history m tgt = true -> hist_static_ok m tgt ->
    eqv m (fst (exec_external eng pr m t tgt ev s1)) (fst (exec_external eng pr m t tgt ev s2))
    /\ snd (exec_external eng pr m t tgt ev s1) = snd (exec_external eng pr m t tgt ev s2).
  Proof.
    intros H HL HH Hsrc Ht Hh Hst.
    destruct H as [Hp [Hn [Hf Hr]]]. assert (H : eqv m s1 s2) by (split; [exact Hp | split; [exact Hn | split; [exact Hf | exact Hr]]]).
    destruct (eqv_fields m s1 s2 H) as [Hhist _].
    assert (Hne : tgt <> 0) by (intros ->; rewrite (good_root m Hgood) in Hh; discriminate).
    unfold exec_external. rewrite Hh, <- Hhist. rewrite !(ext_exit_set_nonroot m _ _ _ tgt Hne).
    set (d := find_domain m (t_src t) tgt).
    assert (Hxs : sort_by (lt_depth_id m) (exit_set_h m (s_cfg s1) (s_hist s1) d tgt) = sort_by (lt_depth_id m) (exit_set_h m (s_cfg s2) (s_hist s1) d tgt))
      by (apply (exit_order_independent_h m Hids (s_cfg s1) (s_cfg s2) Hf Hn Hp)).
    rewrite <- Hxs. set (xs := rev (sort_by (lt_depth_id m) (exit_set_h m (s_cfg s1) (s_hist s1) d tgt))).
    remember (combined_path m d (resolve_history m (s_hist s1) tgt)) as cp eqn:Ecp0.
    assert (Hd : In d (ancestors m tgt)) by (apply (domain_above_target m Hwf); [now apply (L_range m _ HL) | exact Ht | exact Hne]).
    assert (HdC : In d (s_cfg s1)) by now apply (domain_active m Hwf).
    set (U := add_all (entered (S (size m)) m cp) (remove_all xs (s_cfg s1))).
    assert (HUl : Legal m U) by (unfold U, xs; rewrite Ecp0; apply (history_formula_legal m Hwf Hgood (s_cfg s1) (s_hist s1) d tgt HL HH HdC Ht Hh Hst Hd)).
    set (body := exit_states eng pr m xs (Some ev) ;; (fun s => exec_actions eng pr (t_actions t) ev s) ;; enter eng pr m [] (Some ev) ;;
                 match cp with [] => ret | n :: l => enter eng pr m (n :: l) (Some ev) end).
    assert (Hbody : eqv m (fst (body s1)) (fst (body s2)) /\ snd (body s1) = snd (body s2)).
    { unfold body, bind.
      destruct (relp_exit_states m Hids eng pr xs (Some ev) s1 s2 H) as [A B].
      destruct (exit_states eng pr m xs (Some ev) s1) as [t1 e1] eqn:E1. destruct (exit_states eng pr m xs (Some ev) s2) as [u1 e1']. simpl in A, B. subst e1'.
      destruct e1; [split; [exact A | reflexivity]|].
      pose proof (exit_states_effect m eng pr xs (Some ev) s1 t1 E1) as Ec1.
      destruct (eqv_exec_actions m eng pr (t_actions t) ev t1 u1 A) as [A2 B2].
      pose proof (exec_actions_same eng pr (t_actions t) ev t1) as [Ec2 _].
      destruct (exec_actions eng pr (t_actions t) ev t1) as [t2 e2]. destruct (exec_actions eng pr (t_actions t) ev u1) as [u2 e2']. simpl in A2, B2, Ec2. subst e2'.
      destruct e2; [split; [exact A2 | reflexivity]|].
      assert (I2 : incl (s_cfg t2) U).
      { rewrite Ec2, Ec1. intros y Hy. unfold U, add_all. apply fold_cadd_In. now right. }
      assert (HE0 : incl (entered (S (size m)) m []) U) by (rewrite entered_nil; intros y []).
      destruct (enter_states_relu m U (legal_amo m Hwf U HUl) (L_range m U HUl) eng pr (S (size m)) [] (Some ev) HE0 t2 u2 A2 I2) as [A3 [B3 I3]].
      unfold enter.
      destruct (enter_states (S (size m)) eng pr m [] (Some ev) t2) as [t3 e3]. destruct (enter_states (S (size m)) eng pr m [] (Some ev) u2) as [u3 e3']. simpl in A3, B3, I3. subst e3'.
      destruct e3; [split; [exact A3 | reflexivity]|].
      destruct cp as [|c0 cp']; [unfold ret; split; [exact A3 | reflexivity]|].
      assert (HE : incl (entered (S (size m)) m (c0 :: cp')) U) by (intros y Hy; unfold U, add_all; apply fold_cadd_In; now left).
      destruct (enter_states_relu m U (legal_amo m Hwf U HUl) (L_range m U HUl) eng pr (S (size m)) (c0 :: cp') (Some ev) HE t3 u3 A3 I3) as [A4 [B4 _]].
      destruct (enter_states (S (size m)) eng pr m (c0 :: cp') (Some ev) t3) as [t4 e4]. destruct (enter_states (S (size m)) eng pr m (c0 :: cp') (Some ev) u3) as [u4 e4']. simpl in A4, B4. subst e4'.
      destruct e4; split; try exact A4; reflexivity. }
    fold body. destruct Hbody as [A B]. destruct (body s1) as [t1 e1]. destruct (body s2) as [u1 e1']. simpl in A, B. subst e1'.
    destruct e1 as [e|].
    - (* rollback *)
      assert (Hsn : sort_nat (s_cfg s1) = sort_nat (s_cfg s2)) by now apply sort_nat_canonical.
      rewrite <- Hsn.
      assert (Hw : eqv m (with_cfg (s_cfg s1) t1) (with_cfg (s_cfg s2) u1)) by now apply (eqv_with_cfg m).
      destruct (relp_for_each m (sched eng m) (filter (fun x => mem x (rev xs)) (sort_nat (s_cfg s1))) (relp_sched m eng) _ _ Hw) as [A2 B2].
      unfold xs in A2, B2. rewrite rev_involutive in A2, B2.
      assert (Hmem : filter (fun x => mem x (sort_by (lt_depth_id m) (exit_set_h m (s_cfg s1) (s_hist s1) d tgt))) (sort_nat (s_cfg s1)) =
                     filter (fun x => mem x (exit_set_h m (s_cfg s1) (s_hist s1) d tgt)) (sort_nat (s_cfg s1))).
      { apply filter_ext. intros x. apply mem_perm. symmetry. apply sort_by_perm. }
      rewrite Hmem in A2, B2.
      assert (Hmem2 : filter (fun x => mem x (exit_set_h m (s_cfg s1) (s_hist s1) d tgt)) (sort_nat (s_cfg s1)) =
                      filter (fun x => mem x (exit_set_h m (s_cfg s2) (s_hist s1) d tgt)) (sort_nat (s_cfg s1))).
      { apply filter_ext. intros x. apply mem_perm.
        apply (Permutation_trans (sort_by_perm (lt_depth_id m) _)). rewrite Hxs. apply Permutation_sym, sort_by_perm. }
      rewrite <- Hmem2.
      destruct (for_each (sched eng m) _ (with_cfg (s_cfg s1) t1)) as [t2 e2]. destruct (for_each (sched eng m) _ (with_cfg (s_cfg s2) u1)) as [u2 e2']. simpl in A2, B2. subst e2'.
      destruct e2; split; try exact A2; reflexivity.
    - destruct eng.
      + apply (relp_bind m hook_notify hook_notify (hook_trans t) (hook_trans t) (relp_hook_notify m) (relp_hook_trans m t) t1 u1 A).
      + apply (relp_bind m (hook_trans t) (hook_trans t) hook_notify hook_notify (relp_hook_trans m t) (relp_hook_notify m) t1 u1 A).
      + apply (relp_bind m hook_notify hook_notify (hook_trans t) (hook_trans t) (relp_hook_notify m) (relp_hook_trans m t) t1 u1 A).
  Qed.
  (* an external transition to the machine root (the machine restarts) *)
  Theorem exec_external_eqv_root eng pr t ev s1 s2 :
    eqv m s1 s2 ->
    eqv m (fst (exec_external eng pr m t 0 ev s1)) (fst (exec_external eng pr m t 0 ev s2))
    /\ snd (exec_external eng pr m t 0 ev s1) = snd (exec_external eng pr m t 0 ev s2).
  Proof.
    intros H.
    destruct H as [Hp [Hn [Hf Hr]]]. assert (H : eqv m s1 s2) by (split; [exact Hp | split; [exact Hn | split; [exact Hf | exact Hr]]]).
    unfold exec_external. rewrite (good_root m Hgood). rewrite !ext_exit_set_root, ext_path_root.
    assert (Hxs : sort_by (lt_depth_id m) (s_cfg s1) = sort_by (lt_depth_id m) (s_cfg s2))
      by (apply (exit_order_canonical m Hids); assumption).
    rewrite <- Hxs. set (xs := rev (sort_by (lt_depth_id m) (s_cfg s1))).
    set (U := add_all (entered (S (size m)) m [0]) []).
    assert (HUl : Legal m U) by (apply (root_formula_legal m Hwf Hgood)).
    set (body := exit_states eng pr m xs (Some ev) ;; (fun s => exec_actions eng pr (t_actions t) ev s) ;; enter eng pr m [0] (Some ev) ;; ret).
    assert (Hbody : eqv m (fst (body s1)) (fst (body s2)) /\ snd (body s1) = snd (body s2)).
    { unfold body, bind.
      destruct (relp_exit_states m Hids eng pr xs (Some ev) s1 s2 H) as [A B].
      destruct (exit_states eng pr m xs (Some ev) s1) as [t1 e1] eqn:E1. destruct (exit_states eng pr m xs (Some ev) s2) as [u1 e1']. simpl in A, B. subst e1'.
      destruct e1; [split; [exact A | reflexivity]|].
      pose proof (exit_states_effect m eng pr xs (Some ev) s1 t1 E1) as Ec1.
      destruct (eqv_exec_actions m eng pr (t_actions t) ev t1 u1 A) as [A2 B2].
      pose proof (exec_actions_same eng pr (t_actions t) ev t1) as [Ec2 _].
      destruct (exec_actions eng pr (t_actions t) ev t1) as [t2 e2]. destruct (exec_actions eng pr (t_actions t) ev u1) as [u2 e2']. simpl in A2, B2, Ec2. subst e2'.
      destruct e2; [split; [exact A2 | reflexivity]|].
      assert (I2 : incl (s_cfg t2) U).
      { rewrite Ec2, Ec1. rewrite (remove_all_super xs (s_cfg s1)); [intros y []|].
        intros y Hy. unfold xs. rewrite <- in_rev. now apply (sort_by_In (lt_depth_id m)). }
      assert (HE : incl (entered (S (size m)) m [0]) U) by (intros y Hy; unfold U, add_all; apply fold_cadd_In; now left).
      destruct (enter_states_relu m U (legal_amo m Hwf U HUl) (L_range m U HUl) eng pr (S (size m)) [0] (Some ev) HE t2 u2 A2 I2) as [A3 [B3 _]].
      unfold enter.
      destruct (enter_states (S (size m)) eng pr m [0] (Some ev) t2) as [t3 e3]. destruct (enter_states (S (size m)) eng pr m [0] (Some ev) u2) as [u3 e3']. simpl in A3, B3. subst e3'.
      unfold ret. destruct e3; split; try exact A3; reflexivity. }
    fold body. destruct Hbody as [A B]. destruct (body s1) as [t1 e1]. destruct (body s2) as [u1 e1']. simpl in A, B. subst e1'.
    destruct e1 as [e|].
    - assert (Hsn : sort_nat (s_cfg s1) = sort_nat (s_cfg s2)) by now apply sort_nat_canonical.
      rewrite <- Hsn.
      assert (Hw : eqv m (with_cfg (s_cfg s1) t1) (with_cfg (s_cfg s2) u1)) by now apply (eqv_with_cfg m).
      assert (Hmem : filter (fun x => mem x (s_cfg s1)) (sort_nat (s_cfg s1)) = filter (fun x => mem x (s_cfg s2)) (sort_nat (s_cfg s1)))
        by (apply filter_ext; intros x; now apply mem_perm).
      rewrite <- Hmem.
      destruct (relp_for_each m (sched eng m) (filter (fun x => mem x (s_cfg s1)) (sort_nat (s_cfg s1))) (relp_sched m eng) _ _ Hw) as [A2 B2].
      destruct (for_each (sched eng m) _ (with_cfg (s_cfg s1) t1)) as [t2 e2]. destruct (for_each (sched eng m) _ (with_cfg (s_cfg s2) u1)) as [u2 e2']. simpl in A2, B2. subst e2'.
      destruct e2; split; try exact A2; reflexivity.
    - destruct eng.
      + apply (relp_bind m hook_notify hook_notify (hook_trans t) (hook_trans t) (relp_hook_notify m) (relp_hook_trans m t) t1 u1 A).
      + apply (relp_bind m (hook_trans t) (hook_trans t) hook_notify hook_notify (relp_hook_trans m t) (relp_hook_notify m) t1 u1 A).
      + apply (relp_bind m hook_notify hook_notify (hook_trans t) (hook_trans t) (relp_hook_notify m) (relp_hook_trans m t) t1 u1 A).
  Qed.

  Theorem exec_transition_eqv eng pr t ev s1 s2 :
    eqv m s1 s2 -> Inv s1 -> In (t_src t) (s_cfg s1) -> target_okh m t ->
    eqv m (fst (exec_transition eng pr m t ev s1)) (fst (exec_transition eng pr m t ev s2))
    /\ snd (exec_transition eng pr m t ev s1) = snd (exec_transition eng pr m t ev s2).
  Proof.
    intros H [HL HH] Hsrc Hok. unfold exec_transition.
    assert (Hint : RelP m ((fun s => exec_actions eng pr (t_actions t) ev s) ;; hook_trans t) ((fun s => exec_actions eng pr (t_actions t) ev s) ;; hook_trans t))
      by (apply relp_bind; [apply relp_actions | apply relp_hook_trans]).
    unfold target_okh in Hok. destruct (t_target t) as [|tgt|]; [now apply Hint | | split; [exact H | reflexivity]].
    destruct (Nat.eqb tgt (t_src t) && negb (t_reenter t)); [now apply Hint|].
    destruct Hok as [Ht Hst]. destruct (Nat.eq_dec tgt 0) as [->|Hne]; [now apply exec_external_eqv_root|].
    destruct (is_history m tgt) eqn:Hh.
    - now apply exec_external_eqv_hist; [| | | | | | apply Hst].
    - now apply (PermP.exec_external_eqv m Hwf Hgood Hids).
  Qed.

  (* one event *)
  Theorem process_event_eqv eng pr ev s1 s2 :
    eqv m s1 s2 -> Inv s1 ->
    eqv m (fst (process_event eng pr m ev s1)) (fst (process_event eng pr m ev s2))
    /\ snd (process_event eng pr m ev s1) = snd (process_event eng pr m ev s2).
  Proof.
    intros H HL. unfold process_event.
    destruct H as [Hp [Hn [Hf Hr]]]. assert (H : eqv m s1 s2) by (split; [exact Hp | split; [exact Hn | split; [exact Hf | exact Hr]]]).
    destruct (eqv_fields m s1 s2 H) as [_ [Hc _]].
    rewrite <- Hc, <- (select_independent m Hids (s_cfg s1) (s_cfg s2) Hf Hn Hp (s_ctx s1) ev).
    destruct (select m (s_cfg s1) (s_ctx s1) ev) as [ts|] eqn:Hsel; [|split; [exact H | reflexivity]].
    assert (Hall : forall t, In t ts -> target_okh m t) by (intros t Ht; now destruct (InvariantHP.selected_source_active m Hwf Htwf Hsafe s1 ev ts t HL Hsel Ht)).
    assert (Hfirst : forall t, In t ts -> In (t_src t) (s_cfg s1)) by (intros t Ht; now destruct (InvariantHP.selected_source_active m Hwf Htwf Hsafe s1 ev ts t HL Hsel Ht)).
    set (step := fun t s' => if Nat.ltb 1 (List.length ts) && negb (mem (t_src t) (s_cfg s')) then (s', None) else exec_transition eng pr m t ev s').
    assert (Hloop : forall l t1 t2, (forall t, In t l -> In t ts) -> eqv m t1 t2 -> Inv t1 ->
              (Nat.ltb 1 (List.length ts) = true \/ (forall t, In t l -> In (t_src t) (s_cfg t1)) /\ List.length l <= 1) ->
              eqv m (fst (for_each step l t1)) (fst (for_each step l t2)) /\ snd (for_each step l t1) = snd (for_each step l t2)).
    { induction l as [|t r IHl]; intros t1 t2 Hsub Ht HLt Hcase; [split; [exact Ht | reflexivity]|].
      cbn [for_each]. unfold bind.
      assert (Hstep : eqv m (fst (step t t1)) (fst (step t t2)) /\ snd (step t t1) = snd (step t t2) /\ Inv (fst (step t t1))).
      { unfold step. rewrite (eqv_mem m (t_src t) t1 t2 Ht).
        destruct (Nat.ltb 1 (List.length ts)) eqn:El; simpl.
        - destruct (mem (t_src t) (s_cfg t2)) eqn:Em; simpl; [|split; [exact Ht | split; [reflexivity | exact HLt]]].
          assert (Hsrc : In (t_src t) (s_cfg t1)) by (apply mem_In; now rewrite (eqv_mem m (t_src t) t1 t2 Ht)).
          destruct (exec_transition_eqv eng pr t ev t1 t2 Ht HLt Hsrc (Hall t (Hsub t (or_introl eq_refl)))) as [A B].
          split; [exact A|]. split; [exact B|]. now apply (InvariantHP.exec_transition_inv m Hwf Hgood eng pr t ev t1 HLt Hsrc (Hall t (Hsub t (or_introl eq_refl)))).
        - destruct Hcase as [Hc1|[Hc1 _]]; [discriminate|].
          assert (Hsrc : In (t_src t) (s_cfg t1)) by (apply Hc1; now left).
          destruct (exec_transition_eqv eng pr t ev t1 t2 Ht HLt Hsrc (Hall t (Hsub t (or_introl eq_refl)))) as [A B].
          split; [exact A|]. split; [exact B|]. now apply (InvariantHP.exec_transition_inv m Hwf Hgood eng pr t ev t1 HLt Hsrc (Hall t (Hsub t (or_introl eq_refl)))). }
      destruct Hstep as [A [B C]]. destruct (step t t1) as [u1 e1]. destruct (step t t2) as [u2 e2]. simpl in A, B, C. subst e2.
      destruct e1; [split; [exact A | reflexivity]|].
      apply IHl; [intros x Hx; apply Hsub; now right | exact A | exact C|].
      destruct Hcase as [Hc1|[_ Hlen]]; [now left|]. right. simpl in Hlen. destruct r; [|simpl in Hlen; lia]. split; [intros x []|simpl; lia]. }
    apply Hloop; [auto | exact H | exact HL|].
    destruct (Nat.ltb 1 (List.length ts)) eqn:El; [now left|]. right. split; [exact Hfirst | apply Nat.ltb_ge in El; exact El].
  Qed.

  (* settle, drain, send *)
  Lemma settle_eqv eng pr : forall n s1 s2, eqv m s1 s2 -> Inv s1 ->
    eqv m (fst (settle n eng pr m s1)) (fst (settle n eng pr m s2)) /\ snd (settle n eng pr m s1) = snd (settle n eng pr m s2).
  Proof.
    induction n as [|n IH]; intros s1 s2 H HL; simpl; [split; [now apply eqv_logo | reflexivity]|].
    destruct H as [Hp [Hn [Hf Hr]]]. assert (H : eqv m s1 s2) by (split; [exact Hp | split; [exact Hn | split; [exact Hf | exact Hr]]]).
    destruct (eqv_fields m s1 s2 H) as [_ [Hc _]].
    rewrite <- Hc, <- (select_independent m Hids (s_cfg s1) (s_cfg s2) Hf Hn Hp (s_ctx s1) transient_event).
    destruct (select m (s_cfg s1) (s_ctx s1) transient_event); [|split; [exact H | reflexivity]].
    destruct (existsb _ _); [|split; [exact H | reflexivity]]. unfold bind.
    destruct (process_event_eqv eng pr transient_event s1 s2 H HL) as [A B].
    pose proof (InvariantHP.process_event_inv m Hwf Htwf Hgood Hsafe eng pr transient_event s1 HL) as C.
    destruct (process_event eng pr m transient_event s1) as [t1 e1]. destruct (process_event eng pr m transient_event s2) as [t2 e2]. simpl in A, B, C. subst e2.
    destruct e1; [split; [exact A | reflexivity] | now apply IH].
  Qed.

  Lemma drain_eqv eng : forall n s1 s2, eqv m s1 s2 -> Inv s1 ->
    eqv m (fst (drain n eng m s1)) (fst (drain n eng m s2)) /\ snd (drain n eng m s1) = snd (drain n eng m s2).
  Proof.
    induction n as [|n IH]; intros s1 s2 H HL; simpl; destruct (eqv_fields m s1 s2 H) as [_ [_ [Hq [_ [_ [_ [_ [Hnow _]]]]]]]]; rewrite Hq.
    - destruct (s_queue s2); [split; [exact H | reflexivity] | split; [now apply eqv_logo, eqv_with_queue | reflexivity]].
    - destruct (s_queue s2) as [|ev q]; [split; [exact H | reflexivity]|]. unfold bind, lift. cbv iota beta. rewrite Hnow.
      set (t1 := logo (OClock (s_now s2)) (logo (OBegin (e_type ev) (e_tag ev)) (with_queue q s1))).
      set (t2 := logo (OClock (s_now s2)) (logo (OBegin (e_type ev) (e_tag ev)) (with_queue q s2))).
      assert (Ht : eqv m t1 t2) by (unfold t1, t2; now apply eqv_logo, eqv_logo, eqv_with_queue).
      assert (HLt : Inv t1) by exact HL.
      destruct (process_event_eqv eng true ev t1 t2 Ht HLt) as [A B].
      pose proof (InvariantHP.process_event_inv m Hwf Htwf Hgood Hsafe eng true ev t1 HLt) as C.
      destruct (process_event eng true m ev t1) as [u1 e1]. destruct (process_event eng true m ev t2) as [u2 e2]. simpl in A, B, C. subst e2.
      destruct e1; [split; [exact A | reflexivity]|].
      destruct (settle_eqv eng true (m_max_iter m) u1 u2 A C) as [A2 B2].
      pose proof (InvariantHP.settle_inv m Hwf Htwf Hgood Hsafe eng true (m_max_iter m) u1 C) as C2.
      destruct (settle (m_max_iter m) eng true m u1) as [v1 f1]. destruct (settle (m_max_iter m) eng true m u2) as [v2 f2]. simpl in A2, B2, C2. subst f2.
      destruct f1; [split; [exact A2 | reflexivity] | now apply IH].
  Qed.

  Theorem send_eqv eng ev s1 s2 : eqv m s1 s2 -> Inv s1 ->
    eqv m (fst (sync_send_with eng m ev s1)) (fst (sync_send_with eng m ev s2)) /\ snd (sync_send_with eng m ev s1) = snd (sync_send_with eng m ev s2).
  Proof.
    intros H HL. unfold sync_send_with. destruct (eqv_fields m s1 s2 H) as [_ [_ [Hq [Hs _]]]]. rewrite Hs, Hq.
    destruct (s_status s2); try (split; [exact H | reflexivity]). apply drain_eqv; [now apply eqv_with_queue | exact HL].
  Qed.

  (* any sequence of sends, history targets included *)
  Theorem sends_eqv evs : forall s1 s2, eqv m s1 s2 -> Inv s1 ->
    eqv m (fold_left (fun s ev => catch (sync_send m ev) s) evs s1) (fold_left (fun s ev => catch (sync_send m ev) s) evs s2).
  Proof.
    induction evs as [|ev r IH]; intros s1 s2 H HL; simpl; [exact H|].
    destruct (send_eqv Sync ev s1 s2 H HL) as [A B]. pose proof (InvariantHP.send_inv m Hwf Htwf Hgood Hsafe Sync ev s1 HL) as C.
    unfold catch, sync_send.
    destruct (sync_send_with Sync m ev s1) as [t1 e1]. destruct (sync_send_with Sync m ev s2) as [t2 e2]. simpl in A, B, C. subst e2.
    destruct e1; apply IH; try exact C; [now apply eqv_logo | exact A].
  Qed.

  (* a restored interpreter continues like the one the snapshot was taken from, history targets included *)
  Theorem restored_continues_alike s r evs :
    Legal m (s_cfg s) -> HistOK m (s_hist s) -> Forall (fun e => snd e <> []) (s_hist s) -> restore m (persist m s) = Some r ->
    eqv m (fold_left (fun s ev => catch (sync_send m ev) s) evs r) (fold_left (fun s ev => catch (sync_send m ev) s) evs (quiet s)).
  Proof.
    intros HL HH Hh Hr. apply sends_eqv; [now apply (restored_eqv m)|].
    split; [now apply (restore_legal m s r)|].
    pose proof (snapshot_keeps_history m s r Hh Hr) as Hhist. now rewrite Hhist.
  Qed.
End StepsH.
