(* Run-to-completion, FIFO and bounded processing of the sync drain loop (properties C04, C13) *)
From XSM Require Import Model.Macro Proofs.StepP Proofs.FrameP.
From Coq Require Import Lia.

(* ---- processing never takes anything out of the queue: it can only append ---- *)
Definition Rq (s s' : st) : Prop := exists ext, s_queue s' = s_queue s ++ ext.

Lemma Rq_prims : prims Rq.
Proof.
  constructor; unfold Rq; intros; simpl; try (exists []; now rewrite app_nil_r).
  - destruct H as [e1 H1], H0 as [e2 H2]. exists (e1 ++ e2). now rewrite H2, H1, app_assoc.
  - now exists [ev].
  - exists []. rewrite app_nil_r. unfold complete. destruct (s_status s); reflexivity.
  - exists []. rewrite app_nil_r. unfold fail_machine. destruct (s_status s); reflexivity.
Qed.

Lemma Rq_hist H s : Rq s (with_hist H s).
Proof. exists []. now rewrite app_nil_r. Qed.

(* ---- nor does it begin another event: no OBegin record is written inside the processing of an event ---- *)
Definition begins (s : st) : list (string * nat) :=
  List.concat (map (fun o => match o with OBegin ty tag => [(ty, tag)] | _ => [] end) (rev (s_log s))).
Definition Rb (s s' : st) : Prop := begins s' = begins s.

Lemma begins_logo o s : begins (logo o s) = begins s ++ match o with OBegin ty tag => [(ty, tag)] | _ => [] end.
Proof. unfold begins, logo. simpl. rewrite map_app, concat_app. simpl. now rewrite app_nil_r. Qed.

Lemma Rb_prims : prims Rb.
Proof.
  constructor; unfold Rb; intros; try reflexivity.
  - congruence.
  - rewrite begins_logo. destruct o; try discriminate; now rewrite app_nil_r.
  - unfold complete. destruct (s_status s); try reflexivity. rewrite begins_logo. now rewrite app_nil_r.
  - unfold fail_machine. destruct (s_status s); try reflexivity; rewrite !begins_logo; simpl; now rewrite !app_nil_r.
Qed.

Lemma Rb_hist H s : Rb s (with_hist H s).
Proof. reflexivity. Qed.

(* one event: process it, then settle the eventless follow-ups *)
Definition macrostep (eng : engine) (m : machine) (ev : event) : M :=
  process_event eng true m ev ;; settle (m_max_iter m) eng true m.

Lemma macrostep_appends eng m ev s : Rq s (fst (macrostep eng m ev s)).
Proof.
  unfold macrostep. apply (pres_bind Rq (p_trans Rq Rq_prims)); [apply (f_process_event Rq Rq_prims Rq_hist) | apply (f_settle Rq Rq_prims Rq_hist)].
Qed.

Lemma macrostep_no_begin eng m ev s : Rb s (fst (macrostep eng m ev s)).
Proof.
  unfold macrostep. apply (pres_bind Rb (p_trans Rb Rb_prims)); [apply (f_process_event Rb Rb_prims Rb_hist) | apply (f_settle Rb Rb_prims Rb_hist)].
Qed.

Definition ev_id (e : event) : string * nat := (e_type e, e_tag e).

Definition begun (ev : event) (q : list event) (s : st) : st :=
  logo (OClock (s_now s)) (logo (OBegin (e_type ev) (e_tag ev)) (with_queue q s)).

Lemma drain_nil n eng m s : s_queue s = [] -> drain n eng m s = (s, None).
Proof. intros H. destruct n; simpl; rewrite H; reflexivity. Qed.

Lemma drain_zero eng m s ev q : s_queue s = ev :: q -> drain 0 eng m s = (logo (OCut 0) (with_queue [] s), None).
Proof. intros H. simpl. rewrite H. reflexivity. Qed.

Lemma drain_step n eng m s ev q :
  s_queue s = ev :: q ->
  drain (S n) eng m s = bind (macrostep eng m ev) (drain n eng m) (begun ev q s).
Proof.
  intros H. simpl. rewrite H. unfold begun, macrostep, bind, lift. simpl.
  destruct (process_event eng true m ev _) as [sa [ea|]]; [reflexivity|].
  destruct (settle (m_max_iter m) eng true m sa) as [sb [eb|]]; reflexivity.
Qed.

(* The drain loop: the events begun are, in order, a PREFIX of (the queue as it was) ++ (what processing appended),
   each begun exactly once; what is left is either still queued (an error escaped, or nothing left) or - only when
   more than `n` events were pending in this drain - discarded by the bound. *)
Theorem drain_fifo n eng m s :
  exists done_ rest raised,
    s_queue s ++ raised = done_ ++ rest
    /\ begins (fst (drain n eng m s)) = begins s ++ map ev_id done_
    /\ List.length done_ <= n
    /\ (s_queue (fst (drain n eng m s)) = rest \/ (List.length done_ = n /\ rest <> [] /\ s_queue (fst (drain n eng m s)) = [])).
Proof.
  revert s; induction n as [|n IH]; intros s.
  - destruct (s_queue s) as [|ev q] eqn:Eq.
    + rewrite (drain_nil _ _ _ _ Eq). exists [], [], []. simpl. rewrite app_nil_r. repeat split; auto.
    + rewrite (drain_zero _ _ _ _ _ Eq). exists [], (ev :: q), []. simpl. rewrite !app_nil_r. split; [reflexivity|]. split.
      * rewrite begins_logo. simpl. now rewrite app_nil_r.
      * split; [lia|]. right. split; [reflexivity|]. split; [discriminate | reflexivity].
  - destruct (s_queue s) as [|ev q] eqn:Eq.
    + rewrite (drain_nil _ _ _ _ Eq). exists [], [], []. simpl. rewrite app_nil_r. repeat split; auto. lia.
    + rewrite (drain_step _ _ _ _ _ _ Eq). set (s1 := begun ev q s).
      assert (Hq1 : s_queue s1 = q) by reflexivity.
      assert (Hb1 : begins s1 = begins s ++ [ev_id ev]).
      { unfold s1, begun. rewrite !begins_logo. simpl. rewrite app_nil_r. reflexivity. }
      pose proof (macrostep_appends eng m ev s1) as [ext Hext].
      pose proof (macrostep_no_begin eng m ev s1) as Hnb. unfold Rb in Hnb.
      unfold bind. destruct (macrostep eng m ev s1) as [s2 [e|]] eqn:Hm; simpl in Hext, Hnb.
      * (* an error escaped the processing of ev: the rest stays queued *)
        exists [ev], (q ++ ext), ext. simpl. rewrite ?Hq1 in Hext.
        split; [reflexivity|]. split; [now rewrite Hnb, Hb1|]. split; [lia|]. left. exact Hext.
      * destruct (IH s2) as [d [r [raised [H1 [H2 [H3 H4]]]]]].
        exists (ev :: d), r, (ext ++ raised). rewrite ?Hq1 in Hext. rewrite Hext in H1.
        split; [simpl; rewrite app_assoc; now rewrite H1|].
        split; [rewrite H2, Hnb, Hb1; simpl; now rewrite <- app_assoc|].
        split; [simpl; lia|].
        destruct H4 as [H4|[H4 [H5 H6]]]; [now left | right; simpl; auto].
Qed.

(* send(ev) from outside: ev goes to the back of the queue and the drain begins the events in FIFO order *)
Corollary sync_send_fifo m ev s :
  s_status s = Running ->
  exists done_ rest raised,
    (s_queue s ++ [ev]) ++ raised = done_ ++ rest
    /\ begins (fst (sync_send m ev s)) = begins s ++ map ev_id done_
    /\ List.length done_ <= m_max_iter m.
Proof.
  intros E. unfold sync_send, sync_send_with. rewrite E.
  destruct (drain_fifo (m_max_iter m) Sync m (with_queue (s_queue s ++ [ev]) s)) as [d [r [raised [H1 [H2 [H3 _]]]]]].
  exists d, r, raised. repeat split; assumption.
Qed.

(* the async consumer: when the raise chain exceeds the bound the dequeued event is dropped, the depth reset,
   and nothing else changes *)
Lemma async_step_cut m ev s :
  m_max_iter m < s_raise_depth s -> async_step m ev s = logo (OCut 2) (with_rd 0 s).
Proof. intros H. unfold async_step. apply Nat.ltb_lt in H. now rewrite H. Qed.

(* otherwise exactly one event begins, and nothing is begun inside its processing *)
Lemma async_step_one_begin m ev s :
  s_raise_depth s <= m_max_iter m -> begins (async_step m ev s) = begins s ++ [ev_id ev].
Proof.
  intros H. unfold async_step. assert (Hl : Nat.ltb (m_max_iter m) (s_raise_depth s) = false) by (apply Nat.ltb_ge; lia).
  rewrite Hl. set (s1 := logo _ (logo _ s)).
  assert (Hb1 : begins s1 = begins s ++ [ev_id ev]) by (unfold s1; rewrite !begins_logo; simpl; now rewrite app_nil_r).
  pose proof (macrostep_no_begin Async m ev s1) as Hnb. unfold Rb, macrostep in Hnb.
  destruct ((process_event Async true m ev;; settle (m_max_iter m) Async true m) s1) as [s2 [e|]]; simpl in Hnb.
  - rewrite begins_logo. simpl. now rewrite app_nil_r, Hnb.
  - destruct (Nat.eqb _ _); simpl; [|now rewrite Hnb]. change (begins (with_rd 0 s2)) with (begins s2). now rewrite Hnb.
Qed.

(* ---- bounds (C13) ---- *)

(* one drain begins at most `limit` events *)
Corollary drain_bounded n eng m s :
  List.length (begins (fst (drain n eng m s))) <= List.length (begins s) + n.
Proof.
  destruct (drain_fifo n eng m s) as [d [r [raised [_ [H2 [H3 _]]]]]]. rewrite H2, app_length, map_length. lia.
Qed.

(* the settle loop takes at most n eventless steps; when it uses them all it records the cut *)
Fixpoint settle_steps (n : nat) (eng : engine) (pr : bool) (m : machine) (s : st) : nat :=
  match n with
  | 0 => 0
  | S n' =>
      match select m (s_cfg s) (s_ctx s) transient_event with
      | Some ts => if existsb (fun t => String.eqb (t_event t) "") ts
                   then match process_event eng pr m transient_event s with
                        | (s', None) => S (settle_steps n' eng pr m s')
                        | _ => 1
                        end
                   else 0
      | None => 0
      end
  end.

Lemma settle_steps_le n eng pr m s : settle_steps n eng pr m s <= n.
Proof.
  revert s; induction n as [|n IH]; intros s; simpl; [lia|].
  destruct (select _ _ _ _) as [ts|]; [|lia]. destruct (existsb _ ts); [|lia].
  destruct (process_event eng pr m transient_event s) as [s' [e|]]; [lia|]. specialize (IH s'). lia.
Qed.

(* a chain shorter than the bound is NOT cut: as soon as no eventless transition is selected the loop stops and
   changes nothing - whatever is left of the counter *)
Lemma settle_stable n eng pr m s ts :
  select m (s_cfg s) (s_ctx s) transient_event = Some ts ->
  existsb (fun t => String.eqb (t_event t) "") ts = false ->
  settle (S n) eng pr m s = (s, None).
Proof. intros H1 H2. simpl. now rewrite H1, H2. Qed.

(* the cut happens exactly when the counter is used up, and is recorded *)
Lemma settle_cut eng pr m s : settle 0 eng pr m s = (logo (OCut 1) s, None).
Proof. reflexivity. Qed.

Lemma settle_unfold n eng pr m s ts :
  select m (s_cfg s) (s_ctx s) transient_event = Some ts ->
  existsb (fun t => String.eqb (t_event t) "") ts = true ->
  settle (S n) eng pr m s = (process_event eng pr m transient_event ;; settle n eng pr m) s.
Proof. intros H1 H2. simpl. now rewrite H1, H2. Qed.
