(* Engine agreement (property C05): the sync and the async engine - whose entry / exit / done / action code is
   duplicated in the implementation and branches on `engine` in the model - compute the same configuration, history
   and context, and fail on the same inputs, for every transition of every machine whose services are registered. *)
From XSM Require Import Model.Macro Proofs.TreeP Proofs.StepP.
From Coq Require Import Lia.

Definition core (s : st) : config * list (nat * list nat) * ctx := (s_cfg s, s_hist s, s_ctx s).

Lemma core_inv s1 s2 : core s1 = core s2 -> s_cfg s1 = s_cfg s2 /\ s_hist s1 = s_hist s2 /\ s_ctx s1 = s_ctx s2.
Proof. unfold core. intros H. inversion H. auto. Qed.

Definition keeps (f : st -> st) : Prop := forall s, core (f s) = core s.
Definition Neutral (a : M) : Prop := forall s, core (fst (a s)) = core s /\ snd (a s) = None.
Definition Rel (a b : M) : Prop :=
  forall s1 s2, core s1 = core s2 -> core (fst (a s1)) = core (fst (b s2)) /\ snd (a s1) = snd (b s2).

(* ---- what never touches the core ---- *)
Lemma keeps_comp f g : keeps f -> keeps g -> keeps (fun s => g (f s)).
Proof. intros Hf Hg s. now rewrite Hg, Hf. Qed.
Lemma keeps_logo o : keeps (logo o).
Proof. intros s. reflexivity. Qed.
Lemma keeps_send_self eng ev : keeps (send_self eng ev).
Proof. intros s. unfold send_self. destruct (accepts eng (s_status s)); reflexivity. Qed.
Lemma keeps_fail : keeps fail_machine.
Proof. intros s. unfold fail_machine. destruct (s_status s); reflexivity. Qed.
Lemma keeps_arm x d k : keeps (arm x d k).
Proof. intros s. reflexivity. Qed.
Lemma keeps_deliver eng p : keeps (deliver eng p).
Proof.
  intros s. unfold deliver. destruct (p_kind p) as [ty|iid ok val h|iid dur ok val h].
  - destruct eng; try apply keeps_send_self;
      (destruct (s_status s); try reflexivity; destruct (mem (p_owner p) (s_cfg s)); [apply keeps_send_self | reflexivity]).
  - destruct (ok || h); [apply keeps_send_self|]. now rewrite keeps_fail, keeps_send_self.
  - reflexivity.
Qed.
Lemma keeps_busy_loop f eng t : keeps (busy_loop f eng t).
Proof.
  induction f as [|f IH]; intros s; simpl; [reflexivity|].
  destruct (sort_pend _) as [|p rest]; [reflexivity|]. rewrite IH.
  match goal with |- core ((if ?c then _ else _) ?x) = _ => destruct c end; [change (core (logo (OCut 9) ?y)) with (core y)|];
    now rewrite keeps_deliver.
Qed.
Lemma keeps_advance_busy eng d : keeps (advance_busy eng d).
Proof. intros s. unfold advance_busy. change (core (with_now ?n ?y)) with (core y). apply keeps_busy_loop. Qed.
Lemma keeps_note_chained eng pr : keeps (note_chained eng pr).
Proof. intros s. unfold note_chained. destruct eng, pr; reflexivity. Qed.
Lemma keeps_complete o : keeps (complete o).
Proof. intros s. unfold complete. destruct (s_status s); reflexivity. Qed.
Lemma keeps_fire_on_done eng pr m fin : keeps (fire_on_done eng pr m fin).
Proof.
  intros s. unfold fire_on_done. destruct (find _ _).
  - now rewrite keeps_send_self, keeps_note_chained.
  - destruct (parent m fin) as [[|p]|]; try reflexivity; apply keeps_complete.
Qed.

(* ---- combinators ---- *)
Lemma neutral_ret : Neutral ret.
Proof. intros s. split; reflexivity. Qed.
Lemma neutral_lift f : keeps f -> Neutral (lift f).
Proof. intros H s. split; [apply H | reflexivity]. Qed.
Lemma neutral_bind a b : Neutral a -> Neutral b -> Neutral (a ;; b).
Proof.
  intros Ha Hb s. unfold bind. destruct (Ha s) as [H1 H2]. destruct (a s) as [s' e]. simpl in *. subst e.
  destruct (Hb s') as [H3 H4]. split; [congruence | exact H4].
Qed.
Lemma neutral_for_each {A} (f : A -> M) l : (forall x, In x l -> Neutral (f x)) -> Neutral (for_each f l).
Proof.
  induction l as [|x r IH]; intros H; simpl; [apply neutral_ret|].
  apply neutral_bind; [apply H; now left | apply IH; intros y Hy; apply H; now right].
Qed.

Lemma rel_of_neutral a b : Neutral a -> Neutral b -> Rel a b.
Proof. intros Ha Hb s1 s2 E. destruct (Ha s1) as [H1 H2], (Hb s2) as [H3 H4]. split; congruence. Qed.
Lemma rel_ret : Rel ret ret.
Proof. intros s1 s2 E. split; [exact E | reflexivity]. Qed.
Lemma rel_raise e : Rel (raise e) (raise e).
Proof. intros s1 s2 E. split; [exact E | reflexivity]. Qed.
Lemma rel_bind a1 a2 b1 b2 : Rel a1 a2 -> Rel b1 b2 -> Rel (a1 ;; b1) (a2 ;; b2).
Proof.
  intros Ha Hb s1 s2 E. unfold bind. destruct (Ha s1 s2 E) as [H1 H2].
  destruct (a1 s1) as [t1 e1], (a2 s2) as [t2 e2]. simpl in *. subst e2.
  destruct e1; [split; [exact H1 | reflexivity] | now apply Hb].
Qed.
Lemma rel_for_each {A} (f1 f2 : A -> M) l : (forall x, In x l -> Rel (f1 x) (f2 x)) -> Rel (for_each f1 l) (for_each f2 l).
Proof.
  induction l as [|x r IH]; intros H; simpl; [apply rel_ret|].
  apply rel_bind; [apply H; now left | apply IH; intros y Hy; apply H; now right].
Qed.
Lemma rel_neutral_l n a b : Neutral n -> Rel a b -> Rel (n ;; a) b.
Proof.
  intros Hn Hab s1 s2 E. unfold bind. destruct (Hn s1) as [H1 H2]. destruct (n s1) as [t e]. simpl in *. subst e.
  apply Hab. congruence.
Qed.
Lemma rel_neutral_r n a b : Neutral n -> Rel a b -> Rel a (n ;; b).
Proof.
  intros Hn Hab s1 s2 E. unfold bind. destruct (Hn s2) as [H1 H2]. destruct (n s2) as [t e]. simpl in *. subst e.
  apply Hab. congruence.
Qed.
Lemma rel_lift f1 f2 : (forall s1 s2, core s1 = core s2 -> core (f1 s1) = core (f2 s2)) -> Rel (lift f1) (lift f2).
Proof. intros H s1 s2 E. split; [now apply H | reflexivity]. Qed.

(* ---- scheduling is neutral when every invoked service is registered ---- *)
Definition services_ok (m : machine) : Prop := forall x i, In i (n_invoke (nd m x)) -> i_src i <> 0.

Lemma neutral_start_service eng x i : i_src i <> 0 -> Neutral (start_service eng x i).
Proof.
  intros H. unfold start_service. destruct (Nat.eqb_spec (i_src i) 0) as [E|_]; [contradiction|].
  destruct eng.
  - apply neutral_bind; apply neutral_lift; [apply keeps_logo | intros s; apply keeps_deliver].
  - apply neutral_lift. intros s. reflexivity.
  - apply neutral_bind; apply neutral_lift; [apply keeps_logo | intros s; apply keeps_deliver].
Qed.

Lemma keeps_fold_arm x (ts : list trans) d : keeps (fun s => fold_left (fun s'' t => arm x (s_now s'' + d) (PAfter (t_event t)) s'') ts s).
Proof. induction ts as [|t r IH]; intros s; simpl; [reflexivity|]. now rewrite IH. Qed.

Lemma neutral_sched_run eng m x : services_ok m -> Neutral (sched_run eng m x).
Proof.
  intros Hok. unfold sched_run. apply neutral_bind; [apply neutral_lift, keeps_logo|].
  apply neutral_bind.
  - apply neutral_lift. intros s. generalize (n_after (nd m x)). intros l. revert s.
    induction l as [|dt r IH]; intros s; simpl; [reflexivity|]. rewrite IH. apply (keeps_fold_arm x (snd dt) (fst dt)).
  - apply neutral_for_each. intros i Hi. apply neutral_start_service. eapply Hok; eassumption.
Qed.

Lemma neutral_sched eng m x : services_ok m -> Neutral (sched eng m x).
Proof. intros H. unfold sched. destruct eng; solve [now apply neutral_sched_run | apply neutral_ret]. Qed.
Lemma neutral_sched_before eng m x : services_ok m -> Neutral (sched_before eng m x).
Proof. intros H. unfold sched_before. destruct eng; solve [now apply neutral_sched_run | apply neutral_ret]. Qed.
Lemma neutral_sched_after eng m x : services_ok m -> Neutral (sched_after eng m x).
Proof. intros H. unfold sched_after. destruct eng; solve [now apply neutral_sched_run | apply neutral_ret]. Qed.
Lemma neutral_cancel x : Neutral (cancel x).
Proof. apply neutral_lift. intros s. reflexivity. Qed.
Lemma neutral_hook_trans t : Neutral (hook_trans t).
Proof. apply neutral_lift. intros s. reflexivity. Qed.
Lemma neutral_hook_notify : Neutral hook_notify.
Proof. apply neutral_lift. intros s. reflexivity. Qed.

(* ---- actions: the outcome for the core depends on the action list only, not on the engine, the event
        passed along or the "processing" flag ---- *)
Definition real (eng : engine) : Prop := eng <> Pure.

Lemma run_actions_rel e1 e2 p1 p2 acts ev1 ev2 : Rel (run_actions e1 p1 acts ev1) (run_actions e2 p2 acts ev2).
Proof.
  induction acts as [|a r IH]; intros s1 s2 E; simpl; [split; [exact E | reflexivity]|].
  destruct (core_inv _ _ E) as [Ec [Eh Ex]].
  destruct a as [k|k|k|v z|ty tag|k|k|k d|k v].
  - apply IH. exact E.
  - split; [exact E | reflexivity].
  - split; [exact E | reflexivity].
  - apply IH. unfold core in *. simpl. now rewrite Ec, Eh, Ex.
  - apply IH. rewrite !keeps_send_self. destruct e1, e2, p1, p2; exact E.
  - split; [exact E | reflexivity].
  - apply IH. exact E.
  - apply IH. change (core (logo ?o ?y)) with (core y). rewrite !keeps_advance_busy. exact E.
  - apply IH. unfold core in *. simpl. now rewrite Ec, Eh, Ex.
Qed.

Lemma exec_actions_rel e1 e2 p1 p2 acts ev1 ev2 :
  real e1 -> real e2 -> Rel (fun s => exec_actions e1 p1 acts ev1 s) (fun s => exec_actions e2 p2 acts ev2 s).
Proof.
  intros R1 R2. unfold exec_actions. destruct e1, e2; try (exfalso; now (apply R1 || apply R2)); apply run_actions_rel.
Qed.

(* ---- entry ---- *)
Section Entry.
  Variable m : machine.
  Hypothesis Hok : services_ok m.
  Variables e1 e2 : engine.
  Hypothesis R1 : real e1.
  Hypothesis R2 : real e2.
  Variables p1 p2 : bool.

  Lemma enter_one_rel rec1 rec2 ep ei ev1 ev2 x :
    (forall l a b, Rel (rec1 l a) (rec2 l b)) ->
    Rel (enter_one e1 p1 m rec1 ep ei ev1 x) (enter_one e2 p2 m rec2 ep ei ev2 x).
  Proof.
    intros Hrec. unfold enter_one.
    apply rel_bind.
    { apply rel_lift. intros s1 s2 E. destruct (core_inv _ _ E) as [Ec [Eh Ex]]. unfold core. simpl. now rewrite Ec, Eh, Ex. }
    apply rel_bind; [now apply exec_actions_rel|].
    apply rel_bind; [apply rel_of_neutral; now apply neutral_sched_before|].
    apply rel_bind.
    { destruct (is_final m x); [|apply rel_ret]. apply rel_of_neutral; apply neutral_lift, keeps_fire_on_done. }
    assert (Hsa : Rel (sched_after e1 m x) (sched_after e2 m x)) by (apply rel_of_neutral; now apply neutral_sched_after).
    destruct (kind_of m x); try exact Hsa.
    - destruct (n_initial (nd m x)) as [i|].
      + destruct (mem x ep); [exact Hsa|]. apply rel_bind; [apply Hrec | exact Hsa].
      + destruct (children m x); [exact Hsa | apply rel_raise].
    - apply rel_bind; [|exact Hsa].
      destruct (filter _ (children m x)); [apply rel_ret | apply Hrec].
  Qed.

  Lemma enter_states_rel fuel : forall l ev1 ev2, Rel (enter_states fuel e1 p1 m l ev1) (enter_states fuel e2 p2 m l ev2).
  Proof.
    induction fuel as [|f IH]; intros l ev1 ev2; simpl; [apply rel_raise|].
    apply rel_for_each. intros x _. apply enter_one_rel. intros l' a b. apply IH.
  Qed.

  Lemma enter_rel l ev1 ev2 : Rel (enter e1 p1 m l ev1) (enter e2 p2 m l ev2).
  Proof. apply enter_states_rel. Qed.
End Entry.

(* ---- exit: sync cancels everything first, async cancels state by state ---- *)
Lemma leave_rel x :
  Rel (lift (fun s => if mem x (s_cfg s) then logo (OLeave x) (with_cfg (cdel x (s_cfg s)) s) else s))
      (lift (fun s => if mem x (s_cfg s) then logo (OLeave x) (with_cfg (cdel x (s_cfg s)) s) else s)).
Proof.
  apply rel_lift. intros s1 s2 E. destruct (core_inv _ _ E) as [Ec [Eh Ex]]. rewrite Ec.
  destruct (mem x (s_cfg s2)); [|exact E]. unfold core. simpl. now rewrite Eh, Ex.
Qed.

Lemma record_fold_rel m C cands : forall s1 s2, core s1 = core s2 ->
  core (fold_left (fun s' p => if has_history_child m p then
          match sort_by (lt_depth_id m) (filter (fun n => negb (Nat.eqb n p) && is_desc m n p) C) with
          | [] => s' | _ :: _ => with_hist (hist_set (s_hist s') p (sort_by (lt_depth_id m) (filter (fun n => negb (Nat.eqb n p) && is_desc m n p) C))) s' end
        else s') cands s1)
  = core (fold_left (fun s' p => if has_history_child m p then
          match sort_by (lt_depth_id m) (filter (fun n => negb (Nat.eqb n p) && is_desc m n p) C) with
          | [] => s' | _ :: _ => with_hist (hist_set (s_hist s') p (sort_by (lt_depth_id m) (filter (fun n => negb (Nat.eqb n p) && is_desc m n p) C))) s' end
        else s') cands s2).
Proof.
  induction cands as [|q r IH]; intros s1 s2 E; simpl; [exact E|].
  destruct (core_inv _ _ E) as [Ec [Eh Ex]].
  destruct (has_history_child m q); [|now apply IH].
  destruct (sort_by _ _) as [|y ys]; [now apply IH|].
  apply IH. unfold core. simpl. now rewrite Ec, Eh, Ex.
Qed.

Lemma exit_states_rel m p1 p2 l ev1 ev2 : Rel (exit_states Sync p1 m l ev1) (exit_states Async p2 m l ev2).
Proof.
  unfold exit_states. apply rel_bind.
  { apply rel_lift. intros s1 s2 E. destruct (core_inv _ _ E) as [Ec _].
    unfold record_history. rewrite Ec. now apply record_fold_rel. }
  apply rel_neutral_l; [apply neutral_for_each; intros x _; apply neutral_cancel|].
  apply rel_for_each. intros x _. apply rel_neutral_r; [apply neutral_cancel|].
  apply rel_bind; [apply exec_actions_rel; discriminate | apply leave_rel].
Qed.

(* ---- one transition ---- *)
Section Trans.
  Variable m : machine.
  Hypothesis Hok : services_ok m.
  Variables p1 p2 : bool.

  Lemma exec_external_rel t tgt ev : Rel (exec_external Sync p1 m t tgt ev) (exec_external Async p2 m t tgt ev).
  Proof.
    intros s1 s2 E. destruct (core_inv _ _ E) as [Ec [Eh Ex]]. unfold exec_external. rewrite Ec, Eh.
    set (d := find_domain m (t_src t) tgt). set (xs := ext_exit_set m (s_cfg s2) (s_hist s2) d tgt).
    set (hts := if is_history m tgt then resolve_history m (s_hist s2) tgt else []).
    set (path := if is_history m tgt then [] else ext_path m tgt d).
    match goal with |- core (fst (match ?b1 s1 with _ => _ end)) = core (fst (match ?b2 s2 with _ => _ end)) /\ _ =>
      assert (Hb : Rel b1 b2) end.
    { apply rel_bind; [apply exit_states_rel|]. apply rel_bind; [apply exec_actions_rel; discriminate|].
      apply rel_bind; [apply enter_rel; (assumption || discriminate)|].
      destruct (is_history m tgt); [|apply rel_ret]. destruct (combined_path m d hts); [apply rel_ret|].
      apply enter_rel; (assumption || discriminate). }
    destruct (Hb s1 s2 E) as [H1 H2].
    match goal with |- core (fst (match ?b1 s1 with _ => _ end)) = core (fst (match ?b2 s2 with _ => _ end)) /\ _ =>
      destruct (b1 s1) as [t1 r1], (b2 s2) as [t2 r2] end. simpl in H1, H2. subst r2.
    destruct r1 as [e|].
    - assert (Hr : Neutral (for_each (sched Sync m) (filter (fun x => mem x xs) (sort_nat (s_cfg s2))))) by
        (apply neutral_for_each; intros x _; now apply neutral_sched).
      assert (Hr' : Neutral (for_each (sched Async m) (filter (fun x => mem x xs) (sort_nat (s_cfg s2))))) by
        (apply neutral_for_each; intros x _; now apply neutral_sched).
      destruct (Hr (with_cfg (s_cfg s2) t1)) as [A1 A2]. destruct (Hr' (with_cfg (s_cfg s2) t2)) as [B1 B2].
      destruct (for_each (sched Sync m) _ (with_cfg (s_cfg s2) t1)) as [u1 q1].
      destruct (for_each (sched Async m) _ (with_cfg (s_cfg s2) t2)) as [u2 q2]. simpl in *. subst q1 q2. simpl.
      split; [|reflexivity]. rewrite A1, B1. destruct (core_inv _ _ H1) as [_ [Fh Fx]]. unfold core. simpl. now rewrite Fh, Fx.
    - apply (rel_of_neutral (hook_notify ;; hook_trans t) (hook_trans t ;; hook_notify)); [| |exact H1];
        apply neutral_bind; (apply neutral_hook_trans || apply neutral_hook_notify).
  Qed.

  Lemma exec_transition_rel t ev : Rel (exec_transition Sync p1 m t ev) (exec_transition Async p2 m t ev).
  Proof.
    unfold exec_transition.
    assert (Hint : Rel ((fun s => exec_actions Sync p1 (t_actions t) ev s) ;; hook_trans t)
                       ((fun s => exec_actions Async p2 (t_actions t) ev s) ;; hook_trans t)).
    { apply rel_bind; [apply exec_actions_rel; discriminate | apply rel_of_neutral; apply neutral_hook_trans]. }
    destruct (t_target t) as [|tgt|]; [exact Hint | | apply rel_raise].
    destruct (Nat.eqb tgt (t_src t) && negb (t_reenter t)); [exact Hint | apply exec_external_rel].
  Qed.

  (* selection only reads configuration and context, so a whole microstep agrees *)
  Theorem process_event_rel ev : Rel (process_event Sync p1 m ev) (process_event Async p2 m ev).
  Proof.
    intros s1 s2 E. destruct (core_inv _ _ E) as [Ec [Eh Ex]]. unfold process_event. rewrite Ec, Ex.
    destruct (select m (s_cfg s2) (s_ctx s2) ev) as [ts|]; [|split; [exact E | reflexivity]].
    apply rel_for_each; [|exact E]. intros t _ u1 u2 Eu. destruct (core_inv _ _ Eu) as [Fc _]. rewrite Fc.
    destruct (Nat.ltb 1 (List.length ts) && negb (mem (t_src t) (s_cfg u2))); [split; [exact Eu | reflexivity]|].
    now apply exec_transition_rel.
  Qed.
End Trans.
