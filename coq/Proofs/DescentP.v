(* The initial configuration is legal (property C01): what entering the root by default descent activates, and why
   that set is a legal configuration, for every well-formed machine whose compound states declare their initial child. *)
From XSM Require Import Model.Macro Proofs.TreeP Proofs.GuardP Proofs.StepP Proofs.LegalP.
From Coq Require Import Lia Sorting.Sorted.

(* the children a state activates when it is entered by default *)
Definition kids (m : machine) (x : nat) : list nat :=
  match kind_of m x with
  | KCompound => match n_initial (nd m x) with Some i => [i] | None => [] end
  | KParallel => filter (fun c => negb (is_history m c)) (children m x)
  | _ => []
  end.

(* the states activated, in order, when x is entered by default (fuel = depth budget) *)
Fixpoint descent (fuel : nat) (m : machine) (x : nat) : list nat :=
  match fuel with
  | 0 => []
  | S f => x :: List.concat (map (descent f m) (kids m x))
  end.

Definition add_all (l : list nat) (C : config) : config := fold_left (fun C y => cadd y C) l C.

Lemma add_all_app a b C : add_all (a ++ b) C = add_all b (add_all a C).
Proof. unfold add_all. apply fold_left_app. Qed.

(* ---- monad plumbing ---- *)
Lemma bind_ok (a b : M) s s' : (a ;; b) s = (s', None) -> exists s1, a s = (s1, None) /\ b s1 = (s', None).
Proof. unfold bind. destruct (a s) as [s1 [e|]]; [discriminate|]. intros H. exists s1. auto. Qed.

Definition keeps_cfg (a : M) : Prop := forall s, s_cfg (fst (a s)) = s_cfg s.

Lemma keeps_of_pres a : preserves same_cfg a -> keeps_cfg a.
Proof. intros H s. destruct (H s) as [Hc _]. exact Hc. Qed.

Lemma keeps_ret : keeps_cfg ret.
Proof. intros s. reflexivity. Qed.

Lemma complete_same o s : same_cfg s (complete o s).
Proof. unfold complete. destruct (s_status s); try apply same_cfg_refl. eapply same_cfg_trans; [apply with_status_same | apply logo_same]. Qed.

Lemma fire_on_done_same eng pr m fin s : same_cfg s (fire_on_done eng pr m fin s).
Proof.
  unfold fire_on_done. destruct (find _ _).
  - eapply same_cfg_trans; [|apply send_self_same]. unfold note_chained. destruct eng, pr; try apply same_cfg_refl; apply with_rd_same.
  - destruct (parent m fin) as [[|p]|]; try apply same_cfg_refl; apply complete_same.
Qed.

Lemma keeps_sched_before eng m x : keeps_cfg (sched_before eng m x).
Proof. unfold sched_before. destruct eng; try apply keeps_ret; apply keeps_of_pres, sched_run_same. Qed.
Lemma keeps_sched_after eng m x : keeps_cfg (sched_after eng m x).
Proof. unfold sched_after. destruct eng; try apply keeps_ret; apply keeps_of_pres, sched_run_same. Qed.

(* ---- what one entry does to the configuration ---- *)
Section Enter.
  Variable m : machine.
  Hypothesis Hwf : wf m = true.
  Variables (eng : engine) (pr : bool).

  Lemma enter_one_cfg f (rec : list nat -> option event -> M) ep ei ev x s s' :
    (forall l' ev' s0 s1, rec l' ev' s0 = (s1, None) -> s_cfg s1 = add_all (List.concat (map (descent f m) l')) (s_cfg s0)) ->
    mem x ep = false -> (forall c, In c (children m x) -> mem c ei = false) ->
    enter_one eng pr m rec ep ei ev x s = (s', None) ->
    s_cfg s' = add_all (descent (S f) m x) (s_cfg s).
  Proof.
    intros Hrec Hep Hei H. unfold enter_one in H.
    apply bind_ok in H as [s1 [H1 H]]. inversion H1; subst s1; clear H1.
    apply bind_ok in H as [s2 [H2 H]].
    assert (E2 : s_cfg s2 = cadd x (s_cfg s)).
    { pose proof (exec_actions_same eng pr (n_entry (nd m x)) (entry_event eng m ev x) (logo (OEnter x) (with_cfg (cadd x (s_cfg s)) s))) as [Hc _].
      rewrite H2 in Hc. exact Hc. }
    apply bind_ok in H as [s3 [H3 H]].
    assert (E3 : s_cfg s3 = s_cfg s2) by (pose proof (keeps_sched_before eng m x s2) as K; rewrite H3 in K; exact K).
    apply bind_ok in H as [s4 [H4 H]].
    assert (E4 : s_cfg s4 = s_cfg s3).
    { destruct (is_final m x); [|inversion H4; reflexivity]. inversion H4; subst. now destruct (fire_on_done_same eng pr m x s3). }
    assert (Hsa : forall t t', sched_after eng m x t = (t', None) -> s_cfg t' = s_cfg t)
      by (intros t t' Ht; pose proof (keeps_sched_after eng m x t) as K; rewrite Ht in K; exact K).
    cbn [descent]. unfold add_all at 1. cbn [fold_left]. fold (add_all (List.concat (map (descent f m) (kids m x))) (cadd x (s_cfg s))).
    rewrite <- E2, <- E3, <- E4. unfold kids.
    destruct (kind_of m x) eqn:Hk.
    - rewrite (Hsa _ _ H). reflexivity.
    - destruct (n_initial (nd m x)) as [i|] eqn:Hi.
      + rewrite Hep in H. apply bind_ok in H as [s5 [H5 H]]. rewrite (Hsa _ _ H). apply Hrec in H5. exact H5.
      + destruct (children m x); [rewrite (Hsa _ _ H); reflexivity | discriminate].
    - apply bind_ok in H as [s5 [H5 H]]. rewrite (Hsa _ _ H).
      assert (Hreg : filter (fun c => negb (is_history m c) && negb (mem c ei)) (children m x) = filter (fun c => negb (is_history m c)) (children m x)).
      { apply filter_ext_in. intros c Hc. rewrite (Hei c Hc). now rewrite andb_true_r. }
      rewrite Hreg in H5. destruct (filter (fun c => negb (is_history m c)) (children m x)) as [|c r] eqn:Ef.
      + inversion H5. reflexivity.
      + apply Hrec in H5. exact H5.
    - rewrite (Hsa _ _ H). reflexivity.
    - rewrite (Hsa _ _ H). reflexivity.
  Qed.

  (* a list whose members are neither parents of each other nor siblings of each other's children *)
  Definition ok_list (l : list nat) : Prop :=
    forall x, In x l -> x < size m /\ mem x (parents_of m l) = false /\ forall c, In c (children m x) -> mem c (with_parent m l) = false.

  Lemma for_each_enter_cfg f rec ep ei ev :
    (forall l' ev' s0 s1, rec l' ev' s0 = (s1, None) -> s_cfg s1 = add_all (List.concat (map (descent f m) l')) (s_cfg s0)) ->
    forall l s s',
    (forall x, In x l -> mem x ep = false /\ forall c, In c (children m x) -> mem c ei = false) ->
    for_each (enter_one eng pr m rec ep ei ev) l s = (s', None) ->
    s_cfg s' = add_all (List.concat (map (descent (S f) m) l)) (s_cfg s).
  Proof.
    intros Hrec. induction l as [|x r IH]; intros s s' Hl H.
    - inversion H. reflexivity.
    - cbn [for_each] in H. apply bind_ok in H as [s1 [H1 H]].
      destruct (Hl x (or_introl eq_refl)) as [Hep Hei].
      apply (enter_one_cfg f rec ep ei ev x s s1 Hrec Hep Hei) in H1.
      cbn [map List.concat]. rewrite add_all_app, <- H1. apply IH; [|exact H]. intros y Hy. apply Hl. now right.
  Qed.

  Lemma parents_of_singleton x p : parent m x = Some p -> parents_of m [x] = [p].
  Proof. intros H. unfold parents_of. simpl. now rewrite H. Qed.

  Lemma mem_parents_of_children x l c : (forall y, In y l -> parent m y = Some x) -> c <> x -> mem c (parents_of m l) = false.
  Proof.
    intros Hl Hne. apply mem_false. unfold parents_of. intros Hin. apply in_concat in Hin as [pl [Hpl Hc]].
    apply in_map_iff in Hpl as [y [<- Hy]]. rewrite (Hl y Hy) in Hc. destruct Hc as [<-|[]]. congruence.
  Qed.

  Lemma ok_children x l : x < size m -> (forall y, In y l -> In y (children m x)) -> ok_list l.
  Proof.
    intros Hx Hl y Hy. destruct (child_props m Hwf x y Hx (Hl y Hy)) as [Hlt [Hys Hp]].
    split; [exact Hys|]. split.
    - apply (mem_parents_of_children x); [|lia]. intros z Hz. now destruct (child_props m Hwf x z Hx (Hl z Hz)) as [_ [_ Hpz]].
    - intros c Hc. apply mem_false. intros Hin. unfold with_parent in Hin. apply filter_In in Hin as [Hin _].
      destruct (child_props m Hwf y c Hys Hc) as [_ [_ Hpc]].
      destruct (child_props m Hwf x c Hx (Hl c Hin)) as [_ [_ Hpc']]. rewrite Hpc in Hpc'. inversion Hpc'. lia.
  Qed.

  Theorem enter_states_cfg : forall f l ev s s',
    ok_list l -> enter_states f eng pr m l ev s = (s', None) ->
    s_cfg s' = add_all (List.concat (map (descent f m) l)) (s_cfg s).
  Proof.
    induction f as [|f IH]; intros l ev s s' Hok H; [discriminate|].
    cbn [enter_states] in H.
    (* the recursive calls are made on [initial child] or on the regions of one of l's members: both are ok lists *)
    assert (Hrec : forall x, In x l -> forall l' ev' s0 s1, (l' = match n_initial (nd m x) with Some i => [i] | None => [] end \/
                     l' = filter (fun c => negb (is_history m c) && negb (mem c (with_parent m l))) (children m x)) ->
                   enter_states f eng pr m l' ev' s0 = (s1, None) -> s_cfg s1 = add_all (List.concat (map (descent f m) l')) (s_cfg s0)).
    { intros x Hx l' ev' s0 s1 Hl' Hr. apply (IH l' ev' s0 s1); [|exact Hr].
      destruct (Hok x Hx) as [Hxs _]. apply (ok_children x); [exact Hxs|].
      intros y Hy. destruct Hl' as [->| ->].
      - destruct (n_initial (nd m x)) as [i|] eqn:Hi; [|destruct Hy]. destruct Hy as [<-|[]]. now apply (initial_child m Hwf x i).
      - apply filter_In in Hy. tauto. }
    (* run the loop; enter_one only ever calls rec on those two lists, so re-prove its step with the local knowledge *)
    revert s s' H. generalize (Hok). intros _.
    assert (Hloop : forall l0, (forall x, In x l0 -> In x l) -> forall s s',
              for_each (enter_one eng pr m (enter_states f eng pr m) (parents_of m l) (with_parent m l) ev) l0 s = (s', None) ->
              s_cfg s' = add_all (List.concat (map (descent (S f) m) l0)) (s_cfg s)).
    { induction l0 as [|x r IHr]; intros Hsub s s' H; [inversion H; reflexivity|].
      cbn [for_each] in H. apply bind_ok in H as [s1 [H1 H]].
      assert (Hx : In x l) by (apply Hsub; now left).
      destruct (Hok x Hx) as [Hxs [Hep Hei]].
      assert (E1 : s_cfg s1 = add_all (descent (S f) m x) (s_cfg s)).
      { clear H IHr. unfold enter_one in H1.
        apply bind_ok in H1 as [t1 [T1 H1]]. inversion T1; subst t1; clear T1.
        apply bind_ok in H1 as [t2 [T2 H1]].
        assert (E2 : s_cfg t2 = cadd x (s_cfg s)).
        { pose proof (exec_actions_same eng pr (n_entry (nd m x)) (entry_event eng m ev x) (logo (OEnter x) (with_cfg (cadd x (s_cfg s)) s))) as [Hc _].
          rewrite T2 in Hc. exact Hc. }
        apply bind_ok in H1 as [t3 [T3 H1]].
        assert (E3 : s_cfg t3 = s_cfg t2) by (pose proof (keeps_sched_before eng m x t2) as K; rewrite T3 in K; exact K).
        apply bind_ok in H1 as [t4 [T4 H1]].
        assert (E4 : s_cfg t4 = s_cfg t3).
        { destruct (is_final m x); [|inversion T4; reflexivity]. inversion T4; subst. now destruct (fire_on_done_same eng pr m x t3). }
        assert (Hsa : forall t t', sched_after eng m x t = (t', None) -> s_cfg t' = s_cfg t)
          by (intros t t' Ht; pose proof (keeps_sched_after eng m x t) as K; rewrite Ht in K; exact K).
        cbn [descent]. unfold add_all at 1. cbn [fold_left]. fold (add_all (List.concat (map (descent f m) (kids m x))) (cadd x (s_cfg s))).
        rewrite <- E2, <- E3, <- E4. unfold kids.
        destruct (kind_of m x) eqn:Hk.
        - rewrite (Hsa _ _ H1). reflexivity.
        - destruct (n_initial (nd m x)) as [i|] eqn:Hi.
          + rewrite Hep in H1. apply bind_ok in H1 as [t5 [T5 H1]]. rewrite (Hsa _ _ H1).
            apply (Hrec x Hx [i]) in T5; [exact T5 | left; now rewrite Hi].
          + destruct (children m x); [rewrite (Hsa _ _ H1); reflexivity | discriminate].
        - apply bind_ok in H1 as [t5 [T5 H1]]. rewrite (Hsa _ _ H1).
          assert (Hreg : filter (fun c => negb (is_history m c) && negb (mem c (with_parent m l))) (children m x) = filter (fun c => negb (is_history m c)) (children m x)).
          { apply filter_ext_in. intros c Hc. rewrite (Hei c Hc). now rewrite andb_true_r. }
          destruct (filter (fun c => negb (is_history m c) && negb (mem c (with_parent m l))) (children m x)) as [|c r'] eqn:Ef.
          + inversion T5. rewrite <- Hreg. reflexivity.
          + apply (Hrec x Hx (c :: r')) in T5; [|right; now rewrite Ef]. rewrite <- Hreg. exact T5.
        - rewrite (Hsa _ _ H1). reflexivity.
        - rewrite (Hsa _ _ H1). reflexivity. }
      cbn [map List.concat]. rewrite add_all_app, <- E1. apply IHr; [|exact H]. intros y Hy. apply Hsub. now right. }
    intros s s' H. apply Hloop; [auto | exact H].
  Qed.
End Enter.

(* ---- the set the default descent activates is a legal configuration ---- *)

(* every compound state that has children declares an initial child, and neither an initial child nor the root is a
   history pseudo-state *)
Definition good_initials (m : machine) : bool :=
  negb (is_history m 0) &&
  forallb (fun s => match kind_of m s with
                    | KCompound => match children m s, n_initial (nd m s) with
                                   | [], _ => true
                                   | _ :: _, Some i => negb (is_history m i)
                                   | _ :: _, None => false
                                   end
                    | _ => true
                    end) (seq 0 (size m)).

Section Legality.
  Variable m : machine.
  Hypothesis Hwf : wf m = true.
  Hypothesis Hgood : good_initials m = true.

  Lemma good_root : is_history m 0 = false.
  Proof. unfold good_initials in Hgood. apply andb_prop in Hgood as [H _]. now apply negb_true_iff. Qed.

  Lemma good_compound s : s < size m -> kind_of m s = KCompound -> children m s <> [] ->
    exists i, n_initial (nd m s) = Some i /\ is_history m i = false.
  Proof.
    intros Hs Hk Hc. unfold good_initials in Hgood. apply andb_prop in Hgood as [_ H]. rewrite forallb_forall in H.
    specialize (H s). rewrite Hk in H. assert (Hin : In s (seq 0 (size m))) by (apply in_seq; lia). specialize (H Hin).
    destruct (children m s) as [|c r]; [congruence|]. destruct (n_initial (nd m s)) as [i|]; [|discriminate].
    exists i. split; [reflexivity | now apply negb_true_iff].
  Qed.

  Lemma kids_children x c : x < size m -> In c (kids m x) -> In c (children m x).
  Proof.
    intros Hx H. unfold kids in H. destruct (kind_of m x); try destruct H.
    - destruct (n_initial (nd m x)) as [i|] eqn:Hi; [|destruct H]. destruct H as [<-|[]]. now apply (initial_child m Hwf x i).
    - apply filter_In in H. tauto.
  Qed.

  Lemma kids_props x c : x < size m -> In c (kids m x) -> x < c /\ c < size m /\ parent m c = Some x.
  Proof. intros Hx H. apply (child_props m Hwf x c Hx). now apply kids_children. Qed.

  Lemma kids_not_history x c : x < size m -> In c (kids m x) -> is_history m c = false.
  Proof.
    intros Hx H. unfold kids in H. destruct (kind_of m x) eqn:Hk; try destruct H.
    - destruct (n_initial (nd m x)) as [i|] eqn:Hi; [|destruct H]. destruct H as [<-|[]].
      assert (Hc : children m x <> []) by (intros E; pose proof (initial_child m Hwf x i Hx Hi) as Hin; rewrite E in Hin; destruct Hin).
      destruct (good_compound x Hx Hk Hc) as [j [Hj Hh]]. rewrite Hi in Hj. inversion Hj. now subst.
    - apply filter_In in H as [_ H]. now apply negb_true_iff.
  Qed.

  (* membership in a descent: the state itself, or a kid of a member *)
  Lemma in_descent f : forall x y, x < size m -> In y (descent f m x) ->
    y = x \/ exists s, parent m y = Some s /\ In s (descent f m x) /\ In y (kids m s) /\ s < size m.
  Proof.
    induction f as [|f IH]; intros x y Hx Hy; [destruct Hy|].
    cbn [descent] in Hy. destruct Hy as [<-|Hy]; [now left|]. right.
    apply in_concat in Hy as [l [Hl Hy]]. apply in_map_iff in Hl as [c [<- Hc]].
    destruct (kids_props x c Hx Hc) as [Hlt [Hcs Hp]].
    destruct (IH c y Hcs Hy) as [->|[s [Hps [Hs [Hk Hss]]]]].
    - exists x. split; [exact Hp|]. split; [now left|]. split; [exact Hc | exact Hx].
    - exists s. split; [exact Hps|]. split; [|split; [exact Hk | exact Hss]].
      right. apply in_concat. exists (descent f m c). split; [apply in_map; exact Hc | exact Hs].
  Qed.

  Lemma descent_ge f : forall x y, x < size m -> In y (descent f m x) -> x <= y /\ y < size m.
  Proof.
    induction f as [|f IH]; intros x y Hx Hy; [destruct Hy|].
    cbn [descent] in Hy. destruct Hy as [<-|Hy]; [lia|].
    apply in_concat in Hy as [l [Hl Hy]]. apply in_map_iff in Hl as [c [<- Hc]].
    destruct (kids_props x c Hx Hc) as [Hlt [Hcs _]]. destruct (IH c y Hcs Hy). lia.
  Qed.

  (* with enough fuel, the kids of every member are members *)
  Lemma descent_closed f : forall x s c, x < size m -> size m - x < f -> In s (descent f m x) -> In c (kids m s) -> In c (descent f m x).
  Proof.
    induction f as [|f IH]; intros x s c Hx Hf Hs Hc; [lia|].
    cbn [descent] in Hs |- *. destruct Hs as [<-|Hs].
    - right. destruct (kids_props x c Hx Hc) as [Hlt [Hcs _]].
      apply in_concat. exists (descent f m c). split; [apply in_map; exact Hc|].
      destruct f as [|f']; [lia|]. now left.
    - right. apply in_concat in Hs as [l [Hl Hs]]. apply in_map_iff in Hl as [k [<- Hk]].
      destruct (kids_props x k Hx Hk) as [Hlt [Hks _]].
      apply in_concat. exists (descent f m k). split; [apply in_map; exact Hk|]. apply (IH k s c Hks); [lia | exact Hs | exact Hc].
  Qed.

  (* ancestor chains *)
  Lemma anc_self_unfold y : y < size m -> anc_self m y = y :: match parent m y with Some q => anc_self m q | None => [] end.
  Proof. intros Hy. unfold anc_self at 1. rewrite (ancestors_unfold m Hwf y Hy). destruct (parent m y); reflexivity. Qed.

  Lemma desc_of_parent : forall y c x, y < size m -> In c (anc_self m y) -> parent m c = Some x -> In x (anc_self m y).
  Proof.
    intros y. induction y as [y IH] using (well_founded_induction lt_wf). intros c x Hy Hc Hp.
    rewrite (anc_self_unfold y Hy) in Hc |- *. destruct Hc as [<-|Hc].
    - rewrite Hp. right. rewrite (anc_self_unfold x) by (eapply parent_lt_size; eassumption). now left.
    - destruct (parent m y) as [q|] eqn:Hq; [|destruct Hc]. right.
      destruct (parent_props m Hwf y q Hy Hq) as [Hlt _]. apply (IH q Hlt c x); [lia | exact Hc | exact Hp].
  Qed.

  Lemma descent_desc f : forall x y, x < size m -> In y (descent f m x) -> In x (anc_self m y).
  Proof.
    induction f as [|f IH]; intros x y Hx Hy; [destruct Hy|].
    cbn [descent] in Hy. destruct Hy as [<-|Hy]; [now left|].
    apply in_concat in Hy as [l [Hl Hy]]. apply in_map_iff in Hl as [c [<- Hc]].
    destruct (kids_props x c Hx Hc) as [Hlt [Hcs Hp]].
    destruct (descent_ge f c y Hcs Hy) as [_ Hys].
    apply (desc_of_parent y c x Hys); [now apply IH | exact Hp].
  Qed.

  Lemma sorted_same_depth l : StronglySorted (fun a b => depth m b < depth m a) l ->
    forall a b, In a l -> In b l -> depth m a = depth m b -> a = b.
  Proof.
    induction 1 as [|z l Hs IH Hz]; intros a b Ha Hb Hd; [destruct Ha|].
    rewrite Forall_forall in Hz. destruct Ha as [<-|Ha], Hb as [<-|Hb]; try reflexivity.
    - specialize (Hz b Hb). lia.
    - specialize (Hz a Ha). lia.
    - now apply IH.
  Qed.

  (* two different children of one state have no common descendant *)
  Lemma siblings_disjoint x c1 c2 y : x < size m -> y < size m -> In c1 (children m x) -> In c2 (children m x) ->
    In c1 (anc_self m y) -> In c2 (anc_self m y) -> c1 = c2.
  Proof.
    intros Hx Hy H1 H2 A1 A2.
    destruct (child_props m Hwf x c1 Hx H1) as [_ [Hc1 P1]]. destruct (child_props m Hwf x c2 Hx H2) as [_ [Hc2 P2]].
    destruct (parent_props m Hwf c1 x Hc1 P1) as [_ [_ D1]]. destruct (parent_props m Hwf c2 x Hc2 P2) as [_ [_ D2]].
    apply (sorted_same_depth (anc_self m y) (anc_self_sorted m Hwf y Hy)); [exact A1 | exact A2 | lia].
  Qed.

  Lemma nodup_app {A} (a b : list A) : NoDup a -> NoDup b -> (forall y, In y a -> ~ In y b) -> NoDup (a ++ b).
  Proof.
    induction a as [|x r IH]; intros Na Nb Hd; simpl; [exact Nb|].
    inversion Na as [|? ? Hx Nr]; subst. constructor.
    - rewrite in_app_iff. intros [H|H]; [contradiction | apply (Hd x); [now left | exact H]].
    - apply IH; [exact Nr | exact Nb | intros y Hy; apply Hd; now right].
  Qed.

  Lemma NoDup_concat_map {A} (g : A -> list nat) (l : list A) :
    NoDup l -> (forall a, In a l -> NoDup (g a)) -> (forall a b y, In a l -> In b l -> In y (g a) -> In y (g b) -> a = b) ->
    NoDup (List.concat (map g l)).
  Proof.
    induction l as [|a r IH]; intros Nl Ng Hd; simpl; [constructor|].
    inversion Nl as [|? ? Ha Nr]; subst.
    apply nodup_app.
    - apply Ng. now left.
    - apply IH; [exact Nr | intros b Hb; apply Ng; now right | intros b c y Hb Hc; apply Hd; now right].
    - intros y Hy Hin. apply in_concat in Hin as [l' [Hl' Hy']]. apply in_map_iff in Hl' as [b [<- Hb]].
      assert (a = b) by (apply (Hd a b y); [now left | now right | exact Hy | exact Hy']). subst. contradiction.
  Qed.

  Lemma kids_nodup x : x < size m -> NoDup (kids m x).
  Proof.
    intros Hx. unfold kids. destruct (kind_of m x); try constructor.
    - destruct (n_initial (nd m x)); repeat constructor. intros [].
    - destruct (wf_node m x Hwf Hx) as [_ Hnd]. clear -Hnd. induction Hnd as [|c l Hc _ IH]; simpl; [constructor|].
      destruct (negb (is_history m c)); [|exact IH]. constructor; [|exact IH]. intros Hin. apply filter_In in Hin. tauto.
  Qed.

  Lemma descent_nodup f : forall x, x < size m -> NoDup (descent f m x).
  Proof.
    induction f as [|f IH]; intros x Hx; cbn [descent]; [constructor|].
    constructor.
    - intros Hin. apply in_concat in Hin as [l [Hl Hy]]. apply in_map_iff in Hl as [c [<- Hc]].
      destruct (kids_props x c Hx Hc) as [Hlt [Hcs _]]. destruct (descent_ge f c x Hcs Hy). lia.
    - apply NoDup_concat_map.
      + now apply kids_nodup.
      + intros c Hc. apply IH. now destruct (kids_props x c Hx Hc) as [_ [Hcs _]].
      + intros c1 c2 y H1 H2 Y1 Y2.
        destruct (kids_props x c1 Hx H1) as [_ [Hc1 _]]. destruct (kids_props x c2 Hx H2) as [_ [Hc2 _]].
        destruct (descent_ge f c1 y Hc1 Y1) as [_ Hys].
        apply (siblings_disjoint x c1 c2 y Hx Hys); [now apply kids_children | now apply kids_children | now apply (descent_desc f) | now apply (descent_desc f)].
  Qed.

  (* adding duplicate-free new states to a configuration appends them *)
  Lemma add_all_fresh l : forall C, NoDup (C ++ l) -> add_all l C = C ++ l.
  Proof.
    induction l as [|y r IH]; intros C N; [now rewrite app_nil_r|].
    unfold add_all. cbn [fold_left]. fold (add_all r (cadd y C)).
    assert (Hy : mem y C = false).
    { apply mem_false. intros Hin. apply NoDup_remove_2 in N. apply N. apply in_or_app. now left. }
    unfold cadd. rewrite Hy. rewrite IH; rewrite <- app_assoc; simpl; [reflexivity | exact N].
  Qed.

  (* the theorem: what the default descent from the root activates is a legal configuration *)
  Theorem descent_legal f : size m < f -> Legal m (descent f m 0).
  Proof.
    intros Hf. pose proof (wf_size m Hwf) as H0.
    set (S_ := descent f m 0).
    assert (Hin : forall y, In y S_ -> y = 0 \/ exists s, parent m y = Some s /\ In s S_ /\ In y (kids m s) /\ s < size m)
      by (intros y Hy; now apply (in_descent f 0 y H0)).
    assert (Hcl : forall s c, In s S_ -> In c (kids m s) -> In c S_)
      by (intros s c Hs Hc; apply (descent_closed f 0 s c H0); [lia | exact Hs | exact Hc]).
    assert (Hroot : In 0 S_) by (unfold S_; destruct f; [lia | now left]).
    constructor.
    - exact Hroot.
    - now apply descent_nodup.
    - intros s Hs. now destruct (descent_ge f 0 s H0 Hs).
    - intros s Hs. destruct (Hin s Hs) as [->|[p [Hp [Hps _]]]].
      + destruct (parent m 0) as [q|] eqn:Hq; [|reflexivity]. destruct (parent_props m Hwf 0 q H0 Hq). lia.
      + rewrite Hp. exact Hps.
    - intros s Hs. destruct (Hin s Hs) as [->|[p [_ [_ [Hk Hps]]]]]; [apply good_root | now apply (kids_not_history p)].
    - intros s Hs Hk Hc.
      assert (Hss : s < size m) by now destruct (descent_ge f 0 s H0 Hs).
      destruct (good_compound s Hss Hk Hc) as [i [Hi Hh]].
      destruct (wf_node m s Hwf Hss) as [_ Hnd].
      apply (filter_length_one _ _ Hnd). exists i.
      assert (Hki : In i (kids m s)) by (unfold kids; rewrite Hk, Hi; now left).
      split; [now apply kids_children|]. split; [apply mem_In; now apply (Hcl s)|].
      intros c' Hc' Hm. apply mem_In in Hm.
      destruct (child_props m Hwf s c' Hss Hc') as [Hlt [_ Hp']].
      destruct (Hin c' Hm) as [->|[p [Hp [_ [Hkp _]]]]]; [lia|].
      rewrite Hp' in Hp. inversion Hp; subst p. unfold kids in Hkp. rewrite Hk, Hi in Hkp. destruct Hkp as [<-|[]]. reflexivity.
    - intros s c Hs Hk Hc Hh. apply (Hcl s); [exact Hs|]. unfold kids. rewrite Hk. apply filter_In. split; [exact Hc | now rewrite Hh].
  Qed.

  (* start(): the configuration right after the initial entry, if the entry did not fail, is legal *)
  Theorem initial_entry_legal eng pr ev s s' :
    s_cfg s = [] -> enter eng pr m [0] ev s = (s', None) -> Legal m (s_cfg s').
  Proof.
    intros Hc H. unfold enter in H. pose proof (wf_size m Hwf) as H0.
    assert (Hok : ok_list m [0]).
    { intros x [<-|[]]. split; [exact H0|].
      assert (Hp : parent m 0 = None).
      { destruct (parent m 0) as [q|] eqn:Hq; [|reflexivity]. destruct (parent_props m Hwf 0 q H0 Hq). lia. }
      split.
      - unfold parents_of. simpl. rewrite Hp. reflexivity.
      - intros c _. unfold with_parent. simpl. rewrite Hp. reflexivity. }
    apply (enter_states_cfg m Hwf eng pr (S (size m)) [0] ev s s' Hok) in H.
    cbn [map List.concat] in H. rewrite app_nil_r, Hc in H.
    rewrite add_all_fresh in H by (rewrite app_nil_l; apply descent_nodup; exact H0).
    rewrite app_nil_l in H. rewrite H. apply descent_legal. lia.
  Qed.
End Legality.
