(* Proofs about guard evaluation (Model/Select.v: geval, state_in) - property C06 *)
From XSM Require Import Model.Select Proofs.PyLibP.
From Coq Require Import Lia.

(* induction principle for the nested inductive `guard` *)
Section GuardInd.
  Variable P : guard -> Prop.
  Hypothesis Hge : forall v z, P (GCtxGe v z).
  Hypothesis Hra : forall k, P (GRaises k).
  Hypothesis Hmi : forall k, P (GMissing k).
  Hypothesis Hin : forall t, P (GStateIn t).
  Hypothesis Hand : forall l, Forall P l -> P (GAnd l).
  Hypothesis Hor : forall l, Forall P l -> P (GOr l).
  Hypothesis Hnot : forall g, P g -> P (GNot g).

  Fixpoint guard_ind' (g : guard) : P g :=
    match g with
    | GCtxGe v z => Hge v z
    | GRaises k => Hra k
    | GMissing k => Hmi k
    | GStateIn t => Hin t
    | GAnd l => Hand l ((fix go (l : list guard) : Forall P l :=
                           match l with [] => Forall_nil P | x :: r => Forall_cons x (guard_ind' x) (go r) end) l)
    | GOr l => Hor l ((fix go (l : list guard) : Forall P l :=
                         match l with [] => Forall_nil P | x :: r => Forall_cons x (guard_ind' x) (go r) end) l)
    | GNot g' => Hnot g' (guard_ind' g')
    end.
End GuardInd.

(* the ordinary boolean meaning of a guard: a raising predicate counts as false *)
Fixpoint gden (m : machine) (C : config) (cx : ctx) (g : guard) : bool :=
  match g with
  | GCtxGe v z => Z.leb z (ctx_get cx v)
  | GRaises _ => false
  | GMissing _ => false
  | GStateIn t => state_in m C t
  | GAnd l => (fix all (l : list guard) : bool := match l with [] => true | x :: r => gden m C cx x && all r end) l
  | GOr l => (fix any (l : list guard) : bool := match l with [] => false | x :: r => gden m C cx x || any r end) l
  | GNot g' => negb (gden m C cx g')
  end.

(* no named-but-unimplemented predicate anywhere in the guard *)
Fixpoint no_missing (g : guard) : bool :=
  match g with
  | GMissing _ => false
  | GAnd l | GOr l => (fix all (l : list guard) : bool := match l with [] => true | x :: r => no_missing x && all r end) l
  | GNot g' => no_missing g'
  | _ => true
  end.

Lemma gden_and m C cx l : gden m C cx (GAnd l) = forallb (gden m C cx) l.
Proof. induction l as [|x r IH]; [reflexivity|]. simpl in *. now rewrite IH. Qed.
Lemma gden_or m C cx l : gden m C cx (GOr l) = existsb (gden m C cx) l.
Proof. induction l as [|x r IH]; [reflexivity|]. simpl in *. now rewrite IH. Qed.
Lemma no_missing_and l : no_missing (GAnd l) = forallb no_missing l.
Proof. induction l as [|x r IH]; [reflexivity|]. simpl in *. now rewrite IH. Qed.
Lemma no_missing_or l : no_missing (GOr l) = forallb no_missing l.
Proof. induction l as [|x r IH]; [reflexivity|]. simpl in *. now rewrite IH. Qed.

(* evaluation agrees with the boolean meaning at any nesting depth *)
Theorem geval_bool m C cx g : no_missing g = true -> geval m C cx g = Some (gden m C cx g).
Proof.
  induction g as [v z|k|k|t|l IH|l IH|g IH] using guard_ind'; intros Hnm; try reflexivity; try discriminate.
  - rewrite no_missing_and in Hnm. rewrite gden_and.
    induction l as [|x r IHr]; [reflexivity|].
    simpl in Hnm. apply andb_prop in Hnm as [Hx Hr]. inversion IH as [|? ? Px Pr]; subst.
    simpl. rewrite (Px Hx). destruct (gden m C cx x); simpl; [apply IHr; assumption | reflexivity].
  - rewrite no_missing_or in Hnm. rewrite gden_or.
    induction l as [|x r IHr]; [reflexivity|].
    simpl in Hnm. apply andb_prop in Hnm as [Hx Hr]. inversion IH as [|? ? Px Pr]; subst.
    simpl. rewrite (Px Hx). destruct (gden m C cx x); simpl; [reflexivity | apply IHr; assumption].
  - simpl in *. now rewrite (IH Hnm).
Qed.

(* a guard that raises is false, and does not disturb evaluation of what follows *)
Lemma geval_raises m C cx k : geval m C cx (GRaises k) = Some false.
Proof. reflexivity. Qed.

(* a named-but-missing predicate that evaluation reaches is an error, never a verdict *)
Lemma geval_missing m C cx k : geval m C cx (GMissing k) = None.
Proof. reflexivity. Qed.

Lemma geval_and_reaches_missing m C cx l1 k l2 :
  Forall (fun g => geval m C cx g = Some true) l1 ->
  geval m C cx (GAnd (l1 ++ GMissing k :: l2)) = None.
Proof.
  induction l1 as [|x r IH]; intros H; [reflexivity|].
  inversion H; subst. simpl in *. rewrite H2. apply IH. assumption.
Qed.

Lemma geval_or_reaches_missing m C cx l1 k l2 :
  Forall (fun g => geval m C cx g = Some false) l1 ->
  geval m C cx (GOr (l1 ++ GMissing k :: l2)) = None.
Proof.
  induction l1 as [|x r IH]; intros H; [reflexivity|].
  inversion H; subst. simpl in *. rewrite H2. apply IH. assumption.
Qed.

(* short-circuit: a false operand of `and` (true operand of `or`) hides a later missing predicate *)
Lemma geval_and_short m C cx l1 g l2 :
  Forall (fun g => geval m C cx g = Some true) l1 -> geval m C cx g = Some false ->
  geval m C cx (GAnd (l1 ++ g :: l2)) = Some false.
Proof.
  induction l1 as [|x r IH]; intros H Hg; [simpl; now rewrite Hg|].
  inversion H; subst. simpl in *. rewrite H2. apply IH; assumption.
Qed.

Lemma geval_or_short m C cx l1 g l2 :
  Forall (fun g => geval m C cx g = Some false) l1 -> geval m C cx g = Some true ->
  geval m C cx (GOr (l1 ++ g :: l2)) = Some true.
Proof.
  induction l1 as [|x r IH]; intros H Hg; [simpl; now rewrite Hg|].
  inversion H; subst. simpl in *. rewrite H2. apply IH; assumption.
Qed.

(* ---- stateIn ---- *)

(* the spellings of a state's id that stateIn accepts: the id itself, '#id', or a dotted suffix of it *)
Definition names_state (m : machine) (s : nat) (target : string) : Prop :=
  let norm := if startswith target "#" then drop_first 1 target else target in
  id_of m s = norm \/ exists p, id_of m s = (p ++ "." ++ norm)%string.

Lemma state_in_spec m C target :
  target <> ""%string ->
  (state_in m C target = true <-> exists s, In s C /\ names_state m s target).
Proof.
  intros Hne. unfold state_in, names_state.
  destruct (String.eqb target "") eqn:E; [apply String.eqb_eq in E; contradiction|].
  set (norm := if startswith target "#" then drop_first 1 target else target).
  rewrite existsb_exists. split.
  - intros [s [Hs H]]. exists s. split; [assumption|].
    apply orb_prop in H as [H|H].
    + left. now apply String.eqb_eq.
    + right. apply endswith_spec in H as [p Hp]. exists p. exact Hp.
  - intros [s [Hs [H|[p Hp]]]]; exists s; (split; [assumption|]).
    + apply orb_true_intro. left. now apply String.eqb_eq.
    + apply orb_true_intro. right. apply endswith_spec. exists p. exact Hp.
Qed.

(* when the name designates exactly one state s among the active ones, stateIn is membership of s *)
Lemma mem_In x l : mem x l = true <-> In x l.
Proof.
  unfold mem. rewrite existsb_exists. split.
  - intros [y [Hy E]]. apply Nat.eqb_eq in E. now subst.
  - intros H. exists x. split; [assumption | apply Nat.eqb_refl].
Qed.

Theorem state_in_exact m C target s :
  target <> ""%string -> names_state m s target ->
  (forall s', In s' C -> names_state m s' target -> s' = s) ->
  state_in m C target = mem s C.
Proof.
  intros Hne Hs Huniq.
  destruct (mem s C) eqn:E.
  - apply state_in_spec; [assumption|]. exists s. split; [now apply mem_In | assumption].
  - destruct (state_in m C target) eqn:E2; [|reflexivity].
    apply state_in_spec in E2 as [s' [Hin Hn]]; [|assumption].
    rewrite (Huniq s' Hin Hn) in Hin. apply mem_In in Hin. congruence.
Qed.
