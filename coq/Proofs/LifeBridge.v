(* Tie T for the lifecycle tests: in which status send() drops the event and in which status stop() returns at once, as
   re-translated from the first statement of SyncInterpreter.send / Interpreter.send / SyncInterpreter.stop / Interpreter.stop
   in the current source (Gen/GenGeom.v), are the model's `accepts` (Model/Exec.v) and the no-op cases of `stop_interp`
   (Model/Macro.v), through the names the code gives the five statuses. *)
From XSM Require Import Model.Macro Model.TreeLib Gen.GenGeom.

Definition status_name (x : status) : string :=
  match x with
  | Uninit => "uninitialized" | Running => "running" | Done => "done" | Errored => "error" | Stopped => "stopped"
  end.

Theorem send_drops_sync_bridge m x : send_drops_sync m (status_name x) = negb (accepts Sync x).
Proof. destruct x; reflexivity. Qed.
Theorem send_drops_async_bridge m x : send_drops_async m (status_name x) = negb (accepts Async x).
Proof. destruct x; reflexivity. Qed.

Theorem stop_returns_bridge m s :
  (stop_returns_sync m (status_name (s_status s)) = true -> stop_interp s = s) /\
  (stop_returns_async m (status_name (s_status s)) = true -> stop_interp s = s) /\
  (stop_returns_sync m (status_name (s_status s)) = false -> s_status (stop_interp s) = Stopped) /\
  (stop_returns_async m (status_name (s_status s)) = false -> s_status (stop_interp s) = Stopped).
Proof. unfold stop_interp. destruct (s_status s); cbn; repeat split; intros H; try reflexivity; discriminate. Qed.

(* _fail / _complete (shared by both engines): when they are ignored *)
Theorem fail_ignored_bridge m s :
  (fail_ignored m (status_name (s_status s)) = true -> fail_machine s = s) /\
  (fail_ignored m (status_name (s_status s)) = false -> s_status (fail_machine s) = Errored).
Proof. unfold fail_machine. destruct (s_status s); cbn; split; intros H; try reflexivity; discriminate. Qed.

Theorem complete_ignored_bridge m out s :
  (complete_ignored m (status_name (s_status s)) = true -> complete out s = s) /\
  (complete_ignored m (status_name (s_status s)) = false -> s_status (complete out s) = Done /\ s_output (complete out s) = out).
Proof. unfold complete. destruct (s_status s); cbn; split; intros H; try reflexivity; try discriminate; now split. Qed.
