(* Target spellings that name the same state resolve to the same state (property C18). *)
From XSM Require Import Model.Resolve.
From Coq Require Import Lia.
Open Scope list_scope.

Lemma exists_at_true root p : exists_at root p = true <-> exists t, descend root p = Some t.
Proof. unfold exists_at. destruct (descend root p); split; try discriminate; eauto. intros [t H]. discriminate. Qed.

(* '#root.path' *)
Theorem spelling_absolute root ref T :
  exists_at root T = true -> forallb (fun s => negb (String.eqb s "")) T = true ->
  resolve_target root ref (SAbs (kkey root :: T)) = Some T.
Proof. intros He Hs. simpl. now rewrite String.eqb_refl, Hs, He. Qed.

(* '.rel' is read relative to the PARENT of the source *)
Theorem spelling_relative root S rel :
  exists_at root (parent_path S ++ rel) = true -> forallb (fun s => negb (String.eqb s "")) rel = true ->
  resolve_target root S (SRel rel) = Some (parent_path S ++ rel).
Proof. intros He Hs. simpl. now rewrite Hs, He. Qed.

(* '.' is the parent *)
Theorem spelling_dot root S : resolve_target root S SDot = Some (parent_path S).
Proof. reflexivity. Qed.

(* a path below the source itself is what the bubbling lookup tries first *)
Theorem spelling_below_source root S rel :
  exists_at root (S ++ rel) = true -> forallb (fun s => negb (String.eqb s "")) rel = true ->
  resolve_target root S (SPlain rel) = Some (S ++ rel).
Proof. intros He Hs. simpl. rewrite Hs. destruct (List.length S); simpl; now rewrite He. Qed.

(* a plain (sibling / dotted) spelling reaches the state below the parent when the source's own subtree and the
   source's own key do not catch it first *)
Theorem spelling_plain_via_parent root S rel :
  S <> [] ->
  exists_at root (S ++ rel) = false ->
  match rel with [k] => String.eqb k (last_key root S) | _ => false end = false ->
  exists_at root (parent_path S ++ rel) = true ->
  forallb (fun s => negb (String.eqb s "")) rel = true ->
  resolve_target root S (SPlain rel) = Some (parent_path S ++ rel).
Proof.
  intros Hne H1 H2 H3 Hs. simpl. rewrite Hs.
  destruct S as [|x S']; [congruence|]. cbn [List.length bubble]. rewrite H1, H2.
  destruct (List.length S'); cbn [bubble]; now rewrite H3.
Qed.

(* ... and when the plain spelling names the source itself it IS the source *)
Theorem spelling_plain_self root S k :
  S <> [] -> exists_at root (S ++ [k]) = false -> String.eqb k (last_key root S) = true ->
  negb (String.eqb k "") = true ->
  resolve_target root S (SPlain [k]) = Some S.
Proof.
  intros Hne H1 H2 Hk. simpl. rewrite Hk. simpl.
  destruct S as [|x S']; [congruence|]. cbn [List.length bubble]. now rewrite H1, H2.
Qed.

(* whatever a spelling resolves to exists (or is the source / its parent chain): nothing is invented *)
Lemma bubble_sound fuel root : forall cur segs p,
  exists_at root cur = true -> bubble fuel root cur segs = Some p -> exists_at root p = true.
Proof.
  induction fuel as [|f IH]; intros cur segs p Hc; simpl;
    (destruct (exists_at root (cur ++ segs)) eqn:E; [intros H; injection H as <-; exact E|]);
    (destruct (match segs with [k] => String.eqb k (last_key root cur) | _ => false end); [intros H; injection H as <-; exact Hc|]).
  - destruct cur; discriminate.
  - destruct cur as [|x r]; [discriminate|]. intros H. eapply IH; [|exact H].
    (* a prefix of an existing path exists *)
    clear -Hc. unfold parent_path.
    assert (G : forall t p q, descend t (p ++ q) <> None -> descend t p <> None).
    { intros t p; revert t; induction p as [|k p IHp]; intros t q Hd; [destruct t; intro; discriminate|].
      destruct t as [key kids]. cbn [descend app kkids] in *. induction kids as [|c cs IHc]; [exact Hd|].
      destruct (String.eqb (kkey c) k); [eapply IHp; exact Hd | apply IHc; exact Hd]. }
    unfold exists_at in *. destruct (descend root (x :: r)) eqn:E; [|discriminate].
    assert (Hsplit : x :: r = removelast (x :: r) ++ [last (x :: r) ""]) by (apply app_removelast_last; discriminate).
    destruct (descend root (removelast (x :: r))) eqn:E2; [reflexivity|]. exfalso.
    apply (G root (removelast (x :: r)) [last (x :: r) ""]); [rewrite <- Hsplit, E; discriminate | exact E2].
Qed.
