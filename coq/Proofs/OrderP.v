(* Oracle independence (property C16): what the engine computes from the active SET does not depend on the order in
   which the set happens to be listed (Python: the iteration order of a set of objects hashed by address). *)
From XSM Require Import Model.Macro Proofs.TreeP Proofs.GuardP Proofs.SortP Proofs.HistP.
From Coq Require Import Lia Permutation.

Lemma filter_perm {A} (f : A -> bool) l1 l2 : Permutation l1 l2 -> Permutation (filter f l1) (filter f l2).
Proof.
  induction 1 as [|x l l' _ IH|x y l|l l' l'' _ IH1 _ IH2]; simpl.
  - constructor.
  - destruct (f x); [now constructor | exact IH].
  - destruct (f x), (f y); try reflexivity. apply perm_swap.
  - etransitivity; eassumption.
Qed.

Lemma existsb_perm {A} (f : A -> bool) l1 l2 : Permutation l1 l2 -> existsb f l1 = existsb f l2.
Proof.
  induction 1 as [|x l l' _ IH|x y l|l l' l'' _ IH1 _ IH2]; simpl; try congruence.
  destruct (f x), (f y); reflexivity.
Qed.

Lemma mem_perm x l1 l2 : Permutation l1 l2 -> mem x l1 = mem x l2.
Proof. unfold mem. apply existsb_perm. Qed.

Lemma filter_nodup {A} (f : A -> bool) l : NoDup l -> NoDup (filter f l).
Proof.
  induction 1 as [|x l Hx _ IH]; simpl; [constructor|].
  destruct (f x); [|exact IH]. constructor; [|exact IH]. intros Hin. apply filter_In in Hin. tauto.
Qed.

Lemma filter_forall {A} (P : A -> Prop) (f : A -> bool) l : Forall P l -> Forall P (filter f l).
Proof. rewrite !Forall_forall. intros H x Hx. apply filter_In in Hx. now apply H. Qed.

(* ---- guards: `in` guards only ask about membership ---- *)
Lemma state_in_perm m C1 C2 t : Permutation C1 C2 -> state_in m C1 t = state_in m C2 t.
Proof. intros P. unfold state_in. destruct (String.eqb t ""); [reflexivity|]. now apply existsb_perm. Qed.

Lemma geval_perm m C1 C2 cx g : Permutation C1 C2 -> geval m C1 cx g = geval m C2 cx g.
Proof.
  intros P. induction g as [v z|k|k|t|l IH|l IH|g IH] using guard_ind'; try reflexivity.
  - simpl. now rewrite (state_in_perm m C1 C2 t P).
  - cbn [geval]. induction l as [|x r IHr]; [reflexivity|].
    inversion IH as [|? ? Px Pr]; subst. rewrite Px. destruct (geval m C2 cx x) as [[|]|]; try reflexivity. now apply IHr.
  - cbn [geval]. induction l as [|x r IHr]; [reflexivity|].
    inversion IH as [|? ? Px Pr]; subst. rewrite Px. destruct (geval m C2 cx x) as [[|]|]; try reflexivity. now apply IHr.
  - cbn [geval]. now rewrite IH.
Qed.

Lemma passes_perm m C1 C2 cx t : Permutation C1 C2 -> passes m C1 cx t = passes m C2 cx t.
Proof. intros P. unfold passes. destruct (t_guard t); [now apply geval_perm | reflexivity]. Qed.

(* ---- selection only uses the guard oracle pointwise ---- *)
Section Ext.
  Variables f1 f2 : trans -> option bool.
  Hypothesis Hf : forall t, f1 t = f2 t.

  Lemma filter_pass_ext l : filter_pass f1 l = filter_pass f2 l.
  Proof. induction l as [|t r IH]; simpl; [reflexivity|]. now rewrite Hf, IH. Qed.

  Lemma on_bucket_ext l : on_bucket f1 l = on_bucket f2 l.
  Proof. induction l as [|t r IH]; simpl; [reflexivity|]. now rewrite Hf, IH. Qed.

  Lemma on_keys_ext on keys : on_keys f1 on keys = on_keys f2 on keys.
  Proof. induction keys as [|k r IH]; simpl; [reflexivity|]. now rewrite on_bucket_ext, IH. Qed.

  Lemma cands_state_ext m ev s : cands_state f1 m ev s = cands_state f2 m ev s.
  Proof.
    unfold cands_state, obind. rewrite on_keys_ext.
    destruct (n_ondone (nd m s)) as [t|]; destruct (e_kind ev); rewrite ?filter_pass_ext;
      repeat match goal with |- context [filter_pass f1 ?l] => rewrite (filter_pass_ext l) end; reflexivity.
  Qed.

  Lemma collect_chain_ext m ev chain : collect_chain f1 m ev chain = collect_chain f2 m ev chain.
  Proof. induction chain as [|x r IH]; simpl; [reflexivity|]. now rewrite cands_state_ext, IH. Qed.

  Lemma sel_loop_ext m ev ls : forall seen acc, sel_loop m f1 ev ls seen acc = sel_loop m f2 ev ls seen acc.
  Proof.
    induction ls as [|l r IH]; intros seen acc; simpl; [reflexivity|].
    unfold collect. rewrite collect_chain_ext.
    destruct (collect_chain f2 m ev (anc_self m l)) as [el|]; [|reflexivity].
    destruct (first_max _ el) as [w|]; [|apply IH]. destruct (mem (t_id w) seen); apply IH.
  Qed.

  Lemma select_with_ext m C ev : select_with m f1 C ev = select_with m f2 C ev.
  Proof. unfold select_with. now rewrite sel_loop_ext. Qed.
End Ext.

(* ---- the theorems ---- *)
Section Indep.
  Variable m : machine.
  Hypothesis Hids : ids_distinct m.
  Variables C1 C2 : config.
  Hypothesis HD : Forall (fun s => s < size m) C1.
  Hypothesis HN : NoDup C1.
  Hypothesis HP : Permutation C1 C2.

  Lemma leaves_canonical : sort_by (lt_negdepth_id m) (leaves m C1) = sort_by (lt_negdepth_id m) (leaves m C2).
  Proof.
    unfold leaves. pose proof (filter_perm (is_leaf m) C1 C2 HP) as Pf.
    destruct (filter (is_leaf m) C1) as [|a r] eqn:E1.
    - apply Permutation_nil in Pf. rewrite Pf. now apply leaf_order_canonical.
    - destruct (filter (is_leaf m) C2) as [|b r2] eqn:E2; [symmetry in Pf; apply Permutation_nil in Pf; discriminate|].
      apply leaf_order_canonical; [assumption | | | exact Pf].
      + rewrite <- E1. now apply filter_forall.
      + rewrite <- E1. now apply filter_nodup.
  Qed.

  (* the selected transitions, in order, are the same *)
  Theorem select_independent cx ev : select m C1 cx ev = select m C2 cx ev.
  Proof.
    unfold select. rewrite (select_with_ext (passes m C1 cx) (passes m C2 cx)) by (intros t; now apply passes_perm).
    unfold select_with. now rewrite leaves_canonical.
  Qed.

  Theorem can_independent cx ev : can m C1 cx ev = can m C2 cx ev.
  Proof. unfold can. now rewrite select_independent. Qed.

  (* the exit order is the same *)
  Theorem exit_order_independent d tgt :
    sort_by (lt_depth_id m) (exit_set m C1 d tgt) = sort_by (lt_depth_id m) (exit_set m C2 d tgt).
  Proof.
    assert (H : forall f, sort_by (lt_depth_id m) (filter f C1) = sort_by (lt_depth_id m) (filter f C2)).
    { intros f. apply exit_order_canonical; [assumption | now apply filter_forall | now apply filter_nodup | now apply filter_perm]. }
    unfold exit_set. destruct (is_parallel m d); [|apply H].
    destruct (branch_of m d tgt) as [b|]; [|apply H].
    apply exit_order_canonical; [assumption | now apply filter_forall, filter_forall | now apply filter_nodup, filter_nodup | now apply filter_perm, filter_perm].
  Qed.

  (* ... also when the target is a history pseudo-state (the exit set then depends on what is remembered) *)
  Theorem exit_order_independent_h H d tgt :
    sort_by (lt_depth_id m) (exit_set_h m C1 H d tgt) = sort_by (lt_depth_id m) (exit_set_h m C2 H d tgt).
  Proof.
    assert (Hf : forall f, sort_by (lt_depth_id m) (filter f C1) = sort_by (lt_depth_id m) (filter f C2)).
    { intros f. apply exit_order_canonical; [assumption | now apply filter_forall | now apply filter_nodup | now apply filter_perm]. }
    unfold exit_set_h. destruct (is_history m tgt); [|apply exit_order_independent].
    destruct (is_parallel m d); [|apply Hf].
    apply exit_order_canonical; [assumption | now apply filter_forall, filter_forall | now apply filter_nodup, filter_nodup | now apply filter_perm, filter_perm].
  Qed.

  (* what history remembers, in order, is the same *)
  Theorem remembered_independent p : remembered m C1 p = remembered m C2 p.
  Proof.
    unfold remembered. apply exit_order_canonical; [assumption | now apply filter_forall | now apply filter_nodup | now apply filter_perm].
  Qed.

  (* what hooks, subscribers and snapshots are shown is the same *)
  Theorem reported_independent : sort_nat C1 = sort_nat C2.
  Proof. now apply sort_nat_canonical. Qed.
End Indep.
