(* Tie T for the ancestry oracle: base_interpreter._is_descendant decides ancestry by a STRING test on state ids
   (`node.id.startswith(ancestor.id + ".") or node == ancestor`); the model decides it on the tree
   (`is_desc m s a` = a occurs on the parent chain of s).  For machines whose ids are dotted paths (the id of a child
   is the id of its parent, a dot, and a key without dots - which is how models.py builds them) with pairwise distinct
   ids, the function as RE-TRANSLATED from the current source (Gen/GenTree.v) equals the model's test. *)
From XSM Require Import Model.Macro Proofs.TreeP Proofs.GuardP Proofs.SortP Proofs.DescentP Proofs.PreserveP Gen.GenTree.
From Coq Require Import Lia.

Fixpoint has_dot (s : string) : bool :=
  match s with EmptyString => false | String c r => Ascii.eqb c "."%char || has_dot r end.

Lemma prefix_app p r : String.prefix p (p ++ r) = true.
Proof. induction p as [|c p IH]; cbn [append String.prefix]; [now destruct r|]. destruct (Ascii.ascii_dec c c); [exact IH | congruence]. Qed.

Lemma prefix_app_r a p x : String.prefix a p = true -> String.prefix a (p ++ x) = true.
Proof.
  revert p; induction a as [|c a IH]; intros p H; [now destruct (p ++ x)%string|].
  destruct p as [|c' p]; cbn [append String.prefix] in *; [discriminate|]. destruct (Ascii.ascii_dec c c'); [now apply IH | discriminate].
Qed.

(* a prefix that ends in a dot cannot reach into a dot-free string *)
Lemma prefix_dot_in k : forall a, String.prefix (a ++ ".") k = true -> has_dot k = true.
Proof.
  induction k as [|c k IH]; intros a H.
  - destruct a; cbn [append String.prefix] in H; discriminate.
  - destruct a as [|c' a]; cbn [append String.prefix] in H.
    + destruct (Ascii.ascii_dec "."%char c) as [<-|]; [reflexivity | discriminate].
    + destruct (Ascii.ascii_dec c' c); [|discriminate]. simpl. rewrite (IH a H). apply orb_true_r.
Qed.

(* (a ++ ".") is a prefix of (p ++ "." ++ k) with k dot-free: it already is a prefix of (p ++ ".") *)
Lemma prefix_stops p : forall a k, has_dot k = false -> String.prefix (a ++ ".") (p ++ "." ++ k) = true ->
  String.prefix (a ++ ".") (p ++ ".") = true.
Proof.
  induction p as [|c p IH]; intros a k Hk H.
  - destruct a as [|c' a]; cbn [append String.prefix] in *; [reflexivity|].
    destruct (Ascii.ascii_dec c' "."%char); [|discriminate]. apply prefix_dot_in in H. congruence.
  - destruct a as [|c' a]; cbn [append String.prefix] in *.
    + destruct (Ascii.ascii_dec "."%char c); [now destruct (p ++ ".")%string | discriminate].
    + destruct (Ascii.ascii_dec c' c); [now apply (IH a k) | discriminate].
Qed.

(* (a ++ ".") is a prefix of (p ++ "."): a = p, or it already is a prefix of p *)
Lemma prefix_dot_cases p : forall a, String.prefix (a ++ ".") (p ++ ".") = true -> a = p \/ String.prefix (a ++ ".") p = true.
Proof.
  induction p as [|c p IH]; intros a H.
  - destruct a as [|c' a]; cbn [append String.prefix] in *; [now left|]. destruct (Ascii.ascii_dec c' "."%char); [|discriminate].
    destruct a; cbn [append String.prefix] in H; discriminate.
  - destruct a as [|c' a]; cbn [append String.prefix] in *.
    + destruct (Ascii.ascii_dec "."%char c); [right; now destruct p | discriminate].
    + destruct (Ascii.ascii_dec c' c) as [->|]; [|discriminate]. destruct (IH a H) as [->|Hp]; [now left | now right].
Qed.

Lemma app_assoc_str (a b c : string) : (a ++ b ++ c)%string = ((a ++ b) ++ c)%string.
Proof. induction a as [|x a IH]; simpl; [reflexivity | now rewrite IH]. Qed.

Lemma prefix_no_dot a s : has_dot s = false -> String.prefix (a ++ ".") s = false.
Proof. intros Hs. destruct (String.prefix (a ++ ".") s) eqn:E; [|reflexivity]. apply prefix_dot_in in E. congruence. Qed.

(* ids are dotted paths *)
Definition ids_dotted (m : machine) : Prop :=
  has_dot (id_of m 0) = false /\
  forall c p, c < size m -> parent m c = Some p -> exists k, has_dot k = false /\ id_of m c = (id_of m p ++ "." ++ k)%string.

Section Bridge.
  Variable m : machine.
  Hypothesis Hwf : wf m = true.
  Hypothesis Hids : ids_distinct m.
  Hypothesis Hdot : ids_dotted m.

  Lemma id_eqb s a : s < size m -> a < size m -> String.eqb (id_of m s) (id_of m a) = Nat.eqb s a.
  Proof.
    intros Hs Ha. destruct (Nat.eqb_spec s a) as [->|Hne]; [apply String.eqb_refl|].
    apply String.eqb_neq. now apply Hids.
  Qed.

  (* the string test holds exactly for proper ancestors *)
  Lemma prefix_is_ancestor : forall s, s < size m -> forall a, a < size m ->
    String.prefix (id_of m a ++ ".") (id_of m s) = true <-> In a (ancestors m s).
  Proof.
    intros s. induction s as [s IH] using (well_founded_induction lt_wf). intros Hs a Ha.
    destruct Hdot as [Hroot Hch]. rewrite (ancestors_unfold m Hwf s Hs).
    destruct (parent m s) as [p|] eqn:Hp.
    - destruct (parent_props m Hwf s p Hs Hp) as [Hlt _]. assert (Hps : p < size m) by lia.
      destruct (Hch s p Hs Hp) as [k [Hk Eid]]. rewrite Eid. split.
      + intros H. pose proof (prefix_stops (id_of m p) (id_of m a) k Hk H) as H1.
        destruct (prefix_dot_cases (id_of m p) (id_of m a) H1) as [E|H2].
        * left. destruct (Nat.eq_dec p a) as [->|Hne]; [reflexivity|]. exfalso. apply (Hids p a Hps Ha Hne). now symmetry.
        * right. now apply (IH p Hlt Hps a Ha).
      + intros [E|Hin].
        * subst a. rewrite app_assoc_str. apply prefix_app.
        * apply prefix_app_r. now apply (IH p Hlt Hps a Ha).
    - destruct (root_props m Hwf s Hs Hp) as [-> _]. split; [|intros []].
      intros H. rewrite (prefix_no_dot (id_of m a) (id_of m 0) Hroot) in H. discriminate.
  Qed.

  (* the function translated from the source = the model's tree test *)
  Theorem is_descendant_bridge s a : s < size m -> a < size m ->
    is_descendant (id_of m s) (Some (id_of m a)) = is_desc m s a.
  Proof.
    intros Hs Ha. unfold is_descendant, startswith, is_desc, anc_self. cbn [mem existsb].
    rewrite (id_eqb s a Hs Ha).
    destruct (String.prefix (id_of m a ++ ".") (id_of m s)) eqn:E.
    - apply (prefix_is_ancestor s Hs a Ha) in E. apply mem_In in E. unfold mem in E. rewrite E. now rewrite orb_true_r.
    - simpl. destruct (Nat.eqb_spec s a) as [->|Hne].
      + now rewrite Nat.eqb_refl.
      + assert (Hn : Nat.eqb a s = false) by (apply Nat.eqb_neq; congruence). rewrite Hn. simpl.
        destruct (existsb (Nat.eqb a) (ancestors m s)) eqn:E2; [|reflexivity].
        assert (Hin : In a (ancestors m s)) by (apply mem_In; exact E2).
        apply (prefix_is_ancestor s Hs a Ha) in Hin. congruence.
  Qed.

  (* `ancestor is None` stands for the machine root: everything is a descendant *)
  Theorem is_descendant_none s : is_descendant (id_of m s) None = true.
  Proof. reflexivity. Qed.
End Bridge.

(* the side condition is decidable *)
Fixpoint strip_prefix (p s : string) : option string :=
  match p with
  | EmptyString => Some s
  | String c p' => match s with
                   | String c' s' => if Ascii.eqb c c' then strip_prefix p' s' else None
                   | EmptyString => None
                   end
  end.

Lemma strip_prefix_ok p : forall s r, strip_prefix p s = Some r -> s = (p ++ r)%string.
Proof.
  induction p as [|c p IH]; intros s r H; simpl in *; [now inversion H|].
  destruct s as [|c' s]; [discriminate|]. destruct (Ascii.eqb_spec c c') as [->|]; [|discriminate].
  now rewrite (IH s r H).
Qed.

Definition ids_dottedb (m : machine) : bool :=
  negb (has_dot (id_of m 0)) &&
  forallb (fun c => match parent m c with
                    | None => true
                    | Some p => match strip_prefix (id_of m p ++ ".") (id_of m c) with
                                | Some k => negb (has_dot k)
                                | None => false
                                end
                    end) (seq 0 (size m)).

Lemma ids_dottedb_ok m : ids_dottedb m = true -> ids_dotted m.
Proof.
  unfold ids_dottedb, ids_dotted. intros H. apply andb_prop in H as [H0 H]. split; [now apply negb_true_iff|].
  rewrite forallb_forall in H. intros c p Hc Hp. assert (Hin : In c (seq 0 (size m))) by (apply in_seq; lia).
  specialize (H c Hin). rewrite Hp in H. destruct (strip_prefix (id_of m p ++ ".") (id_of m c)) as [k|] eqn:E; [|discriminate].
  exists k. split; [now apply negb_true_iff|]. rewrite (strip_prefix_ok _ _ _ E). symmetry. apply app_assoc_str.
Qed.


(* what the harness evaluates for every machine it hands to the correspondence: the hypotheses of the bridge *)
Definition ancestry_side_ok (m : machine) : bool := wf m && ids_distinctb m && ids_dottedb m.

Theorem ancestry_oracle_of_source m : ancestry_side_ok m = true ->
  forall s a, s < size m -> a < size m -> is_descendant (id_of m s) (Some (id_of m a)) = is_desc m s a.
Proof.
  unfold ancestry_side_ok. intros H. apply andb_prop in H as [H H3]. apply andb_prop in H as [H1 H2].
  apply (is_descendant_bridge m H1 (ids_distinctb_ok m H2) (ids_dottedb_ok m H3)).
Qed.
