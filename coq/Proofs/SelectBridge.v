(* Tie T for transition SELECTION: _collect_eligible_transitions and _select_transitions as RE-TRANSLATED from the current
   source on every build (Gen/GenGeom.v) are the model's `collect` / `select_with` (Model/Select.v), for every guard oracle
   that answers (the nested helper `_passes` - the transition's guard through _is_guard_satisfied, memoised per selection
   pass - is read as a function `gpass : trans -> bool`; a guard whose implementation is MISSING raises out of the
   selection and is the `None` of the model, outside this bridge). *)
From XSM Require Import Model.TreeLib Gen.GenMatch Gen.GenGeom Proofs.TreeP Proofs.GenBridge Proofs.GeomBridge Proofs.SelectP.
From Coq Require Import Lia.

Section Sel.
  Variable gpass : trans -> bool.
  Let F : trans -> option bool := fun t => Some (gpass t).

  (* ---- total readings of the model's option-valued pieces ---- *)
  Lemma filter_pass_tot l : filter_pass F l = Some (filter gpass l).
  Proof. induction l as [|t r IH]; cbn [filter_pass filter]; [reflexivity|]. unfold F at 1. rewrite IH. now destruct (gpass t). Qed.

  Fixpoint bucket (ts : list trans) : list trans * bool :=
    match ts with
    | [] => ([], false)
    | t :: r => if t_forbidden t then ([], true)
                else let (l, blk) := bucket r in ((if gpass t then t :: l else l), blk)
    end.
  Lemma on_bucket_tot ts : on_bucket F ts = Some (bucket ts).
  Proof.
    induction ts as [|t r IH]; cbn [on_bucket bucket]; [reflexivity|].
    destruct (t_forbidden t); [reflexivity|]. unfold F at 1. rewrite IH. now destruct (bucket r).
  Qed.

  Fixpoint keys_total (on : list (string * list trans)) (keys : list string) : list trans * bool :=
    match keys with
    | [] => ([], false)
    | k :: r => let (l, blk) := bucket (lookup_on on k) in
                if blk then (l, true) else let (l2, b) := keys_total on r in (l ++ l2, b)
    end.
  Lemma on_keys_tot on keys : on_keys F on keys = Some (keys_total on keys).
  Proof.
    induction keys as [|k r IH]; cbn [on_keys keys_total]; [reflexivity|].
    rewrite on_bucket_tot. destruct (bucket (lookup_on on k)) as [l [|]]; [reflexivity|].
    rewrite IH. now destruct (keys_total on r).
  Qed.

  (* ---- the loops of the translated source ---- *)
  Definition inner_step (acc_ : bool * bool * list trans) (v_t : trans) : bool * bool * list trans :=
    let '(brk_, v_blocked, v_eligible) := acc_ in
    if brk_ then acc_ else
    if t_forbidden v_t then (true, true, v_eligible)
    else (false, v_blocked, if gpass v_t then v_eligible ++ [v_t] else v_eligible).

  Lemma inner_broken ts b el : fold_left inner_step ts (true, b, el) = (true, b, el).
  Proof. induction ts as [|t r IH]; cbn [fold_left]; [reflexivity|]. exact IH. Qed.

  Lemma inner_spec ts : forall b el,
    fold_left inner_step ts (false, b, el) =
    let (l, blk) := bucket ts in (blk, (if blk then true else b), el ++ l).
  Proof.
    induction ts as [|t r IH]; intros b el; cbn [fold_left bucket].
    - now rewrite app_nil_r.
    - unfold inner_step at 2. destruct (t_forbidden t).
      + rewrite inner_broken. now rewrite app_nil_r.
      + rewrite IH. destruct (bucket r) as [l blk]. destruct (gpass t); [|reflexivity]. now rewrite <- app_assoc.
  Qed.

  Definition outer_step (on : list (string * list trans)) (acc_ : bool * bool * list trans) (v_key : string) : bool * bool * list trans :=
    let '(brk_, v_blocked, v_eligible) := acc_ in
    if brk_ then acc_ else
    let '(_, v_blocked, v_eligible) := fold_left inner_step (lookup_on on v_key) (false, v_blocked, v_eligible) in
    if v_blocked then (true, v_blocked, v_eligible) else (false, v_blocked, v_eligible).

  Lemma outer_broken on keys b el : fold_left (outer_step on) keys (true, b, el) = (true, b, el).
  Proof. induction keys as [|k r IH]; cbn [fold_left]; [reflexivity|]. exact IH. Qed.

  Lemma outer_spec on keys : forall el,
    fold_left (outer_step on) keys (false, false, el) = let (l, blk) := keys_total on keys in (blk, blk, el ++ l).
  Proof.
    induction keys as [|k r IH]; intros el; cbn [fold_left keys_total].
    - now rewrite app_nil_r.
    - unfold outer_step at 2. rewrite inner_spec. destruct (bucket (lookup_on on k)) as [l [|]].
      + now rewrite outer_broken.
      + rewrite IH. destruct (keys_total on r) as [l2 b]. now rewrite <- app_assoc.
  Qed.

  Lemma fold_filter_app {A} (c : A -> bool) l : forall el,
    fold_left (fun el t => if c t then el ++ [t] else el) l el = el ++ filter c l.
  Proof.
    induction l as [|t r IH]; intros el; cbn [fold_left filter]; [now rewrite app_nil_r|].
    rewrite IH. destruct (c t); [now rewrite <- app_assoc | reflexivity].
  Qed.

  Lemma fold_concat_filter {A} (c : A -> bool) ll : forall el,
    fold_left (fun el l => fold_left (fun el t => if c t then el ++ [t] else el) l el) ll el = el ++ filter c (List.concat ll).
  Proof.
    induction ll as [|l r IH]; intros el; cbn [fold_left List.concat]; [now rewrite app_nil_r|].
    rewrite IH, fold_filter_app, filter_app. now rewrite <- app_assoc.
  Qed.

  Lemma fold_invokes {I} (sel : I -> bool) (ts : I -> list trans) (c : trans -> bool) invs : forall el,
    fold_left (fun el i => if sel i then fold_left (fun el t => if c t then el ++ [t] else el) (ts i) el else el) invs el
    = el ++ filter c (List.concat (map (fun i => if sel i then ts i else []) invs)).
  Proof.
    induction invs as [|i r IH]; intros el; cbn [fold_left map List.concat]; [now rewrite app_nil_r|].
    rewrite IH. destruct (sel i); [|reflexivity]. rewrite fold_filter_app, filter_app. now rewrite <- app_assoc.
  Qed.

  Lemma filter_filter {A} (a b : A -> bool) l : filter b (filter a l) = filter (fun t => a t && b t) l.
  Proof. induction l as [|t r IH]; cbn [filter]; [reflexivity|]. destruct (a t); cbn [filter andb]; [destruct (b t)|]; now rewrite IH. Qed.

  (* ---- one state of the upward walk ---- *)
  Definition state_total (m : machine) (ev : event) (s : nat) : list trans * bool :=
    let n := nd m s in
    let ty := e_type ev in
    let keys := map fst (n_on n) in
    let r1 := if String.eqb ty "" then ([], false) else keys_total (n_on n) (matching keys ty) in
    if snd r1 then (fst r1, true) else
    let l2 := if is_transient_check ev && in_list "" keys then filter gpass (lookup_on (n_on n) "") else [] in
    let l3 := match n_ondone n with
              | Some t => if String.eqb (t_event t) ty then filter gpass [t] else []
              | None => [] end in
    let l4 := match e_kind ev with
              | EAfter => filter gpass (filter (fun t => String.eqb (t_event t) ty) (List.concat (map snd (n_after n))))
              | _ => [] end in
    let l5 := match e_kind ev with
              | EDone src => filter gpass (filter (fun t => String.eqb (t_event t) ty)
                               (List.concat (map (fun i => if String.eqb src (i_id i) then i_ondone i ++ i_onerror i else []) (n_invoke n))))
              | _ => [] end in
    (fst r1 ++ l2 ++ l3 ++ l4 ++ l5, false).

  Lemma cands_state_total m ev s : cands_state F m ev s = Some (state_total m ev s).
  Proof.
    unfold cands_state, state_total. cbn zeta.
    destruct (String.eqb (e_type ev) "") eqn:Ety; cbn [obind snd fst].
    - rewrite !filter_pass_tot. cbn [obind].
      destruct (n_ondone (nd m s)) as [t|]; [destruct (String.eqb (t_event t) (e_type ev)); rewrite ?filter_pass_tot|]; cbn [obind];
        destruct (e_kind ev); rewrite ?filter_pass_tot; cbn [obind];
        destruct (is_transient_check ev && in_list "" (map fst (n_on (nd m s)))); rewrite ?filter_pass_tot; reflexivity.
    - rewrite on_keys_tot. cbn [obind].
      destruct (keys_total (n_on (nd m s)) (matching (map fst (n_on (nd m s))) (e_type ev))) as [l1 [|]]; cbn [snd fst]; [reflexivity|].
      destruct (n_ondone (nd m s)) as [t|]; [destruct (String.eqb (t_event t) (e_type ev)); rewrite ?filter_pass_tot|]; cbn [obind];
        destruct (e_kind ev); rewrite ?filter_pass_tot; cbn [obind];
        destruct (is_transient_check ev && in_list "" (map fst (n_on (nd m s)))); rewrite ?filter_pass_tot; reflexivity.
  Qed.

  Fixpoint chain_total (m : machine) (ev : event) (l : list nat) : list trans :=
    match l with
    | [] => []
    | s :: r => let (c, blk) := state_total m ev s in if blk then c else c ++ chain_total m ev r
    end.
  Lemma collect_chain_total m ev l : collect_chain F m ev l = Some (chain_total m ev l).
  Proof.
    induction l as [|s r IH]; cbn [collect_chain chain_total]; [reflexivity|].
    rewrite cands_state_total. destruct (state_total m ev s) as [c [|]]; [reflexivity|]. now rewrite IH.
  Qed.
End Sel.

Section Collect.
  Variable gpass : trans -> bool.
  Variable m : machine.
  Variable ev : event.

  (* what one turn of the `while current:` loop does after the `on` part, in the translated text *)
  Definition rest_of_turn (tc : bool) (c : nat) (el : list trans) : list trans :=
    let n := nd m c in
    let el := if tc && in_list "" (map fst (n_on n))
              then fold_left (fun el t => if gpass t then el ++ [t] else el) (lookup_on (n_on n) "") el else el in
    let el := match n_ondone n with
              | Some t => if String.eqb (t_event t) (e_type ev) then (if gpass t then el ++ [t] else el) else el
              | None => el end in
    let el := if is_after_event ev
              then fold_left (fun el l => fold_left (fun el t => if String.eqb (t_event t) (e_type ev) && gpass t then el ++ [t] else el) l el)
                             (map snd (n_after n)) el else el in
    let el := if is_done_event ev
              then fold_left (fun el i => if ev_src_eqb ev (i_id i)
                                          then fold_left (fun el t => if String.eqb (t_event t) (e_type ev) && gpass t then el ++ [t] else el)
                                                         (i_ondone i ++ i_onerror i) el
                                          else el) (n_invoke n) el else el in
    el.

  Lemma loop_turn st tc ex f el c :
    collect_eligible_transitions_loop1 m gpass st ev tc ex (S f) el (Some c) =
    if negb ex then
      let '(_, blocked, el1) := fold_left (outer_step gpass (n_on (nd m c)))
                                          (matching_descriptors (map fst (n_on (nd m c))) (e_type ev)) (false, false, el) in
      if blocked then (el1, Some c)
      else collect_eligible_transitions_loop1 m gpass st ev tc ex f (rest_of_turn tc c el1) (parent m c)
    else collect_eligible_transitions_loop1 m gpass st ev tc ex f (rest_of_turn tc c el) (parent m c).
  Proof. reflexivity. Qed.

  Lemma rest_of_turn_spec c el :
    rest_of_turn (is_transient_check ev) c el =
    let n := nd m c in
    let keys := map fst (n_on n) in
    let ty := e_type ev in
    el ++ (if is_transient_check ev && in_list "" keys then filter gpass (lookup_on (n_on n) "") else [])
       ++ (match n_ondone n with Some t => if String.eqb (t_event t) ty then filter gpass [t] else [] | None => [] end)
       ++ (match e_kind ev with
           | EAfter => filter gpass (filter (fun t => String.eqb (t_event t) ty) (List.concat (map snd (n_after n))))
           | _ => [] end)
       ++ (match e_kind ev with
           | EDone src => filter gpass (filter (fun t => String.eqb (t_event t) ty)
                            (List.concat (map (fun i => if String.eqb src (i_id i) then i_ondone i ++ i_onerror i else []) (n_invoke n))))
           | _ => [] end).
  Proof.
    unfold rest_of_turn. cbn zeta.
    set (n := nd m c). set (ty := e_type ev).
    rewrite !filter_filter.
    assert (E4 : forall el0, (if is_after_event ev
               then fold_left (fun el l => fold_left (fun el t => if String.eqb (t_event t) ty && gpass t then el ++ [t] else el) l el)
                              (map snd (n_after n)) el0 else el0)
              = el0 ++ match e_kind ev with
                       | EAfter => filter (fun t => String.eqb (t_event t) ty && gpass t) (List.concat (map snd (n_after n)))
                       | _ => [] end).
    { intros el0. unfold is_after_event. destruct (e_kind ev); rewrite ?app_nil_r; try reflexivity. apply fold_concat_filter. }
    assert (E5 : forall el0, (if is_done_event ev
               then fold_left (fun el i => if ev_src_eqb ev (i_id i)
                                           then fold_left (fun el t => if String.eqb (t_event t) ty && gpass t then el ++ [t] else el)
                                                          (i_ondone i ++ i_onerror i) el
                                           else el) (n_invoke n) el0 else el0)
              = el0 ++ match e_kind ev with
                       | EDone src => filter (fun t => String.eqb (t_event t) ty && gpass t)
                                        (List.concat (map (fun i => if String.eqb src (i_id i) then i_ondone i ++ i_onerror i else []) (n_invoke n)))
                       | _ => [] end).
    { intros el0. unfold is_done_event, ev_src_eqb. destruct (e_kind ev) as [| |src]; rewrite ?app_nil_r; try reflexivity.
      apply (fold_invokes (fun i => String.eqb src (i_id i)) (fun i => i_ondone i ++ i_onerror i)). }
    rewrite E5, E4.
    assert (E3 : forall el0, match n_ondone n with
                            | Some t => if String.eqb (t_event t) ty then (if gpass t then el0 ++ [t] else el0) else el0
                            | None => el0 end
                 = el0 ++ match n_ondone n with Some t => if String.eqb (t_event t) ty then filter gpass [t] else [] | None => [] end).
    { intros el0. destruct (n_ondone n) as [t|]; [|now rewrite app_nil_r].
      destruct (String.eqb (t_event t) ty); [|now rewrite app_nil_r]. cbn [filter]. destruct (gpass t); [reflexivity | now rewrite app_nil_r]. }
    rewrite E3.
    destruct (is_transient_check ev && in_list "" (map fst (n_on n))).
    - rewrite fold_filter_app. rewrite <- !app_assoc. destruct (e_kind ev); rewrite ?filter_filter; reflexivity.
    - cbn [app]. rewrite <- !app_assoc. destruct (e_kind ev); rewrite ?filter_filter; reflexivity.
  Qed.

  Lemma collect_loop_spec st : forall f el cur,
    fst (collect_eligible_transitions_loop1 m gpass st ev (is_transient_check ev) (String.eqb (e_type ev) "") f el cur)
    = el ++ chain_total gpass m ev (chain f m cur).
  Proof.
    induction f as [|f IH]; intros el cur; [cbn; now rewrite app_nil_r|].
    destruct cur as [c|]; [|cbn; now rewrite app_nil_r].
    rewrite loop_turn. cbn [chain chain_total]. unfold state_total. cbn zeta.
    destruct (String.eqb (e_type ev) "") eqn:Ety; cbn [negb snd fst].
    - rewrite IH, rest_of_turn_spec. cbn zeta. cbn [app]. now rewrite <- !app_assoc.
    - rewrite outer_spec, gen_matching_eq.
      destruct (keys_total gpass (n_on (nd m c)) (matching (map fst (n_on (nd m c))) (e_type ev))) as [l1 [|]]; cbn [snd fst].
      + reflexivity.
      + rewrite IH, rest_of_turn_spec. cbn zeta. now rewrite <- !app_assoc.
  Qed.

  (* the candidates of one active leaf, as the source collects them, are the model's *)
  Theorem collect_bridge leaf :
    collect (fun t => Some (gpass t)) m ev leaf = Some (collect_eligible_transitions m gpass leaf ev).
  Proof.
    unfold collect. rewrite collect_chain_total. f_equal.
    unfold collect_eligible_transitions. cbn zeta.
    pose proof (collect_loop_spec leaf (S (size m)) [] (Some leaf)) as H.
    unfold is_transient_check in H.
    destruct (collect_eligible_transitions_loop1 m gpass leaf ev _ _ (S (size m)) [] (Some leaf)) as [el c]. cbn [fst] in H.
    rewrite H, chain_anc_self. reflexivity.
  Qed.
End Collect.

Lemma fold_left_ext_pw {A B} (f g : A -> B -> A) l : (forall a x, f a x = g a x) -> forall a0, fold_left f l a0 = fold_left g l a0.
Proof. intros H. induction l as [|x l IH]; intros a0; cbn [fold_left]; [reflexivity|]. now rewrite H, IH. Qed.

Section Select.
  Variable gpass : trans -> bool.
  Variable m : machine.
  Variable ev : event.

  Lemma py_max_fold (key : trans -> nat) xs : forall b,
    fold_left (fun best x => if Nat.ltb (key best) (key x) then x else best) xs b
    = match first_max key xs with
      | None => b
      | Some u => if Nat.ltb (key b) (key u) then u else b
      end.
  Proof.
    induction xs as [|x r IH]; intros b; cbn [fold_left first_max]; [reflexivity|].
    rewrite IH. destruct (first_max key r) as [u|].
    - destruct (Nat.ltb_spec (key b) (key x)) as [H1|H1]; destruct (Nat.ltb_spec (key x) (key u)) as [H2|H2];
        repeat match goal with |- context [Nat.ltb ?a ?b] => destruct (Nat.ltb_spec a b) end; try reflexivity; lia.
    - reflexivity.
  Qed.

  Lemma first_max_py key (hd : trans) tl : first_max key (hd :: tl) = Some (py_max_by key hd tl).
  Proof.
    unfold py_max_by. rewrite py_max_fold. cbn [first_max].
    destruct (first_max key tl) as [u|]; [|reflexivity]. now destruct (Nat.ltb (key hd) (key u)).
  Qed.

  Definition sel_step (acc_ : list nat * list trans) (v_leaf : nat) : list nat * list trans :=
    let '(v_seen, v_selected) := acc_ in
    match collect_eligible_transitions m gpass v_leaf ev with
    | [] => (v_seen, v_selected)
    | hd_ :: tl_ =>
        let v_winner := py_max_by (fun t_ => depth m (t_src t_)) hd_ tl_ in
        if negb (mem (t_id v_winner) v_seen) then (set_add (t_id v_winner) v_seen, v_selected ++ [v_winner]) else (v_seen, v_selected)
    end.

  Lemma sel_loop_spec ls : forall seenM seenG acc, (forall x, mem x seenG = mem x seenM) ->
    sel_loop m (fun t => Some (gpass t)) ev ls seenM acc = Some (snd (fold_left sel_step ls (seenG, acc))).
  Proof.
    induction ls as [|l r IH]; intros seenM seenG acc Hs; cbn [sel_loop fold_left]; [reflexivity|].
    rewrite collect_bridge. unfold sel_step at 2.
    destruct (collect_eligible_transitions m gpass l ev) as [|hd tl]; [cbn [first_max]; now apply IH|].
    rewrite first_max_py. cbn zeta. rewrite Hs.
    destruct (mem (t_id (py_max_by (fun t_ => depth m (t_src t_)) hd tl)) seenM) eqn:E; cbn [negb]; [now apply IH|].
    apply IH. intros x. rewrite mem_set_add. cbn [mem existsb]. fold (mem x seenM). rewrite Hs. apply orb_comm.
  Qed.

  Lemma leaves_bridge C :
    (let v_leaves := filter (fun v_s => is_atomic m v_s || is_final m v_s || negb (truthy_list (children m v_s))) C in
     if negb (truthy_list v_leaves) then C else v_leaves) = leaves m C.
  Proof.
    cbn zeta. unfold leaves.
    rewrite (filter_ext (fun v_s => is_atomic m v_s || is_final m v_s || negb (truthy_list (children m v_s))) (is_leaf m)).
    - now destruct (filter (is_leaf m) C).
    - intros a. unfold is_atomic, is_final, is_leaf. destruct (kind_of m a); destruct (children m a); reflexivity.
  Qed.

  (* the transitions an event selects, as the source selects them, are the model's *)
  Theorem select_bridge C :
    select_with m (fun t => Some (gpass t)) C ev = Some (select_transitions m C gpass ev).
  Proof.
    unfold select_with, select_transitions. cbn zeta.
    pose proof (leaves_bridge C) as HL. cbn zeta in HL. rewrite HL.
    rewrite (sel_loop_spec (sort_by (lt_negdepth_id m) (leaves m C)) [] [] []) by reflexivity.
    f_equal. f_equal.
    match goal with |- _ = (let '(_, v_selected) := fold_left ?G ?ls ?a in _) =>
      assert (E : fold_left G ls a = fold_left sel_step ls a)
    end.
    { apply fold_left_ext_pw. intros [sn sl] leaf. unfold sel_step.
      destruct (collect_eligible_transitions m gpass leaf ev); [reflexivity|]. cbn zeta.
      now destruct (negb (mem (t_id (py_max_by (fun t_ => depth m (t_src t_)) t l)) sn)). }
    rewrite E.
    destruct (fold_left sel_step (sort_by (lt_negdepth_id m) (leaves m C)) ([], [])) as [sn sl]. reflexivity.
  Qed.
End Select.

(* with the model's own guard evaluation as the oracle: whenever every guard consulted answers (none is missing), the
   model's `select` returns exactly what the translated _select_transitions returns *)
From XSM Require Import Proofs.OrderP.
Theorem select_is_the_source m C cx ev (g : trans -> bool) :
  (forall t, passes m C cx t = Some (g t)) -> select m C cx ev = Some (select_transitions m C g ev).
Proof.
  intros Hg. unfold select. rewrite (select_with_ext (passes m C cx) (fun t => Some (g t)) Hg). apply select_bridge.
Qed.

Theorem can_is_the_source m C cx ev (g : trans -> bool) :
  (forall t, passes m C cx t = Some (g t)) -> can m C cx ev = truthy_list (select_transitions m C g ev).
Proof. intros Hg. unfold can. rewrite (select_is_the_source m C cx ev g Hg). now destruct (select_transitions m C g ev). Qed.

(* ---- a transition declared as null (forbidden) consumes its event at that state ---- *)
Lemma forbidden_first f m ev s k ks t r :
  String.eqb (e_type ev) "" = false ->
  matching (map fst (n_on (nd m s))) (e_type ev) = k :: ks ->
  lookup_on (n_on (nd m s)) k = t :: r -> t_forbidden t = true ->
  cands_state f m ev s = Some ([], true).
Proof.
  intros Hty Hm Hl Hf. unfold cands_state. cbn zeta. rewrite Hty, Hm. cbn [on_keys]. rewrite Hl. cbn [on_bucket]. rewrite Hf. reflexivity.
Qed.

Theorem null_forbids_source gpass m ev leaf pre s post k ks t r :
  anc_self m leaf = pre ++ s :: post ->
  String.eqb (e_type ev) "" = false ->
  matching_descriptors (map fst (n_on (nd m s))) (e_type ev) = k :: ks ->
  lookup_on (n_on (nd m s)) k = t :: r -> t_forbidden t = true ->
  Some (collect_eligible_transitions m gpass leaf ev) = collect_chain (fun t => Some (gpass t)) m ev (pre ++ [s]).
Proof.
  intros Ha Hty Hm Hl Hf. rewrite <- collect_bridge. unfold collect. rewrite Ha.
  apply SelectP.forbidden_stops with (l := []). rewrite gen_matching_eq in Hm. eapply forbidden_first; eassumption.
Qed.
