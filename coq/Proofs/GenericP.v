(* Reflection for the tree comparison of the translation-validation properties (C17, C18, C19). *)
From XSM Require Import Model.Generic.

Section GtInd.
  Variable P : gt -> Prop.
  Hypothesis H : forall l ks, Forall P ks -> P (G l ks).
  Fixpoint gt_ind' (t : gt) : P t :=
    match t with
    | G l ks => H l ks ((fix go (ks : list gt) : Forall P ks :=
                           match ks with [] => Forall_nil P | x :: r => Forall_cons x (gt_ind' x) (go r) end) ks)
    end.
End GtInd.

Theorem gt_eqb_spec a : forall b, gt_eqb a b = true <-> a = b.
Proof.
  induction a as [la ka IH] using gt_ind'. intros [lb kb]. cbn [gt_eqb].
  rewrite andb_true_iff, String.eqb_eq.
  assert (Hk : forall y,
    (fix all2 (x y : list gt) : bool :=
       match x, y with [] , [] => true | p :: x', q :: y' => gt_eqb p q && all2 x' y' | _, _ => false end) ka y = true <-> ka = y).
  { induction ka as [|p r IHr]; intros [|q y]; try (split; [discriminate | congruence]); [split; reflexivity|].
    inversion IH as [|? ? Hp Hr]; subst. rewrite andb_true_iff, (Hp q), (IHr Hr y). split; [intros [-> ->]; reflexivity | intros E; inversion E; auto]. }
  rewrite Hk. split; [intros [-> ->]; reflexivity | intros E; inversion E; auto].
Qed.

(* equal trees: every behaviour that is a function of the extracted structure is the same behaviour *)
Theorem equal_trees_equal_behaviour {B : Type} (beh : gt -> B) a b : gt_eqb a b = true -> beh a = beh b.
Proof. intros H. apply gt_eqb_spec in H. now subst. Qed.

Theorem gt_eqb_refl a : gt_eqb a a = true.
Proof. now apply gt_eqb_spec. Qed.

Theorem gt_eqb_sym a b : gt_eqb a b = gt_eqb b a.
Proof.
  destruct (gt_eqb a b) eqn:E1, (gt_eqb b a) eqn:E2; try reflexivity.
  - apply gt_eqb_spec in E1. subst. now rewrite gt_eqb_refl in E2.
  - apply gt_eqb_spec in E2. subst. now rewrite gt_eqb_refl in E1.
Qed.

(* the batch checker reports exactly the pairs that differ *)
Lemma bad_pairs_from_spec l : forall i n, In n (bad_pairs_from i l) <-> exists k a b, n = i + k /\ nth_error l k = Some (a, b) /\ a <> b.
Proof.
  induction l as [|[a b] r IH]; intros i n; simpl.
  - split; [intros [] | intros [k [x [y [_ [Hk _]]]]]; destruct k; discriminate].
  - destruct (gt_eqb a b) eqn:E.
    + apply gt_eqb_spec in E. subst b. rewrite IH. split.
      * intros [k [x [y [Hn [Hk Hne]]]]]. exists (S k), x, y. split; [rewrite Hn; now rewrite <- plus_n_Sm|]. now split.
      * intros [[|k] [x [y [Hn [Hk Hne]]]]]; simpl in Hk; [inversion Hk; subst; contradiction|].
        exists k, x, y. split; [rewrite Hn; now rewrite <- plus_n_Sm|]. now split.
    + assert (Hne : a <> b) by (intros ->; now rewrite gt_eqb_refl in E). simpl. rewrite IH. split.
      * intros [->|[k [x [y [Hn [Hk Hxy]]]]]].
        -- exists 0, a, b. split; [now rewrite <- plus_n_O|]. now split.
        -- exists (S k), x, y. split; [rewrite Hn; now rewrite <- plus_n_Sm|]. now split.
      * intros [[|k] [x [y [Hn [Hk Hxy]]]]]; simpl in Hk.
        -- left. now rewrite <- plus_n_O in Hn.
        -- right. exists k, x, y. split; [rewrite Hn; now rewrite <- plus_n_Sm|]. now split.
Qed.

Theorem bad_pairs_empty_all_equal l : bad_pairs l = [] -> forall a b, In (a, b) l -> a = b.
Proof.
  intros H a b Hin. destruct (gt_eqb a b) eqn:E; [now apply gt_eqb_spec|]. exfalso.
  apply In_nth_error in Hin as [k Hk].
  assert (Hn : In (0 + k) (bad_pairs l)).
  { apply bad_pairs_from_spec. exists k, a, b. split; [reflexivity|]. split; [exact Hk|]. intros ->. now rewrite gt_eqb_refl in E. }
  rewrite H in Hn. destruct Hn.
Qed.
