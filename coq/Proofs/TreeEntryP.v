(* Legality is preserved by transitions that target a history pseudo-state (property C01), part 1: entering a TREE.
   A history target is replaced by several states at once (the remembered leaves of deep history, the remembered
   children of shallow history): the combined entry path is not a chain but a tree hanging below the transition
   domain.  This file shows that what `entered` activates for such a tree is, below each of its roots, a complete
   sub-configuration (`Closed`), and concludes with the replacement lemma that the resulting configuration is legal. *)
From XSM Require Import Model.Macro Proofs.TreeP Proofs.GuardP Proofs.StepP Proofs.LegalP Proofs.DescentP Proofs.EffectP
     Proofs.PreserveP Proofs.SnapP Proofs.AccountP.
From Coq Require Import Lia Permutation Sorting.Sorted.

Section TreeEntry.
  Variable m : machine.
  Hypothesis Hwf : wf m = true.
  Hypothesis Hgood : good_initials m = true.

  Variable d : nat.            (* the transition domain *)
  Variable l : list nat.       (* the entry list *)
  Hypothesis Hd : d < size m.
  Hypothesis Lrange : forall x, In x l -> x < size m.
  Hypothesis Lhist : forall x, In x l -> is_history m x = false.
  (* prefix-closed below d *)
  Hypothesis Lup : forall x, In x l -> exists q, parent m x = Some q /\ (q = d \/ In q l).
  (* a compound member has at most one explicit child *)
  Hypothesis Lone : forall x c c', In x l -> kind_of m x = KCompound -> In c (children m x) -> In c' (children m x) ->
                                   In c l -> In c' l -> c = c'.

  Let f := size m.

  Lemma with_parent_all : with_parent m l = l.
  Proof.
    unfold with_parent. assert (H : forall x, In x l -> exists q, parent m x = Some q) by (intros x Hx; destruct (Lup x Hx) as [q [Hq _]]; eauto).
    clear -H. induction l as [|x r IH]; simpl; [reflexivity|]. destruct (H x (or_introl eq_refl)) as [q Hq]. rewrite Hq. f_equal.
    apply IH. intros y Hy. apply H. now right.
  Qed.

  (* every member lies strictly below d *)
  Lemma l_below : forall x, In x l -> desc m x d /\ d < x.
  Proof.
    intros x. induction x as [x IH] using (well_founded_induction lt_wf). intros Hx.
    destruct (Lup x Hx) as [q [Hq Hc]]. pose proof (Lrange x Hx) as Hxs.
    destruct (parent_props m Hwf x q Hxs Hq) as [Hlt _].
    destruct Hc as [->|Hql].
    - split; [|exact Hlt]. apply (desc_child m Hwf x d d Hxs Hq). apply desc_refl.
    - destruct (IH q Hlt Hql) as [H1 H2]. split; [|lia]. now apply (desc_child m Hwf x q d Hxs Hq).
  Qed.

  (* ... and so does every state between it and d, all of which are members *)
  Lemma between_in_l : forall x, In x l -> forall a, desc m x a -> d < a -> desc m a d -> In a l.
  Proof.
    intros x. induction x as [x IH] using (well_founded_induction lt_wf). intros Hx a Ha Hda Had.
    pose proof (Lrange x Hx) as Hxs.
    destruct (desc_cases m Hwf x a Hxs Ha) as [->|[p [Hp Hpa]]]; [exact Hx|].
    destruct (Lup x Hx) as [q [Hq Hc]]. rewrite Hp in Hq. inversion Hq; subst q; clear Hq.
    destruct (parent_props m Hwf x p Hxs Hp) as [Hlt _].
    destruct Hc as [->|Hpl].
    - (* the parent is d: a lies at or above d and strictly below it *)
      exfalso. assert (Hds : depth m a <= depth m d) by now apply (desc_depth m Hwf d a Hd).
      assert (Has : a < size m) by (apply (anc_self_lt_size m Hwf d a Hd); exact Hpa).
      pose proof (desc_depth m Hwf a d Has Had) as H2.
      (* a is at or above d and at or below d: a = d *)
      assert (a = d).
      { destruct (desc_cases m Hwf a d Has Had) as [E|[p' [Hp' Hd']]]; [congruence|].
        destruct (parent_props m Hwf a p' Has Hp') as [_ [_ Hdep]].
        assert (Hp's : p' < size m) by (eapply parent_lt_size; eassumption).
        pose proof (desc_depth m Hwf p' d Hp's Hd'). lia. }
      lia.
    - now apply (IH p Hlt Hpl a Hpa Hda Had).
  Qed.

  (* ---- what `entered` contributes for one member ---- *)
  Definition contrib (x : nat) : list nat :=
    x :: match kind_of m x with
         | KCompound => match n_initial (nd m x) with
                        | Some i => if mem x (parents_of m l) then [] else entered f m [i]
                        | None => []
                        end
         | KParallel => entered f m (filter (fun c => negb (is_history m c) && negb (mem c (with_parent m l))) (children m x))
         | _ => []
         end.

  Lemma entered_contrib : entered (S f) m l = List.concat (map contrib l).
  Proof. reflexivity. Qed.

  (* the explicit children of x *)
  Definition expl (x : nat) : list nat := filter (fun c => mem c l) (children m x).

  Lemma expl_In x c : In c (expl x) <-> In c (children m x) /\ In c l.
  Proof. unfold expl. rewrite filter_In, mem_In. tauto. Qed.

  Lemma parents_of_expl x : x < size m -> (mem x (parents_of m l) = true <-> expl x <> []).
  Proof.
    intros Hx. rewrite mem_In, in_parents_of. split.
    - intros [y [Hy Hp]] E. destruct (parent_props m Hwf y x (Lrange y Hy) Hp) as [_ [Hc _]].
      assert (In y (expl x)) by (apply expl_In; now split). rewrite E in H. destruct H.
    - intros Hne. destruct (expl x) as [|c r] eqn:E; [congruence|].
      assert (Hc : In c (expl x)) by (rewrite E; now left). apply expl_In in Hc as [Hc Hl].
      exists c. split; [exact Hl|]. now destruct (child_props m Hwf x c Hx Hc) as [_ [_ Hp]].
  Qed.

  (* a member without explicit children is entered by default descent *)
  Lemma contrib_default x : In x l -> expl x = [] -> contrib x = descent (S f) m x.
  Proof.
    intros Hx E. pose proof (Lrange x Hx) as Hxs.
    assert (Hep : mem x (parents_of m l) = false).
    { destruct (mem x (parents_of m l)) eqn:Em; [|reflexivity]. apply (parents_of_expl x Hxs) in Em. congruence. }
    assert (Hei : forall c, In c (children m x) -> mem c l = false).
    { intros c Hc. apply mem_false. intros Hin. assert (In c (expl x)) by (apply expl_In; now split). rewrite E in H. destruct H. }
    unfold contrib. cbn [descent]. f_equal. unfold kids. rewrite with_parent_all. destruct (kind_of m x) eqn:Hk; try reflexivity.
    - destruct (n_initial (nd m x)) as [i|] eqn:Hi; [|reflexivity]. rewrite Hep. apply (entered_ok m Hwf).
      apply (ok_children m Hwf x); [exact Hxs|]. intros z Hz. destruct Hz as [Ez|[]]. subst z. now apply (initial_child m Hwf x i).
    - assert (Hreg : filter (fun c => negb (is_history m c) && negb (mem c l)) (children m x) = filter (fun c => negb (is_history m c)) (children m x)).
      { apply filter_ext_in. intros c Hc. rewrite (Hei c Hc). now rewrite andb_true_r. }
      rewrite Hreg. apply (entered_ok m Hwf). apply (ok_children m Hwf x); [exact Hxs|]. intros z Hz. apply filter_In in Hz. tauto.
  Qed.

  (* the bottom-up description of what is activated at and below a member *)
  Fixpoint tset (g : nat) (x : nat) : list nat :=
    match g with
    | 0 => []
    | S g' =>
        match expl x with
        | [] => descent (S f) m x
        | cs => x :: match kind_of m x with
                     | KParallel => List.concat (map (fun c => if mem c l then tset g' c else descent f m c)
                                                     (filter (fun c => negb (is_history m c)) (children m x)))
                     | _ => List.concat (map (tset g') cs)
                     end
        end
    end.

  Lemma expl_single x c : In x l -> kind_of m x = KCompound -> In c (expl x) -> expl x = [c].
  Proof.
    intros Hx Hk Hc. pose proof (Lrange x Hx) as Hxs.
    assert (Hnd : NoDup (expl x)) by (unfold expl; apply NoDup_filter; now destruct (wf_node m x Hwf Hxs)).
    assert (Hall : forall c', In c' (expl x) -> c' = c).
    { intros c' Hc'. apply expl_In in Hc as [H1 H2]. apply expl_In in Hc' as [H3 H4]. now apply (Lone x c' c Hx Hk). }
    destruct (expl x) as [|a r]; [destruct Hc|].
    assert (a = c) by (apply Hall; now left). subst a. f_equal.
    destruct r as [|b r']; [reflexivity|]. exfalso. assert (b = c) by (apply Hall; right; now left). subst b.
    inversion Hnd as [|? ? Hn _]. apply Hn. now left.
  Qed.

  Theorem tset_closed : forall g x, In x l -> size m - x < g -> Closed m x (tset g x).
  Proof.
    induction g as [|g IH]; intros x Hx Hg; [lia|].
    pose proof (Lrange x Hx) as Hxs. pose proof (Lhist x Hx) as Hxh.
    cbn [tset]. destruct (expl x) as [|c0 cs] eqn:E.
    - apply (closed_descent m Hwf Hgood); [exact Hxs | unfold f; lia | exact Hxh].
    - assert (Hc0 : In c0 (expl x)) by (rewrite E; now left). apply expl_In in Hc0 as [Hc0 Hc0l].
      destruct (has_child_kind m Hwf x c0 Hxs Hc0) as [_ [Hk|Hk]]; rewrite Hk.
      + assert (E1 : expl x = [c0]) by (apply expl_single; [exact Hx | exact Hk | rewrite E; now left]).
        rewrite E in E1. rewrite E1. cbn [map List.concat]. rewrite app_nil_r.
        apply (closed_up_compound m Hwf x c0); [exact Hxs | exact Hk | exact Hxh | exact Hc0|].
        apply IH; [exact Hc0l|]. destruct (child_props m Hwf x c0 Hxs Hc0). lia.
      + apply (closed_up_parallel m Hwf x (fun c => if mem c l then tset g c else descent f m c) Hxs Hk Hxh).
        intros c Hc Hch. destruct (child_props m Hwf x c Hxs Hc) as [Hlt [Hcs _]].
        destruct (mem c l) eqn:Em.
        * apply IH; [now apply mem_In | lia].
        * apply (closed_descent m Hwf Hgood); [exact Hcs | unfold f; lia | exact Hch].
  Qed.

  (* one level of tset: the member's own contribution and the sets of its explicit children *)
  Lemma tset_step g x : In x l -> forall y,
    In y (tset (S g) x) <-> In y (contrib x) \/ exists c, In c (children m x) /\ In c l /\ In y (tset g c).
  Proof.
    intros Hx y. pose proof (Lrange x Hx) as Hxs. cbn [tset]. destruct (expl x) as [|c0 cs] eqn:E.
    - rewrite (contrib_default x Hx E). split; [now left|]. intros [H|[c [Hc [Hcl _]]]]; [exact H|].
      exfalso. assert (In c (expl x)) by (apply expl_In; now split). rewrite E in H. destruct H.
    - assert (Hc0 : In c0 (expl x)) by (rewrite E; now left). apply expl_In in Hc0 as [Hc0 Hc0l].
      assert (Hep : mem x (parents_of m l) = true) by (apply (parents_of_expl x Hxs); rewrite E; discriminate).
      destruct (has_child_kind m Hwf x c0 Hxs Hc0) as [_ [Hk|Hk]]; unfold contrib; rewrite Hk.
      + rewrite <- E. assert (Hown : forall z, In z (x :: match n_initial (nd m x) with Some _ => if mem x (parents_of m l) then [] else entered f m [c0] | None => [] end) <-> z = x).
        { intros z. rewrite Hep. destruct (n_initial (nd m x)); simpl; intuition. }
        assert (Hown' : In y (x :: match n_initial (nd m x) with Some i => if mem x (parents_of m l) then [] else entered f m [i] | None => [] end) <-> y = x).
        { rewrite Hep. destruct (n_initial (nd m x)); simpl; intuition. }
        rewrite Hown'. simpl. rewrite in_concat. split.
        * intros [->|[t [Ht Hy]]]; [now left|]. apply in_map_iff in Ht as [c [<- Hc]]. apply expl_In in Hc as [Hc Hcl]. right. exists c. tauto.
        * intros [->|[c [Hc [Hcl Hy]]]]; [now left|]. right. exists (tset g c). split; [|exact Hy]. apply in_map. apply expl_In. now split.
      + rewrite with_parent_all.
        set (regs := filter (fun c => negb (is_history m c)) (children m x)).
        set (regs' := filter (fun c => negb (is_history m c) && negb (mem c l)) (children m x)).
        assert (Hok' : ok_list m regs') by (apply (ok_children m Hwf x); [exact Hxs | intros z Hz; apply filter_In in Hz; tauto]).
        rewrite (entered_ok m Hwf f regs' Hok').
        simpl. rewrite !in_concat. split.
        * intros [->|[t [Ht Hy]]]; [left; now left|]. apply in_map_iff in Ht as [c [<- Hc]].
          unfold regs in Hc. apply filter_In in Hc as [Hc Hh]. destruct (mem c l) eqn:Em.
          -- right. exists c. split; [exact Hc|]. split; [now apply mem_In | exact Hy].
          -- left. right. exists (descent f m c). split; [|exact Hy]. apply in_map. unfold regs'. apply filter_In. split; [exact Hc|]. now rewrite Hh, Em.
        * intros [[->|[t [Ht Hy]]]|[c [Hc [Hcl Hy]]]]; [now left| |].
          -- right. apply in_map_iff in Ht as [c [<- Hc]]. unfold regs' in Hc. apply filter_In in Hc as [Hc Hb]. apply andb_prop in Hb as [Hh Hm].
             apply negb_true_iff in Hm. exists (descent f m c). split; [|exact Hy]. apply in_map_iff. exists c. rewrite Hm. split; [reflexivity|].
             unfold regs. apply filter_In. now split.
          -- right. exists (tset g c). split; [|exact Hy]. apply in_map_iff. exists c. rewrite (proj2 (mem_In c l) Hcl). split; [reflexivity|].
             unfold regs. apply filter_In. split; [exact Hc|]. now rewrite (Lhist c Hcl).
  Qed.

  (* reachability through explicit children *)
  Inductive lreach : nat -> nat -> Prop :=
  | lr_refl x : lreach x x
  | lr_step x c x' : In c (children m x) -> In c l -> lreach c x' -> lreach x x'.

  Lemma lreach_snoc x q x' : lreach x q -> In x' (children m q) -> In x' l -> lreach x x'.
  Proof. induction 1 as [x|x c q Hc Hcl _ IH]; intros H1 H2; [eapply lr_step; eauto using lr_refl | eapply lr_step; eauto]. Qed.

  Lemma lreach_in x x' : In x l -> lreach x x' -> In x' l.
  Proof. intros Hx H. induction H; auto. Qed.

  Lemma tset_spec : forall g x, In x l -> size m - x < g -> forall y,
    In y (tset g x) <-> exists x', lreach x x' /\ In y (contrib x').
  Proof.
    induction g as [|g IH]; intros x Hx Hg y; [lia|]. pose proof (Lrange x Hx) as Hxs.
    rewrite (tset_step g x Hx). split.
    - intros [H|[c [Hc [Hcl H]]]].
      + exists x. split; [apply lr_refl | exact H].
      + destruct (child_props m Hwf x c Hxs Hc) as [Hlt _]. apply (IH c Hcl) in H as [x' [Hr Hy]]; [|lia].
        exists x'. split; [now apply (lr_step x c x') | exact Hy].
    - intros [x' [Hr Hy]]. inversion Hr as [|? c ? Hc Hcl Hr']; subst.
      + now left.
      + right. exists c. split; [exact Hc|]. split; [exact Hcl|]. destruct (child_props m Hwf x c Hxs Hc) as [Hlt _].
        apply (IH c Hcl); [lia|]. exists x'. now split.
  Qed.

  (* a member is reachable from every member above it *)
  Lemma reach_desc : forall x', In x' l -> forall x, In x l -> desc m x' x -> lreach x x'.
  Proof.
    intros x'. induction x' as [x' IH] using (well_founded_induction lt_wf). intros Hx' x Hx Hd'.
    pose proof (Lrange x' Hx') as Hx's.
    destruct (desc_cases m Hwf x' x Hx's Hd') as [->|[p [Hp Hpx]]]; [apply lr_refl|].
    destruct (parent_props m Hwf x' p Hx's Hp) as [Hlt [Hc _]].
    destruct (Lup x' Hx') as [q [Hq Hcase]]. rewrite Hp in Hq. inversion Hq; subst q; clear Hq.
    destruct Hcase as [->|Hpl].
    - (* the parent is d, which lies at or below x, a member strictly below d: impossible *)
      exfalso. destruct (l_below x Hx) as [Hxd Hlt']. pose proof (Lrange x Hx) as Hxs.
      pose proof (desc_depth m Hwf d x Hd Hpx) as D1.
      destruct (desc_cases m Hwf x d Hxs Hxd) as [E|[p' [Hp' Hd'']]]; [lia|].
      destruct (parent_props m Hwf x p' Hxs Hp') as [_ [_ Hdep]].
      assert (Hp's : p' < size m) by (eapply parent_lt_size; eassumption).
      pose proof (desc_depth m Hwf p' d Hp's Hd''). lia.
    - apply (lreach_snoc x p x'); [now apply IH | exact Hc | exact Hx'].
  Qed.

  (* the roots: members whose parent is d *)
  Definition is_root (x : nat) : Prop := In x l /\ parent m x = Some d.

  Lemma root_of : forall x, In x l -> exists r, is_root r /\ desc m x r.
  Proof.
    intros x. induction x as [x IH] using (well_founded_induction lt_wf). intros Hx. pose proof (Lrange x Hx) as Hxs.
    destruct (Lup x Hx) as [q [Hq Hcase]]. destruct Hcase as [->|Hql].
    - exists x. split; [now split | apply desc_refl].
    - destruct (parent_props m Hwf x q Hxs Hq) as [Hlt _]. destruct (IH q Hlt Hql) as [r [Hr Hd']].
      exists r. split; [exact Hr|]. now apply (desc_child m Hwf x q r Hxs Hq).
  Qed.

  (* what entering the tree activates: the bottom-up sets of its roots *)
  Theorem entered_tree y : In y (entered (S f) m l) <-> exists r, is_root r /\ In y (tset (S f) r).
  Proof.
    rewrite entered_contrib, in_concat. split.
    - intros [t [Ht Hy]]. apply in_map_iff in Ht as [x [<- Hx]]. destruct (root_of x Hx) as [r [Hr Hd']].
      exists r. split; [exact Hr|]. destruct Hr as [Hrl Hrp]. apply (tset_spec (S f) r Hrl); [unfold f; lia|].
      exists x. split; [now apply reach_desc | exact Hy].
    - intros [r [[Hrl Hrp] Hy]]. apply (tset_spec (S f) r Hrl) in Hy as [x' [Hr Hy]]; [|unfold f; lia].
      exists (contrib x'). split; [|exact Hy]. apply in_map. now apply (lreach_in r).
  Qed.

  (* ---- every state is entered once: the entered list has no duplicates ---- *)
  (* each member's contribution: itself plus the default descents of some of its children outside the list *)
  Lemma contrib_shape x : In x l -> exists S, contrib x = x :: List.concat (map (descent f m) S) /\ NoDup (contrib x)
                                     /\ (forall c, In c S -> In c (children m x) /\ ~ In c l).
  Proof.
    intros Hx. pose proof (Lrange x Hx) as Hxs.
    pose proof (descent_nodup m Hwf (S f) x Hxs) as Hnd. cbn [descent] in Hnd.
    unfold contrib. rewrite with_parent_all.
    destruct (kind_of m x) eqn:Hk; try (exists []; split; [reflexivity | split; [repeat constructor; intros [] | intros c []]]).
    - destruct (n_initial (nd m x)) as [i|] eqn:Hi; [|exists []; split; [reflexivity | split; [repeat constructor; intros [] | intros c []]]].
      destruct (mem x (parents_of m l)) eqn:Em; [exists []; split; [reflexivity | split; [repeat constructor; intros [] | intros c []]]|].
      assert (Hok : ok_list m [i]) by (apply (ok_children m Hwf x); [exact Hxs | intros z Hz; destruct Hz as [E|[]]; subst z; now apply (initial_child m Hwf x i)]).
      exists [i]. split; [now rewrite (entered_ok m Hwf f [i] Hok)|]. split.
      + rewrite (entered_ok m Hwf f [i] Hok). unfold kids in Hnd. rewrite Hk, Hi in Hnd. exact Hnd.
      + intros c Hc. destruct Hc as [E|[]]. subst c. split; [now apply (initial_child m Hwf x i)|].
        intros HiP. apply mem_false in Em. apply Em. apply (in_parents_of m). exists i. split; [exact HiP|].
        now destruct (child_props m Hwf x i Hxs (initial_child m Hwf x i Hxs Hi)) as [_ [_ Hp]].
    - set (regs' := filter (fun c => negb (is_history m c) && negb (mem c l)) (children m x)).
      assert (Hok : ok_list m regs') by (apply (ok_children m Hwf x); [exact Hxs | intros z Hz; apply filter_In in Hz; tauto]).
      exists regs'. split; [now rewrite (entered_ok m Hwf f regs' Hok)|]. split.
      + rewrite (entered_ok m Hwf f regs' Hok). unfold kids in Hnd. rewrite Hk in Hnd.
        assert (Er : regs' = filter (fun c => negb (mem c l)) (filter (fun c => negb (is_history m c)) (children m x))).
        { unfold regs'. clear. induction (children m x) as [|c r IH]; simpl; [reflexivity|]. destruct (negb (is_history m c)); simpl; [destruct (negb (mem c l)); simpl; now rewrite IH | exact IH]. }
        rewrite Er. inversion Hnd as [|? ? Hx' Hrest]; subst. constructor.
        * intros Hin. apply Hx'. apply in_concat in Hin as [l' [Hl' Hy]]. apply in_map_iff in Hl' as [c [<- Hc]]. apply filter_In in Hc as [Hc _].
          apply in_concat. exists (descent f m c). split; [now apply in_map | exact Hy].
        * now apply AccountP.nodup_concat_filter.
      + intros c Hc. unfold regs' in Hc. apply filter_In in Hc as [Hc Hb]. split; [exact Hc|]. apply andb_prop in Hb as [_ Hb].
        apply negb_true_iff in Hb. now apply mem_false.
  Qed.

  (* what a member contributes lies at or below it; anything strictly below it lies below one of its children outside l *)
  Lemma contrib_below x z : In x l -> In z (contrib x) ->
    z < size m /\ desc m z x /\ (z = x \/ exists c, In c (children m x) /\ ~ In c l /\ desc m z c).
  Proof.
    intros Hx Hz. pose proof (Lrange x Hx) as Hxs. destruct (contrib_shape x Hx) as [S [E [_ HS]]]. rewrite E in Hz.
    destruct Hz as [<-|Hz]; [split; [exact Hxs|]; split; [apply desc_refl | now left]|].
    apply in_concat in Hz as [l2 [Hl2 Hz2]]. apply in_map_iff in Hl2 as [c [<- Hc]].
    destruct (HS c Hc) as [Hcx Hcl]. destruct (child_props m Hwf x c Hxs Hcx) as [_ [Hcs Hpc]].
    destruct (descent_ge m Hwf f c z Hcs Hz2) as [_ Hzs]. pose proof (descent_desc m Hwf f c z Hcs Hz2) as Hzc.
    split; [exact Hzs|]. split.
    - apply (desc_trans m Hwf c x Hcs); [apply (desc_child m Hwf c x x Hcs Hpc), desc_refl | exact Hzs | exact Hzc].
    - right. exists c. now repeat split.
  Qed.

  Lemma contrib_disjoint x y z : In x l -> In y l -> x <> y -> In z (contrib x) -> In z (contrib y) -> False.
  Proof.
    intros Hx Hy Hne Hzx Hzy.
    pose proof (Lrange x Hx) as Hxs. pose proof (Lrange y Hy) as Hys.
    destruct (contrib_below x z Hx Hzx) as [Hzs [Dx Cx]]. destruct (contrib_below y z Hy Hzy) as [_ [Dy Cy]].
    (* a member strictly below another member lies below one of that member's children - which is then a member too *)
    assert (Key : forall a b, In a l -> In b l -> a <> b -> desc m b a ->
              forall c, In c (children m a) -> ~ In c l -> desc m z c -> desc m z b -> False).
    { intros a b Ha Hb Hab Hba c Hca Hcl Hzc Hzb. pose proof (Lrange a Ha) as Has. pose proof (Lrange b Hb) as Hbs.
      destruct (below_some_child m Hwf b a Hbs Hba (not_eq_sym Hab)) as [c' [Hc'a Hbc']].
      assert (c' = c).
      { apply (siblings_disjoint m Hwf a c' c z Has Hzs Hc'a Hca); [|exact Hzc].
        destruct (child_props m Hwf a c' Has Hc'a) as [_ [Hc's _]]. apply (desc_trans m Hwf b c' Hbs Hbc' z Hzs Hzb). }
      subst c'. apply Hcl. destruct (l_below a Ha) as [Had Hlt]. destruct (child_props m Hwf a c Has Hca) as [Hac [Hcs Hpc]].
      apply (between_in_l b Hb c Hbc'); [lia|]. apply (desc_child m Hwf c a d Hcs Hpc). exact Had. }
    (* x and y are both ancestors-or-self of z: one lies below the other *)
    assert (Hcmp : desc m x y \/ desc m y x).
    { pose proof (anc_self_sorted m Hwf z Hzs) as Hs. unfold desc in Dx, Dy.
      destruct (Nat.le_ge_cases (depth m x) (depth m y)) as [Hle|Hle].
      - right. clear -Hwf Hs Dx Dy Hle Hys Hzs. revert Dx Dy. generalize (anc_self_sorted m Hwf z Hzs). intros _.
        (* y is at or below x on the ancestor chain of z *)
        assert (G : forall q, q < size m -> In x (anc_self m q) -> In y (anc_self m q) -> depth m x <= depth m y -> In x (anc_self m y)).
        { intros q. induction q as [q IH] using (well_founded_induction lt_wf). intros Hq Hxq Hyq Hdep.
          destruct (desc_cases m Hwf q y Hq Hyq) as [->|[p [Hp Hyp]]]; [exact Hxq|].
          destruct (desc_cases m Hwf q x Hq Hxq) as [->|[p' [Hp' Hxp]]].
          - exfalso. destruct (parent_props m Hwf q p Hq Hp) as [_ [_ D]]. assert (Hps : p < size m) by (eapply parent_lt_size; eassumption).
            pose proof (desc_depth m Hwf p y Hps Hyp). lia.
          - rewrite Hp in Hp'. inversion Hp'; subst p'. destruct (parent_props m Hwf q p Hq Hp) as [Hlt _].
            apply (IH p Hlt); [lia | exact Hxp | exact Hyp | exact Hdep]. }
        intros Dx Dy. exact (G z Hzs Dx Dy Hle).
      - left. assert (G : forall q, q < size m -> In y (anc_self m q) -> In x (anc_self m q) -> depth m y <= depth m x -> In y (anc_self m x)).
        { intros q. induction q as [q IH] using (well_founded_induction lt_wf). intros Hq Hyq Hxq Hdep.
          destruct (desc_cases m Hwf q x Hq Hxq) as [->|[p [Hp Hxp]]]; [exact Hyq|].
          destruct (desc_cases m Hwf q y Hq Hyq) as [->|[p' [Hp' Hyp]]].
          - exfalso. destruct (parent_props m Hwf q p Hq Hp) as [_ [_ D]]. assert (Hps : p < size m) by (eapply parent_lt_size; eassumption).
            pose proof (desc_depth m Hwf p x Hps Hxp). lia.
          - rewrite Hp in Hp'. inversion Hp'; subst p'. destruct (parent_props m Hwf q p Hq Hp) as [Hlt _].
            apply (IH p Hlt); [lia | exact Hyp | exact Hxp | exact Hdep]. }
        exact (G z Hzs Dy Dx Hle). }
    destruct Hcmp as [Hxy|Hyx].
    - (* x lies below y: z is x's or below x, so below the child of y that x lies under - a member *)
      destruct Cy as [->|[c [Hc [Hcl Hzc]]]].
      + (* z = y is at or below x which is at or below y: x = y *)
        apply Hne. pose proof (desc_depth m Hwf y x Hys Dx). pose proof (desc_depth m Hwf x y Hxs Hxy).
        destruct (desc_cases m Hwf x y Hxs Hxy) as [E|[p [Hp Hpy]]]; [congruence|].
        destruct (parent_props m Hwf x p Hxs Hp) as [_ [_ D]]. assert (Hps : p < size m) by (apply (parent_lt_size m Hwf x p Hxs Hp)).
        pose proof (desc_depth m Hwf p y Hps Hpy). lia.
      + apply (Key y x Hy Hx (not_eq_sym Hne) Hxy c Hc Hcl Hzc Dx).
    - destruct Cx as [->|[c [Hc [Hcl Hzc]]]].
      + apply Hne. pose proof (desc_depth m Hwf x y Hxs Dy). pose proof (desc_depth m Hwf y x Hys Hyx).
        destruct (desc_cases m Hwf y x Hys Hyx) as [E|[p [Hp Hpx]]]; [congruence|].
        destruct (parent_props m Hwf y p Hys Hp) as [_ [_ D]]. assert (Hps : p < size m) by (apply (parent_lt_size m Hwf y p Hys Hp)).
        pose proof (desc_depth m Hwf p x Hps Hpx). lia.
      + apply (Key x y Hx Hy Hne Hyx c Hc Hcl Hzc Dy).
  Qed.

  Theorem entered_tree_nodup : NoDup l -> NoDup (entered (S f) m l).
  Proof.
    intros Hnd. rewrite entered_contrib.
    assert (G : forall l0, NoDup l0 -> incl l0 l -> NoDup (List.concat (map contrib l0))).
    { induction l0 as [|x r IH]; intros Hn Hi; [constructor|]. cbn [map List.concat].
      inversion Hn as [|? ? Hxr Hr]; subst.
      assert (Hx : In x l) by (apply Hi; now left).
      destruct (contrib_shape x Hx) as [_ [_ [NB _]]].
      apply nodup_app; [exact NB | apply IH; [exact Hr | intros y Hy; apply Hi; now right]|].
      intros z Hz Hin. apply in_concat in Hin as [l' [Hl' Hz']]. apply in_map_iff in Hl' as [y [<- Hy]].
      apply (contrib_disjoint x y z Hx (Hi y (or_intror Hy))); [intros ->; contradiction | exact Hz | exact Hz']. }
    apply G; [exact Hnd | intros y Hy; exact Hy].
  Qed.

  (* ---- the resulting configuration is legal ---- *)
  Variables C Bs : list nat.
  Hypothesis HL : Legal m C.
  Hypothesis HdC : In d C.
  Hypothesis Lne : l <> [].
  Hypothesis HBs : forall b, In b Bs -> In b (children m d).
  Hypothesis Hroots : forall r, is_root r -> In r Bs.
  Hypothesis Hcomp : kind_of m d = KCompound ->
                     (forall c, In c (children m d) -> In c Bs) /\ (forall r r', is_root r -> is_root r' -> r = r').
  Hypothesis Hpar : kind_of m d = KParallel -> forall b, In b Bs -> is_history m b = false -> is_root b.

  Lemma root_closed r : is_root r -> Closed m r (tset (S f) r).
  Proof. intros [Hrl _]. apply tset_closed; [exact Hrl | unfold f; lia]. Qed.

  Lemma root_child r : is_root r -> r < size m /\ In r (children m d).
  Proof. intros [Hrl Hp]. pose proof (Lrange r Hrl) as Hrs. split; [exact Hrs|]. now destruct (parent_props m Hwf r d Hrs Hp) as [_ [H _]]. Qed.

  Theorem tree_entry_legal : Legal m (add_all (entered (S f) m l) (kept m Bs C)).
  Proof.
    set (N := entered (S f) m l).
    assert (HN : forall y, In y N <-> exists r, is_root r /\ In y (tset (S f) r)) by (intros y; apply entered_tree).
    set (N' := nodup Nat.eq_dec N).
    assert (HN' : forall y, In y N' <-> In y N) by (intros y; apply nodup_In).
    assert (Hsame : forall y r r', is_root r -> is_root r' -> In y (tset (S f) r) -> In y (tset (S f) r') -> r = r').
    { intros y r r' Hr Hr' Hy Hy'. destruct (root_child r Hr) as [_ Hc]. destruct (root_child r' Hr') as [_ Hc'].
      pose proof (root_closed r Hr) as K. pose proof (root_closed r' Hr') as K'.
      apply (siblings_disjoint m Hwf d r r' y Hd); [now apply (K_range m r _ K) | exact Hc | exact Hc' | now apply (K_below m r _ K) | now apply (K_below m r' _ K')]. }
    assert (HLeg : Legal m (kept m Bs C ++ N')).
    { apply (replace_below m Hwf d Bs Hd HBs C N' HL HdC).
      - apply NoDup_nodup.
      - intros y Hy. apply HN', HN in Hy as [r [Hr Hy]]. now apply (K_range m r _ (root_closed r Hr)).
      - intros y Hy. apply HN', HN in Hy as [r [Hr Hy]]. now apply (K_hist m r _ (root_closed r Hr)).
      - intros y Hy. apply HN', HN in Hy as [r [Hr Hy]]. apply (removedb_spec m Bs y). exists r. split; [now apply Hroots|].
        now apply (K_below m r _ (root_closed r Hr)).
      - intros y Hy. apply HN', HN in Hy as [r [Hr Hy]]. destruct (Nat.eq_dec y r) as [->|Hne].
        + exists d. split; [now destruct Hr | now left].
        + destruct (K_parent m r _ (root_closed r Hr) y Hy Hne) as [p [Hp HpN]]. exists p. split; [exact Hp|]. right. apply HN', HN. exists r. now split.
      - intros s Hs Hk Hc. apply HN', HN in Hs as [r [Hr Hs]].
        destruct (K_compound m r _ (root_closed r Hr) s Hs Hk Hc) as [c [H1 [H2 H3]]]. exists c. split; [exact H1|]. split; [apply HN', HN; exists r; now split|].
        intros c' Hc' Hin. apply HN', HN in Hin as [r' [Hr' Hin]].
        assert (Hss : s < size m) by now apply (K_range m r _ (root_closed r Hr)).
        assert (Hc's : c' < size m) by now apply (K_range m r' _ (root_closed r' Hr')).
        (* c' lies below r' and, through s, below r: the two roots coincide *)
        assert (r = r').
        { destruct (root_child r Hr) as [_ Hcr]. destruct (root_child r' Hr') as [_ Hcr'].
          apply (siblings_disjoint m Hwf d r r' c' Hd Hc's Hcr Hcr'); [|now apply (K_below m r' _ (root_closed r' Hr'))].
          destruct (child_props m Hwf s c' Hss Hc') as [_ [_ Hp]]. apply (desc_child m Hwf c' s r Hc's Hp). now apply (K_below m r _ (root_closed r Hr)). }
        subst r'. now apply H3.
      - intros s c Hs Hk Hc Hh. apply HN', HN in Hs as [r [Hr Hs]]. apply HN', HN. exists r. split; [exact Hr|].
        now apply (K_parallel m r _ (root_closed r Hr) s c).
      - intros Hk. destruct (Hcomp Hk) as [Hall Huniq]. split; [exact Hall|].
        destruct l as [|x0 l0] eqn:El; [congruence|]. assert (Hx0 : In x0 l) by (rewrite El; now left). rewrite <- El in *.
        destruct (root_of x0 Hx0) as [r [Hr _]]. destruct (root_child r Hr) as [Hrs Hcr].
        exists r. split; [exact Hcr|]. split; [apply HN', HN; exists r; split; [exact Hr | now apply (K_root m r _ (root_closed r Hr))]|].
        intros c' Hc' Hin. apply HN', HN in Hin as [r' [Hr' Hin]]. destruct (root_child r' Hr') as [Hr's Hcr'].
        assert (Hc's : c' < size m) by now apply (K_range m r' _ (root_closed r' Hr')).
        assert (c' = r') by (apply (child_below_child m Hwf d r' c' Hd Hc's Hcr' Hc'); now apply (K_below m r' _ (root_closed r' Hr'))).
        subst c'. now apply Huniq.
      - intros Hk b Hb Hh. apply HN', HN. pose proof (Hpar Hk b Hb Hh) as Hr. exists b. split; [exact Hr | now apply (K_root m b _ (root_closed b Hr))]. }
    eapply Legal_perm; [|exact HLeg].
    apply NoDup_Permutation.
    - apply (L_nodup m _ HLeg).
    - unfold add_all. apply fold_cadd_nodup. apply (nodup_app_left (kept m Bs C) N'). apply (L_nodup m _ HLeg).
    - intros y. rewrite in_app_iff, HN'. unfold add_all. rewrite fold_cadd_In. fold N. tauto.
  Qed.
End TreeEntry.
