(* Lemmas about Model/PyLib.v *)
From XSM Require Import Model.PyLib.
From Coq Require Import Lia Sorting.Sorted Permutation.

Lemma str_eqb_eq a b : String.eqb a b = true <-> a = b.
Proof. apply String.eqb_eq. Qed.

Lemma append_nil_r s : (s ++ "")%string = s.
Proof. induction s as [|c s IH]; simpl; [reflexivity | now rewrite IH]. Qed.

Lemma append_assoc a b c : ((a ++ b) ++ c)%string = (a ++ (b ++ c))%string.
Proof. induction a as [|x a IH]; simpl; [reflexivity | now rewrite IH]. Qed.

Lemma length_append a b : String.length (a ++ b) = String.length a + String.length b.
Proof. induction a as [|x a IH]; simpl; [reflexivity | now rewrite IH]. Qed.

Lemma prefix_spec p s : String.prefix p s = true <-> exists r, s = (p ++ r)%string.
Proof.
  revert s; induction p as [|c p IH]; intros s.
  - split; [intros _; exists s; reflexivity | intros _; destruct s; reflexivity].
  - destruct s as [|d s]; simpl.
    + split; [discriminate | intros [r Hr]; discriminate].
    + destruct (Ascii.ascii_dec c d) as [->|Hne].
      * rewrite IH. split; intros [r Hr]; exists r; [now rewrite Hr | now inversion Hr].
      * split; [discriminate | intros [r Hr]; inversion Hr; congruence].
Qed.

Lemma startswith_spec s p : startswith s p = true <-> exists r, s = (p ++ r)%string.
Proof. unfold startswith; apply prefix_spec. Qed.

Lemma endswith_unfold s suf :
  endswith s suf = if String.eqb s suf then true
                   else match s with String _ r => endswith r suf | EmptyString => false end.
Proof. destruct s; reflexivity. Qed.

Lemma endswith_spec s suf : endswith s suf = true <-> exists p, s = (p ++ suf)%string.
Proof.
  induction s as [|c s IH]; rewrite endswith_unfold.
  - destruct (String.eqb "" suf) eqn:E.
    + apply String.eqb_eq in E; subst suf. split; [intros _; exists ""%string; reflexivity | reflexivity].
    + split; [discriminate|]. intros [p Hp]. destruct p; simpl in Hp.
      * subst suf. discriminate.
      * discriminate.
  - destruct (String.eqb (String c s) suf) eqn:E.
    + apply String.eqb_eq in E; subst suf. split; [intros _; exists ""%string; reflexivity | reflexivity].
    + rewrite IH. split.
      * intros [p Hp]. exists (String c p). simpl. now rewrite Hp.
      * intros [p Hp]. destruct p as [|d p]; simpl in Hp.
        -- subst suf. rewrite String.eqb_refl in E. discriminate.
        -- inversion Hp; subst. exists p. reflexivity.
Qed.

Lemma substring_0_app p s : substring 0 (String.length p) (p ++ s) = p.
Proof. induction p as [|c p IH]; simpl; [destruct s; reflexivity | now rewrite IH]. Qed.

Lemma drop_last_app p suf : drop_last (String.length suf) (p ++ suf) = p.
Proof.
  unfold drop_last. rewrite length_append.
  replace (String.length p + String.length suf - String.length suf) with (String.length p) by lia.
  apply substring_0_app.
Qed.

(* ---- sort_len_rev ---- *)

Lemma ins_len_perm x l : Permutation (x :: l) (ins_len x l).
Proof.
  induction l as [|y r IH]; simpl; [reflexivity|].
  destruct (Nat.ltb _ _); [|reflexivity].
  rewrite perm_swap. now apply perm_skip.
Qed.

Lemma sort_len_rev_perm l : Permutation l (sort_len_rev l).
Proof.
  induction l as [|x l IH]; simpl; [constructor|].
  etransitivity; [apply perm_skip, IH | apply ins_len_perm].
Qed.

Lemma sort_len_rev_In x l : In x (sort_len_rev l) <-> In x l.
Proof.
  split; intro H.
  - eapply Permutation_in; [symmetry; apply sort_len_rev_perm | exact H].
  - eapply Permutation_in; [apply sort_len_rev_perm | exact H].
Qed.

Definition len_ge (a b : string) : Prop := String.length b <= String.length a.

Lemma ins_len_sorted x l : Sorted len_ge l -> Sorted len_ge (ins_len x l).
Proof.
  induction l as [|y r IH]; intros Hs; simpl.
  - repeat constructor.
  - destruct (Nat.ltb_spec (String.length x) (String.length y)) as [Hlt|Hge].
    + inversion Hs as [|? ? Hr Hhd]; subst. constructor; [now apply IH|].
      destruct r as [|z r]; simpl.
      * constructor. unfold len_ge. lia.
      * destruct (Nat.ltb_spec (String.length x) (String.length z)).
        -- inversion Hhd; subst. now constructor.
        -- constructor. unfold len_ge. lia.
    + constructor; [exact Hs|]. constructor. unfold len_ge. lia.
Qed.

Lemma sort_len_rev_sorted l : Sorted len_ge (sort_len_rev l).
Proof. induction l as [|x l IH]; simpl; [constructor | now apply ins_len_sorted]. Qed.

Lemma sort_len_rev_NoDup l : NoDup l -> NoDup (sort_len_rev l).
Proof. intro H. eapply Permutation_NoDup; [apply sort_len_rev_perm | exact H]. Qed.

Lemma fold_left_filter_app {A} (f : A -> bool) (l acc : list A) :
  fold_left (fun a k => if f k then a ++ [k] else a) l acc = acc ++ filter f l.
Proof.
  revert acc; induction l as [|x l IH]; intros acc; simpl.
  - now rewrite app_nil_r.
  - rewrite IH. destruct (f x); [now rewrite <- app_assoc | reflexivity].
Qed.

Lemma fold_left_filter_ext {A} (g : list A -> A -> list A) (f : A -> bool) (l acc : list A) :
  (forall a k, g a k = if f k then a ++ [k] else a) ->
  fold_left g l acc = acc ++ filter f l.
Proof.
  intros Hg. rewrite <- fold_left_filter_app.
  revert acc; induction l as [|x l IH]; intros acc; simpl; [reflexivity|].
  rewrite Hg. apply IH.
Qed.
