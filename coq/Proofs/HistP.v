(* History: what is recorded and what a history target expands to (property C11) *)
From XSM Require Import Model.Macro Model.Snap Proofs.TreeP.
From Coq Require Import Lia.

Lemma hist_get_set_same H p l : hist_get (hist_set H p l) p = l.
Proof. unfold hist_get, hist_set. simpl. now rewrite Nat.eqb_refl. Qed.

Lemma hist_get_set_other H p q l : q <> p -> hist_get (hist_set H p l) q = hist_get H q.
Proof.
  intros Hne. unfold hist_get, hist_set. simpl.
  destruct (Nat.eqb_spec p q) as [->|_]; [congruence|].
  induction H as [|e r IH]; simpl; [reflexivity|].
  destruct (Nat.eqb_spec (fst e) p) as [E|E]; simpl.
  - destruct (Nat.eqb_spec (fst e) q) as [E'|E']; [congruence | exact IH].
  - destruct (Nat.eqb (fst e) q); [reflexivity | exact IH].
Qed.

(* the active proper descendants of p, in (depth, id) order: what _record_history stores for p *)
Definition remembered (m : machine) (C : config) (p : nat) : list nat :=
  sort_by (lt_depth_id m) (filter (fun n => negb (Nat.eqb n p) && is_desc m n p) C).

Definition records (m : machine) (C : config) (p : nat) : bool :=
  has_history_child m p && match remembered m C p with [] => false | _ => true end.

Lemma record_fold m C cands H0 p :
  hist_get (s_hist (fold_left (fun s' q =>
      if has_history_child m q then
        match remembered m C q with [] => s' | _ :: _ => with_hist (hist_set (s_hist s') q (remembered m C q)) s' end
      else s') cands H0)) p
  = if existsb (Nat.eqb p) cands && records m C p then remembered m C p else hist_get (s_hist H0) p.
Proof.
  revert H0; induction cands as [|q r IH]; intros H0; simpl; [reflexivity|].
  rewrite IH. unfold records.
  destruct (existsb (Nat.eqb p) r) eqn:Er; simpl.
  - rewrite orb_true_r. simpl.
    destruct (has_history_child m p && _) eqn:Ec; [reflexivity|].
    destruct (has_history_child m q) eqn:Hq; [|reflexivity].
    destruct (remembered m C q) eqn:Rq; [reflexivity|]. simpl.
    destruct (Nat.eqb_spec p q) as [->|Hne].
    + rewrite Hq, Rq in Ec. discriminate.
    + now apply hist_get_set_other.
  - rewrite orb_false_r.
    destruct (Nat.eqb_spec p q) as [->|Hne]; simpl.
    + destruct (has_history_child m q) eqn:Hq; simpl; [|reflexivity].
      destruct (remembered m C q) eqn:Rq; [reflexivity|]. simpl. rewrite <- Rq. apply hist_get_set_same.
    + destruct (has_history_child m q) eqn:Hq; [|reflexivity].
      destruct (remembered m C q) eqn:Rq; [reflexivity|]. simpl. now apply hist_get_set_other.
Qed.

(* what is recorded when `exiting` is about to be exited: for every state on the ancestor chains of the exiting
   states that owns a history child and has active proper descendants, exactly those descendants (as they are NOW,
   before anything is removed); every other entry is left as it was *)
Theorem record_history_spec m exiting s p :
  hist_get (s_hist (record_history m exiting s)) p =
  if existsb (Nat.eqb p) (dedup (List.concat (map (anc_self m) exiting))) && records m (s_cfg s) p
  then remembered m (s_cfg s) p else hist_get (s_hist s) p.
Proof. unfold record_history. apply (record_fold m (s_cfg s)). Qed.

(* ---- expansion of a history target ---- *)

Theorem resolve_unvisited_default m H h p t :
  parent m h = Some p -> hist_get H p = [] -> n_hist_default (nd m h) = Some t -> resolve_history m H h = [t].
Proof. intros Hp Hg Hd. unfold resolve_history. now rewrite Hp, Hg, Hd. Qed.

Theorem resolve_unvisited_initial m H h p i :
  parent m h = Some p -> hist_get H p = [] -> n_hist_default (nd m h) = None -> n_initial (nd m p) = Some i ->
  resolve_history m H h = [i].
Proof. intros Hp Hg Hd Hi. unfold resolve_history. now rewrite Hp, Hg, Hd, Hi. Qed.

Theorem resolve_unvisited_parallel m H h p :
  parent m h = Some p -> hist_get H p = [] -> n_hist_default (nd m h) = None -> n_initial (nd m p) = None ->
  is_parallel m p = true -> resolve_history m H h = [p].
Proof. intros Hp Hg Hd Hi Hk. unfold resolve_history. now rewrite Hp, Hg, Hd, Hi, Hk. Qed.

Theorem resolve_deep m H h p x rest :
  parent m h = Some p -> hist_get H p = x :: rest -> kind_of m h = KHistory true ->
  resolve_history m H h = match filter (is_leaf m) (x :: rest) with [] => x :: rest | l => l end.
Proof. intros Hp Hg Hk. unfold resolve_history. now rewrite Hp, Hg, Hk. Qed.

Theorem resolve_shallow m H h p x rest :
  parent m h = Some p -> hist_get H p = x :: rest -> kind_of m h = KHistory false ->
  resolve_history m H h =
  match filter (fun n => match parent m n with Some q => Nat.eqb q p | None => false end) (x :: rest) with
  | [] => x :: rest | l => l end.
Proof. intros Hp Hg Hk. unfold resolve_history. now rewrite Hp, Hg, Hk. Qed.

(* every state a deep-history target expands to was active when the parent was last recorded *)
Corollary resolve_deep_subset m H h p x rest y :
  parent m h = Some p -> hist_get H p = x :: rest -> kind_of m h = KHistory true ->
  In y (resolve_history m H h) -> In y (x :: rest).
Proof.
  intros Hp Hg Hk Hy. rewrite (resolve_deep m H h p x rest Hp Hg Hk) in Hy.
  destruct (filter (is_leaf m) (x :: rest)) eqn:E; [exact Hy|].
  assert (Hin : In y (filter (is_leaf m) (x :: rest))) by (rewrite E; exact Hy). apply filter_In in Hin. tauto.
Qed.

(* the outcome is the same whether the history was recorded in this interpreter or restored from a snapshot
   (recorded entries are never empty: see record_history) *)
Theorem snapshot_keeps_history m s r :
  Forall (fun e => snd e <> []) (s_hist s) ->
  restore m (persist m s) = Some r -> s_hist r = s_hist s.
Proof.
  intros Hne. unfold restore, persist. simpl. destruct (forallb _ _); [|discriminate]. intros H. inversion H; subst; simpl. clear H.
  induction (s_hist s) as [|e l IH]; simpl; [reflexivity|].
  inversion Hne as [|? ? He Hl]; subst. destruct (snd e) eqn:Es; [congruence|]. simpl. f_equal. apply IH, Hl.
Qed.
