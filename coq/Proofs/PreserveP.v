(* Legality is preserved by external transitions (property C01), part 1: the replacement lemma.
   Take a legal configuration, an active anchor state a and some of its children (all of them when a is compound, one
   region when a is parallel); remove everything at or below those children and add a set N that is itself "legal
   below a": the result is legal. *)
From XSM Require Import Model.Macro Proofs.TreeP Proofs.GuardP Proofs.StepP Proofs.LegalP Proofs.DescentP.
From Coq Require Import Lia Sorting.Sorted.

Section Replace.
  Variable m : machine.
  Hypothesis Hwf : wf m = true.

  Definition desc (y a : nat) : Prop := In a (anc_self m y).

  Lemma desc_refl y : desc y y.
  Proof. now left. Qed.

  Lemma desc_child y p c : y < size m -> parent m y = Some p -> desc p c -> desc y c.
  Proof. intros Hy Hp H. unfold desc. rewrite (anc_self_unfold m Hwf y Hy), Hp. now right. Qed.

  Lemma desc_cases y c : y < size m -> desc y c -> c = y \/ exists p, parent m y = Some p /\ desc p c.
  Proof.
    intros Hy H. unfold desc in H. rewrite (anc_self_unfold m Hwf y Hy) in H. destruct H as [->|H]; [now left|].
    right. destruct (parent m y) as [p|]; [|destruct H]. exists p. now split.
  Qed.

  Lemma desc_depth y a : y < size m -> desc y a -> depth m a <= depth m y.
  Proof.
    intros Hy [<-|H]; [lia|]. unfold ancestors in H. destruct (anc_fuel_lt m Hwf (size m) y a Hy H). lia.
  Qed.

  Lemma child_not_above a b : a < size m -> In b (children m a) -> ~ desc a b.
  Proof.
    intros Ha Hb H. destruct (child_props m Hwf a b Ha Hb) as [_ [Hbs Hp]].
    destruct (parent_props m Hwf b a Hbs Hp) as [_ [_ Hd]]. pose proof (desc_depth a b Ha H). lia.
  Qed.

  (* the branch roots, and "at or below one of them" *)
  Variable a : nat.
  Variable Bs : list nat.
  Hypothesis Ha : a < size m.
  Hypothesis HBs : forall b, In b Bs -> In b (children m a).

  Definition removedb (y : nat) : bool := existsb (fun b => mem b (anc_self m y)) Bs.

  Lemma removedb_spec y : removedb y = true <-> exists b, In b Bs /\ desc y b.
  Proof.
    unfold removedb. rewrite existsb_exists. split; intros [b [Hb H]]; exists b; (split; [exact Hb|]); now apply mem_In.
  Qed.

  Lemma anchor_kept : removedb a = false.
  Proof.
    destruct (removedb a) eqn:E; [|reflexivity]. apply removedb_spec in E as [b [Hb H]].
    exfalso. apply (child_not_above a b Ha (HBs b Hb) H).
  Qed.

  Lemma removed_down y p : y < size m -> parent m y = Some p -> removedb p = true -> removedb y = true.
  Proof.
    intros Hy Hp H. apply removedb_spec in H as [b [Hb H]]. apply removedb_spec. exists b. split; [exact Hb|]. now apply (desc_child y p).
  Qed.

  (* a child of a kept state other than the anchor is kept *)
  Lemma child_of_kept_kept s c : s < size m -> In c (children m s) -> removedb s = false -> s <> a -> removedb c = false.
  Proof.
    intros Hs Hc Hk Hne. destruct (removedb c) eqn:E; [|reflexivity]. exfalso.
    apply removedb_spec in E as [b [Hb H]].
    destruct (child_props m Hwf s c Hs Hc) as [_ [Hcs Hp]].
    destruct (desc_cases c b Hcs H) as [->|[p [Hp' Hd]]].
    - destruct (child_props m Hwf a c Ha (HBs c Hb)) as [_ [_ Hpa]]. rewrite Hp in Hpa. inversion Hpa. congruence.
    - rewrite Hp in Hp'. inversion Hp'; subst p.
      assert (removedb s = true) by (apply removedb_spec; exists b; now split). congruence.
  Qed.

  (* a child of the anchor is removed exactly when it is a branch root *)
  Lemma anchor_child_removed c : In c (children m a) -> (removedb c = true <-> In c Bs).
  Proof.
    intros Hc. destruct (child_props m Hwf a c Ha Hc) as [_ [Hcs Hp]]. split.
    - intros E. apply removedb_spec in E as [b [Hb H]].
      destruct (desc_cases c b Hcs H) as [->|[p [Hp' Hd]]]; [exact Hb|].
      rewrite Hp in Hp'. inversion Hp'; subst p. exfalso. apply (child_not_above a b Ha (HBs b Hb) Hd).
    - intros Hb. apply removedb_spec. exists c. split; [exact Hb | apply desc_refl].
  Qed.

  Variable C N : list nat.
  Hypothesis HL : Legal m C.
  Hypothesis HaC : In a C.
  (* N: legal below the anchor *)
  Hypothesis Nnodup : NoDup N.
  Hypothesis Nrange : forall y, In y N -> y < size m.
  Hypothesis Nhist : forall y, In y N -> is_history m y = false.
  Hypothesis Ninside : forall y, In y N -> removedb y = true.
  Hypothesis Nparent : forall y, In y N -> exists p, parent m y = Some p /\ (p = a \/ In p N).
  Hypothesis Ncompound : forall s, In s N -> kind_of m s = KCompound -> children m s <> [] ->
                         exists c, In c (children m s) /\ In c N /\ forall c', In c' (children m s) -> In c' N -> c' = c.
  Hypothesis Nparallel : forall s c, In s N -> kind_of m s = KParallel -> In c (children m s) -> is_history m c = false -> In c N.
  (* the anchor *)
  Hypothesis Acompound : kind_of m a = KCompound ->
                         (forall c, In c (children m a) -> In c Bs) /\
                         exists c, In c (children m a) /\ In c N /\ forall c', In c' (children m a) -> In c' N -> c' = c.
  Hypothesis Aparallel : kind_of m a = KParallel -> forall b, In b Bs -> is_history m b = false -> In b N.

  Definition kept : list nat := filter (fun y => negb (removedb y)) C.

  Lemma kept_In y : In y kept <-> In y C /\ removedb y = false.
  Proof. unfold kept. rewrite filter_In, negb_true_iff. tauto. Qed.

  Lemma one_child_count s (L : list nat) c :
    s < size m -> In c (children m s) -> In c L -> (forall c', In c' (children m s) -> In c' L -> c' = c) ->
    List.length (filter (fun x => mem x L) (children m s)) = 1.
  Proof.
    intros Hs Hc HcL Hu. destruct (wf_node m s Hwf Hs) as [_ Hnd].
    apply (filter_length_one _ _ Hnd). exists c. split; [exact Hc|]. split; [now apply mem_In|].
    intros c' Hc' Hm. apply Hu; [exact Hc' | now apply mem_In].
  Qed.

  Theorem replace_below : Legal m (kept ++ N).
  Proof.
    pose proof (wf_size m Hwf) as H0.
    assert (Hin : forall y, In y (kept ++ N) <-> (In y C /\ removedb y = false) \/ In y N)
      by (intros y; rewrite in_app_iff, kept_In; tauto).
    constructor.
    - (* root *)
      apply Hin. left. split; [apply (L_root m C HL)|].
      destruct (removedb 0) eqn:E; [|reflexivity]. exfalso. apply removedb_spec in E as [b [Hb H]].
      destruct (child_props m Hwf a b Ha (HBs b Hb)) as [Hlt _].
      pose proof (desc_depth 0 b H0 H) as Hd.
      destruct (child_props m Hwf a b Ha (HBs b Hb)) as [_ [Hbs Hp]]. destruct (parent_props m Hwf b a Hbs Hp) as [_ [_ Hdb]].
      assert (Hd0 : depth m 0 = 0).
      { destruct (parent m 0) as [q|] eqn:Hq; [destruct (parent_props m Hwf 0 q H0 Hq); lia | now destruct (root_props m Hwf 0 H0 Hq)]. }
      lia.
    - (* NoDup *)
      apply nodup_app.
      + unfold kept. pose proof (L_nodup m C HL) as Hn. clear -Hn. induction Hn as [|x l Hx _ IH]; simpl; [constructor|].
        destruct (negb (removedb x)); [|exact IH]. constructor; [|exact IH]. intros Hf. apply filter_In in Hf. tauto.
      + exact Nnodup.
      + intros y Hy HyN. apply kept_In in Hy as [_ Hk]. rewrite (Ninside y HyN) in Hk. discriminate.
    - intros s Hs. apply Hin in Hs as [[Hs _]|Hs]; [now apply (L_range m C HL) | now apply Nrange].
    - (* parents *)
      intros s Hs. apply Hin in Hs as [[Hs Hk]|Hs].
      + pose proof (L_parent m C HL s Hs) as Hp. destruct (parent m s) as [p|] eqn:Ep; [|exact Hp].
        apply Hin. left. split; [exact Hp|]. destruct (removedb p) eqn:E; [|reflexivity].
        rewrite (removed_down s p (L_range m C HL s Hs) Ep E) in Hk. discriminate.
      + destruct (Nparent s Hs) as [p [Hp [->|HpN]]]; rewrite Hp; apply Hin; [left; split; [exact HaC | exact anchor_kept] | now right].
    - intros s Hs. apply Hin in Hs as [[Hs _]|Hs]; [now apply (L_nohist m C HL) | now apply Nhist].
    - (* compound *)
      intros s Hs Hk Hc.
      assert (Hss : s < size m) by (apply Hin in Hs as [[Hs _]|Hs]; [now apply (L_range m C HL) | now apply Nrange]).
      assert (Hcount : forall c, In c (children m s) -> In c (kept ++ N) -> (forall c', In c' (children m s) -> In c' (kept ++ N) -> c' = c) ->
                       List.length (filter (fun x => mem x (kept ++ N)) (children m s)) = 1)
        by (intros c H1 H2 H3; now apply (one_child_count s (kept ++ N) c)).
      apply Hin in Hs as [[Hs Hks]|Hs].
      + destruct (Nat.eq_dec s a) as [->|Hne].
        * destruct (Acompound Hk) as [Hall [c [Hca [HcN Hu]]]].
          apply (Hcount c Hca); [apply Hin; now right|].
          intros c' Hc' Hin'. apply Hin in Hin' as [[_ Hk']|Hn']; [|now apply Hu].
          rewrite (proj2 (anchor_child_removed c' Hc') (Hall c' Hc')) in Hk'. discriminate.
        * destruct (legal_one_active_child m C s Hwf HL Hs Hk Hc) as [c [Hcs [HcC Hu]]].
          apply (Hcount c Hcs).
          { apply Hin. left. split; [exact HcC | now apply (child_of_kept_kept s c)]. }
          intros c' Hc' Hin'. apply Hin in Hin' as [[HcC' _]|Hn']; [now apply Hu|].
          pose proof (child_of_kept_kept s c' Hss Hc' Hks Hne) as K1. pose proof (Ninside c' Hn') as K2. congruence.
      + destruct (Ncompound s Hs Hk Hc) as [c [Hcs [HcN Hu]]].
        apply (Hcount c Hcs); [apply Hin; now right|].
        intros c' Hc' Hin'. apply Hin in Hin' as [[_ Hk']|Hn']; [|now apply Hu].
        destruct (child_props m Hwf s c' Hss Hc') as [_ [Hcs' Hp']].
        rewrite (removed_down c' s Hcs' Hp' (Ninside s Hs)) in Hk'. discriminate.
    - (* parallel *)
      intros s c Hs Hk Hc Hh.
      assert (Hss : s < size m) by (apply Hin in Hs as [[Hs _]|Hs]; [now apply (L_range m C HL) | now apply Nrange]).
      apply Hin in Hs as [[Hs Hks]|Hs].
      + destruct (Nat.eq_dec s a) as [->|Hne].
        * destruct (removedb c) eqn:E.
          -- apply Hin. right. apply (Aparallel Hk c); [now apply anchor_child_removed | exact Hh].
          -- apply Hin. left. split; [now apply (L_parallel m C HL a c) | exact E].
        * apply Hin. left. split; [now apply (L_parallel m C HL s c) | now apply (child_of_kept_kept s c)].
      + apply Hin. right. now apply (Nparallel s c).
  Qed.
End Replace.

(* ---------------------------------------------------------------------------------------------------------------
   Part 2: complete sub-configurations.  `Closed r S`: S is what an active state r contributes to a legal
   configuration - r itself and, below it, one child per compound state and every region of each parallel state. *)
Section ClosedSets.
  Variable m : machine.
  Hypothesis Hwf : wf m = true.
  Hypothesis Hgood : good_initials m = true.

  Record Closed (r : nat) (S : list nat) : Prop := {
    K_root : In r S;
    K_range : forall y, In y S -> y < size m;
    K_below : forall y, In y S -> desc m y r;
    K_hist : forall y, In y S -> is_history m y = false;
    K_parent : forall y, In y S -> y <> r -> exists p, parent m y = Some p /\ In p S;
    K_compound : forall s, In s S -> kind_of m s = KCompound -> children m s <> [] ->
                 exists c, In c (children m s) /\ In c S /\ forall c', In c' (children m s) -> In c' S -> c' = c;
    K_parallel : forall s c, In s S -> kind_of m s = KParallel -> In c (children m s) -> is_history m c = false -> In c S }.

  Lemma desc_trans : forall c x, c < size m -> desc m c x -> forall y, y < size m -> desc m y c -> desc m y x.
  Proof.
    intros c. induction c as [c IH] using (well_founded_induction lt_wf). intros x Hc Hcx y Hy Hyc.
    destruct (desc_cases m Hwf c x Hc Hcx) as [->|[p [Hp Hpx]]]; [exact Hyc|].
    destruct (parent_props m Hwf c p Hc Hp) as [Hlt _].
    apply (IH p Hlt x); [lia | exact Hpx | exact Hy | now apply (desc_of_parent m Hwf y c p)].
  Qed.

  (* below a child and a child itself: the same depth forces equality *)
  Lemma child_below_child x c c' : x < size m -> c' < size m -> In c (children m x) -> In c' (children m x) -> desc m c' c -> c' = c.
  Proof.
    intros Hx Hc' Hc Hcc H. symmetry. apply (siblings_disjoint m Hwf x c c' c' Hx Hc' Hc Hcc H). apply desc_refl.
  Qed.

  (* the default descent below a non-history state is a complete sub-configuration *)
  Lemma closed_descent f c : c < size m -> size m - c < f -> is_history m c = false -> Closed c (descent f m c).
  Proof.
    intros Hc Hf Hh.
    assert (Hin : forall y, In y (descent f m c) -> y = c \/ exists s, parent m y = Some s /\ In s (descent f m c) /\ In y (kids m s) /\ s < size m)
      by (intros y Hy; now apply (in_descent m Hwf f c y Hc)).
    constructor.
    - destruct f; [lia | now left].
    - intros y Hy. now destruct (descent_ge m Hwf f c y Hc Hy).
    - intros y Hy. now apply (descent_desc m Hwf f c y Hc).
    - intros y Hy. destruct (Hin y Hy) as [->|[s [_ [_ [Hk Hs]]]]]; [exact Hh | now apply (kids_not_history m Hwf Hgood s)].
    - intros y Hy Hne. destruct (Hin y Hy) as [->|[s [Hp [Hs _]]]]; [congruence | exists s; now split].
    - intros s Hs Hk Hch.
      assert (Hss : s < size m) by now destruct (descent_ge m Hwf f c s Hc Hs).
      destruct (good_compound m Hgood s Hss Hk Hch) as [i [Hi _]].
      assert (Hki : In i (kids m s)) by (unfold kids; rewrite Hk, Hi; now left).
      exists i. split; [now apply (kids_children m Hwf s)|]. split; [now apply (descent_closed m Hwf f c s i Hc Hf)|].
      intros c' Hc' Hm. destruct (child_props m Hwf s c' Hss Hc') as [Hlt [_ Hp']].
      destruct (Hin c' Hm) as [E|[p [Hp [_ [Hkp _]]]]].
      + exfalso. subst c'. destruct (descent_ge m Hwf f c s Hc Hs). lia.
      + rewrite Hp' in Hp. inversion Hp; subst p. unfold kids in Hkp. rewrite Hk, Hi in Hkp. destruct Hkp as [<-|[]]. reflexivity.
    - intros s k Hs Hk Hc' Hh'. apply (descent_closed m Hwf f c s k Hc Hf Hs). unfold kids. rewrite Hk. apply filter_In. split; [exact Hc' | now rewrite Hh'].
  Qed.

  (* one level up through a compound state: it contributes itself and the contribution of ONE child *)
  Lemma closed_up_compound x x' S : x < size m -> kind_of m x = KCompound -> is_history m x = false -> In x' (children m x) ->
    Closed x' S -> Closed x (x :: S).
  Proof.
    intros Hx Hk Hh Hc [Kr Kg Kb Kh Kp Kc Kl].
    destruct (child_props m Hwf x x' Hx Hc) as [Hlt [Hx's Hpx']].
    assert (Hbelow : forall y, In y S -> desc m y x).
    { intros y Hy. apply (desc_trans x' x Hx's); [apply (desc_child m Hwf x' x x Hx's Hpx'), desc_refl | now apply Kg | now apply Kb]. }
    assert (HxS : ~ In x S).
    { intros Hin. pose proof (desc_depth m Hwf x x' Hx (Kb x Hin)).
      destruct (parent_props m Hwf x' x Hx's Hpx') as [_ [_ Hd]]. lia. }
    constructor.
    - now left.
    - intros y [<-|Hy]; [exact Hx | now apply Kg].
    - intros y [<-|Hy]; [apply desc_refl | now apply Hbelow].
    - intros y [<-|Hy]; [exact Hh | now apply Kh].
    - intros y [<-|Hy] Hne; [congruence|]. destruct (Nat.eq_dec y x') as [->|Hne'].
      + exists x. split; [exact Hpx' | now left].
      + destruct (Kp y Hy Hne') as [p [Hp HpS]]. exists p. split; [exact Hp | now right].
    - intros s Hs Hks Hch. destruct Hs as [Es|Hs].
      + subst s. exists x'. split; [exact Hc|]. split; [right; exact Kr|].
        intros c' Hc' Hin'. destruct Hin' as [E|Hin].
        * exfalso. rewrite <- E in Hc'. destruct (child_props m Hwf x x Hx Hc'). lia.
        * apply (child_below_child x x' c' Hx (Kg c' Hin) Hc Hc' (Kb c' Hin)).
      + destruct (Kc s Hs Hks Hch) as [c [Hcs [HcS Hu]]]. exists c. split; [exact Hcs|]. split; [now right|].
        intros c' Hc' Hin'. destruct Hin' as [E|Hin]; [|now apply Hu].
        exfalso. rewrite <- E in Hc'.
        (* x would be a child of s, but s is at or below x *)
        pose proof (desc_depth m Hwf s x (Kg s Hs) (Hbelow s Hs)) as Hd.
        destruct (child_props m Hwf s x (Kg s Hs) Hc') as [_ [_ Hpx]].
        destruct (parent_props m Hwf x s Hx Hpx) as [_ [_ Hdx]]. lia.
    - intros s c Hs Hks Hcc Hhc. destruct Hs as [Es|Hs]; [subst s; congruence | right; now apply (Kl s c)].
  Qed.

  (* one level up through a parallel state: itself and the contribution of EVERY region *)
  Lemma closed_up_parallel x (T : nat -> list nat) : x < size m -> kind_of m x = KParallel -> is_history m x = false ->
    (forall c, In c (children m x) -> is_history m c = false -> Closed c (T c)) ->
    Closed x (x :: List.concat (map T (filter (fun c => negb (is_history m c)) (children m x)))).
  Proof.
    intros Hx Hk Hh HT.
    set (regs := filter (fun c => negb (is_history m c)) (children m x)).
    assert (Hreg : forall c, In c regs <-> In c (children m x) /\ is_history m c = false)
      by (intros c; unfold regs; rewrite filter_In, negb_true_iff; tauto).
    assert (Hmem : forall y, In y (List.concat (map T regs)) <-> exists c, In c regs /\ In y (T c)).
    { intros y. rewrite in_concat. split.
      - intros [l [Hl Hy]]. apply in_map_iff in Hl as [c [<- Hc]]. exists c. now split.
      - intros [c [Hc Hy]]. exists (T c). split; [now apply in_map | exact Hy]. }
    assert (Hcl : forall c, In c regs -> Closed c (T c)) by (intros c Hc; apply Hreg in Hc as [H1 H2]; now apply HT).
    assert (Hcs : forall c, In c regs -> c < size m /\ parent m c = Some x)
      by (intros c Hc; apply Hreg in Hc as [H1 _]; destruct (child_props m Hwf x c Hx H1) as [_ [H2 H3]]; now split).
    assert (Hbelow : forall c y, In c regs -> In y (T c) -> y < size m /\ desc m y c /\ desc m y x /\ y <> x).
    { intros c y Hc Hy. destruct (Hcl c Hc) as [_ Kg Kb _ _ _ _]. destruct (Hcs c Hc) as [Hcs' Hp].
      split; [now apply Kg|]. split; [now apply Kb|].
      assert (Hd : desc m y x) by (apply (desc_trans c x Hcs'); [apply (desc_child m Hwf c x x Hcs' Hp), desc_refl | now apply Kg | now apply Kb]).
      split; [exact Hd|]. intros ->. pose proof (desc_depth m Hwf x c Hx (Kb x Hy)).
      destruct (parent_props m Hwf c x Hcs' Hp) as [_ [_ Hdd]]. lia. }
    (* a state of one region's contribution has its children only in that same contribution *)
    assert (Hsame : forall c1 c2 s c', In c1 regs -> In c2 regs -> In s (T c1) -> In c' (T c2) -> In c' (children m s) -> c1 = c2).
    { intros c1 c2 s c' H1 H2 Hs Hc' Hch.
      destruct (Hbelow c1 s H1 Hs) as [Hss [Hd1 _]]. destruct (Hbelow c2 c' H2 Hc') as [Hc's [Hd2 _]].
      destruct (child_props m Hwf s c' Hss Hch) as [_ [_ Hp]].
      apply Hreg in H1 as [H1 _]. apply Hreg in H2 as [H2 _].
      apply (siblings_disjoint m Hwf x c1 c2 c' Hx Hc's H1 H2); [|exact Hd2].
      now apply (desc_child m Hwf c' s c1 Hc's Hp). }
    constructor.
    - now left.
    - intros y [<-|Hy]; [exact Hx|]. apply Hmem in Hy as [c [Hc Hy]]. now destruct (Hbelow c y Hc Hy).
    - intros y [<-|Hy]; [apply desc_refl|]. apply Hmem in Hy as [c [Hc Hy]]. now destruct (Hbelow c y Hc Hy) as [_ [_ [H _]]].
    - intros y [<-|Hy]; [exact Hh|]. apply Hmem in Hy as [c [Hc Hy]]. destruct (Hcl c Hc) as [_ _ _ Kh _ _ _]. now apply Kh.
    - intros y [<-|Hy] Hne; [congruence|]. apply Hmem in Hy as [c [Hc Hy]].
      destruct (Nat.eq_dec y c) as [->|Hne'].
      + exists x. split; [now destruct (Hcs c Hc) | now left].
      + destruct (Hcl c Hc) as [_ _ _ _ Kp _ _]. destruct (Kp y Hy Hne') as [p [Hp HpS]]. exists p. split; [exact Hp|].
        right. apply Hmem. exists c. now split.
    - intros s Hs Hks Hch. destruct Hs as [Es|Hs]; [subst s; congruence|].
      apply Hmem in Hs as [c1 [H1 Hs]]. destruct (Hcl c1 H1) as [_ _ _ _ _ Kc _].
      destruct (Kc s Hs Hks Hch) as [c [Hcs' [HcS Hu]]]. exists c. split; [exact Hcs'|]. split; [right; apply Hmem; exists c1; now split|].
      intros c' Hc' Hin'. destruct Hin' as [E|Hin].
      + exfalso. rewrite <- E in Hc'. destruct (Hbelow c1 s H1 Hs) as [Hss [_ [Hd _]]].
        pose proof (desc_depth m Hwf s x Hss Hd). destruct (child_props m Hwf s x Hss Hc') as [_ [_ Hpx]].
        destruct (parent_props m Hwf x s Hx Hpx) as [_ [_ Hdx]]. lia.
      + apply Hmem in Hin as [c2 [H2 Hin]]. assert (c1 = c2) by (apply (Hsame c1 c2 s c'); assumption). subst c2. now apply Hu.
    - intros s c Hs Hks Hcc Hhc. destruct Hs as [Es|Hs].
      + subst s. right. apply Hmem. exists c. assert (Hc : In c regs) by (apply Hreg; now split). split; [exact Hc|]. now destruct (Hcl c Hc).
      + apply Hmem in Hs as [c1 [H1 Hs]]. destruct (Hcl c1 H1) as [_ _ _ _ _ _ Kl]. right. apply Hmem. exists c1. split; [exact H1 | now apply (Kl s c)].
  Qed.
End ClosedSets.

(* ---------------------------------------------------------------------------------------------------------------
   Part 3: what the entry procedure adds for an explicit path is a complete sub-configuration. *)
From XSM Require Import Proofs.EffectP.

Section Paths.
  Variable m : machine.
  Hypothesis Hwf : wf m = true.
  Hypothesis Hgood : good_initials m = true.

  (* default entry of an ok list is the default descent of its members *)
  Lemma entered_ok : forall f l, ok_list m l -> entered f m l = List.concat (map (descent f m) l).
  Proof.
    induction f as [|f IH]; intros l Hok.
    { cbn [entered descent]. clear Hok. induction l as [|a r IHl]; simpl; [reflexivity | exact IHl]. }
    cbn [entered]. f_equal. apply map_ext_in. intros x Hx. destruct (Hok x Hx) as [Hxs [Hep Hei]].
    cbn [descent]. f_equal. unfold kids. destruct (kind_of m x) eqn:Hk; try reflexivity.
    - destruct (n_initial (nd m x)) as [i|] eqn:Hi; [|reflexivity]. rewrite Hep. apply IH.
      apply (ok_children m Hwf x); [exact Hxs|]. intros y Hy. destruct Hy as [E|[]]. subst y. now apply (initial_child m Hwf x i).
    - assert (Hreg : filter (fun c => negb (is_history m c) && negb (mem c (with_parent m l))) (children m x) = filter (fun c => negb (is_history m c)) (children m x)).
      { apply filter_ext_in. intros c Hc. rewrite (Hei c Hc). now rewrite andb_true_r. }
      rewrite Hreg. apply IH. apply (ok_children m Hwf x); [exact Hxs|]. intros y Hy. apply filter_In in Hy. tauto.
  Qed.

  (* a path: each member is a child of the one before; the first is a child of d *)
  Inductive chain : nat -> list nat -> Prop :=
  | chain_one d x : x < size m -> parent m x = Some d -> chain d [x]
  | chain_cons d x r : x < size m -> parent m x = Some d -> chain x r -> chain d (x :: r).

  Lemma chain_props d p : chain d p -> forall y, In y p -> y < size m /\ depth m d < depth m y /\ exists q, parent m y = Some q.
  Proof.
    induction 1 as [d x Hx Hp|d x r Hx Hp Hc IH]; intros y Hy.
    - destruct Hy as [<-|[]]. destruct (parent_props m Hwf x d Hx Hp) as [_ [_ Hd]]. split; [exact Hx|]. split; [lia | eauto].
    - destruct (parent_props m Hwf x d Hx Hp) as [_ [_ Hd]]. destruct Hy as [<-|Hy]; [split; [exact Hx|]; split; [lia | eauto]|].
      destruct (IH y Hy) as [H1 [H2 H3]]. split; [exact H1|]. split; [lia | exact H3].
  Qed.

  (* the bottom-up description of what entering a path activates *)
  Fixpoint chain_set (f : nat) (p : list nat) : list nat :=
    match p with
    | [] => []
    | [x] => descent (S f) m x
    | x :: ((x' :: _) as r) =>
        x :: match kind_of m x with
             | KParallel => List.concat (map (fun c => if Nat.eqb c x' then chain_set f r else descent f m c)
                                             (filter (fun c => negb (is_history m c)) (children m x)))
             | _ => chain_set f r
             end
    end.

  Lemma has_child_kind x c : x < size m -> In c (children m x) -> is_history m x = false /\ (kind_of m x = KCompound \/ kind_of m x = KParallel).
  Proof.
    intros Hx Hc. assert (Hne : children m x <> []) by (intros E; rewrite E in Hc; destruct Hc).
    unfold is_history. destruct (kind_of m x) eqn:Hk; try (split; [reflexivity | tauto]); exfalso; apply Hne, (leaf_kinds_no_children m Hwf x Hx); rewrite Hk; eauto.
  Qed.

  Lemma child_of_parent x d : x < size m -> parent m x = Some d -> d < size m /\ In x (children m d).
  Proof. intros Hx Hp. destruct (parent_props m Hwf x d Hx Hp) as [Hlt [Hin _]]. split; [lia | exact Hin]. Qed.

  Theorem chain_set_closed f : forall d p x0, chain d p -> hd_error p = Some x0 ->
    (forall y, In y p -> size m - y < S f) -> is_history m (last p 0) = false ->
    Closed m x0 (chain_set f p).
  Proof.
    intros d p x0 Hc. revert x0. induction Hc as [d x Hx Hp|d x r Hx Hp Hc IH]; intros x0 Hh Hfuel Hlast; inversion Hh; subst x0; clear Hh.
    - cbn [chain_set]. apply (closed_descent m Hwf Hgood); [exact Hx | apply Hfuel; now left | exact Hlast].
    - destruct r as [|x' r']; [inversion Hc|].
      assert (Hx' : x' < size m /\ parent m x' = Some x) by (inversion Hc; subst; split; assumption).
      destruct Hx' as [Hx's Hpx'].
      destruct (child_of_parent x' x Hx's Hpx') as [_ Hcx'].
      destruct (has_child_kind x x' Hx Hcx') as [Hhx Hkx].
      assert (IH' : Closed m x' (chain_set f (x' :: r'))).
      { apply IH; [reflexivity | intros y Hy; apply Hfuel; now right|]. exact Hlast. }
      cbn [chain_set]. destruct Hkx as [Hk|Hk]; rewrite Hk.
      + now apply (closed_up_compound m Hwf x x').
      + set (T := fun c => if Nat.eqb c x' then chain_set f (x' :: r') else descent f m c).
        apply (closed_up_parallel m Hwf x T Hx Hk Hhx).
        intros c Hcc Hhc. unfold T. destruct (Nat.eqb_spec c x') as [->|Hne]; [exact IH'|].
        destruct (child_props m Hwf x c Hx Hcc) as [Hlt [Hcs _]].
        apply (closed_descent m Hwf Hgood); [exact Hcs | | exact Hhc]. specialize (Hfuel x (or_introl eq_refl)). lia.
  Qed.

  Lemma chain_sorted d p : chain d p -> StronglySorted (fun a b => depth m a < depth m b) p.
  Proof.
    induction 1 as [d x Hx Hp|d x r Hx Hp Hc IH]; [repeat constructor|].
    constructor; [exact IH|]. apply Forall_forall. intros y Hy. now destruct (chain_props x r Hc y Hy) as [_ [H _]].
  Qed.

  Lemma sorted_inc_same_depth l : StronglySorted (fun a b => depth m a < depth m b) l ->
    forall a b, In a l -> In b l -> depth m a = depth m b -> a = b.
  Proof.
    induction 1 as [|z l Hs IH Hz]; intros a b Ha Hb Hd; [destruct Ha|].
    rewrite Forall_forall in Hz. destruct Ha as [<-|Ha], Hb as [<-|Hb]; try reflexivity.
    - specialize (Hz b Hb). lia.
    - specialize (Hz a Ha). lia.
    - now apply IH.
  Qed.

  Lemma with_parent_chain d p : chain d p -> with_parent m p = p.
  Proof.
    intros Hc. unfold with_parent. assert (H : forall y, In y p -> exists q, parent m y = Some q) by (intros y Hy; now destruct (chain_props d p Hc y Hy) as [_ [_ H]]).
    clear Hc. induction p as [|x r IH]; simpl; [reflexivity|]. destruct (H x (or_introl eq_refl)) as [q Hq]. rewrite Hq. f_equal.
    apply IH. intros y Hy. apply H. now right.
  Qed.

  Lemma in_parents_of l z : In z (parents_of m l) <-> exists y, In y l /\ parent m y = Some z.
  Proof.
    unfold parents_of. rewrite in_concat. split.
    - intros [pl [Hpl Hz]]. apply in_map_iff in Hpl as [y [<- Hy]]. exists y. split; [exact Hy|].
      destruct (parent m y) as [q|]; [destruct Hz as [<-|[]]; reflexivity | destruct Hz].
    - intros [y [Hy Hp]]. exists [z]. split; [apply in_map_iff; exists y; rewrite Hp; now split | now left].
  Qed.

  (* entering a path activates exactly the bottom-up set *)
  Theorem entered_chain f d P : chain d P -> is_history m (last P 0) = false ->
    forall y, In y (entered (S f) m P) <-> In y (chain_set f P).
  Proof.
    intros HcP Hlast. pose proof (chain_sorted d P HcP) as Hsort. pose proof (with_parent_chain d P HcP) as Hwp.
    cbn [entered]. rewrite Hwp.
    set (B := fun x => x :: match kind_of m x with
             | KCompound => match n_initial (nd m x) with
                            | Some i => if mem x (parents_of m P) then [] else entered f m [i]
                            | None => []
                            end
             | KParallel => entered f m (filter (fun c => negb (is_history m c) && negb (mem c P)) (children m x))
             | _ => []
             end).
    assert (Hsuf : forall r pre d', P = pre ++ r -> chain d' r -> forall y, In y (List.concat (map B r)) <-> In y (chain_set f r)).
    { induction r as [|x r IH]; intros pre d' HP Hcr y; [inversion Hcr|].
      assert (HxP : In x P) by (rewrite HP; apply in_or_app; right; now left).
      destruct (chain_props d P HcP x HxP) as [Hxs _].
      destruct r as [|x' r'].
      - (* the last member: full default descent *)
        cbn [map List.concat chain_set]. rewrite app_nil_r.
        assert (Hdeep : forall z, In z P -> depth m z <= depth m x).
        { intros z Hz. rewrite HP in Hz, Hsort. apply in_app_or in Hz as [Hz|[<-|[]]]; [|lia].
          clear -Hsort Hz. induction pre as [|q pre IHp]; [destruct Hz|]. simpl in Hsort. inversion Hsort as [|? ? Hs Hq]; subst.
          destruct Hz as [<-|Hz]; [|now apply IHp]. rewrite Forall_forall in Hq. specialize (Hq x). assert (In x (pre ++ [x])) by (apply in_or_app; right; now left). specialize (Hq H). lia. }
        assert (Hep : mem x (parents_of m P) = false).
        { apply mem_false. intros Hin. apply in_parents_of in Hin as [z [Hz Hp]].
          destruct (chain_props d P HcP z Hz) as [Hzs _]. destruct (parent_props m Hwf z x Hzs Hp) as [_ [_ Hd]]. specialize (Hdeep z Hz). lia. }
        assert (Hei : forall c, In c (children m x) -> mem c P = false).
        { intros c Hc. apply mem_false. intros Hin. destruct (child_props m Hwf x c Hxs Hc) as [_ [Hcs Hp]].
          destruct (parent_props m Hwf c x Hcs Hp) as [_ [_ Hd]]. specialize (Hdeep c Hin). lia. }
        assert (E : B x = descent (S f) m x).
        { unfold B. cbn [descent]. f_equal. unfold kids. destruct (kind_of m x) eqn:Hk; try reflexivity.
          - destruct (n_initial (nd m x)) as [i|] eqn:Hi; [|reflexivity]. rewrite Hep. apply entered_ok.
            apply (ok_children m Hwf x); [exact Hxs|]. intros z Hz. destruct Hz as [Ez|[]]. subst z. now apply (initial_child m Hwf x i).
          - assert (Hreg : filter (fun c => negb (is_history m c) && negb (mem c P)) (children m x) = filter (fun c => negb (is_history m c)) (children m x)).
            { apply filter_ext_in. intros c Hc. rewrite (Hei c Hc). now rewrite andb_true_r. }
            rewrite Hreg. apply entered_ok. apply (ok_children m Hwf x); [exact Hxs|]. intros z Hz. apply filter_In in Hz. tauto. }
        rewrite E. reflexivity.
      - (* a member with a successor x' *)
        assert (Hc' : chain x (x' :: r')) by (inversion Hcr; subst; assumption).
        assert (Hx' : x' < size m /\ parent m x' = Some x) by (inversion Hc'; subst; split; assumption).
        destruct Hx' as [Hx's Hpx'].
        assert (Hx'P : In x' P) by (rewrite HP; apply in_or_app; right; right; now left).
        assert (Hep : mem x (parents_of m P) = true) by (apply mem_In, in_parents_of; exists x'; now split).
        assert (Hei : forall c, In c (children m x) -> mem c P = Nat.eqb c x').
        { intros c Hc. destruct (Nat.eqb_spec c x') as [->|Hne]; [now apply mem_In|]. apply mem_false. intros Hin.
          apply Hne. destruct (child_props m Hwf x c Hxs Hc) as [_ [Hcs Hp]].
          destruct (parent_props m Hwf c x Hcs Hp) as [_ [_ Hd]]. destruct (parent_props m Hwf x' x Hx's Hpx') as [_ [_ Hd']].
          apply (sorted_inc_same_depth P Hsort); [exact Hin | exact Hx'P | lia]. }
        specialize (IH (pre ++ [x]) x). rewrite <- app_assoc in IH. specialize (IH HP Hc').
        change (map B (x :: x' :: r')) with (B x :: map B (x' :: r')). cbn [List.concat].
        rewrite in_app_iff, (IH y).
        destruct (child_of_parent x' x Hx's Hpx') as [_ Hcx'].
        destruct (has_child_kind x x' Hxs Hcx') as [_ Hkx].
        cbn [chain_set]. unfold B at 1.
        destruct Hkx as [Hk|Hk]; rewrite Hk.
        + destruct (n_initial (nd m x)); [rewrite Hep|]; simpl; tauto.
        + assert (Hx'h : is_history m x' = false).
          { destruct r' as [|x'' r''].
            { rewrite HP in Hlast. change (pre ++ [x; x']) with (pre ++ [x] ++ [x']) in Hlast. rewrite app_assoc, last_last in Hlast. exact Hlast. }
            assert (Hx'' : x'' < size m /\ parent m x'' = Some x') by (inversion Hc' as [|? ? ? ? ? Hc'']; subst; inversion Hc''; subst; split; assumption).
            destruct Hx'' as [H1 H2]. destruct (child_of_parent x'' x' H1 H2) as [_ H3]. now destruct (has_child_kind x' x'' Hx's H3). }
          set (regs := filter (fun c => negb (is_history m c)) (children m x)).
          set (regs' := filter (fun c => negb (is_history m c) && negb (mem c P)) (children m x)).
          assert (Hok' : ok_list m regs') by (apply (ok_children m Hwf x); [exact Hxs | intros z Hz; apply filter_In in Hz; tauto]).
          rewrite (entered_ok f regs' Hok').
          assert (Hr' : forall c, In c regs' <-> In c regs /\ c <> x').
          { intros c. unfold regs', regs. rewrite !filter_In. split.
            - intros [Hc Hb]. apply andb_prop in Hb as [H1 H2]. split; [now split|]. rewrite (Hei c Hc) in H2. apply negb_true_iff in H2. now apply Nat.eqb_neq.
            - intros [[Hc H1] Hne]. split; [exact Hc|]. rewrite H1, (Hei c Hc). simpl. apply negb_true_iff. now apply Nat.eqb_neq. }
          simpl. rewrite !in_concat. split.
          * intros [[<-|[l [Hl Hy]]]|Hy].
            -- now left.
            -- right. apply in_map_iff in Hl as [c [<- Hc]]. apply Hr' in Hc as [Hc Hne].
               exists (descent f m c). split; [|exact Hy]. apply in_map_iff. exists c. split; [|exact Hc]. destruct (Nat.eqb_spec c x'); [congruence | reflexivity].
            -- right. exists (chain_set f (x' :: r')). split; [|exact Hy]. apply in_map_iff. exists x'. split; [now rewrite Nat.eqb_refl|].
               unfold regs. apply filter_In. split; [exact Hcx' | now rewrite Hx'h].
          * intros [<-|[l [Hl Hy]]]; [left; now left|]. apply in_map_iff in Hl as [c [<- Hc]].
            destruct (Nat.eqb_spec c x') as [->|Hne]; [now right|].
            left. right. exists (descent f m c). split; [|exact Hy]. apply in_map. apply Hr'. now split. }
    apply (Hsuf P [] d); [reflexivity | exact HcP].
  Qed.
End Paths.

(* ---------------------------------------------------------------------------------------------------------------
   Part 4: an external transition whose domain is an active compound state and whose target lies strictly below the
   domain takes a legal configuration to a legal configuration. *)
From XSM Require Import Proofs.SnapP Proofs.OrderP Proofs.SortP.
From Coq Require Import Permutation.

Section Preserve.
  Variable m : machine.
  Hypothesis Hwf : wf m = true.
  Hypothesis Hgood : good_initials m = true.

  Lemma chain_snoc d q x : chain m d q -> x < size m -> parent m x = Some (last q 0) -> chain m d (q ++ [x]).
  Proof.
    induction 1 as [d x0 Hx0 Hp0|d x0 r Hx0 Hp0 Hc IH]; intros Hx Hp.
    - simpl in Hp. simpl. apply chain_cons; [exact Hx0 | exact Hp0 | now apply chain_one].
    - simpl. apply chain_cons; [exact Hx0 | exact Hp0|]. apply IH; [exact Hx|].
      destruct r as [|y r']; [inversion Hc | exact Hp].
  Qed.

  Lemma path_chain : forall tgt d, tgt < size m -> In d (ancestors m tgt) ->
    chain m d (path_to m tgt d) /\ last (path_to m tgt d) 0 = tgt.
  Proof.
    intros tgt. induction tgt as [tgt IH] using (well_founded_induction lt_wf). intros d Ht Hd.
    unfold path_to. rewrite (anc_self_unfold m Hwf tgt Ht).
    pose proof Hd as Hd'. rewrite (ancestors_unfold m Hwf tgt Ht) in Hd'.
    destruct (parent m tgt) as [p|] eqn:Hp; [|destruct Hd'].
    destruct (parent_props m Hwf tgt p Ht Hp) as [Hlt [_ Hdep]].
    assert (Hne : tgt <> d).
    { intros ->. unfold ancestors in Hd. destruct (anc_fuel_lt m Hwf (size m) d d Ht Hd). lia. }
    cbn [take_until]. destruct (Nat.eqb_spec tgt d) as [E|_]; [congruence|].
    destruct Hd' as [->|Hd'].
    - rewrite (anc_self_unfold m Hwf d) by lia. cbn [take_until]. rewrite Nat.eqb_refl. simpl.
      split; [now apply chain_one | reflexivity].
    - assert (Hps : p < size m) by lia.
      destruct (IH p Hlt d Hps Hd') as [Hc Hl]. unfold path_to in Hc, Hl.
      cbn [rev]. split; [|apply last_last].
      apply chain_snoc; [exact Hc | exact Ht | now rewrite Hl].
  Qed.

  Lemma remove_all_filter l : forall C, remove_all l C = filter (fun y => negb (mem y l)) C.
  Proof.
    induction l as [|x r IH]; intros C; unfold remove_all; cbn [fold_left].
    - induction C as [|y C' IHc]; simpl; [reflexivity | f_equal; exact IHc].
    - fold (remove_all r (cdel x C)). rewrite IH. unfold cdel. clear IH.
      induction C as [|y C' IHc]; [reflexivity|]. cbn [filter mem existsb].
      destruct (Nat.eqb y x); cbn [negb orb filter]; [exact IHc|].
      fold (mem y r). destruct (mem y r); cbn [negb]; [exact IHc | f_equal; exact IHc].
  Qed.

  (* strictly below d = at or below one of d's children *)
  Lemma below_some_child : forall y d, y < size m -> desc m y d -> y <> d -> exists b, In b (children m d) /\ desc m y b.
  Proof.
    intros y. induction y as [y IH] using (well_founded_induction lt_wf). intros d Hy Hd Hne.
    destruct (desc_cases m Hwf y d Hy Hd) as [E|[p [Hp Hpd]]]; [congruence|].
    destruct (parent_props m Hwf y p Hy Hp) as [Hlt [Hin _]].
    destruct (Nat.eq_dec p d) as [->|Hne'].
    - exists y. split; [exact Hin | apply desc_refl].
    - destruct (IH p Hlt d (ltac:(lia)) Hpd Hne') as [b [Hb Hdb]]. exists b. split; [exact Hb | now apply (desc_child m Hwf y p)].
  Qed.

  Lemma Closed_ext r S S' : (forall y, In y S <-> In y S') -> Closed m r S -> Closed m r S'.
  Proof.
    intros E [K1 K2 K3 K4 K5 K6 K7]. constructor.
    - now apply E.
    - intros y Hy. apply K2. now apply E.
    - intros y Hy. apply K3. now apply E.
    - intros y Hy. apply K4. now apply E.
    - intros y Hy Hne. destruct (K5 y (proj2 (E y) Hy) Hne) as [p [Hp HpS]]. exists p. split; [exact Hp | now apply E].
    - intros s Hs Hk Hc. destruct (K6 s (proj2 (E s) Hs) Hk Hc) as [c [H1 [H2 H3]]]. exists c. split; [exact H1|]. split; [now apply E|].
      intros c' Hc' Hin. apply H3; [exact Hc' | now apply E].
    - intros s c Hs Hk Hc Hh. apply E. apply (K7 s c); [now apply E | exact Hk | exact Hc | exact Hh].
  Qed.

  Lemma nodup_app_left {A} (a b : list A) : NoDup (a ++ b) -> NoDup a.
  Proof.
    induction a as [|x r IH]; intros H; [constructor|]. simpl in H. inversion H as [|? ? Hx Hr]; subst.
    constructor; [intros Hin; apply Hx; apply in_or_app; now left | now apply IH].
  Qed.

  (* the core: remove what is at or below the branch roots Bs (children of the active state d, x1 among them), add the
     entered set of a path that starts at x1 *)
  Lemma preserve_core d x1 P' Bs C tgt :
    Legal m C -> In d C -> chain m d (x1 :: P') -> last (x1 :: P') 0 = tgt -> is_history m tgt = false ->
    (forall b, In b Bs -> In b (children m d)) -> In x1 Bs ->
    (kind_of m d = KCompound -> forall c, In c (children m d) -> In c Bs) ->
    (kind_of m d = KParallel -> Bs = [x1]) ->
    Legal m (add_all (entered (S (size m)) m (x1 :: P')) (kept m Bs C)).
  Proof.
    intros HL HdC Hchain Hlast Hth HBs Hx1B Hcomp Hpar.
    assert (Hds : d < size m) by (apply (L_range m _ HL); exact HdC).
    assert (Hx1 : x1 < size m /\ parent m x1 = Some d) by (inversion Hchain; subst; split; assumption).
    destruct Hx1 as [Hx1s Hpx1]. destruct (child_of_parent m Hwf x1 d Hx1s Hpx1) as [_ Hcx1].
    set (N := entered (S (size m)) m (x1 :: P')).
    assert (HNc : Closed m x1 N).
    { apply (Closed_ext x1 (chain_set m (size m) (x1 :: P'))).
      - intros y. symmetry. apply (entered_chain m Hwf (size m) d (x1 :: P') Hchain). now rewrite Hlast.
      - apply (chain_set_closed m Hwf Hgood (size m) d (x1 :: P') x1 Hchain); [reflexivity | | now rewrite Hlast].
        intros y Hy. destruct (chain_props m Hwf d (x1 :: P') Hchain y Hy). lia. }
    set (N' := nodup Nat.eq_dec N).
    assert (HN' : forall y, In y N' <-> In y N) by (intros y; apply nodup_In).
    destruct HNc as [K1 K2 K3 K4 K5 K6 K7].
    assert (HLeg : Legal m (kept m Bs C ++ N')).
    { apply (replace_below m Hwf d Bs Hds HBs C N' HL HdC).
      - apply NoDup_nodup.
      - intros y Hy. apply K2. now apply HN'.
      - intros y Hy. apply K4. now apply HN'.
      - intros y Hy. apply (removedb_spec m Bs y). exists x1. split; [exact Hx1B | apply K3; now apply HN'].
      - intros y Hy. apply HN' in Hy. destruct (Nat.eq_dec y x1) as [->|Hne].
        + exists d. split; [exact Hpx1 | now left].
        + destruct (K5 y Hy Hne) as [p [Hp HpN]]. exists p. split; [exact Hp | right; now apply HN'].
      - intros s Hs Hk Hc. destruct (K6 s (proj1 (HN' s) Hs) Hk Hc) as [c [H1 [H2 H3]]]. exists c. split; [exact H1|]. split; [now apply HN'|].
        intros c' Hc' Hin. apply H3; [exact Hc' | now apply HN'].
      - intros s c Hs Hk Hc Hh. apply HN'. apply (K7 s c); [now apply HN' | exact Hk | exact Hc | exact Hh].
      - intros Hk. split; [now apply Hcomp|]. exists x1. split; [exact Hcx1|]. split; [apply HN'; exact K1|].
        intros c' Hc' Hin. apply HN' in Hin. destruct (child_props m Hwf d c' Hds Hc') as [_ [Hc's _]].
        apply (child_below_child m Hwf d x1 c' Hds Hc's Hcx1 Hc' (K3 c' Hin)).
      - intros Hk b Hb _. rewrite (Hpar Hk) in Hb. destruct Hb as [<-|[]]. apply HN'. exact K1. }
    eapply Legal_perm; [|exact HLeg].
    apply NoDup_Permutation.
    - apply (L_nodup m _ HLeg).
    - unfold add_all. apply fold_cadd_nodup. apply (nodup_app_left (kept m Bs C) N'). apply (L_nodup m _ HLeg).
    - intros y. rewrite in_app_iff, HN'. unfold add_all. rewrite fold_cadd_In. fold N. tauto.
  Qed.

  (* the branch of a parallel domain the target lies in is the first member of the entry path *)
  Lemma branch_is_path_head d tgt x1 P' : tgt < size m -> chain m d (x1 :: P') -> path_to m tgt d = x1 :: P' -> branch_of m d tgt = Some x1.
  Proof.
    intros Ht Hchain HP. unfold branch_of.
    assert (Hx1 : x1 < size m /\ parent m x1 = Some d) by (inversion Hchain; subst; split; assumption).
    destruct Hx1 as [Hx1s Hpx1].
    assert (Hin : In x1 (anc_self m tgt)) by (apply (path_to_sub m tgt d x1); rewrite HP; now left).
    destruct (find _ (anc_self m tgt)) as [a|] eqn:Ef.
    - apply find_some in Ef as [Ha Hp]. destruct (parent m a) as [q|] eqn:Hq; [|discriminate]. apply Nat.eqb_eq in Hp. subst q.
      f_equal. assert (Has : a < size m) by now apply (anc_self_lt_size m Hwf tgt a Ht).
      destruct (parent_props m Hwf a d Has Hq) as [_ [_ Hda]]. destruct (parent_props m Hwf x1 d Hx1s Hpx1) as [_ [_ Hdx]].
      apply (sorted_same_depth m (anc_self m tgt) (anc_self_sorted m Hwf tgt Ht)); [exact Ha | exact Hin | lia].
    - exfalso. apply (find_none _ _ Ef x1) in Hin. rewrite Hpx1, Nat.eqb_refl in Hin. discriminate.
  Qed.

  (* the parts of the effect formula: the entry path is a chain below d; what the exit list removes is exactly what lies
     at or below the branch roots Bs *)
  Theorem formula_parts C d tgt :
    Legal m C -> tgt < size m -> In d (ancestors m tgt) -> In d C ->
    exists x1 P' Bs,
      path_to m tgt d = x1 :: P' /\ chain m d (x1 :: P') /\ last (x1 :: P') 0 = tgt
      /\ remove_all (rev (sort_by (lt_depth_id m) (exit_set m C d tgt))) C = kept m Bs C
      /\ (forall b, In b Bs -> In b (children m d)) /\ In x1 Bs
      /\ (kind_of m d = KCompound -> forall c, In c (children m d) -> In c Bs)
      /\ (kind_of m d = KParallel -> Bs = [x1]).
  Proof.
    intros HL Ht Hd HdC.
    assert (Hds : d < size m) by (apply (L_range m _ HL); exact HdC).
    destruct (path_chain tgt d Ht Hd) as [Hchain Hlast].
    destruct (path_to m tgt d) as [|x1 P'] eqn:EP; [inversion Hchain|].
    assert (Hx1 : x1 < size m /\ parent m x1 = Some d) by (inversion Hchain; subst; split; assumption).
    destruct Hx1 as [Hx1s Hpx1]. destruct (child_of_parent m Hwf x1 d Hx1s Hpx1) as [_ Hcx1].
    set (xs := rev (sort_by (lt_depth_id m) (exit_set m C d tgt))) in *.
    destruct (has_child_kind m Hwf d x1 Hds Hcx1) as [_ [Hkd|Hkd]].
    - (* compound domain: everything below it goes *)
      set (Bs := children m d).
      assert (Hrm : remove_all xs C = kept m Bs C).
      { rewrite remove_all_filter. unfold kept. apply filter_ext_in. intros y Hy. f_equal.
        assert (Hys : y < size m) by now apply (L_range m C HL).
        destruct (removedb m Bs y) eqn:Er.
        - apply (removedb_spec m Bs y) in Er as [b [Hb Hyb]]. apply mem_In. unfold xs. rewrite <- in_rev. apply (proj2 (sort_by_In (lt_depth_id m) y (exit_set m C d tgt))).
          unfold exit_set. assert (Hpar : is_parallel m d = false) by (unfold is_parallel; now rewrite Hkd). rewrite Hpar.
          apply filter_In. split; [exact Hy|].
          destruct (child_props m Hwf d b Hds Hb) as [_ [Hbs Hpb]].
          assert (Hyd : desc m y d) by (apply (desc_trans m Hwf b d Hbs); [apply (desc_child m Hwf b d d Hbs Hpb), desc_refl | exact Hys | exact Hyb]).
          apply andb_true_intro. split; [apply mem_In; exact Hyd|]. apply negb_true_iff, Nat.eqb_neq. intros ->.
          apply (child_not_above m Hwf d b Hds Hb Hyb).
        - apply mem_false. intros Hin. unfold xs in Hin. rewrite <- in_rev in Hin. apply (proj1 (sort_by_In (lt_depth_id m) y (exit_set m C d tgt))) in Hin.
          apply (exit_set_sub m C d tgt y) in Hin as [_ [Hyd Hne]]. apply mem_In in Hyd.
          destruct (below_some_child y d Hys Hyd Hne) as [b [Hb Hyb]].
          assert (removedb m Bs y = true) by (apply (removedb_spec m Bs y); exists b; now split). congruence. }
      exists x1, P', Bs. split; [reflexivity|]. split; [exact Hchain|]. split; [exact Hlast|]. split; [exact Hrm|].
      split; [intros b Hb; exact Hb|]. split; [exact Hcx1|]. split; [intros _ c Hc; exact Hc | intros Hk; congruence].
    - (* parallel domain: only the target's region goes *)
      set (Bs := [x1]).
      assert (Hbr : branch_of m d tgt = Some x1) by (apply (branch_is_path_head d tgt x1 P' Ht Hchain EP)).
      assert (Hrm : remove_all xs C = kept m Bs C).
      { rewrite remove_all_filter. unfold kept. apply filter_ext_in. intros y Hy. f_equal.
        assert (Hys : y < size m) by now apply (L_range m C HL).
        assert (Hxs : In y xs <-> In y C /\ (is_desc m y d && negb (Nat.eqb y d)) = true /\ is_desc m y x1 = true).
        { unfold xs. rewrite <- in_rev. rewrite (sort_by_In (lt_depth_id m) y (exit_set m C d tgt)).
          unfold exit_set. assert (Hpar : is_parallel m d = true) by (unfold is_parallel; now rewrite Hkd). rewrite Hpar, Hbr.
          rewrite !filter_In. tauto. }
        destruct (removedb m Bs y) eqn:Er.
        - apply (removedb_spec m Bs y) in Er as [b [Hb Hyb]]. destruct Hb as [<-|[]]. apply mem_In, Hxs. split; [exact Hy|].
          assert (Hyd : desc m y d) by (apply (desc_trans m Hwf x1 d Hx1s); [apply (desc_child m Hwf x1 d d Hx1s Hpx1), desc_refl | exact Hys | exact Hyb]).
          split; [|apply mem_In; exact Hyb]. apply andb_true_intro. split; [apply mem_In; exact Hyd|].
          apply negb_true_iff, Nat.eqb_neq. intros ->. apply (child_not_above m Hwf d x1 Hds Hcx1 Hyb).
        - apply mem_false. intros Hin. apply Hxs in Hin as [_ [_ Hb]]. apply mem_In in Hb.
          assert (removedb m Bs y = true) by (apply (removedb_spec m Bs y); exists x1; split; [now left | exact Hb]). congruence. }
      exists x1, P', Bs. split; [reflexivity|]. split; [exact Hchain|]. split; [exact Hlast|]. split; [exact Hrm|].
      split; [intros b Hb; destruct Hb as [<-|[]]; exact Hcx1|]. split; [now left|]. split; [intros Hk; congruence | intros _; reflexivity].
  Qed.

  (* the configuration the effect formula describes is legal *)
  Theorem formula_legal C d tgt :
    Legal m C -> tgt < size m -> is_history m tgt = false -> In d (ancestors m tgt) -> In d C ->
    Legal m (add_all (entered (S (size m)) m (path_to m tgt d)) (remove_all (rev (sort_by (lt_depth_id m) (exit_set m C d tgt))) C)).
  Proof.
    intros HL Ht Hth Hd HdC.
    destruct (formula_parts C d tgt HL Ht Hd HdC) as [x1 [P' [Bs [EP [Hchain [Hlast [Hrm [HBs [Hx1B [Hcomp Hpar]]]]]]]]]].
    rewrite EP, Hrm. now apply (preserve_core d x1 P' Bs C tgt).
  Qed.

  Theorem external_preserves_legal eng pr t tgt ev s0 s1 :
    let d := find_domain m (t_src t) tgt in
    Legal m (s_cfg s0) ->
    exec_external eng pr m t tgt ev s0 = (s1, None) ->
    tgt < size m -> is_history m tgt = false ->
    In d (ancestors m tgt) ->                 (* the target lies strictly below the transition domain *)
    In d (s_cfg s0) ->                        (* the domain is active *)
    Legal m (s_cfg s1).
  Proof.
    intros d HL Hex Ht Hth Hd HdC.
    assert (Hne : tgt <> 0).
    { intros ->. assert (H0 : 0 < size m) by lia. rewrite (ancestors_unfold m Hwf 0 H0) in Hd.
      destruct (parent m 0) as [q|] eqn:Hq; [|destruct Hd]. destruct (parent_props m Hwf 0 q H0 Hq). lia. }
    pose proof (external_effect m eng pr t tgt ev s0 s1 Hex) as Heff. cbv zeta in Heff. fold d in Heff. rewrite Hth in Heff.
    rewrite entered_nil in Heff. unfold add_all at 1 in Heff. cbn [fold_left] in Heff.
    rewrite (ext_exit_set_nonroot m _ _ d tgt Hne), (ext_path_nonroot m tgt d Hne) in Heff.
    rewrite (exit_set_h_plain m (s_cfg s0) (s_hist s0) d tgt Hth) in Heff.
    rewrite Heff. now apply formula_legal.
  Qed.
End Preserve.

(* ---------------------------------------------------------------------------------------------------------------
   Part 5: the side conditions follow from "the source is active" and "the target is neither the root nor a history
   pseudo-state". *)
Section Domain.
  Variable m : machine.
  Hypothesis Hwf : wf m = true.
  Hypothesis Hgood : good_initials m = true.

  Lemma root_above : forall y, y < size m -> desc m y 0.
  Proof.
    intros y. induction y as [y IH] using (well_founded_induction lt_wf). intros Hy.
    destruct (parent m y) as [p|] eqn:Hp.
    - destruct (parent_props m Hwf y p Hy Hp) as [Hlt _]. apply (desc_child m Hwf y p 0 Hy Hp). apply IH; lia.
    - destruct (root_props m Hwf y Hy Hp) as [-> _]. apply desc_refl.
  Qed.

  Lemma desc_proper y a : y < size m -> desc m y a -> a <> y -> In a (ancestors m y).
  Proof. intros Hy [E|H] Hne; [congruence | exact H]. Qed.

  Lemma parent_in_ancestors y p : y < size m -> parent m y = Some p -> In p (ancestors m y).
  Proof. intros Hy Hp. rewrite (ancestors_unfold m Hwf y Hy), Hp. now left. Qed.

  Lemma root_parent : parent m 0 = None.
  Proof.
    pose proof (wf_size m Hwf) as H0. destruct (parent m 0) as [q|] eqn:Hq; [|reflexivity].
    destruct (parent_props m Hwf 0 q H0 Hq). lia.
  Qed.

  (* the domain of a transition lies strictly above its target (unless the target is the root) ... *)
  Lemma domain_above_target src tgt : src < size m -> tgt < size m -> tgt <> 0 ->
    In (find_domain m src tgt) (ancestors m tgt).
  Proof.
    intros Hs Ht Hne. unfold find_domain.
    assert (Hpt : exists p, parent m tgt = Some p).
    { destruct (parent m tgt) as [p|] eqn:Hp; [eauto|]. destruct (root_props m Hwf tgt Ht Hp). congruence. }
    destruct Hpt as [pt Hpt].
    destruct (Nat.eqb_spec tgt src) as [<-|Hts].
    - rewrite Hpt. simpl. now apply parent_in_ancestors.
    - destruct (mem tgt (anc_self m src)) eqn:Em.
      + rewrite Hpt. simpl. now apply parent_in_ancestors.
      + destruct (filter (fun a => mem a (anc_self m tgt)) (anc_self m src)) as [|a r] eqn:Ef.
        * exfalso. assert (Hin : In 0 (filter (fun a => mem a (anc_self m tgt)) (anc_self m src))).
          { apply filter_In. split; [apply root_above; exact Hs | apply mem_In, root_above; exact Ht]. }
          rewrite Ef in Hin. destruct Hin.
        * assert (Ha : In a (filter (fun a => mem a (anc_self m tgt)) (anc_self m src))) by (rewrite Ef; now left).
          apply filter_In in Ha as [Has Hat]. apply mem_In in Hat.
          apply (desc_proper tgt a Ht Hat). intros ->. apply mem_false in Em. contradiction.
  Qed.

  (* ... and is active whenever the source is *)
  Lemma domain_active C src tgt : Legal m C -> In src C -> tgt < size m -> In (find_domain m src tgt) C.
  Proof.
    intros HL Hs Ht. pose proof (Legal_closed m C HL) as Hcl. assert (Hss : src < size m) by now apply (L_range m C HL).
    assert (Hpar : In (root_or (parent m src)) C).
    { destruct (parent m src) as [p|] eqn:Hp; simpl; [|apply (L_root m C HL)].
      apply (Hcl src p Hs). right. now apply parent_in_ancestors. }
    unfold find_domain. destruct (Nat.eqb tgt src); [exact Hpar|].
    destruct (mem tgt (anc_self m src)) eqn:Em.
    - apply mem_In in Em. destruct (parent m tgt) as [p|] eqn:Hp; simpl; [|apply (L_root m C HL)].
      apply (Hcl src p Hs). now apply (desc_of_parent m Hwf src tgt p Hss Em).
    - destruct (filter (fun a => mem a (anc_self m tgt)) (anc_self m src)) as [|a r] eqn:Ef; [exact Hpar|].
      assert (Ha : In a (filter (fun a => mem a (anc_self m tgt)) (anc_self m src))) by (rewrite Ef; now left).
      apply filter_In in Ha as [Has _]. now apply (Hcl src a Hs).
  Qed.

  (* legality is preserved by every external transition from an active source to a target that is neither the
     machine root nor a history pseudo-state *)
  Theorem transition_preserves_legal eng pr t tgt ev s0 s1 :
    Legal m (s_cfg s0) -> In (t_src t) (s_cfg s0) ->
    tgt < size m -> tgt <> 0 -> is_history m tgt = false ->
    exec_external eng pr m t tgt ev s0 = (s1, None) ->
    Legal m (s_cfg s1).
  Proof.
    intros HL Hs Ht Hne Hh Hex.
    apply (external_preserves_legal m Hwf Hgood eng pr t tgt ev s0 s1 HL Hex Ht Hh).
    - apply domain_above_target; [now apply (L_range m _ HL) | exact Ht | exact Hne].
    - now apply domain_active.
  Qed.
End Domain.
