(* A generic frame theorem for Model/Exec.v and Model/Macro.v: any reflexive-transitive relation on
   interpreter states that holds across each PRIMITIVE update holds across every composite operation
   (actions, entry, exit, done events, scheduling, one transition, one event, settling, draining).
   Instantiated for: status paths (C14), queue extension (C04), log growth, clock monotonicity (C08). *)
From XSM Require Import Model.Macro Proofs.StepP.
From Coq Require Import Lia.

(* the observations that transition execution itself records (the drivers add OBegin, OErr, OCut 0/2, OCan, ...) *)
Definition exec_obs (o : obs) : bool :=
  match o with
  | OAct _ _ _ | OActErr _ | OSched _ | OCancel _ | OTrans _ _ | ONotify _ | ODone _ | OEnter _ | OLeave _
  | OEmit _ _ | OPAct _ | OPBuiltin _ | OFail | OClock _ | OSvc _ => true
  | OCut w => Nat.eqb w 1 || Nat.eqb w 9
  | _ => false
  end.

Record prims (R : st -> st -> Prop) : Prop := {
  p_refl : forall s, R s s;
  p_trans : forall a b c, R a b -> R b c -> R a c;
  p_log : forall o s, exec_obs o = true -> R s (logo o s);
  p_ctx : forall c s, R s (with_ctx c s);
  p_rd : forall n s, R s (with_rd n s);
  p_now : forall n s, s_now s <= n -> R s (with_now n s);
  p_pending : forall p q s, R s (with_pending p q s);
  p_cfg : forall C s, R s (with_cfg C s);
  p_enq : forall ev s, R s (with_queue (s_queue s ++ [ev]) s);
  p_complete : forall o s, R s (complete o s);
  p_fail : forall s, R s (fail_machine s) }.

Section Frame.
  Variable R : st -> st -> Prop.
  Hypothesis P : prims R.

  Let Rrefl := p_refl R P.
  Let Rtrans := p_trans R P.

  (* peel a log record off the right-hand side *)
  Lemma lg o s s' : exec_obs o = true -> R s s' -> R s (logo o s').
  Proof. intros Ho H. eapply Rtrans; [exact H | apply (p_log R P); exact Ho]. Qed.

  Lemma f_send_self eng ev s : R s (send_self eng ev s).
  Proof. unfold send_self. destruct (accepts eng (s_status s)); [apply (p_enq R P) | apply Rrefl]. Qed.

  Lemma f_arm x d k s : R s (arm x d k s).
  Proof. unfold arm. apply (p_pending R P). Qed.

  Lemma f_deliver eng p s : R s (deliver eng p s).
  Proof.
    unfold deliver. destruct (p_kind p) as [ty|iid ok val h|iid dur ok val h].
    - destruct eng; try apply f_send_self;
        (destruct (s_status s); try apply Rrefl; destruct (mem (p_owner p) (s_cfg s)); [apply f_send_self | apply Rrefl]).
    - destruct (ok || h); [apply f_send_self|]. eapply Rtrans; [|apply (p_fail R P)]; [apply f_send_self].
    - apply Rtrans with (logo (OSvc iid) s); [apply (p_log R P); reflexivity | apply f_arm].
  Qed.

  Lemma f_busy_loop f eng t s : R s (busy_loop f eng t s).
  Proof.
    revert s; induction f as [|f IH]; intros s; simpl; [apply Rrefl|].
    destruct (sort_pend _) as [|p rest]; [apply Rrefl|].
    eapply Rtrans; [|apply IH].
    match goal with |- R s ((if ?c then _ else _) ?x) => destruct c end;
      (eapply Rtrans; [apply (p_pending R P)|]; try (eapply Rtrans; [|(apply (p_log R P); reflexivity)]; [apply f_deliver]); apply f_deliver).
  Qed.

  Lemma f_advance_busy eng d s : R s (advance_busy eng d s).
  Proof.
    unfold advance_busy. eapply Rtrans; [apply f_busy_loop|]. apply (p_now R P).
    assert (H : forall f t s0, s_now (busy_loop f eng t s0) = s_now s0).
    { clear. induction f as [|f IH]; intros t s0; simpl; [reflexivity|].
      destruct (sort_pend _) as [|p rest]; [reflexivity|]. rewrite IH.
      assert (Hd : forall q s1, s_now (deliver eng q s1) = s_now s1).
      { intros q s1. unfold deliver. destruct (p_kind q); [| |reflexivity].
        - destruct eng; unfold send_self; repeat (match goal with |- context [if ?c then _ else _] => destruct c end; try reflexivity);
            destruct (s_status s1); try reflexivity; destruct (mem _ _); try reflexivity; destruct (accepts _ _); reflexivity.
        - unfold send_self, fail_machine. destruct (ok || handled); destruct (accepts eng (s_status s1)); simpl; try reflexivity;
            destruct (s_status s1); reflexivity. }
      match goal with |- s_now ((if ?c then _ else _) ?x) = _ => destruct c end; simpl; rewrite ?Hd; reflexivity. }
    rewrite H. lia.
  Qed.

  Lemma f_run_actions eng pr acts ev s : R s (fst (run_actions eng pr acts ev s)).
  Proof.
    revert s; induction acts as [|a r IH]; intros s; simpl; [apply Rrefl|].
    destruct a as [k|k|k|v z|ty tag|k|k|k d|k v].
    - eapply Rtrans; [|apply IH]; [(apply (p_log R P); reflexivity)].
    - simpl. eapply Rtrans; (apply (p_log R P); reflexivity).
    - apply Rrefl.
    - eapply Rtrans; [|apply IH]; [apply (p_ctx R P)].
    - eapply Rtrans; [|apply IH]. eapply Rtrans; [|apply f_send_self].
      destruct eng; try apply Rrefl. destruct pr; [apply (p_rd R P) | apply Rrefl].
    - simpl. (apply (p_log R P); reflexivity).
    - eapply Rtrans; [|apply IH]. apply lg; [reflexivity|]. apply lg; [reflexivity | apply Rrefl].
    - eapply Rtrans; [|apply IH]. apply lg; [reflexivity|].
      eapply Rtrans; [|apply f_advance_busy]. apply lg; [reflexivity | apply Rrefl].
    - eapply Rtrans; [|apply IH]. eapply Rtrans; [|apply (p_ctx R P)]; [(apply (p_log R P); reflexivity)].
  Qed.

  Lemma f_pure_actions acts s : R s (pure_actions acts s).
  Proof.
    revert s; induction acts as [|a r IH]; intros s; simpl; [apply Rrefl|].
    eapply Rtrans; [|apply IH].
    destruct a; try (apply (p_log R P); reflexivity). eapply Rtrans; [|(apply (p_log R P); reflexivity)]; [apply (p_ctx R P)].
  Qed.

  Lemma f_exec_actions eng pr acts ev : preserves R (fun s => exec_actions eng pr acts ev s).
  Proof. intros s. unfold exec_actions. destruct eng; try apply f_run_actions. simpl. apply f_pure_actions. Qed.

  Lemma f_fire_on_done eng pr m fin s : R s (fire_on_done eng pr m fin s).
  Proof.
    unfold fire_on_done. destruct (find _ _).
    - eapply Rtrans; [|apply f_send_self]. unfold note_chained. destruct eng; try apply Rrefl.
      destruct pr; [apply (p_rd R P) | apply Rrefl].
    - destruct (parent m fin) as [[|p]|]; try apply Rrefl; apply (p_complete R P).
  Qed.

  Lemma f_start_service eng x i : preserves R (start_service eng x i).
  Proof.
    unfold start_service. destruct (Nat.eqb (i_src i) 0); [apply pres_raise, Rrefl|].
    destruct eng.
    - apply pres_bind; try apply Rtrans; apply pres_lift; intros s; [(apply (p_log R P); reflexivity) | apply f_deliver].
    - apply pres_lift. intros s. apply f_arm.
    - apply pres_bind; try apply Rtrans; apply pres_lift; intros s; [(apply (p_log R P); reflexivity) | apply f_deliver].
  Qed.

  Lemma f_sched_run eng m x : preserves R (sched_run eng m x).
  Proof.
    unfold sched_run. apply pres_bind; [apply Rtrans | apply pres_lift; intros s; (apply (p_log R P); reflexivity)|].
    apply pres_bind; [apply Rtrans | |apply pres_for_each; [apply Rrefl | apply Rtrans | intros i; apply f_start_service]].
    apply pres_lift. intros s. generalize (n_after (nd m x)). intros l. revert s.
    induction l as [|dt r IH]; intros s; simpl; [apply Rrefl|].
    eapply Rtrans; [|apply IH]. generalize (snd dt). intros ts. revert s.
    induction ts as [|t r' IH']; intros s; simpl; [apply Rrefl|]. eapply Rtrans; [|apply IH']; [apply f_arm].
  Qed.

  Lemma f_sched eng m x : preserves R (sched eng m x).
  Proof. unfold sched. destruct eng; try apply f_sched_run; apply pres_ret, Rrefl. Qed.
  Lemma f_sched_before eng m x : preserves R (sched_before eng m x).
  Proof. unfold sched_before. destruct eng; try apply f_sched_run; apply pres_ret, Rrefl. Qed.
  Lemma f_sched_after eng m x : preserves R (sched_after eng m x).
  Proof. unfold sched_after. destruct eng; try apply f_sched_run; apply pres_ret, Rrefl. Qed.

  Lemma f_cancel x : preserves R (cancel x).
  Proof. unfold cancel. apply pres_lift. intros s. eapply Rtrans; [|apply (p_pending R P)]; [(apply (p_log R P); reflexivity)]. Qed.

  Lemma f_enter_one eng pr m rec ep ei ev x :
    (forall l e, preserves R (rec l e)) -> preserves R (enter_one eng pr m rec ep ei ev x).
  Proof.
    intros Hrec. unfold enter_one.
    apply pres_bind; [apply Rtrans | apply pres_lift; intros s; eapply Rtrans; [|(apply (p_log R P); reflexivity)]; [apply (p_cfg R P)] |].
    apply pres_bind; [apply Rtrans | apply f_exec_actions |].
    apply pres_bind; [apply Rtrans | apply f_sched_before |].
    apply pres_bind; [apply Rtrans | destruct (is_final m x); [apply pres_lift; intros s; apply f_fire_on_done | apply pres_ret, Rrefl] |].
    destruct (kind_of m x).
    - apply f_sched_after.
    - destruct (n_initial (nd m x)).
      + destruct (mem x ep); [apply f_sched_after|]. apply pres_bind; [apply Rtrans | apply Hrec | apply f_sched_after].
      + destruct (children m x); [apply f_sched_after | apply pres_raise, Rrefl].
    - apply pres_bind; [apply Rtrans | | apply f_sched_after].
      destruct (filter _ _); [apply pres_ret, Rrefl | apply Hrec].
    - apply f_sched_after.
    - apply f_sched_after.
  Qed.

  Lemma f_enter_states fuel eng pr m l ev : preserves R (enter_states fuel eng pr m l ev).
  Proof.
    revert l ev; induction fuel as [|f IH]; intros l ev; simpl; [apply pres_raise, Rrefl|].
    apply pres_for_each; [apply Rrefl | apply Rtrans|]. intros x. apply f_enter_one. intros l' e'. apply IH.
  Qed.

  Lemma f_enter eng pr m l ev : preserves R (enter eng pr m l ev).
  Proof. apply f_enter_states. Qed.

  Lemma f_leave x : preserves R (lift (fun s => if mem x (s_cfg s) then logo (OLeave x) (with_cfg (cdel x (s_cfg s)) s) else s)).
  Proof. apply pres_lift. intros s. destruct (mem x (s_cfg s)); [|apply Rrefl]. eapply Rtrans; [|(apply (p_log R P); reflexivity)]; [apply (p_cfg R P)]. Qed.

  (* history is rewritten by _record_history only: everything above holds without this hypothesis *)
  Hypothesis Hh : forall H s, R s (with_hist H s).

  Lemma f_record_history m l s : R s (record_history m l s).
  Proof.
    unfold record_history. generalize (dedup (List.concat (map (anc_self m) l))). intros cands.
    assert (H : forall s', R s s' -> R s (fold_left (fun s'0 p =>
        if has_history_child m p then
          match sort_by (lt_depth_id m) (filter (fun n => negb (Nat.eqb n p) && is_desc m n p) (s_cfg s)) with
          | [] => s'0 | _ :: _ => with_hist (hist_set (s_hist s'0) p
               (sort_by (lt_depth_id m) (filter (fun n => negb (Nat.eqb n p) && is_desc m n p) (s_cfg s)))) s'0 end
        else s'0) cands s')).
    { induction cands as [|p r IH]; intros s' Hs; simpl; [exact Hs|]. apply IH.
      destruct (has_history_child m p); [|exact Hs].
      destruct (sort_by _ _); [exact Hs|]. eapply Rtrans; [|apply Hh]; [exact Hs]. }
    apply H, Rrefl.
  Qed.

  Lemma f_exit_states eng pr m l ev : preserves R (exit_states eng pr m l ev).
  Proof.
    unfold exit_states. apply pres_bind; [apply Rtrans | apply pres_lift; intros s; apply f_record_history |].
    destruct eng.
    - apply pres_bind; [apply Rtrans | apply pres_for_each; [apply Rrefl | apply Rtrans | intros x; apply f_cancel] |].
      apply pres_for_each; [apply Rrefl | apply Rtrans|]. intros x.
      apply pres_bind; [apply Rtrans | apply f_exec_actions | apply f_leave].
    - apply pres_for_each; [apply Rrefl | apply Rtrans|]. intros x.
      apply pres_bind; [apply Rtrans | apply f_cancel|]. apply pres_bind; [apply Rtrans | apply f_exec_actions | apply f_leave].
    - apply pres_bind; [apply Rtrans | apply pres_for_each; [apply Rrefl | apply Rtrans | intros x; apply f_cancel] |].
      apply pres_for_each; [apply Rrefl | apply Rtrans|]. intros x.
      apply pres_bind; [apply Rtrans | apply f_exec_actions | apply f_leave].
  Qed.

  Lemma f_hook_trans t : preserves R (hook_trans t).
  Proof. apply pres_lift. intros s. (apply (p_log R P); reflexivity). Qed.
  Lemma f_hook_notify : preserves R hook_notify.
  Proof. apply pres_lift. intros s. (apply (p_log R P); reflexivity). Qed.

  Lemma f_exec_external eng pr m t tgt ev : preserves R (exec_external eng pr m t tgt ev).
  Proof.
    intros s0. unfold exec_external.
    set (body := (exit_states _ _ _ _ _ ;; _)).
    assert (Hb : preserves R body).
    { unfold body. apply pres_bind; [apply Rtrans | apply f_exit_states |].
      apply pres_bind; [apply Rtrans | apply f_exec_actions |].
      apply pres_bind; [apply Rtrans | apply f_enter |].
      destruct (is_history m tgt); [|apply pres_ret, Rrefl].
      destruct (combined_path _ _ _); [apply pres_ret, Rrefl | apply f_enter]. }
    specialize (Hb s0). destruct (body s0) as [s1 [e|]]; simpl in Hb.
    - set (rearm := for_each (sched eng m) _).
      assert (Hr : preserves R rearm) by (apply pres_for_each; [apply Rrefl | apply Rtrans | intros x; apply f_sched]).
      specialize (Hr (with_cfg (s_cfg s0) s1)).
      destruct (rearm (with_cfg (s_cfg s0) s1)) as [s2 [e2|]]; simpl in *;
        (eapply Rtrans; [exact Hb|]; eapply Rtrans; [|exact Hr]; [apply (p_cfg R P)]).
    - eapply Rtrans; [exact Hb|].
      destruct eng; (apply (pres_bind R Rtrans); [apply f_hook_trans || apply f_hook_notify | apply f_hook_trans || apply f_hook_notify]).
  Qed.

  Lemma f_exec_transition eng pr m t ev : preserves R (exec_transition eng pr m t ev).
  Proof.
    unfold exec_transition. destruct (t_target t) as [|tgt|].
    - apply pres_bind; [apply Rtrans | apply f_exec_actions | apply f_hook_trans].
    - destruct (Nat.eqb tgt (t_src t) && negb (t_reenter t)).
      + apply pres_bind; [apply Rtrans | apply f_exec_actions | apply f_hook_trans].
      + apply f_exec_external.
    - apply pres_raise, Rrefl.
  Qed.

  Lemma f_process_event eng pr m ev : preserves R (process_event eng pr m ev).
  Proof.
    intros s. unfold process_event. destruct (select m (s_cfg s) (s_ctx s) ev) as [ts|]; [|apply Rrefl].
    apply (pres_for_each R Rrefl Rtrans). intros t s'.
    destruct (Nat.ltb 1 (List.length ts) && negb (mem (t_src t) (s_cfg s'))); [apply Rrefl | apply f_exec_transition].
  Qed.

  Lemma f_settle n eng pr m : preserves R (settle n eng pr m).
  Proof.
    induction n as [|n IH]; intros s; simpl; [(apply (p_log R P); reflexivity)|].
    destruct (select m (s_cfg s) (s_ctx s) transient_event) as [ts|]; [|apply Rrefl].
    destruct (existsb _ ts); [|apply Rrefl].
    apply (pres_bind R Rtrans); [apply f_process_event | apply IH].
  Qed.
End Frame.

(* the drivers also dequeue: relations that do not care about the queue's content extend to them *)
Section Frame2.
  Variable R : st -> st -> Prop.
  Hypothesis P : prims R.
  Hypothesis Hh : forall H s, R s (with_hist H s).
  Hypothesis Pq : forall q s, R s (with_queue q s).
  Hypothesis Plog : forall o s, R s (logo o s).

  Let Rrefl := p_refl R P.
  Let Rtrans := p_trans R P.

  Lemma f_drain n eng m : preserves R (drain n eng m).
  Proof.
    induction n as [|n IH]; intros s; simpl.
    - destruct (s_queue s); [apply Rrefl|]. eapply Rtrans; [apply Pq | apply Plog].
    - destruct (s_queue s) as [|ev q]; [apply Rrefl|].
      apply (pres_bind R Rtrans).
      + apply pres_lift. intros s'. eapply Rtrans; [apply Pq|]. eapply Rtrans; apply Plog.
      + apply (pres_bind R Rtrans); [apply (f_process_event R P Hh)|].
        apply (pres_bind R Rtrans); [apply (f_settle R P Hh) | apply IH].
  Qed.

  Lemma f_async_step m ev s : R s (async_step m ev s).
  Proof.
    unfold async_step. destruct (Nat.ltb _ _).
    - eapply Rtrans; [apply (p_rd R P) | apply Plog].
    - set (s1 := logo _ (logo _ s)).
      assert (H1 : R s s1) by (eapply Rtrans; apply Plog).
      pose proof (pres_bind R Rtrans _ _ (f_process_event R P Hh Async true m ev) (f_settle R P Hh (m_max_iter m) Async true m) s1) as H2.
      destruct ((process_event Async true m ev;; settle (m_max_iter m) Async true m) s1) as [s2 [e|]]; simpl in H2.
      + eapply Rtrans; [exact H1|]. eapply Rtrans; [exact H2 | apply Plog].
      + eapply Rtrans; [exact H1|]. destruct (Nat.eqb _ _); [eapply Rtrans; [exact H2 | apply (p_rd R P)] | exact H2].
  Qed.

  Lemma f_async_loop fuel m s : R s (fst (async_loop fuel m s)).
  Proof.
    revert s; induction fuel as [|f IH]; intros s; simpl; [apply Rrefl|].
    destruct (s_status s); try apply Rrefl. destruct (s_queue s) as [|ev q]; [apply Rrefl|].
    eapply Rtrans; [|apply IH]. eapply Rtrans; [apply Pq | apply f_async_step].
  Qed.
End Frame2.
