(* Tie T: the functions as translated from the current source (coq/Gen) are
   equal to the hand-written model functions the property theorems are
   about.  Re-checked on every run; an edit to the Python function changes
   Gen and, unless it is semantically neutral in a way these proofs can
   follow, breaks a lemma here. *)
From XSM Require Import Model.Match Model.Spawn Gen.GenMatch Gen.GenSpawn Proofs.PyLibP.

Lemma gen_matching_eq keys ev : matching_descriptors keys ev = matching keys ev.
Proof.
  unfold matching_descriptors, matching.
  destruct (negb (truthy_list keys) || negb (truthy_str ev)); [reflexivity|].
  cbv zeta.
  unfold is_internal, internal_prefixes, exact_part, partial_part, star_part.
  rewrite (fold_left_filter_ext _ (partial_matches ev)).
  - simpl app.
    destruct (in_list ev keys); destruct (startswith_any ev _); try reflexivity;
      destruct (in_list "*" keys); simpl; rewrite ?app_nil_r, <- ?app_assoc; reflexivity.
  - intros a k. unfold partial_matches.
    destruct (String.eqb k "*"); simpl; [reflexivity|].
    destruct (endswith k ".*"); simpl; [|reflexivity].
    destruct (String.eqb ev (drop_last 2 k) || startswith ev (drop_last 2 k ++ ".")); reflexivity.
Qed.

Lemma gen_is_spawn_eq a : GenSpawn.is_spawn_action a = Spawn.is_spawn_action a.
Proof. reflexivity. Qed.

Lemma gen_spawn_key_eq a : GenSpawn.spawn_service_key a = Spawn.spawn_service_key a.
Proof. reflexivity. Qed.
