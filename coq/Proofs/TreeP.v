(* Basic facts about well-formed state trees (Model/Tree.v) *)
From XSM Require Import Model.Tree Proofs.PyLibP.
From Coq Require Import Lia Sorting.Sorted.

Lemma mem_In x l : mem x l = true <-> In x l.
Proof.
  unfold mem. rewrite existsb_exists. split.
  - intros [y [Hy E]]. apply Nat.eqb_eq in E. now subst.
  - intros H. exists x. split; [assumption | apply Nat.eqb_refl].
Qed.

Lemma mem_false x l : mem x l = false <-> ~ In x l.
Proof. rewrite <- mem_In. destruct (mem x l); split; congruence. Qed.

Lemma nodup_nat_NoDup l : nodup_nat l = true <-> NoDup l.
Proof.
  induction l as [|x r IH]; simpl; [split; [constructor | reflexivity]|].
  rewrite andb_true_iff, negb_true_iff, mem_false, IH. split.
  - intros [H1 H2]. now constructor.
  - intros H. inversion H; subst. now split.
Qed.

(* ---- unfolding wf ---- *)

Lemma wf_from_nth m i l k :
  wf_from m i l = true -> k < List.length l ->
  node_wf m (i + k) (nth k l dummy_node) = true /\ nodup_nat (n_children (nth k l dummy_node)) = true.
Proof.
  revert i k; induction l as [|n r IH]; intros i k H Hk; simpl in *; [lia|].
  apply andb_prop in H as [H H3]. apply andb_prop in H as [H1 H2].
  destruct k as [|k].
  - rewrite Nat.add_0_r. now split.
  - replace (i + S k) with (S i + k) by lia. apply IH; [assumption | lia].
Qed.

Lemma wf_node m s :
  wf m = true -> s < size m -> node_wf m s (nd m s) = true /\ NoDup (children m s).
Proof.
  unfold wf. intros H Hs. apply andb_prop in H as [_ H].
  destruct (wf_from_nth m 0 (m_nodes m) s H Hs) as [H1 H2]. split; [exact H1 | now apply nodup_nat_NoDup].
Qed.

Lemma wf_size m : wf m = true -> 0 < size m.
Proof. unfold wf. intros H. apply andb_prop in H as [H _]. now apply Nat.ltb_lt. Qed.

(* the components of node_wf, named *)
Lemma node_wf_inv m i n :
  node_wf m i n = true ->
  (match n_parent n with
   | None => i = 0 /\ n_depth n = 0
   | Some p => p < i /\ In i (children m p) /\ n_depth n = S (depth m p)
   end)
  /\ (forall c, In c (n_children n) -> i < c /\ c < size m /\ parent m c = Some i)
  /\ (forall c, n_initial n = Some c -> In c (n_children n))
  /\ (match n_kind n with KAtomic | KFinal | KHistory _ => n_children n = [] | _ => True end).
Proof.
  unfold node_wf. intros H.
  apply andb_prop in H as [H Hk]. apply andb_prop in H as [H Hi]. apply andb_prop in H as [Hp Hc].
  split; [|split; [|split]].
  - destruct (n_parent n) as [p|].
    + apply andb_prop in Hp as [Hp Hd]. apply andb_prop in Hp as [Hlt Hmem].
      split; [now apply Nat.ltb_lt|]. split; [now apply mem_In | now apply Nat.eqb_eq].
    + apply andb_prop in Hp as [H1 H2]. split; now apply Nat.eqb_eq.
  - intros c Hin. rewrite forallb_forall in Hc. specialize (Hc c Hin).
    apply andb_prop in Hc as [Hc Hpar]. apply andb_prop in Hc as [H1 H2].
    split; [now apply Nat.ltb_lt|]. split; [now apply Nat.ltb_lt|].
    destruct (parent m c) as [q|]; [|discriminate]. apply Nat.eqb_eq in Hpar. now subst.
  - intros c Hc'. rewrite Hc' in Hi. now apply mem_In.
  - destruct (n_kind n); auto; destruct (n_children n); auto; discriminate.
Qed.

Section WF.
  Variable m : machine.
  Hypothesis Hwf : wf m = true.

  Lemma parent_props s p :
    s < size m -> parent m s = Some p ->
    p < s /\ In s (children m p) /\ depth m s = S (depth m p).
  Proof.
    intros Hs Hp. destruct (wf_node m s Hwf Hs) as [H _]. apply node_wf_inv in H as [H _].
    unfold parent in Hp. rewrite Hp in H. exact H.
  Qed.

  Lemma root_props s : s < size m -> parent m s = None -> s = 0 /\ depth m s = 0.
  Proof.
    intros Hs Hp. destruct (wf_node m s Hwf Hs) as [H _]. apply node_wf_inv in H as [H _].
    unfold parent in Hp. rewrite Hp in H. exact H.
  Qed.

  Lemma child_props s c :
    s < size m -> In c (children m s) -> s < c /\ c < size m /\ parent m c = Some s.
  Proof.
    intros Hs Hc. destruct (wf_node m s Hwf Hs) as [H _]. apply node_wf_inv in H as [_ [H _]]. now apply H.
  Qed.

  Lemma initial_child s i : s < size m -> n_initial (nd m s) = Some i -> In i (children m s).
  Proof.
    intros Hs Hi. destruct (wf_node m s Hwf Hs) as [H _]. apply node_wf_inv in H as [_ [_ [H _]]]. now apply H.
  Qed.

  Lemma leaf_kinds_no_children s :
    s < size m -> (kind_of m s = KAtomic \/ kind_of m s = KFinal \/ exists d, kind_of m s = KHistory d) ->
    children m s = [].
  Proof.
    intros Hs Hk. destruct (wf_node m s Hwf Hs) as [H _]. apply node_wf_inv in H as [_ [_ [_ H]]].
    unfold kind_of, children in *. destruct Hk as [Hk|[Hk|[d Hk]]]; rewrite Hk in H; exact H.
  Qed.

  Lemma parent_lt_size s p : s < size m -> parent m s = Some p -> p < size m.
  Proof. intros Hs Hp. destruct (parent_props s p Hs Hp) as [H _]. lia. Qed.

  (* ---- ancestor chains ---- *)

  Lemma anc_fuel_lt f s x : s < size m -> In x (anc_fuel f m s) -> x < s /\ depth m x < depth m s.
  Proof.
    revert s; induction f as [|f IH]; intros s Hs Hx; simpl in Hx; [destruct Hx|].
    destruct (parent m s) as [p|] eqn:Hp; [|destruct Hx].
    destruct (parent_props s p Hs Hp) as [Hlt [_ Hd]].
    destruct Hx as [<-|Hx]; [lia|].
    assert (Hps : p < size m) by lia. destruct (IH p Hps Hx). lia.
  Qed.

  Lemma anc_fuel_sorted f s : s < size m -> StronglySorted (fun a b => depth m b < depth m a) (anc_fuel f m s).
  Proof.
    revert s; induction f as [|f IH]; intros s Hs; simpl; [constructor|].
    destruct (parent m s) as [p|] eqn:Hp; [|constructor].
    assert (Hps : p < size m) by (eapply parent_lt_size; eassumption).
    constructor; [now apply IH|]. apply Forall_forall. intros x Hx. now apply (anc_fuel_lt f p x Hps).
  Qed.

  Lemma anc_self_sorted s : s < size m -> StronglySorted (fun a b => depth m b < depth m a) (anc_self m s).
  Proof.
    intros Hs. unfold anc_self, ancestors. constructor; [now apply anc_fuel_sorted|].
    apply Forall_forall. intros x Hx. now apply (anc_fuel_lt (size m) s x Hs).
  Qed.

  Lemma anc_self_lt_size s x : s < size m -> In x (anc_self m s) -> x < size m.
  Proof.
    intros Hs [<-|Hx]; [assumption|]. destruct (anc_fuel_lt (size m) s x Hs Hx). lia.
  Qed.

  (* with fuel = size the walk always reaches the root *)
  Lemma anc_fuel_complete f s : s < f -> s < size m ->
    anc_fuel f m s = match parent m s with None => [] | Some p => p :: anc_fuel (f - 1) m p end.
  Proof. intros Hf Hs. destruct f as [|f]; [lia|]. simpl. rewrite Nat.sub_0_r. reflexivity. Qed.

  Lemma anc_fuel_enough f g s : s < f -> s < g -> s < size m -> anc_fuel f m s = anc_fuel g m s.
  Proof.
    revert g s; induction f as [|f IH]; intros g s Hf Hg Hs; [lia|].
    destruct g as [|g]; [lia|]. simpl.
    destruct (parent m s) as [p|] eqn:Hp; [|reflexivity].
    destruct (parent_props s p Hs Hp) as [Hlt _]. f_equal. apply IH; lia.
  Qed.

  Lemma ancestors_unfold s : s < size m ->
    ancestors m s = match parent m s with None => [] | Some p => p :: ancestors m p end.
  Proof.
    intros Hs. unfold ancestors.
    rewrite (anc_fuel_enough (size m) (S (size m)) s) by lia. reflexivity.
  Qed.
End WF.
