(* Tie T for the state-tree functions of the engine: _get_ancestors, _get_path_to_state, _find_transition_domain,
   _is_state_done, _resolve_history_target, _compute_states_to_exit and _record_history as RE-TRANSLATED from the current
   source on every build (Gen/GenGeom.v, written by harness/py2coq_tree.py) are equal to the hand-written model functions
   (Model/Tree.v, Model/Exec.v) that every theorem about entry, exit, history and done-ness is stated over.
   An edit to one of those Python functions changes Gen/GenGeom.v and, unless the edit is semantically neutral in a way
   these proofs can follow, a lemma below no longer compiles. *)
From XSM Require Import Model.TreeLib Gen.GenTree Gen.GenGeom Proofs.TreeP Proofs.IdP Proofs.HistP Proofs.DoneP.
From Coq Require Import Lia Sorting.Sorted.

(* the parent chain a `while current: ...; current = current.parent` loop walks, on the loop's own fuel *)
Fixpoint chain (f : nat) (m : machine) (o : option nat) : list nat :=
  match f with
  | 0 => []
  | S f' => match o with None => [] | Some c => c :: chain f' m (parent m c) end
  end.

Lemma anc_fuel_chain f m s : anc_fuel f m s = chain f m (parent m s).
Proof.
  revert s; induction f as [|f IH]; intros s; [reflexivity|]. cbn [anc_fuel chain].
  destruct (parent m s) as [p|]; [now rewrite IH | reflexivity].
Qed.

Lemma chain_anc_self m s : chain (S (size m)) m (Some s) = anc_self m s.
Proof. unfold anc_self, ancestors. cbn [chain]. now rewrite anc_fuel_chain. Qed.

(* the walk stops because it runs off the root, not because the fuel is spent *)
Fixpoint ends (f : nat) (m : machine) (o : option nat) : Prop :=
  match f with
  | 0 => o = None
  | S f' => match o with None => True | Some c => ends f' m (parent m c) end
  end.

Lemma ends_wf m : wf m = true -> forall f s, s < f -> s < size m -> ends (S f) m (Some s).
Proof.
  intros Hwf f. induction f as [|f IH]; intros s Hf Hs; [lia|].
  cbn [ends]. destruct (parent m s) as [p|] eqn:Hp; [|now destruct f].
  destruct (parent_props m Hwf s p Hs Hp) as [Hlt _].
  change (ends (S f) m (Some p)). apply IH; lia.
Qed.

(* ---------------- sets as duplicate-free lists ---------------- *)

Lemma fold_set_add_nodup l : forall acc, NoDup (acc ++ l) -> fold_left (fun a x => set_add x a) l acc = acc ++ l.
Proof.
  induction l as [|x l IH]; intros acc H; cbn [fold_left]; [now rewrite app_nil_r|].
  assert (Hx : mem x acc = false).
  { apply mem_false. intros Hin. apply NoDup_remove_2 in H. apply H. apply in_or_app. now left. }
  unfold set_add at 2. rewrite Hx. rewrite IH; rewrite <- app_assoc; [reflexivity | exact H].
Qed.

Lemma set_of_nodup l : NoDup l -> set_of l = l.
Proof. intros H. unfold set_of. now rewrite fold_set_add_nodup. Qed.

Lemma sorted_depth_nodup m l : StronglySorted (fun a b => depth m b < depth m a) l -> NoDup l.
Proof.
  induction 1 as [|a l Hs IH Hf]; constructor; [|exact IH].
  intros Hin. rewrite Forall_forall in Hf. specialize (Hf a Hin). lia.
Qed.

Lemma anc_self_nodup m s : wf m = true -> s < size m -> NoDup (anc_self m s).
Proof. intros Hwf Hs. eapply sorted_depth_nodup. now apply anc_self_sorted. Qed.

(* ---------------- _get_ancestors ---------------- *)

Lemma get_ancestors_loop_spec m n : forall fuel acc cur,
  fst (get_ancestors_loop1 m n fuel acc cur) = fold_left (fun a x => set_add x a) (chain fuel m cur) acc.
Proof.
  induction fuel as [|f IH]; intros acc cur; [reflexivity|].
  cbn [get_ancestors_loop1 chain]. destruct cur as [c|]; [|reflexivity]. cbn zeta. now rewrite IH.
Qed.

Theorem get_ancestors_is_set_of m s : get_ancestors m s = set_of (anc_self m s).
Proof.
  unfold get_ancestors. cbn zeta.
  pose proof (get_ancestors_loop_spec m s (S (size m)) [] (Some s)) as H.
  destruct (get_ancestors_loop1 m s (S (size m)) [] (Some s)) as [a c]. cbn [fst] in H.
  rewrite H, chain_anc_self. reflexivity.
Qed.

Theorem get_ancestors_bridge m s : wf m = true -> s < size m -> get_ancestors m s = anc_self m s.
Proof. intros Hwf Hs. rewrite get_ancestors_is_set_of. apply set_of_nodup. now apply anc_self_nodup. Qed.

(* ---------------- _get_path_to_state ---------------- *)

Definition take_until_o (o : option nat) (l : list nat) : list nat :=
  match o with Some d => take_until d l | None => l end.

Lemma get_path_loop_spec m t stop : forall fuel acc cur,
  fst (get_path_to_state_loop1 m t stop fuel acc cur) = acc ++ take_until_o stop (chain fuel m cur).
Proof.
  induction fuel as [|f IH]; intros acc cur.
  - cbn. destruct stop; cbn; now rewrite app_nil_r.
  - cbn [get_path_to_state_loop1 chain]. destruct cur as [c|].
    + destruct stop as [d|]; cbn [opt_eqb take_until_o take_until negb].
      * destruct (Nat.eqb c d); cbn [negb fst]; [now rewrite app_nil_r|].
        cbn zeta. rewrite IH. cbn [take_until_o]. now rewrite <- app_assoc.
      * cbn zeta. rewrite IH. cbn [take_until_o]. now rewrite <- app_assoc.
    + cbn. destruct stop; cbn; now rewrite app_nil_r.
Qed.

Lemma get_path_unfold m t stop : get_path_to_state m t stop = rev (take_until_o stop (anc_self m t)).
Proof.
  unfold get_path_to_state. cbn zeta.
  pose proof (get_path_loop_spec m t stop (S (size m)) [] (Some t)) as H.
  destruct (get_path_to_state_loop1 m t stop (S (size m)) [] (Some t)) as [p c]. cbn [fst] in H.
  rewrite H, chain_anc_self. reflexivity.
Qed.

(* the entry path of a transition with domain d *)
Theorem get_path_bridge m t d : get_path_to_state m t (Some d) = path_to m t d.
Proof. rewrite get_path_unfold. reflexivity. Qed.

(* domain None (the whole machine): the full chain from the root down *)
Theorem get_path_none m t : get_path_to_state m t None = rev (anc_self m t).
Proof. rewrite get_path_unfold. reflexivity. Qed.

Theorem get_path_root m d : wf m = true -> get_path_to_state m 0 None = ext_path m 0 d.
Proof.
  intros Hwf. rewrite get_path_none. unfold ext_path. cbn [Nat.eqb].
  pose proof (wf_size m Hwf) as H0.
  rewrite <- chain_anc_self. cbn [chain].
  destruct (parent m 0) as [p|] eqn:Hp; [|now destruct (size m)].
  destruct (parent_props m Hwf 0 p H0 Hp). lia.
Qed.

(* ---------------- _find_transition_domain ---------------- *)

Lemma max_depth_sorted m a l :
  StronglySorted (fun x y => depth m y < depth m x) (a :: l) -> max_depth m (a :: l) = Some a.
Proof.
  intros H. inversion H as [|? ? Hs Hf]; subst. unfold max_depth. cbn [fold_left].
  clear H Hs. induction l as [|x l IH]; [reflexivity|]. cbn [fold_left].
  inversion Hf as [|? ? Hx Hl]; subst.
  assert (E : Nat.ltb (depth m a) (depth m x) = false) by (apply Nat.ltb_ge; lia). rewrite E. now apply IH.
Qed.

Lemma filter_sorted {A} (R : A -> A -> Prop) f l : StronglySorted R l -> StronglySorted R (filter f l).
Proof.
  induction 1 as [|a l Hs IH Hf]; cbn [filter]; [constructor|].
  destruct (f a); [|exact IH]. constructor; [exact IH|].
  rewrite Forall_forall in *. intros x Hx. apply filter_In in Hx as [Hx _]. now apply Hf.
Qed.

Lemma root_in_anc_self m : wf m = true -> forall s, s < size m -> In 0 (anc_self m s).
Proof.
  intros Hwf s. induction s as [s IH] using (well_founded_induction lt_wf). intros Hs.
  unfold anc_self. rewrite (ancestors_unfold m Hwf s Hs).
  destruct (parent m s) as [p|] eqn:Hp.
  - destruct (parent_props m Hwf s p Hs Hp) as [Hlt _]. right. apply (IH p Hlt). lia.
  - destruct (root_props m Hwf s Hs Hp) as [-> _]. now left.
Qed.

Lemma nonroot_parent m : wf m = true -> forall s, s < size m -> s <> 0 -> exists p, parent m s = Some p.
Proof.
  intros Hwf s Hs Hne. destruct (parent m s) as [p|] eqn:Hp; [now exists p|].
  destruct (root_props m Hwf s Hs Hp). contradiction.
Qed.

(* the domain the source computes: None (the whole machine) exactly for a transition to the root, else the model's *)
Theorem find_domain_bridge m src tgt : wf m = true -> src < size m -> tgt < size m ->
  find_transition_domain m src tgt = if Nat.eqb tgt 0 then None else Some (find_domain m src tgt).
Proof.
  intros Hwf Hs Ht. unfold find_transition_domain, find_domain. cbn zeta.
  rewrite (get_ancestors_bridge m src Hwf Hs), (get_ancestors_bridge m tgt Hwf Ht).
  destruct (Nat.eqb_spec tgt src) as [->|Hne].
  - destruct (Nat.eqb_spec src 0) as [->|Hn0].
    + destruct (parent m 0) as [p|] eqn:Hp; [|reflexivity]. destruct (parent_props m Hwf 0 p Hs Hp). lia.
    + destruct (nonroot_parent m Hwf src Hs Hn0) as [p Hp]. now rewrite Hp.
  - destruct (Nat.eqb_spec tgt 0) as [->|Hn0].
    + assert (Hin : mem 0 (anc_self m src) = true) by (apply mem_In; now apply root_in_anc_self).
      rewrite Hin. destruct (parent m 0) as [p|] eqn:Hp; [|reflexivity]. destruct (parent_props m Hwf 0 p Ht Hp). lia.
    + destruct (mem tgt (anc_self m src)) eqn:Hm.
      * destruct (nonroot_parent m Hwf tgt Ht Hn0) as [p Hp]. now rewrite Hp.
      * unfold inter.
        pose proof (filter_sorted _ (fun x => mem x (anc_self m tgt)) _ (anc_self_sorted m Hwf src Hs)) as Hsorted.
        destruct (filter (fun x => mem x (anc_self m tgt)) (anc_self m src)) as [|a l] eqn:Ef.
        -- cbn [truthy_list negb]. unfold opt_or, root_or. reflexivity.
        -- cbn [truthy_list negb]. now apply max_depth_sorted.
Qed.

(* ---------------- _is_state_done ---------------- *)

Lemma find_ext {A} (f g : A -> bool) l : (forall x, f x = g x) -> find f l = find g l.
Proof. intros H. induction l as [|x l IH]; cbn [find]; [reflexivity|]. now rewrite H, IH. Qed.

Lemma forallb_ext' {A} (f g : A -> bool) l : (forall x, f x = g x) -> forallb f l = forallb g l.
Proof. intros H. induction l as [|x l IH]; cbn [forallb]; [reflexivity|]. now rewrite H, IH. Qed.

Lemma region_loop_spec (h inC f : nat -> bool) l : forall acc,
  fold_left (fun acc_ r => match acc_ with
                           | Some _ => acc_
                           | None => if h r then None else if negb (inC r) then Some false
                                     else if negb (f r) then Some false else None
                           end) l acc
  = match acc with
    | Some b => Some b
    | None => if forallb (fun r => if h r then true else if inC r then f r else false) l then None else Some false
    end.
Proof.
  induction l as [|r l IH]; intros acc; cbn [fold_left forallb]; [now destruct acc|].
  rewrite IH. destruct acc as [b|]; [reflexivity|].
  destruct (h r); cbn [andb]; [reflexivity|].
  destruct (inC r); cbn [negb andb]; [|reflexivity].
  destruct (f r); cbn [negb andb]; reflexivity.
Qed.

Theorem is_state_done_bridge m C : forall fuel s, is_state_done fuel m C s = is_done fuel m C s.
Proof.
  induction fuel as [|f IH]; intros s; [reflexivity|].
  cbn [is_state_done is_done]. unfold is_final, is_compound, is_parallel.
  destruct (kind_of m s) eqn:Hk; try reflexivity.
  - cbn zeta.
    rewrite (find_ext (fun v_s => opt_eqb (parent m v_s) (Some s))
                      (fun c => match parent m c with Some p => Nat.eqb p s | None => false end)).
    + destruct (find _ C) as [c|]; [apply IH | reflexivity].
    + intros x. destruct (parent m x); reflexivity.
  - rewrite (region_loop_spec (is_history m) (fun r => mem r C) (is_state_done f m C)).
    rewrite (forallb_ext' _ (fun r => if is_history m r then true else if mem r C then is_done f m C r else false)).
    + destruct (forallb _ (children m s)); reflexivity.
    + intros r. now rewrite IH.
Qed.

Theorem state_done_bridge m C s : is_state_done (S (size m)) m C s = state_done m C s.
Proof. apply is_state_done_bridge. Qed.

Theorem source_doneness_spec m C s :
  wf m = true -> s < size m -> (is_state_done (S (size m)) m C s = true <-> DoneP.IsDone m C s).
Proof. intros Hwf Hs. rewrite state_done_bridge. now apply DoneP.is_done_spec. Qed.

(* ---------------- _resolve_history_target ---------------- *)

Theorem resolve_history_bridge m H h : resolve_history_target m H h = resolve_history m H h.
Proof.
  unfold resolve_history_target, resolve_history. cbn zeta.
  destruct (parent m h) as [p|]; [|reflexivity].
  destruct (hist_get H p) as [|x rem] eqn:Eh; cbn [truthy_list negb].
  - destruct (n_hist_default (nd m h)); [reflexivity|]. destruct (n_initial (nd m p)); reflexivity.
  - unfold is_deep. destruct (kind_of m h) as [| | | |[|]] eqn:Hk.
    all: try (rewrite (filter_ext (fun v_node => opt_eqb (parent m v_node) (Some p))
                                  (fun n => match parent m n with Some q => Nat.eqb q p | None => false end));
              [ destruct (filter _ (x :: rem)); reflexivity | intros a; destruct (parent m a); reflexivity ]).
    rewrite (filter_ext (fun v_node => is_atomic m v_node || is_final m v_node || negb (truthy_list (children m v_node)))
                        (is_leaf m)).
    + destruct (filter (is_leaf m) (x :: rem)); reflexivity.
    + intros a. unfold is_atomic, is_final, is_leaf. destruct (kind_of m a); destruct (children m a); reflexivity.
Qed.

(* ---------------- _compute_states_to_exit ---------------- *)

Lemma parent_in_range m s p : parent m s = Some p -> s < size m.
Proof.
  intros Hp. destruct (Nat.lt_ge_cases s (size m)) as [H|H]; [exact H|].
  unfold parent, nd in Hp. rewrite nth_overflow in Hp by exact H. discriminate.
Qed.

Lemma ends_any m : wf m = true -> forall s, ends (S (size m)) m (Some s).
Proof.
  intros Hwf s. destruct (Nat.lt_ge_cases s (size m)) as [H|H]; [now apply ends_wf|].
  cbn [ends]. destruct (parent m s) as [p|] eqn:Hp; [|now destruct (size m)].
  apply parent_in_range in Hp. lia.
Qed.

Lemma branch_loop_spec m C H d tgt cands entered : forall fuel branches node cur, ends fuel m cur ->
  compute_states_to_exit_loop1 m C H d tgt cands entered branches node fuel cur
  = find (fun a => opt_eqb (parent m a) (Some d)) (chain fuel m cur).
Proof.
  induction fuel as [|f IH]; intros branches node cur He.
  - cbn in *. now subst.
  - cbn [compute_states_to_exit_loop1 chain]. destruct cur as [c|]; [|reflexivity].
    cbn [find]. destruct (opt_eqb (parent m c) (Some d)); cbn [negb]; [reflexivity|].
    cbn zeta. apply IH. exact He.
Qed.

Lemma branch_loop_branch_of m (Hwf : wf m = true) C H d tgt cands entered branches node x :
  compute_states_to_exit_loop1 m C H d tgt cands entered branches node (S (size m)) (Some x) = branch_of m d x.
Proof.
  rewrite branch_loop_spec by now apply ends_any. rewrite chain_anc_self. unfold branch_of.
  apply find_ext. intros a. destruct (parent m a); reflexivity.
Qed.

Lemma branch_of_range m d x b : branch_of m d x = Some b -> b < size m.
Proof.
  unfold branch_of. intros Hf. apply find_some in Hf as [_ Hp].
  destruct (parent m b) as [p|] eqn:E; [|discriminate]. eapply parent_in_range; eassumption.
Qed.

Lemma filter_ext_in' {A} (f g : A -> bool) l : (forall x, In x l -> f x = g x) -> filter f l = filter g l.
Proof.
  induction l as [|x l IH]; intros H; cbn [filter]; [reflexivity|].
  rewrite (H x (or_introl eq_refl)), IH; [reflexivity|]. intros y Hy. apply H. now right.
Qed.

Lemma existsb_ext_in {A} (f g : A -> bool) l : (forall x, In x l -> f x = g x) -> existsb f l = existsb g l.
Proof.
  induction l as [|x l IH]; intros H; cbn [existsb]; [reflexivity|].
  rewrite (H x (or_introl eq_refl)), IH; [reflexivity|]. intros y Hy. apply H. now right.
Qed.

Section ExitSet.
  Variable m : machine.
  Hypothesis Hside : ancestry_side_ok m = true.

  Let Hwf : wf m = true.
  Proof. unfold ancestry_side_ok in Hside. apply andb_prop in Hside as [H _]. now apply andb_prop in H as [H _]. Qed.

  Lemma desc_self_or s b : s < size m -> b < size m ->
    Nat.eqb s b || is_descendant (id_of m s) (Some (id_of m b)) = is_desc m s b.
  Proof.
    intros Hs Hb. rewrite (ancestry_oracle_of_source m Hside s b Hs Hb).
    destruct (Nat.eqb_spec s b) as [->|_]; [|reflexivity].
    unfold is_desc, anc_self. cbn [mem existsb]. now rewrite Nat.eqb_refl.
  Qed.

  Lemma branches_fold C H d tgt cands entered l : forall acc,
    fold_left (fun v_branches v_node =>
      let v_branch := Some v_node in
      let v_branch := compute_states_to_exit_loop1 m C H d tgt cands entered v_branches v_node (S (size m)) v_branch in
      let v_branches := match v_branch with Some v_branch => let v_branches := v_branches ++ [v_branch] in v_branches
                                          | None => v_branches end in
      v_branches) l acc
    = acc ++ flat_map (fun x => match branch_of m d x with Some b => [b] | None => [] end) l.
  Proof.
    induction l as [|x l IH]; intros acc; cbn [fold_left flat_map]; [now rewrite app_nil_r|].
    cbn zeta. rewrite IH, (branch_loop_branch_of m Hwf).
    destruct (branch_of m d x); [now rewrite <- app_assoc | reflexivity].
  Qed.

  (* the exit set of a transition with domain d, as the source computes it *)
  Theorem exit_set_bridge C H d tgt : (forall s, In s C -> s < size m) -> d < size m ->
    compute_states_to_exit m C H (Some d) tgt = exit_set_h m C H d tgt.
  Proof.
    intros HC Hd. unfold compute_states_to_exit. cbn zeta. cbn [option_map opt_eqb].
    rewrite (filter_ext_in' _ (fun s => is_desc m s d && negb (Nat.eqb s d)) C)
      by (intros s Hs; now rewrite (ancestry_oracle_of_source m Hside s d (HC s Hs) Hd)).
    set (cands := filter (fun s => is_desc m s d && negb (Nat.eqb s d)) C).
    assert (Hcands : forall s, In s cands -> s < size m).
    { intros s Hs. apply filter_In in Hs as [Hs _]. now apply HC. }
    unfold exit_set_h, exit_set. fold cands.
    destruct (is_history m tgt) eqn:Hh.
    - destruct (is_parallel m d); [|reflexivity].
      rewrite resolve_history_bridge, branches_fold. cbn [app]. rewrite orb_true_r.
      apply filter_ext_in'. intros s Hs. apply existsb_ext_in. intros b Hb.
      apply in_flat_map in Hb as [x [_ Hb]]. destruct (branch_of m d x) as [b'|] eqn:Eb; [|destruct Hb].
      destruct Hb as [<-|[]]. apply desc_self_or; [now apply Hcands | eapply branch_of_range; eassumption].
    - destruct (is_parallel m d); [|reflexivity].
      cbn [fold_left]. cbn zeta. rewrite (branch_loop_branch_of m Hwf). cbn [app].
      destruct (branch_of m d tgt) as [b|] eqn:Eb; cbn [truthy_list orb]; [|reflexivity].
      apply filter_ext_in'. intros s Hs. cbn [existsb]. rewrite orb_false_r.
      apply desc_self_or; [now apply Hcands | eapply branch_of_range; eassumption].
  Qed.

  (* domain None, the whole machine: every active state is exited *)
  Theorem exit_set_none C H tgt : compute_states_to_exit m C H None tgt = C.
  Proof.
    unfold compute_states_to_exit. cbn zeta. cbn [option_map opt_eqb]. unfold is_descendant. cbn [andb negb].
    induction C as [|x l IH]; cbn [filter]; [reflexivity | now rewrite IH].
  Qed.

  (* ---------------- _record_history ---------------- *)

  Lemma mem_app x a b : mem x (a ++ b) = mem x a || mem x b.
  Proof. unfold mem. apply existsb_app. Qed.

  Lemma mem_set_add p x l : mem p (set_add x l) = mem p l || Nat.eqb p x.
  Proof.
    unfold set_add. destruct (mem x l) eqn:E.
    - destruct (Nat.eqb_spec p x) as [->|_]; [now rewrite E | now rewrite orb_false_r].
    - rewrite mem_app. cbn. now rewrite orb_false_r.
  Qed.

  Lemma mem_fold_set_add p l : forall acc, mem p (fold_left (fun a x => set_add x a) l acc) = mem p acc || mem p l.
  Proof.
    induction l as [|x l IH]; intros acc; cbn [fold_left]; [cbn; now rewrite orb_false_r|].
    rewrite IH, mem_set_add. cbn [mem existsb]. fold (mem p l). now rewrite <- orb_assoc.
  Qed.

  Lemma record_loop_spec C H ex exiting node : forall fuel acc cur,
    fst (record_history_src_loop1 m C H ex exiting node fuel acc cur) = fold_left (fun a x => set_add x a) (chain fuel m cur) acc.
  Proof.
    induction fuel as [|f IH]; intros acc cur; [reflexivity|].
    cbn [record_history_src_loop1 chain]. destruct cur as [c|]; [|reflexivity]. cbn zeta. now rewrite IH.
  Qed.

  Lemma mem_candidates C H ex exiting p l : forall acc,
    mem p (fold_left (fun v_candidates v_node =>
             let v_current := Some v_node in
             let '(v_candidates, v_current) :=
               record_history_src_loop1 m C H ex exiting v_node (S (size m)) v_candidates v_current in
             v_candidates) l acc)
    = mem p acc || existsb (fun x => mem p (anc_self m x)) l.
  Proof.
    induction l as [|x l IH]; intros acc; cbn [fold_left existsb]; [now rewrite orb_false_r|].
    rewrite IH. cbn zeta.
    pose proof (record_loop_spec C H ex exiting x (S (size m)) acc (Some x)) as E.
    destruct (record_history_src_loop1 m C H ex exiting x (S (size m)) acc (Some x)) as [a c]. cbn [fst] in E.
    rewrite E, mem_fold_set_add, chain_anc_self. now rewrite orb_assoc.
  Qed.

  Lemma existsb_set_of (f : nat -> bool) l : existsb f (set_of l) = existsb f l.
  Proof.
    unfold set_of. enough (G : forall acc, existsb f (fold_left (fun a x => set_add x a) l acc) = existsb f acc || existsb f l)
      by (now rewrite G).
    induction l as [|x l IH]; intros acc; cbn [fold_left existsb]; [now rewrite orb_false_r|].
    rewrite IH. unfold set_add. destruct (mem x acc) eqn:E.
    - apply mem_In in E. destruct (f x) eqn:Fx; [|reflexivity].
      assert (Ha : existsb f acc = true) by (apply existsb_exists; now exists x). now rewrite Ha.
    - rewrite existsb_app. cbn [existsb]. now rewrite orb_false_r, orb_assoc.
  Qed.

  Lemma mem_dedup p l : mem p (dedup l) = mem p l.
  Proof.
    induction l as [|x l IH]; [reflexivity|]. cbn [dedup]. destruct (mem x l) eqn:E.
    - rewrite IH. cbn [mem existsb]. fold (mem p l). destruct (Nat.eqb_spec p x) as [->|_]; [now rewrite E | reflexivity].
    - cbn [mem existsb]. fold (mem p (dedup l)) (mem p l). now rewrite IH.
  Qed.

  Lemma mem_concat_map p (g : nat -> list nat) l : mem p (List.concat (map g l)) = existsb (fun x => mem p (g x)) l.
  Proof. induction l as [|x l IH]; [reflexivity|]. cbn [map List.concat existsb]. now rewrite mem_app, IH. Qed.

  Lemma record_fold_src (hh : nat -> bool) (rem : nat -> list nat) cands : forall H p,
    hist_get (fold_left (fun v_H q =>
                if negb (hh q) then v_H
                else let r := rem q in
                     let v_H := if truthy_list r then (let v_H := hist_set v_H q r in v_H) else v_H in v_H) cands H) p
    = if mem p cands && hh p && truthy_list (rem p) then rem p else hist_get H p.
  Proof.
    induction cands as [|q l IH]; intros H p; cbn [fold_left]; [reflexivity|].
    rewrite IH. cbn [mem existsb]. fold (mem p l).
    destruct (mem p l && hh p && truthy_list (rem p)) eqn:E1.
    - apply andb_prop in E1 as [E1 E3]. apply andb_prop in E1 as [E1 E2].
      now rewrite E1, orb_true_r, E2, E3.
    - destruct (Nat.eqb_spec p q) as [->|Hne]; cbn [orb].
      + destruct (hh q); cbn [negb andb]; [|reflexivity].
        cbn zeta. destruct (truthy_list (rem q)); [|reflexivity].
        apply HistP.hist_get_set_same.
      + rewrite E1. destruct (hh q); cbn [negb]; [|reflexivity]. cbn zeta.
        destruct (truthy_list (rem q)); [|reflexivity]. now apply HistP.hist_get_set_other.
  Qed.

  (* what the source records, entry by entry, is what the model records *)
  Theorem record_history_bridge exiting s p : (forall x, In x (s_cfg s) -> x < size m) ->
    hist_get (record_history_src m (s_cfg s) (s_hist s) exiting) p = hist_get (s_hist (record_history m exiting s)) p.
  Proof.
    intros HC. rewrite HistP.record_history_spec. unfold record_history_src. cbn zeta.
    rewrite (record_fold_src (fun q => existsb (fun c => is_history m c) (children m q))
               (fun q => sort_by (lt_depth_id m)
                           (filter (fun n => negb (Nat.eqb n q) && is_descendant (id_of m n) (Some (id_of m q))) (s_cfg s)))).
    rewrite mem_candidates. cbn [mem existsb orb]. rewrite existsb_set_of.
    change (existsb (Nat.eqb p) (dedup (List.concat (map (anc_self m) exiting))))
      with (mem p (dedup (List.concat (map (anc_self m) exiting)))).
    rewrite mem_dedup, mem_concat_map.
    destruct (existsb (fun x => mem p (anc_self m x)) exiting); cbn [andb]; [|reflexivity].
    unfold HistP.records, has_history_child.
    destruct (existsb (fun c => is_history m c) (children m p)) eqn:Eh.
    - assert (Hp : p < size m).
      { destruct (Nat.lt_ge_cases p (size m)) as [Hlt|Hge]; [exact Hlt|].
        unfold children, nd in Eh. rewrite nth_overflow in Eh by exact Hge. discriminate. }
      change (existsb (is_history m) (children m p)) with (existsb (fun c => is_history m c) (children m p)). rewrite ?Eh.
      cbn [andb]. unfold HistP.remembered.
      rewrite (filter_ext_in' (fun n => negb (Nat.eqb n p) && is_descendant (id_of m n) (Some (id_of m p)))
                              (fun n => negb (Nat.eqb n p) && is_desc m n p) (s_cfg s))
        by (intros n Hn; now rewrite (ancestry_oracle_of_source m Hside n p (HC n Hn) Hp)).
      destruct (sort_by (lt_depth_id m) (filter (fun n => negb (Nat.eqb n p) && is_desc m n p) (s_cfg s))); reflexivity.
    - change (existsb (is_history m) (children m p)) with (existsb (fun c => is_history m c) (children m p)). now rewrite ?Eh.
  Qed.
End ExitSet.
