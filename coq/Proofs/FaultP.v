(* Fault containment and transition atomicity (property C07) *)
From XSM Require Import Model.Macro Proofs.StepP.
From Coq Require Import Lia.

(* an action that stops the list: a failing user action, a built-in whose callback raises, a missing action *)
Definition stops (a : act) : bool :=
  match a with AFail _ | AMissing _ | ABadBuiltin _ => true | _ => false end.
Definition runs_through (l : list act) : bool := forallb (fun a => negb (stops a)) l.

(* a failing action skips ONLY the remainder of its list: whatever follows it is irrelevant *)
Lemma fail_skips_rest eng pr pre k post ev s :
  run_actions eng pr (pre ++ AFail k :: post) ev s = run_actions eng pr (pre ++ [AFail k]) ev s.
Proof.
  revert s; induction pre as [|a r IH]; intros s; [reflexivity|].
  simpl. destruct a; try apply IH; reflexivity.
Qed.

Lemma bad_builtin_skips_rest eng pr pre k post ev s :
  run_actions eng pr (pre ++ ABadBuiltin k :: post) ev s = run_actions eng pr (pre ++ [ABadBuiltin k]) ev s.
Proof.
  revert s; induction pre as [|a r IH]; intros s; [reflexivity|].
  simpl. destruct a; try apply IH; reflexivity.
Qed.

(* a fault is a truncation: running a list whose action i fails is the fault-free run of the list cut
   after that action (the action itself having run as an ordinary one), plus the on_action_error record *)
Theorem fail_is_truncation eng pr pre k post ev s :
  runs_through pre = true ->
  run_actions eng pr (pre ++ AFail k :: post) ev s =
  (logo (OActErr k) (fst (run_actions eng pr (pre ++ [AMark k]) ev s)), None).
Proof.
  intros H. rewrite fail_skips_rest. revert s; induction pre as [|a r IH]; intros s; [reflexivity|].
  simpl in H. apply andb_prop in H as [Ha Hr]. simpl.
  destruct a; try discriminate Ha; apply (IH Hr).
Qed.

Theorem bad_builtin_is_truncation eng pr pre k post ev s :
  runs_through pre = true ->
  run_actions eng pr (pre ++ ABadBuiltin k :: post) ev s =
  (logo (OActErr k) (fst (run_actions eng pr pre ev s)), None).
Proof.
  intros H. rewrite bad_builtin_skips_rest. revert s; induction pre as [|a r IH]; intros s; [reflexivity|].
  simpl in H. apply andb_prop in H as [Ha Hr]. simpl.
  destruct a; try discriminate Ha; apply (IH Hr).
Qed.

(* a list that runs through never raises *)
Lemma runs_through_no_error eng pr l ev s : runs_through l = true -> snd (run_actions eng pr l ev s) = None.
Proof.
  revert s; induction l as [|a r IH]; intros s H; [reflexivity|].
  simpl in H. apply andb_prop in H as [Ha Hr]. simpl. destruct a; try discriminate Ha; apply (IH _ Hr).
Qed.

(* a fault inside an action list never changes the configuration or the history by itself *)
Lemma actions_keep_configuration eng pr l ev s :
  s_cfg (fst (exec_actions eng pr l ev s)) = s_cfg s /\ s_hist (fst (exec_actions eng pr l ev s)) = s_hist s.
Proof. apply exec_actions_same. Qed.

(* ---- atomicity ---- *)

(* an external transition that aborts midway leaves the configuration exactly as it was *)
Theorem abort_restores_configuration eng pr m t tgt ev s0 s2 e :
  exec_external eng pr m t tgt ev s0 = (s2, Some e) -> s_cfg s2 = s_cfg s0.
Proof.
  unfold exec_external.
  set (body := (exit_states _ _ _ _ _ ;; _)).
  destruct (body s0) as [s1 [e1|]] eqn:Hb.
  - set (rearm := for_each (sched eng m) _).
    pose proof (pres_for_each same_cfg same_cfg_refl same_cfg_trans (sched eng m)
                  (filter (fun x => mem x (ext_exit_set m (s_cfg s0) (s_hist s0) (find_domain m (t_src t) tgt) tgt)) (sort_nat (s_cfg s0)))
                  (sched_same eng m) (with_cfg (s_cfg s0) s1)) as [Hc _].
    fold rearm in Hc. destruct (rearm (with_cfg (s_cfg s0) s1)) as [s3 [e3|]] eqn:Hr; simpl in Hc; intros H; inversion H; subst; exact Hc.
  - destruct eng; unfold bind, hook_trans, hook_notify, lift; simpl; intros H; discriminate H.
Qed.

