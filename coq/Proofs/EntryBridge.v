(* Tie T for default descent: for one state x of the list being entered, WHAT is entered below it by default - its initial
   child (unless the list names a child of x), its regions that the list does not name (history children are not regions),
   nothing, or an error (a compound state with children but no initial child) - as decided by _enter_states in BOTH engines'
   copies, re-translated from the current source on every build with the effects dropped (Gen/GenGeom.v: descent_async,
   descent_sync), is the decision of the model's `enter_one` (Model/Exec.v). *)
From XSM Require Import Model.TreeLib Gen.GenGeom.

Definition model_descent (m : machine) (l : list nat) (x : nat) : descent_decision := descent_of m l x.

Theorem descent_async_bridge m l x : descent_async m l x = model_descent m l x.
Proof.
  unfold descent_async, model_descent, descent_of, is_compound, is_parallel. cbn zeta.
  destruct (kind_of m x); cbn [andb]; try reflexivity.
  - destruct (n_initial (nd m x)); cbn [is_some]; [reflexivity|]. now destruct (children m x).
  - now destruct (filter _ (children m x)).
Qed.

Theorem descent_sync_bridge m l x : descent_sync m l x = model_descent m l x.
Proof.
  unfold descent_sync, model_descent, descent_of, is_compound, is_parallel. cbn zeta.
  destruct (kind_of m x); cbn [andb]; try reflexivity.
  - destruct (n_initial (nd m x)); cbn [is_some]; [reflexivity|]. now destruct (children m x).
  - now destruct (filter _ (children m x)).
Qed.

(* the model's effectful entry of one state: its own effects, then act on the decision *)
Lemma enter_one_decides eng pr m rec l ev x :
  enter_one eng pr m rec (parents_of m l) (with_parent m l) ev x =
  (lift (fun s => logo (OEnter x) (with_cfg (cadd x (s_cfg s)) s)) ;;
   (fun s => exec_actions eng pr (n_entry (nd m x)) (entry_event eng m ev x) s) ;;
   sched_before eng m x ;;
   (if is_final m x then lift (fire_on_done eng pr m x) else ret) ;;
   match model_descent m l x with
   | DescendInto below => rec below (match eng with Async => Some (entry_event eng m ev x) | _ => ev end) ;; sched_after eng m x
   | DescendNone => sched_after eng m x
   | DescendError => raise EInvalidConfig
   end).
Proof.
  unfold enter_one, model_descent, descent_of.
  destruct (kind_of m x); try reflexivity.
  - destruct (n_initial (nd m x)); [now destruct (mem x (parents_of m l))|]. now destruct (children m x).
  - now destruct (filter _ (children m x)).
Qed.

(* the regions entered by default are the children in DOCUMENT order (no set, no hash order), minus history children and
   the regions the list names *)
Lemma regions_in_document_order m l x rs :
  kind_of m x = KParallel -> model_descent m l x = DescendInto rs ->
  rs = filter (fun c => negb (is_history m c) && negb (mem c (with_parent m l))) (children m x).
Proof.
  unfold model_descent, descent_of. intros Hk. rewrite Hk.
  destruct (filter _ (children m x)) eqn:E; [discriminate|]. intros H. now inversion H.
Qed.

Theorem source_regions_in_document_order m l x rs :
  kind_of m x = KParallel -> (descent_sync m l x = DescendInto rs \/ descent_async m l x = DescendInto rs) ->
  rs = filter (fun c => negb (is_history m c) && negb (mem c (with_parent m l))) (children m x).
Proof.
  intros Hk [H|H]; [rewrite descent_sync_bridge in H | rewrite descent_async_bridge in H]; now apply regions_in_document_order.
Qed.
