(* Whole steps do not depend on the listing order of the active set (properties C16, C12).
   Two interpreter states that differ only in the ORDER in which the active configuration is listed are taken by every
   step of the engine to two states that again differ only in that order - same log, same context, same queue, same
   status - and fail on the same inputs.  The only order-sensitive read in the code (and in the model) is the search for
   "the" active child of a compound state in the done-ness check; it is harmless because at the points where it is
   made the configuration is contained in a legal one. *)
From XSM Require Import Model.Macro Proofs.TreeP Proofs.GuardP Proofs.StepP Proofs.SortP Proofs.OrderP Proofs.HistP Proofs.SnapP
     Proofs.LegalP Proofs.DescentP Proofs.EffectP.
From Coq Require Import Lia Permutation.

Definition rest (s : st) :=
  (s_hist s, s_ctx s, s_queue s, s_status s, s_output s, s_log s, s_raise_depth s, s_now s, s_pending s, s_seq s).

Definition eqv (m : machine) (s1 s2 : st) : Prop :=
  Permutation (s_cfg s1) (s_cfg s2) /\ NoDup (s_cfg s1) /\ Forall (fun x => x < size m) (s_cfg s1) /\ rest s1 = rest s2.

Ltac eqv_same H :=
  let Hp := fresh "Hp" in let Hn := fresh "Hn" in let Hf := fresh "Hf" in let Hr := fresh "Hr" in
  destruct H as [Hp [Hn [Hf Hr]]]; unfold rest in Hr; inversion Hr;
  split; [exact Hp | split; [exact Hn | split; [exact Hf | unfold rest; simpl; congruence]]].

Section Plain.
  Variable m : machine.
  Hypothesis Hids : ids_distinct m.

  Lemma eqv_logo o s1 s2 : eqv m s1 s2 -> eqv m (logo o s1) (logo o s2).
  Proof. intros H. eqv_same H. Qed.
  Lemma eqv_with_ctx c s1 s2 : eqv m s1 s2 -> eqv m (with_ctx c s1) (with_ctx c s2).
  Proof. intros H. eqv_same H. Qed.
  Lemma eqv_with_queue q s1 s2 : eqv m s1 s2 -> eqv m (with_queue q s1) (with_queue q s2).
  Proof. intros H. eqv_same H. Qed.
  Lemma eqv_with_status x o s1 s2 : eqv m s1 s2 -> eqv m (with_status x o s1) (with_status x o s2).
  Proof. intros H. eqv_same H. Qed.
  Lemma eqv_with_rd n s1 s2 : eqv m s1 s2 -> eqv m (with_rd n s1) (with_rd n s2).
  Proof. intros H. eqv_same H. Qed.
  Lemma eqv_with_now n s1 s2 : eqv m s1 s2 -> eqv m (with_now n s1) (with_now n s2).
  Proof. intros H. eqv_same H. Qed.
  Lemma eqv_with_pending p q s1 s2 : eqv m s1 s2 -> eqv m (with_pending p q s1) (with_pending p q s2).
  Proof. intros H. eqv_same H. Qed.
  Lemma eqv_with_hist h s1 s2 : eqv m s1 s2 -> eqv m (with_hist h s1) (with_hist h s2).
  Proof. intros H. eqv_same H. Qed.

  Lemma eqv_fields s1 s2 : eqv m s1 s2 ->
    s_hist s1 = s_hist s2 /\ s_ctx s1 = s_ctx s2 /\ s_queue s1 = s_queue s2 /\ s_status s1 = s_status s2 /\ s_output s1 = s_output s2
    /\ s_log s1 = s_log s2 /\ s_raise_depth s1 = s_raise_depth s2 /\ s_now s1 = s_now s2 /\ s_pending s1 = s_pending s2 /\ s_seq s1 = s_seq s2.
  Proof. intros [_ [_ [_ Hr]]]. unfold rest in Hr. inversion Hr. repeat split; assumption. Qed.

  Lemma eqv_mem x s1 s2 : eqv m s1 s2 -> mem x (s_cfg s1) = mem x (s_cfg s2).
  Proof. intros [Hp _]. now apply mem_perm. Qed.

  Lemma eqv_sorted s1 s2 : eqv m s1 s2 -> sort_nat (s_cfg s1) = sort_nat (s_cfg s2).
  Proof. intros [Hp [Hn _]]. now apply sort_nat_canonical. Qed.

  Lemma eqv_send_self eng ev s1 s2 : eqv m s1 s2 -> eqv m (send_self eng ev s1) (send_self eng ev s2).
  Proof.
    intros H. destruct (eqv_fields s1 s2 H) as [_ [_ [Hq [Hs _]]]]. unfold send_self. rewrite Hs, Hq.
    destruct (accepts eng (s_status s2)); [now apply eqv_with_queue | exact H].
  Qed.

  Lemma eqv_fail s1 s2 : eqv m s1 s2 -> eqv m (fail_machine s1) (fail_machine s2).
  Proof.
    intros H. destruct (eqv_fields s1 s2 H) as [_ [_ [_ [Hs [Ho _]]]]]. unfold fail_machine. rewrite Hs, Ho, (eqv_sorted s1 s2 H).
    destruct (s_status s2); try exact H; now apply eqv_logo, eqv_logo, eqv_with_status.
  Qed.

  Lemma eqv_arm x d k s1 s2 : eqv m s1 s2 -> eqv m (arm x d k s1) (arm x d k s2).
  Proof.
    intros H. destruct (eqv_fields s1 s2 H) as [_ [_ [_ [_ [_ [_ [_ [_ [Hp Hq]]]]]]]]]. unfold arm. rewrite Hp, Hq. now apply eqv_with_pending.
  Qed.

  Lemma eqv_deliver eng p s1 s2 : eqv m s1 s2 -> eqv m (deliver eng p s1) (deliver eng p s2).
  Proof.
    intros H. unfold deliver. destruct (p_kind p) as [ty|iid ok val h|iid dur ok val h].
    - destruct (eqv_fields s1 s2 H) as [_ [_ [_ [Hs _]]]]. rewrite Hs, (eqv_mem (p_owner p) s1 s2 H).
      destruct eng.
      + destruct (s_status s2); try exact H. destruct (mem (p_owner p) (s_cfg s2)); [now apply eqv_send_self | exact H].
      + now apply eqv_send_self.
      + destruct (s_status s2); try exact H. destruct (mem (p_owner p) (s_cfg s2)); [now apply eqv_send_self | exact H].
    - destruct (ok || h); [now apply eqv_send_self | now apply eqv_fail, eqv_send_self].
    - now apply eqv_arm, eqv_logo.
  Qed.

  Lemma eqv_busy_loop f eng t : forall s1 s2, eqv m s1 s2 -> eqv m (busy_loop f eng t s1) (busy_loop f eng t s2).
  Proof.
    induction f as [|f IH]; intros s1 s2 H; simpl; [exact H|].
    destruct (eqv_fields s1 s2 H) as [_ [_ [_ [_ [_ [_ [_ [_ [Hp Hq]]]]]]]]]. rewrite Hp, Hq.
    destruct (sort_pend _) as [|p rest']; [exact H|].
    apply IH. match goal with |- eqv m ((if ?c then _ else _) _) _ => destruct c end;
      [apply eqv_logo|]; now apply eqv_deliver, eqv_with_pending.
  Qed.

  Lemma eqv_advance_busy eng d s1 s2 : eqv m s1 s2 -> eqv m (advance_busy eng d s1) (advance_busy eng d s2).
  Proof.
    intros H. destruct (eqv_fields s1 s2 H) as [_ [_ [_ [_ [_ [_ [_ [Hn [Hp _]]]]]]]]]. unfold advance_busy. rewrite Hn, Hp.
    now apply eqv_with_now, eqv_busy_loop.
  Qed.

  Lemma eqv_run_actions eng pr acts ev : forall s1 s2, eqv m s1 s2 ->
    eqv m (fst (run_actions eng pr acts ev s1)) (fst (run_actions eng pr acts ev s2))
    /\ snd (run_actions eng pr acts ev s1) = snd (run_actions eng pr acts ev s2).
  Proof.
    induction acts as [|a r IH]; intros s1 s2 H; cbn [run_actions]; [split; [exact H | reflexivity]|].
    destruct (eqv_fields s1 s2 H) as [_ [Hc [_ [_ [_ [_ [Hrd _]]]]]]].
    destruct a as [k|k|k|v z|ty tag|k|k|k d|k v].
    - apply IH. now apply eqv_logo.
    - split; [now apply eqv_logo, eqv_logo | reflexivity].
    - split; [exact H | reflexivity].
    - apply IH. rewrite Hc. now apply eqv_with_ctx.
    - apply IH. apply eqv_send_self. rewrite Hrd. destruct eng; try exact H. destruct pr; [now apply eqv_with_rd | exact H].
    - split; [now apply eqv_logo | reflexivity].
    - apply IH. now apply eqv_logo, eqv_logo.
    - apply IH. cbv zeta.
      assert (Ha : eqv m (advance_busy eng d (logo (OAct k (e_type ev) (e_tag ev)) s1)) (advance_busy eng d (logo (OAct k (e_type ev) (e_tag ev)) s2)))
        by now apply eqv_advance_busy, eqv_logo.
      destruct (eqv_fields _ _ Ha) as [_ [_ [_ [_ [_ [_ [_ [Hn _]]]]]]]]. rewrite Hn. now apply eqv_logo.
    - apply IH. rewrite Hc. now apply eqv_with_ctx, eqv_logo.
  Qed.

  Lemma eqv_pure_actions acts : forall s1 s2, eqv m s1 s2 -> eqv m (pure_actions acts s1) (pure_actions acts s2).
  Proof.
    induction acts as [|a r IH]; intros s1 s2 H; simpl; [exact H|].
    destruct (eqv_fields s1 s2 H) as [_ [Hc _]]. apply IH.
    destruct a; try now apply eqv_logo. rewrite Hc. now apply eqv_logo, eqv_with_ctx.
  Qed.

  Lemma eqv_exec_actions eng pr acts ev s1 s2 : eqv m s1 s2 ->
    eqv m (fst (exec_actions eng pr acts ev s1)) (fst (exec_actions eng pr acts ev s2))
    /\ snd (exec_actions eng pr acts ev s1) = snd (exec_actions eng pr acts ev s2).
  Proof.
    intros H. unfold exec_actions. destruct eng; try now apply eqv_run_actions.
    simpl. split; [now apply eqv_pure_actions | reflexivity].
  Qed.

  (* ---- relational combinators ---- *)
  Definition RelP (a b : M) : Prop :=
    forall s1 s2, eqv m s1 s2 -> eqv m (fst (a s1)) (fst (b s2)) /\ snd (a s1) = snd (b s2).

  Lemma relp_ret : RelP ret ret.
  Proof. intros s1 s2 H. split; [exact H | reflexivity]. Qed.
  Lemma relp_raise e : RelP (raise e) (raise e).
  Proof. intros s1 s2 H. split; [exact H | reflexivity]. Qed.
  Lemma relp_lift f : (forall s1 s2, eqv m s1 s2 -> eqv m (f s1) (f s2)) -> RelP (lift f) (lift f).
  Proof. intros Hf s1 s2 H. split; [now apply Hf | reflexivity]. Qed.
  Lemma relp_bind a1 a2 b1 b2 : RelP a1 a2 -> RelP b1 b2 -> RelP (a1 ;; b1) (a2 ;; b2).
  Proof.
    intros Ha Hb s1 s2 H. unfold bind. destruct (Ha s1 s2 H) as [H1 H2].
    destruct (a1 s1) as [t1 e1], (a2 s2) as [t2 e2]. simpl in *. subst e2.
    destruct e1; [split; [exact H1 | reflexivity] | now apply Hb].
  Qed.
  Lemma relp_for_each {A} (f : A -> M) l : (forall x, RelP (f x) (f x)) -> RelP (for_each f l) (for_each f l).
  Proof. intros Hf. induction l as [|x r IH]; simpl; [apply relp_ret | apply relp_bind; [apply Hf | exact IH]]. Qed.

  Lemma relp_start_service eng x i : RelP (start_service eng x i) (start_service eng x i).
  Proof.
    unfold start_service. destruct (Nat.eqb (i_src i) 0); [apply relp_raise|]. destruct eng.
    - apply relp_bind; apply relp_lift; intros s1 s2 H; [now apply eqv_logo|].
      destruct (eqv_fields s1 s2 H) as [_ [_ [_ [_ [_ [_ [_ [Hn _]]]]]]]]. rewrite Hn. now apply eqv_deliver.
    - apply relp_lift. intros s1 s2 H. destruct (eqv_fields s1 s2 H) as [_ [_ [_ [_ [_ [_ [_ [Hn _]]]]]]]]. rewrite Hn. now apply eqv_arm.
    - apply relp_bind; apply relp_lift; intros s1 s2 H; [now apply eqv_logo|].
      destruct (eqv_fields s1 s2 H) as [_ [_ [_ [_ [_ [_ [_ [Hn _]]]]]]]]. rewrite Hn. now apply eqv_deliver.
  Qed.

  Lemma relp_sched_run eng x : RelP (sched_run eng m x) (sched_run eng m x).
  Proof.
    unfold sched_run. apply relp_bind; [apply relp_lift; intros s1 s2 H; now apply eqv_logo|].
    apply relp_bind; [|apply relp_for_each; intros i; apply relp_start_service].
    apply relp_lift. generalize (n_after (nd m x)). intros l. induction l as [|dt r IH]; intros s1 s2 H; simpl; [exact H|].
    apply IH. generalize (snd dt). intros ts. revert s1 s2 H. induction ts as [|t r' IH']; intros s1 s2 H; simpl; [exact H|].
    apply IH'. destruct (eqv_fields s1 s2 H) as [_ [_ [_ [_ [_ [_ [_ [Hn _]]]]]]]]. rewrite Hn. now apply eqv_arm.
  Qed.
  Lemma relp_sched eng x : RelP (sched eng m x) (sched eng m x).
  Proof. unfold sched. destruct eng; solve [apply relp_sched_run | apply relp_ret]. Qed.
  Lemma relp_sched_before eng x : RelP (sched_before eng m x) (sched_before eng m x).
  Proof. unfold sched_before. destruct eng; solve [apply relp_sched_run | apply relp_ret]. Qed.
  Lemma relp_sched_after eng x : RelP (sched_after eng m x) (sched_after eng m x).
  Proof. unfold sched_after. destruct eng; solve [apply relp_sched_run | apply relp_ret]. Qed.
  Lemma relp_cancel x : RelP (cancel x) (cancel x).
  Proof.
    apply relp_lift. intros s1 s2 H. destruct (eqv_fields s1 s2 H) as [_ [_ [_ [_ [_ [_ [_ [_ [Hp Hq]]]]]]]]]. rewrite Hp, Hq.
    now apply eqv_with_pending, eqv_logo.
  Qed.
  Lemma relp_hook_trans t : RelP (hook_trans t) (hook_trans t).
  Proof. apply relp_lift. intros s1 s2 H. rewrite (eqv_sorted s1 s2 H). now apply eqv_logo. Qed.
  Lemma relp_hook_notify : RelP hook_notify hook_notify.
  Proof. apply relp_lift. intros s1 s2 H. rewrite (eqv_sorted s1 s2 H). now apply eqv_logo. Qed.
  Lemma relp_actions eng pr acts ev : RelP (fun s => exec_actions eng pr acts ev s) (fun s => exec_actions eng pr acts ev s).
  Proof. intros s1 s2 H. now apply eqv_exec_actions. Qed.

  (* ---- configuration updates ---- *)
  Lemma perm_cadd x C1 C2 : Permutation C1 C2 -> Permutation (cadd x C1) (cadd x C2).
  Proof.
    intros P. unfold cadd. rewrite (mem_perm x C1 C2 P). destruct (mem x C2); [exact P | now apply Permutation_app_tail].
  Qed.
  Lemma perm_cdel x C1 C2 : Permutation C1 C2 -> Permutation (cdel x C1) (cdel x C2).
  Proof. intros P. unfold cdel. now apply filter_perm. Qed.

  Lemma eqv_enter x s1 s2 : x < size m -> eqv m s1 s2 ->
    eqv m (logo (OEnter x) (with_cfg (cadd x (s_cfg s1)) s1)) (logo (OEnter x) (with_cfg (cadd x (s_cfg s2)) s2)).
  Proof.
    intros Hx [Hp [Hn [Hf Hr]]]. unfold rest in Hr. inversion Hr. split; [simpl; now apply perm_cadd|].
    split; [simpl; now apply cadd_nodup|]. split; [|unfold rest; simpl; congruence].
    simpl. unfold cadd. destruct (mem x (s_cfg s1)); [exact Hf|]. apply Forall_app. split; [exact Hf | repeat constructor; exact Hx].
  Qed.

  Lemma eqv_leave x s1 s2 : eqv m s1 s2 ->
    eqv m (if mem x (s_cfg s1) then logo (OLeave x) (with_cfg (cdel x (s_cfg s1)) s1) else s1)
          (if mem x (s_cfg s2) then logo (OLeave x) (with_cfg (cdel x (s_cfg s2)) s2) else s2).
  Proof.
    intros H. rewrite (eqv_mem x s1 s2 H). destruct (mem x (s_cfg s2)); [|exact H].
    destruct H as [Hp [Hn [Hf Hr]]]. unfold rest in Hr. inversion Hr. split; [simpl; now apply perm_cdel|].
    split; [simpl; unfold cdel; now apply filter_nodup|]. split; [simpl; unfold cdel; now apply filter_forall | unfold rest; simpl; congruence].
  Qed.

  (* ---- history recording: the remembered lists are canonical ---- *)
  Lemma eqv_record_history l s1 s2 : eqv m s1 s2 -> eqv m (record_history m l s1) (record_history m l s2).
  Proof.
    intros H. unfold record_history. generalize (dedup (List.concat (map (anc_self m) l))). intros c.
    assert (Hrem : forall p, sort_by (lt_depth_id m) (filter (fun n => negb (Nat.eqb n p) && is_desc m n p) (s_cfg s1))
                           = sort_by (lt_depth_id m) (filter (fun n => negb (Nat.eqb n p) && is_desc m n p) (s_cfg s2))).
    { intros p. destruct H as [Hp [Hn [Hf _]]]. apply (remembered_independent m Hids (s_cfg s1) (s_cfg s2) Hf Hn Hp p). }
    set (F1 := fun s' p => if has_history_child m p then match sort_by (lt_depth_id m) (filter (fun n => negb (Nat.eqb n p) && is_desc m n p) (s_cfg s1)) with
                                                          | [] => s' | _ :: _ => with_hist (hist_set (s_hist s') p (sort_by (lt_depth_id m) (filter (fun n => negb (Nat.eqb n p) && is_desc m n p) (s_cfg s1)))) s' end else s').
    set (F2 := fun s' p => if has_history_child m p then match sort_by (lt_depth_id m) (filter (fun n => negb (Nat.eqb n p) && is_desc m n p) (s_cfg s2)) with
                                                          | [] => s' | _ :: _ => with_hist (hist_set (s_hist s') p (sort_by (lt_depth_id m) (filter (fun n => negb (Nat.eqb n p) && is_desc m n p) (s_cfg s2)))) s' end else s').
    change (eqv m (fold_left F1 c s1) (fold_left F2 c s2)).
    assert (G : forall t1 t2, eqv m t1 t2 -> eqv m (fold_left F1 c t1) (fold_left F2 c t2)).
    { induction c as [|q r IH]; intros t1 t2 Ht; simpl; [exact Ht|]. apply IH. unfold F1, F2. rewrite (Hrem q).
      destruct (has_history_child m q); [|exact Ht]. destruct (sort_by _ _); [exact Ht|].
      destruct (eqv_fields t1 t2 Ht) as [Hh _]. rewrite Hh. now apply eqv_with_hist. }
    now apply G.
  Qed.

  (* ---- exit ---- *)
  Lemma relp_exit_states eng pr l ev : RelP (exit_states eng pr m l ev) (exit_states eng pr m l ev).
  Proof.
    unfold exit_states. apply relp_bind; [apply relp_lift; intros s1 s2 H; now apply eqv_record_history|].
    assert (Hleave : forall x, RelP (lift (fun s => if mem x (s_cfg s) then logo (OLeave x) (with_cfg (cdel x (s_cfg s)) s) else s))
                                    (lift (fun s => if mem x (s_cfg s) then logo (OLeave x) (with_cfg (cdel x (s_cfg s)) s) else s)))
      by (intros x; apply relp_lift; intros s1 s2 H; now apply eqv_leave).
    destruct eng.
    - apply relp_bind; [apply relp_for_each; intros x; apply relp_cancel|]. apply relp_for_each. intros x.
      apply relp_bind; [apply relp_actions | apply Hleave].
    - apply relp_for_each. intros x. apply relp_bind; [apply relp_cancel|]. apply relp_bind; [apply relp_actions | apply Hleave].
    - apply relp_bind; [apply relp_for_each; intros x; apply relp_cancel|]. apply relp_for_each. intros x.
      apply relp_bind; [apply relp_actions | apply Hleave].
  Qed.
End Plain.

(* ---- entry: the done-ness check searches the active set for "the" active child of a compound state ---- *)
Section Up.
  Variable m : machine.
  Hypothesis Hids : ids_distinct m.
  Variable U : list nat.                   (* a legal configuration that bounds what is active during the entry *)

  Definition AMO (C : list nat) : Prop :=
    forall s c1 c2, kind_of m s = KCompound -> In c1 C -> In c2 C -> parent m c1 = Some s -> parent m c2 = Some s -> c1 = c2.

  Hypothesis HU : AMO U.
  Hypothesis HUr : forall x, In x U -> x < size m.

  Lemma find_child_perm C1 C2 s : Permutation C1 C2 -> incl C1 U -> kind_of m s = KCompound ->
    find (fun c => match parent m c with Some p => Nat.eqb p s | None => false end) C1 =
    find (fun c => match parent m c with Some p => Nat.eqb p s | None => false end) C2.
  Proof.
    intros P Hin Hk.
    set (f := fun c => match parent m c with Some p => Nat.eqb p s | None => false end).
    assert (Hf : forall c, f c = true -> parent m c = Some s).
    { intros c. unfold f. destruct (parent m c) as [p|]; [|discriminate]. intros E. apply Nat.eqb_eq in E. now subst. }
    destruct (find f C1) as [c1|] eqn:E1.
    - apply find_some in E1 as [H1 F1].
      destruct (find f C2) as [c2|] eqn:E2.
      + apply find_some in E2 as [H2 F2]. f_equal.
        apply (HU s c1 c2 Hk); [now apply Hin | apply Hin; eapply Permutation_in; [symmetry; exact P | exact H2] | now apply Hf | now apply Hf].
      + exfalso. assert (H1' : In c1 C2) by (eapply Permutation_in; [exact P | exact H1]).
        apply (find_none _ _ E2) in H1'. congruence.
    - destruct (find f C2) as [c2|] eqn:E2; [|reflexivity]. exfalso.
      apply find_some in E2 as [H2 F2]. assert (H2' : In c2 C1) by (eapply Permutation_in; [symmetry; exact P | exact H2]).
      apply (find_none _ _ E1) in H2'. congruence.
  Qed.

  Lemma is_done_perm C1 C2 : Permutation C1 C2 -> incl C1 U -> forall f s, is_done f m C1 s = is_done f m C2 s.
  Proof.
    intros P Hin f. induction f as [|f IH]; intros s; [reflexivity|]. cbn [is_done].
    destruct (kind_of m s) eqn:Hk; try reflexivity.
    - rewrite (find_child_perm C1 C2 s P Hin Hk). destruct (find _ C2); [apply IH | reflexivity].
    - generalize (children m s). intros ch. induction ch as [|r rs IHc]; simpl; [reflexivity|]. rewrite (mem_perm r C1 C2 P), IH, IHc. reflexivity.
  Qed.

  Lemma eqv_complete o s1 s2 : eqv m s1 s2 -> eqv m (complete o s1) (complete o s2).
  Proof.
    intros H. destruct (eqv_fields m s1 s2 H) as [_ [_ [_ [Hs _]]]]. unfold complete. rewrite Hs.
    destruct (s_status s2); try exact H. now apply eqv_logo, eqv_with_status.
  Qed.

  Lemma eqv_fire_on_done eng pr fin s1 s2 : eqv m s1 s2 -> incl (s_cfg s1) U ->
    eqv m (fire_on_done eng pr m fin s1) (fire_on_done eng pr m fin s2).
  Proof.
    intros H Hin. unfold fire_on_done.
    assert (E : forall a, (match n_ondone (nd m a) with Some _ => state_done m (s_cfg s1) a | None => false end) =
                          (match n_ondone (nd m a) with Some _ => state_done m (s_cfg s2) a | None => false end)).
    { intros a. destruct (n_ondone (nd m a)); [|reflexivity]. unfold state_done. apply is_done_perm; [now destruct H | exact Hin]. }
    assert (Ef : find (fun a => match n_ondone (nd m a) with Some _ => state_done m (s_cfg s1) a | None => false end) (ancestors m fin) =
                 find (fun a => match n_ondone (nd m a) with Some _ => state_done m (s_cfg s2) a | None => false end) (ancestors m fin)).
    { generalize (ancestors m fin). intros l. induction l as [|a r IHl]; simpl; [reflexivity|]. rewrite (E a), IHl. reflexivity. }
    rewrite Ef. clear Ef E.
    destruct (find (fun a => match n_ondone (nd m a) with Some _ => state_done m (s_cfg s2) a | None => false end) (ancestors m fin)).
    - apply eqv_send_self. destruct (eqv_fields m s1 s2 H) as [_ [_ [_ [_ [_ [_ [Hrd _]]]]]]]. unfold note_chained. rewrite Hrd.
      destruct eng; try exact H. destruct pr; [now apply eqv_with_rd | exact H].
    - destruct (parent m fin) as [[|p]|]; try exact H; now apply eqv_complete.
  Qed.

  Lemma cfg_keep (a : M) s : keeps_cfg a -> s_cfg (fst (a s)) = s_cfg s.
  Proof. intros H. apply H. Qed.

  (* relational triples that also keep the configuration inside U *)
  Definition RelU (a b : M) : Prop :=
    forall s1 s2, eqv m s1 s2 -> incl (s_cfg s1) U ->
      eqv m (fst (a s1)) (fst (b s2)) /\ snd (a s1) = snd (b s2) /\ incl (s_cfg (fst (a s1))) U.

  Lemma relu_ret : RelU ret ret.
  Proof. intros s1 s2 H I. split; [exact H | split; [reflexivity | exact I]]. Qed.
  Lemma relu_raise e : RelU (raise e) (raise e).
  Proof. intros s1 s2 H I. split; [exact H | split; [reflexivity | exact I]]. Qed.
  Lemma relu_bind a1 a2 b1 b2 : RelU a1 a2 -> RelU b1 b2 -> RelU (a1 ;; b1) (a2 ;; b2).
  Proof.
    intros Ha Hb s1 s2 H I. unfold bind. destruct (Ha s1 s2 H I) as [H1 [H2 H3]].
    destruct (a1 s1) as [t1 e1], (a2 s2) as [t2 e2]. simpl in *. subst e2.
    destruct e1; [split; [exact H1 | split; [reflexivity | exact H3]] | now apply Hb].
  Qed.
  Lemma relu_keeps a : RelP m a a -> keeps_cfg a -> RelU a a.
  Proof.
    intros Hr Hk s1 s2 H I. destruct (Hr s1 s2 H) as [A B]. split; [exact A|]. split; [exact B|]. rewrite (Hk s1). exact I.
  Qed.

  Lemma keeps_actions eng pr acts ev : keeps_cfg (fun s => exec_actions eng pr acts ev s).
  Proof. intros s. now destruct (exec_actions_same eng pr acts ev s). Qed.

  Lemma relu_fire eng pr x : RelU (if is_final m x then lift (fire_on_done eng pr m x) else ret) (if is_final m x then lift (fire_on_done eng pr m x) else ret).
  Proof.
    destruct (is_final m x); [|apply relu_ret]. intros s1 s2 H I. simpl.
    split; [now apply eqv_fire_on_done|]. split; [reflexivity|]. destruct (fire_on_done_same eng pr m x s1) as [Hc _]. rewrite Hc. exact I.
  Qed.

  Lemma relu_enter_lift x : In x U ->
    RelU (lift (fun s => logo (OEnter x) (with_cfg (cadd x (s_cfg s)) s))) (lift (fun s => logo (OEnter x) (with_cfg (cadd x (s_cfg s)) s))).
  Proof.
    intros HxU s1 s2 H I. simpl. split; [apply eqv_enter; [now apply HUr | exact H]|]. split; [reflexivity|].
    intros y Hy. apply cadd_In in Hy as [->|Hy]; [exact HxU | now apply I].
  Qed.

  (* entering a list of states whose entered set lies inside U *)
  Theorem enter_states_relu eng pr : forall f l ev, incl (entered f m l) U ->
    RelU (enter_states f eng pr m l ev) (enter_states f eng pr m l ev).
  Proof.
    induction f as [|f IH]; intros l ev HE; [apply relu_raise|].
    cbn [enter_states]. cbn [entered] in HE.
    set (ep := parents_of m l) in *. set (ei := with_parent m l) in *.
    set (body := fun x => x :: match kind_of m x with
             | KCompound => match n_initial (nd m x) with
                            | Some i => if mem x ep then [] else entered f m [i]
                            | None => []
                            end
             | KParallel => entered f m (filter (fun c => negb (is_history m c) && negb (mem c ei)) (children m x))
             | _ => []
             end) in *.
    assert (Hgen : forall l0, incl (List.concat (map body l0)) U ->
              RelU (for_each (enter_one eng pr m (enter_states f eng pr m) ep ei ev) l0)
                   (for_each (enter_one eng pr m (enter_states f eng pr m) ep ei ev) l0)); [|now apply Hgen].
    clear HE. induction l0 as [|x r IHr]; intros HE; [apply relu_ret|].
    cbn [for_each map List.concat] in *.
    assert (HEx : incl (body x) U) by (intros y Hy; apply HE; apply in_or_app; now left).
    assert (HEr : incl (List.concat (map body r)) U) by (intros y Hy; apply HE; apply in_or_app; now right).
    apply relu_bind; [|now apply IHr].
    unfold enter_one.
    apply relu_bind; [apply relu_enter_lift; apply HEx; now left|].
    apply relu_bind; [apply relu_keeps; [apply relp_actions | apply keeps_actions]|].
    apply relu_bind; [apply relu_keeps; [apply relp_sched_before | apply keeps_sched_before]|].
    apply relu_bind; [apply relu_fire|].
    assert (Hsa : RelU (sched_after eng m x) (sched_after eng m x)) by (apply relu_keeps; [apply relp_sched_after | apply keeps_sched_after]).
    unfold body in HEx.
    destruct (kind_of m x) eqn:Hk; try exact Hsa.
    - destruct (n_initial (nd m x)) as [i|] eqn:Hi.
      + destruct (mem x ep); [exact Hsa|]. apply relu_bind; [|exact Hsa]. apply IH. intros y Hy. apply HEx. now right.
      + destruct (children m x); [exact Hsa | apply relu_raise].
    - apply relu_bind; [|exact Hsa].
      destruct (filter (fun c => negb (is_history m c) && negb (mem c ei)) (children m x)) as [|c r'] eqn:Ef; [apply relu_ret|].
      apply IH. intros y Hy. apply HEx. now right.
  Qed.
End Up.

(* ---- one transition, one event, whole runs ---- *)
From XSM Require Import Proofs.PreserveP Proofs.InvariantP Proofs.SelectP Proofs.FaultP.

Section Steps.
  Variable m : machine.
  Hypothesis Hwf : wf m = true.
  Hypothesis Htwf : twf m = true.
  Hypothesis Hgood : good_initials m = true.
  Hypothesis Hsafe : safe_targets m.
  Hypothesis Hids : ids_distinct m.

  Lemma legal_amo C : Legal m C -> AMO m C.
  Proof.
    intros HL s c1 c2 Hk H1 H2 P1 P2.
    assert (Hs : In s C) by (pose proof (L_parent m C HL c1 H1) as Hp; rewrite P1 in Hp; exact Hp).
    assert (Hss : s < size m) by now apply (L_range m C HL).
    assert (Hc1 : In c1 (children m s)) by (destruct (parent_props m Hwf c1 s (L_range m C HL c1 H1) P1) as [_ [Hin _]]; exact Hin).
    assert (Hc2 : In c2 (children m s)) by (destruct (parent_props m Hwf c2 s (L_range m C HL c2 H2) P2) as [_ [Hin _]]; exact Hin).
    assert (Hne : children m s <> []) by (intros E; rewrite E in Hc1; destruct Hc1).
    destruct (legal_one_active_child m C s Hwf HL Hs Hk Hne) as [c [_ [_ Hu]]].
    rewrite (Hu c1 Hc1 H1), (Hu c2 Hc2 H2). reflexivity.
  Qed.

  Lemma eqv_with_cfg C1 C2 s1 s2 : Permutation C1 C2 -> NoDup C1 -> Forall (fun x => x < size m) C1 -> eqv m s1 s2 ->
    eqv m (with_cfg C1 s1) (with_cfg C2 s2).
  Proof. intros P N F [_ [_ [_ Hr]]]. unfold rest in Hr. inversion Hr. split; [exact P|]. split; [exact N|]. split; [exact F | unfold rest; simpl; congruence]. Qed.

  (* an external transition to a target that is neither the root nor a history state, from an active source *)
  Theorem exec_external_eqv eng pr t tgt ev s1 s2 :
    eqv m s1 s2 -> Legal m (s_cfg s1) -> In (t_src t) (s_cfg s1) -> tgt < size m -> tgt <> 0 -> is_history m tgt = false ->
    eqv m (fst (exec_external eng pr m t tgt ev s1)) (fst (exec_external eng pr m t tgt ev s2))
    /\ snd (exec_external eng pr m t tgt ev s1) = snd (exec_external eng pr m t tgt ev s2).
  Proof.
    intros H HL Hsrc Ht Hne Hh.
    destruct H as [Hp [Hn [Hf Hr]]]. assert (H : eqv m s1 s2) by (split; [exact Hp | split; [exact Hn | split; [exact Hf | exact Hr]]]).
    destruct (eqv_fields m s1 s2 H) as [Hhist _].
    unfold exec_external. rewrite Hh. rewrite !(ext_exit_set_nonroot m _ _ _ tgt Hne), (ext_path_nonroot m tgt _ Hne). rewrite !(exit_set_h_plain m _ _ _ tgt Hh).
    set (d := find_domain m (t_src t) tgt).
    assert (Hxs : sort_by (lt_depth_id m) (exit_set m (s_cfg s1) d tgt) = sort_by (lt_depth_id m) (exit_set m (s_cfg s2) d tgt))
      by (apply (exit_order_independent m Hids (s_cfg s1) (s_cfg s2) Hf Hn Hp)).
    rewrite <- Hxs. set (xs := rev (sort_by (lt_depth_id m) (exit_set m (s_cfg s1) d tgt))).
    set (path := path_to m tgt d).
    assert (Hd : In d (ancestors m tgt)) by (apply (domain_above_target m Hwf); [now apply (L_range m _ HL) | exact Ht | exact Hne]).
    assert (HdC : In d (s_cfg s1)) by now apply (domain_active m Hwf).
    set (U := add_all (entered (S (size m)) m path) (remove_all xs (s_cfg s1))).
    assert (HUl : Legal m U) by (apply (formula_legal m Hwf Hgood (s_cfg s1) d tgt HL Ht Hh Hd HdC)).
    (* the body *)
    set (body := exit_states eng pr m xs (Some ev) ;; (fun s => exec_actions eng pr (t_actions t) ev s) ;; enter eng pr m path (Some ev) ;; ret).
    assert (Hbody : eqv m (fst (body s1)) (fst (body s2)) /\ snd (body s1) = snd (body s2)).
    { unfold body, bind.
      destruct (relp_exit_states m Hids eng pr xs (Some ev) s1 s2 H) as [A B].
      destruct (exit_states eng pr m xs (Some ev) s1) as [t1 e1] eqn:E1. destruct (exit_states eng pr m xs (Some ev) s2) as [u1 e1']. simpl in A, B. subst e1'.
      destruct e1; [split; [exact A | reflexivity]|].
      pose proof (exit_states_effect m eng pr xs (Some ev) s1 t1 E1) as Ec1.
      destruct (eqv_exec_actions m eng pr (t_actions t) ev t1 u1 A) as [A2 B2].
      pose proof (exec_actions_same eng pr (t_actions t) ev t1) as [Ec2 _].
      destruct (exec_actions eng pr (t_actions t) ev t1) as [t2 e2]. destruct (exec_actions eng pr (t_actions t) ev u1) as [u2 e2']. simpl in A2, B2, Ec2. subst e2'.
      destruct e2; [split; [exact A2 | reflexivity]|].
      assert (I2 : incl (s_cfg t2) U).
      { rewrite Ec2, Ec1. intros y Hy. unfold U, add_all. apply fold_cadd_In. now right. }
      assert (HE : incl (entered (S (size m)) m path) U) by (intros y Hy; unfold U, add_all; apply fold_cadd_In; now left).
      destruct (enter_states_relu m U (legal_amo U HUl) (L_range m U HUl) eng pr (S (size m)) path (Some ev) HE t2 u2 A2 I2) as [A3 [B3 _]].
      unfold enter.
      destruct (enter_states (S (size m)) eng pr m path (Some ev) t2) as [t3 e3]. destruct (enter_states (S (size m)) eng pr m path (Some ev) u2) as [u3 e3']. simpl in A3, B3. subst e3'.
      unfold ret. destruct e3; split; try exact A3; reflexivity. }
    fold body. destruct Hbody as [A B]. destruct (body s1) as [t1 e1]. destruct (body s2) as [u1 e1']. simpl in A, B. subst e1'.
    destruct e1 as [e|].
    - (* rollback *)
      assert (Hsn : sort_nat (s_cfg s1) = sort_nat (s_cfg s2)) by now apply sort_nat_canonical.
      rewrite <- Hsn.
      assert (Hw : eqv m (with_cfg (s_cfg s1) t1) (with_cfg (s_cfg s2) u1)) by now apply eqv_with_cfg.
      destruct (relp_for_each m (sched eng m) (filter (fun x => mem x (rev xs)) (sort_nat (s_cfg s1))) (relp_sched m eng) _ _ Hw) as [A2 B2].
      unfold xs in A2, B2. rewrite rev_involutive in A2, B2.
      assert (Hmem : filter (fun x => mem x (sort_by (lt_depth_id m) (exit_set m (s_cfg s1) d tgt))) (sort_nat (s_cfg s1)) =
                     filter (fun x => mem x (exit_set m (s_cfg s1) d tgt)) (sort_nat (s_cfg s1))).
      { apply filter_ext. intros x. apply mem_perm. symmetry. apply sort_by_perm. }
      rewrite Hmem in A2, B2.
      assert (Hmem2 : filter (fun x => mem x (exit_set m (s_cfg s1) d tgt)) (sort_nat (s_cfg s1)) = filter (fun x => mem x (exit_set m (s_cfg s2) d tgt)) (sort_nat (s_cfg s1))).
      { apply filter_ext. intros x. apply mem_perm. unfold exit_set. destruct (is_parallel m d); [destruct (branch_of m d tgt)|]; repeat apply filter_perm; exact Hp. }
      rewrite <- Hmem2.
      destruct (for_each (sched eng m) _ (with_cfg (s_cfg s1) t1)) as [t2 e2]. destruct (for_each (sched eng m) _ (with_cfg (s_cfg s2) u1)) as [u2 e2']. simpl in A2, B2. subst e2'.
      destruct e2; split; try exact A2; reflexivity.
    - destruct eng.
      + apply (relp_bind m hook_notify hook_notify (hook_trans t) (hook_trans t) (relp_hook_notify m) (relp_hook_trans m t) t1 u1 A).
      + apply (relp_bind m (hook_trans t) (hook_trans t) hook_notify hook_notify (relp_hook_trans m t) (relp_hook_notify m) t1 u1 A).
      + apply (relp_bind m hook_notify hook_notify (hook_trans t) (hook_trans t) (relp_hook_notify m) (relp_hook_trans m t) t1 u1 A).
  Qed.

  Theorem exec_transition_eqv eng pr t ev s1 s2 :
    eqv m s1 s2 -> Legal m (s_cfg s1) -> In (t_src t) (s_cfg s1) -> target_ok m t ->
    eqv m (fst (exec_transition eng pr m t ev s1)) (fst (exec_transition eng pr m t ev s2))
    /\ snd (exec_transition eng pr m t ev s1) = snd (exec_transition eng pr m t ev s2).
  Proof.
    intros H HL Hsrc Hok. unfold exec_transition.
    assert (Hint : RelP m ((fun s => exec_actions eng pr (t_actions t) ev s) ;; hook_trans t) ((fun s => exec_actions eng pr (t_actions t) ev s) ;; hook_trans t))
      by (apply relp_bind; [apply relp_actions | apply relp_hook_trans]).
    unfold target_ok in Hok. destruct (t_target t) as [|tgt|]; [now apply Hint | | split; [exact H | reflexivity]].
    destruct (Nat.eqb tgt (t_src t) && negb (t_reenter t)); [now apply Hint|].
    destruct Hok as [Ht [Hne Hh]]. now apply exec_external_eqv.
  Qed.

  (* one event *)
  Theorem process_event_eqv eng pr ev s1 s2 :
    eqv m s1 s2 -> Legal m (s_cfg s1) ->
    eqv m (fst (process_event eng pr m ev s1)) (fst (process_event eng pr m ev s2))
    /\ snd (process_event eng pr m ev s1) = snd (process_event eng pr m ev s2).
  Proof.
    intros H HL. unfold process_event.
    destruct H as [Hp [Hn [Hf Hr]]]. assert (H : eqv m s1 s2) by (split; [exact Hp | split; [exact Hn | split; [exact Hf | exact Hr]]]).
    destruct (eqv_fields m s1 s2 H) as [_ [Hc _]].
    rewrite <- Hc, <- (select_independent m Hids (s_cfg s1) (s_cfg s2) Hf Hn Hp (s_ctx s1) ev).
    destruct (select m (s_cfg s1) (s_ctx s1) ev) as [ts|] eqn:Hsel; [|split; [exact H | reflexivity]].
    assert (Hall : forall t, In t ts -> target_ok m t) by (intros t Ht; now destruct (selected_source_active m Hwf Htwf Hsafe s1 ev ts t HL Hsel Ht)).
    assert (Hfirst : forall t, In t ts -> In (t_src t) (s_cfg s1)) by (intros t Ht; now destruct (selected_source_active m Hwf Htwf Hsafe s1 ev ts t HL Hsel Ht)).
    set (step := fun t s' => if Nat.ltb 1 (List.length ts) && negb (mem (t_src t) (s_cfg s')) then (s', None) else exec_transition eng pr m t ev s').
    assert (Hloop : forall l t1 t2, (forall t, In t l -> In t ts) -> eqv m t1 t2 -> Legal m (s_cfg t1) ->
              (Nat.ltb 1 (List.length ts) = true \/ (forall t, In t l -> In (t_src t) (s_cfg t1)) /\ List.length l <= 1) ->
              eqv m (fst (for_each step l t1)) (fst (for_each step l t2)) /\ snd (for_each step l t1) = snd (for_each step l t2)).
    { induction l as [|t r IHl]; intros t1 t2 Hsub Ht HLt Hcase; [split; [exact Ht | reflexivity]|].
      cbn [for_each]. unfold bind.
      assert (Hstep : eqv m (fst (step t t1)) (fst (step t t2)) /\ snd (step t t1) = snd (step t t2) /\ Legal m (s_cfg (fst (step t t1)))).
      { unfold step. rewrite (eqv_mem m (t_src t) t1 t2 Ht).
        destruct (Nat.ltb 1 (List.length ts)) eqn:El; simpl.
        - destruct (mem (t_src t) (s_cfg t2)) eqn:Em; simpl; [|split; [exact Ht | split; [reflexivity | exact HLt]]].
          assert (Hsrc : In (t_src t) (s_cfg t1)) by (apply mem_In; now rewrite (eqv_mem m (t_src t) t1 t2 Ht)).
          destruct (exec_transition_eqv eng pr t ev t1 t2 Ht HLt Hsrc (Hall t (Hsub t (or_introl eq_refl)))) as [A B].
          split; [exact A|]. split; [exact B|]. now apply (exec_transition_inv m Hwf Hgood eng pr t ev t1 HLt Hsrc (Hall t (Hsub t (or_introl eq_refl)))).
        - destruct Hcase as [Hc1|[Hc1 _]]; [discriminate|].
          assert (Hsrc : In (t_src t) (s_cfg t1)) by (apply Hc1; now left).
          destruct (exec_transition_eqv eng pr t ev t1 t2 Ht HLt Hsrc (Hall t (Hsub t (or_introl eq_refl)))) as [A B].
          split; [exact A|]. split; [exact B|]. now apply (exec_transition_inv m Hwf Hgood eng pr t ev t1 HLt Hsrc (Hall t (Hsub t (or_introl eq_refl)))). }
      destruct Hstep as [A [B C]]. destruct (step t t1) as [u1 e1]. destruct (step t t2) as [u2 e2]. simpl in A, B, C. subst e2.
      destruct e1; [split; [exact A | reflexivity]|].
      apply IHl; [intros x Hx; apply Hsub; now right | exact A | exact C|].
      destruct Hcase as [Hc1|[_ Hlen]]; [now left|]. right. simpl in Hlen. destruct r; [|simpl in Hlen; lia]. split; [intros x []|simpl; lia]. }
    apply Hloop; [auto | exact H | exact HL|].
    destruct (Nat.ltb 1 (List.length ts)) eqn:El; [now left|]. right. split; [exact Hfirst | apply Nat.ltb_ge in El; exact El].
  Qed.

  (* settle, drain, send *)
  Lemma settle_eqv eng pr : forall n s1 s2, eqv m s1 s2 -> Legal m (s_cfg s1) ->
    eqv m (fst (settle n eng pr m s1)) (fst (settle n eng pr m s2)) /\ snd (settle n eng pr m s1) = snd (settle n eng pr m s2).
  Proof.
    induction n as [|n IH]; intros s1 s2 H HL; simpl; [split; [now apply eqv_logo | reflexivity]|].
    destruct H as [Hp [Hn [Hf Hr]]]. assert (H : eqv m s1 s2) by (split; [exact Hp | split; [exact Hn | split; [exact Hf | exact Hr]]]).
    destruct (eqv_fields m s1 s2 H) as [_ [Hc _]].
    rewrite <- Hc, <- (select_independent m Hids (s_cfg s1) (s_cfg s2) Hf Hn Hp (s_ctx s1) transient_event).
    destruct (select m (s_cfg s1) (s_ctx s1) transient_event); [|split; [exact H | reflexivity]].
    destruct (existsb _ _); [|split; [exact H | reflexivity]]. unfold bind.
    destruct (process_event_eqv eng pr transient_event s1 s2 H HL) as [A B].
    pose proof (process_event_inv m Hwf Htwf Hgood Hsafe eng pr transient_event s1 HL) as C.
    destruct (process_event eng pr m transient_event s1) as [t1 e1]. destruct (process_event eng pr m transient_event s2) as [t2 e2]. simpl in A, B, C. subst e2.
    destruct e1; [split; [exact A | reflexivity] | now apply IH].
  Qed.

  Lemma drain_eqv eng : forall n s1 s2, eqv m s1 s2 -> Legal m (s_cfg s1) ->
    eqv m (fst (drain n eng m s1)) (fst (drain n eng m s2)) /\ snd (drain n eng m s1) = snd (drain n eng m s2).
  Proof.
    induction n as [|n IH]; intros s1 s2 H HL; simpl; destruct (eqv_fields m s1 s2 H) as [_ [_ [Hq [_ [_ [_ [_ [Hnow _]]]]]]]]; rewrite Hq.
    - destruct (s_queue s2); [split; [exact H | reflexivity] | split; [now apply eqv_logo, eqv_with_queue | reflexivity]].
    - destruct (s_queue s2) as [|ev q]; [split; [exact H | reflexivity]|]. unfold bind, lift. cbv iota beta. rewrite Hnow.
      set (t1 := logo (OClock (s_now s2)) (logo (OBegin (e_type ev) (e_tag ev)) (with_queue q s1))).
      set (t2 := logo (OClock (s_now s2)) (logo (OBegin (e_type ev) (e_tag ev)) (with_queue q s2))).
      assert (Ht : eqv m t1 t2) by (unfold t1, t2; now apply eqv_logo, eqv_logo, eqv_with_queue).
      assert (HLt : Legal m (s_cfg t1)) by exact HL.
      destruct (process_event_eqv eng true ev t1 t2 Ht HLt) as [A B].
      pose proof (process_event_inv m Hwf Htwf Hgood Hsafe eng true ev t1 HLt) as C.
      destruct (process_event eng true m ev t1) as [u1 e1]. destruct (process_event eng true m ev t2) as [u2 e2]. simpl in A, B, C. subst e2.
      destruct e1; [split; [exact A | reflexivity]|].
      destruct (settle_eqv eng true (m_max_iter m) u1 u2 A C) as [A2 B2].
      pose proof (settle_inv m Hwf Htwf Hgood Hsafe eng true (m_max_iter m) u1 C) as C2.
      destruct (settle (m_max_iter m) eng true m u1) as [v1 f1]. destruct (settle (m_max_iter m) eng true m u2) as [v2 f2]. simpl in A2, B2, C2. subst f2.
      destruct f1; [split; [exact A2 | reflexivity] | now apply IH].
  Qed.

  Theorem send_eqv eng ev s1 s2 : eqv m s1 s2 -> Legal m (s_cfg s1) ->
    eqv m (fst (sync_send_with eng m ev s1)) (fst (sync_send_with eng m ev s2)) /\ snd (sync_send_with eng m ev s1) = snd (sync_send_with eng m ev s2).
  Proof.
    intros H HL. unfold sync_send_with. destruct (eqv_fields m s1 s2 H) as [_ [_ [Hq [Hs _]]]]. rewrite Hs, Hq.
    destruct (s_status s2); try (split; [exact H | reflexivity]). apply drain_eqv; [now apply eqv_with_queue | exact HL].
  Qed.

  (* any sequence of sends: the two interpreters stay equal up to the listing order of the active set - in particular
     their logs (every action with its event, every entry / exit, every hook and subscriber call) are IDENTICAL *)
  Theorem sends_eqv evs : forall s1 s2, eqv m s1 s2 -> Legal m (s_cfg s1) ->
    eqv m (fold_left (fun s ev => catch (sync_send m ev) s) evs s1) (fold_left (fun s ev => catch (sync_send m ev) s) evs s2).
  Proof.
    induction evs as [|ev r IH]; intros s1 s2 H HL; simpl; [exact H|].
    destruct (send_eqv Sync ev s1 s2 H HL) as [A B]. pose proof (send_inv m Hwf Htwf Hgood Hsafe Sync ev s1 HL) as C.
    unfold catch, sync_send.
    destruct (sync_send_with Sync m ev s1) as [t1 e1]. destruct (sync_send_with Sync m ev s2) as [t2 e2]. simpl in A, B, C. subst e2.
    destruct e1; apply IH; try exact C; [now apply eqv_logo | exact A].
  Qed.
End Steps.

(* ---- a restored interpreter continues like the one the snapshot was taken from (property C12) ---- *)
From XSM Require Import Model.Snap.

Section Restored.
  Variable m : machine.
  Hypothesis Hwf : wf m = true.
  Hypothesis Htwf : twf m = true.
  Hypothesis Hgood : good_initials m = true.
  Hypothesis Hsafe : safe_targets m.
  Hypothesis Hids : ids_distinct m.

  (* the interpreter the snapshot was taken from, seen at the same quiescent point with what a snapshot does not carry
     (queue, log, clock, timers and services in flight) reset *)
  Definition quiet (s : st) : st := mk (s_cfg s) (s_hist s) (s_ctx s) [] (s_status s) (s_output s) [] 0 0 [] 0.

  Theorem restored_eqv s r :
    Legal m (s_cfg s) -> Forall (fun e => snd e <> []) (s_hist s) -> restore m (persist m s) = Some r -> eqv m r (quiet s).
  Proof.
    intros HL Hh Hr. pose proof (snapshot_keeps_history m s r Hh Hr) as Hhist.
    unfold restore in Hr. destruct (forallb _ _); [|discriminate]. inversion Hr; subst r; clear Hr. simpl in Hhist.
    assert (Hp : Permutation (restore_cfg m (sort_by (lt_id m) (s_cfg s))) (s_cfg s))
      by (apply restore_cfg_persist; [now apply Legal_closed | apply (L_nodup m _ HL)]).
    split; [exact Hp|]. split; [apply restore_cfg_nodup|]. split.
    - apply Forall_forall. intros x Hx. apply (L_range m _ HL). eapply Permutation_in; [exact Hp | exact Hx].
    - unfold rest, quiet. simpl. simpl in Hhist. now rewrite Hhist.
  Qed.

  Theorem restored_continues_alike s r evs :
    Legal m (s_cfg s) -> Forall (fun e => snd e <> []) (s_hist s) -> restore m (persist m s) = Some r ->
    eqv m (fold_left (fun s ev => catch (sync_send m ev) s) evs r) (fold_left (fun s ev => catch (sync_send m ev) s) evs (quiet s)).
  Proof.
    intros HL Hh Hr. apply (sends_eqv m Hwf Htwf Hgood Hsafe Hids); [now apply restored_eqv|].
    now apply (restore_legal m s r).
  Qed.
End Restored.
