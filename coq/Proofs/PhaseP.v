(* Order and event identity inside one transition (property C03): what each phase of exec_external can record. *)
From XSM Require Import Model.Macro Proofs.TreeP Proofs.StepP Proofs.SortP.
From Coq Require Import Lia Sorting.Sorted.

(* `a` only appends records satisfying P to the log (newest first) *)
Definition emits (P : obs -> Prop) (a : M) : Prop :=
  forall s, exists l, s_log (fst (a s)) = l ++ s_log s /\ Forall P l.
Definition emitsf (P : obs -> Prop) (f : st -> st) : Prop :=
  forall s, exists l, s_log (f s) = l ++ s_log s /\ Forall P l.

(* records that do not come from user actions or from entering / leaving *)
Definition infra (o : obs) : bool :=
  match o with
  | OActErr _ | OSched _ | OCancel _ | ONotify _ | ODone _ | OCut _ | OEmit _ _ | OPAct _ | OPBuiltin _ | OFail
  | OClock _ | OSvc _ | OTrans _ _ => true
  | _ => false
  end.

Section Emits.
  Variable P : obs -> Prop.
  Hypothesis Pinfra : forall o, infra o = true -> P o.

  Lemma ef_id : emitsf P (fun s => s).
  Proof. intros s. exists []. split; [reflexivity | constructor]. Qed.
  Lemma ef_same f : (forall s, s_log (f s) = s_log s) -> emitsf P f.
  Proof. intros H s. exists []. split; [apply H | constructor]. Qed.
  Lemma ef_logo o : P o -> emitsf P (logo o).
  Proof. intros H s. exists [o]. split; [reflexivity | now constructor]. Qed.
  Lemma ef_comp f g : emitsf P f -> emitsf P g -> emitsf P (fun s => g (f s)).
  Proof.
    intros Hf Hg s. destruct (Hf s) as [l1 [E1 F1]]. destruct (Hg (f s)) as [l2 [E2 F2]].
    exists (l2 ++ l1). split; [rewrite E2, E1; apply app_assoc | now apply Forall_app].
  Qed.

  Lemma e_ret : emits P ret.
  Proof. intros s. exists []. split; [reflexivity | constructor]. Qed.
  Lemma e_raise e : emits P (raise e).
  Proof. intros s. exists []. split; [reflexivity | constructor]. Qed.
  Lemma e_lift f : emitsf P f -> emits P (lift f).
  Proof. intros H s. apply H. Qed.
  Lemma e_bind a b : emits P a -> emits P b -> emits P (a ;; b).
  Proof.
    intros Ha Hb s. unfold bind. destruct (Ha s) as [l1 [E1 F1]]. destruct (a s) as [s' [e|]]; simpl in *.
    - exists l1. now split.
    - destruct (Hb s') as [l2 [E2 F2]]. exists (l2 ++ l1). split; [rewrite E2, E1; apply app_assoc | now apply Forall_app].
  Qed.
  Lemma e_for_each {A} (f : A -> M) l : (forall x, emits P (f x)) -> emits P (for_each f l).
  Proof. intros H. induction l as [|x r IH]; simpl; [apply e_ret | apply e_bind; [apply H | exact IH]]. Qed.

  Lemma ef_send_self eng ev : emitsf P (send_self eng ev).
  Proof. apply ef_same. intros s. unfold send_self. destruct (accepts eng (s_status s)); reflexivity. Qed.
  Lemma ef_fail : emitsf P fail_machine.
  Proof.
    intros s. unfold fail_machine. destruct (s_status s); try (exists []; split; [reflexivity | constructor]);
      (eexists [_; _]; split; [reflexivity | repeat constructor; apply Pinfra; reflexivity]).
  Qed.
  Lemma ef_arm x d k : emitsf P (arm x d k).
  Proof. apply ef_same. reflexivity. Qed.
  Lemma ef_deliver eng p : emitsf P (deliver eng p).
  Proof.
    unfold deliver. destruct (p_kind p) as [ty|iid ok val h|iid dur ok val h].
    - destruct eng; try apply ef_send_self;
        (intros s; destruct (s_status s); try apply ef_id; destruct (mem (p_owner p) (s_cfg s)); [apply ef_send_self | apply ef_id]).
    - destruct (ok || h); [apply ef_send_self|]. apply (ef_comp (send_self eng (svc_event iid ok)) fail_machine); [apply ef_send_self | apply ef_fail].
    - intros s. exists [OSvc iid]. split; [reflexivity | repeat constructor; apply Pinfra; reflexivity].
  Qed.
  Lemma ef_busy_loop f eng t : emitsf P (busy_loop f eng t).
  Proof.
    induction f as [|f IH]; simpl; [apply ef_id|]. intros s.
    destruct (sort_pend _) as [|p rest]; [apply ef_id|].
    match goal with |- context [busy_loop f eng t ((if ?c then _ else _) (deliver eng p ?x))] =>
      destruct (ef_deliver eng p x) as [l1 [E1 F1]]; destruct c end.
    - destruct (IH (logo (OCut 9) (deliver eng p (with_pending (filter (fun q => negb (Nat.eqb (p_seq q) (p_seq p))) (s_pending s)) (s_seq s) s)))) as [l2 [E2 F2]].
      exists (l2 ++ OCut 9 :: l1). split.
      + rewrite E2. simpl. rewrite E1. simpl. now rewrite <- app_assoc.
      + apply Forall_app. split; [exact F2|]. constructor; [apply Pinfra; reflexivity | exact F1].
    - destruct (IH (deliver eng p (with_pending (filter (fun q => negb (Nat.eqb (p_seq q) (p_seq p))) (s_pending s)) (s_seq s) s))) as [l2 [E2 F2]].
      exists (l2 ++ l1). split; [rewrite E2, E1; simpl; now rewrite <- app_assoc | now apply Forall_app].
  Qed.
  Lemma ef_advance_busy eng d : emitsf P (advance_busy eng d).
  Proof. intros s. unfold advance_busy. destruct (ef_busy_loop (2 * List.length (s_pending s) + 2) eng (s_now s + d) s) as [l [E F]]. exists l. now split. Qed.

  (* user actions: every OAct record carries the event the list was run with *)
  Lemma e_run_actions eng pr acts ev :
    (forall k, P (OAct k (e_type ev) (e_tag ev))) -> emits P (fun s => run_actions eng pr acts ev s).
  Proof.
    intros Pact. induction acts as [|a r IH]; [apply e_ret|]. intros s. simpl.
    assert (Hstep : forall f, emitsf P f -> exists l, s_log (fst (run_actions eng pr r ev (f s))) = l ++ s_log s /\ Forall P l).
    { intros f Hf. destruct (Hf s) as [l1 [E1 F1]]. destruct (IH (f s)) as [l2 [E2 F2]].
      exists (l2 ++ l1). split; [rewrite E2, E1; apply app_assoc | now apply Forall_app]. }
    destruct a as [k|k|k|v z|ty tag|k|k|k d|k v].
    - apply (Hstep (logo _)). apply ef_logo, Pact.
    - eexists [_; _]. split; [reflexivity|]. repeat constructor; [apply Pinfra; reflexivity | apply Pact].
    - exists []. split; [reflexivity | constructor].
    - apply (Hstep (fun s => with_ctx (ctx_set (s_ctx s) v z) s)). apply ef_same. reflexivity.
    - apply (Hstep (fun s => send_self eng _ (match eng with Async => if pr then with_rd (S (s_raise_depth s)) s else s | _ => s end))).
      apply (ef_comp (fun s => match eng with Async => if pr then with_rd (S (s_raise_depth s)) s else s | _ => s end) (send_self eng _));
        [apply ef_same; intros s0; destruct eng, pr; reflexivity | apply ef_send_self].
    - eexists [_]. split; [reflexivity|]. repeat constructor. apply Pinfra. reflexivity.
    - apply (Hstep (fun s => logo (OEmit k 1) (logo (OEmit k 0) s))). intros s0. eexists [_; _]. split; [reflexivity|].
      repeat constructor; apply Pinfra; reflexivity.
    - apply (Hstep (fun s => let s' := advance_busy eng d (logo (OAct k (e_type ev) (e_tag ev)) s) in logo (OClock (s_now s')) s')).
      cbv zeta.
      apply (ef_comp (fun s => advance_busy eng d (logo (OAct k (e_type ev) (e_tag ev)) s)) (fun s' => logo (OClock (s_now s')) s')).
      + apply (ef_comp (logo (OAct k (e_type ev) (e_tag ev))) (advance_busy eng d)); [apply ef_logo, Pact | apply ef_advance_busy].
      + intros s0. eexists [_]. split; [reflexivity | repeat constructor; apply Pinfra; reflexivity].
    - apply (Hstep (fun s => with_ctx (filter (fun p => negb (Nat.eqb (fst p) v)) (s_ctx s)) (logo (OAct k (e_type ev) (e_tag ev)) s))).
      intros s0. eexists [_]. split; [reflexivity|]. repeat constructor. apply Pact.
  Qed.

  Lemma ef_pure_actions acts : emitsf P (pure_actions acts).
  Proof.
    induction acts as [|a r IH]; [apply ef_id|]. simpl. intros s.
    assert (Hstep : forall f, emitsf P f -> exists l, s_log (pure_actions r (f s)) = l ++ s_log s /\ Forall P l).
    { intros f Hf. destruct (Hf s) as [l1 [E1 F1]]. destruct (IH (f s)) as [l2 [E2 F2]].
      exists (l2 ++ l1). split; [rewrite E2, E1; apply app_assoc | now apply Forall_app]. }
    destruct a; (apply (Hstep (fun s => _)); intros s0; eexists [_]; split; [reflexivity | repeat constructor; apply Pinfra; reflexivity]).
  Qed.

  Lemma e_exec_actions eng pr acts ev :
    (forall k, P (OAct k (e_type ev) (e_tag ev))) -> emits P (fun s => exec_actions eng pr acts ev s).
  Proof.
    intros Pact. unfold exec_actions. destruct eng; try now apply e_run_actions.
    intros s. simpl. apply ef_pure_actions.
  Qed.

  Lemma ef_record_history m l : emitsf P (record_history m l).
  Proof.
    apply ef_same. intros s. unfold record_history. generalize (dedup (List.concat (map (anc_self m) l))). intros c.
    set (C := s_cfg s). clearbody C. revert s. induction c as [|q r IH]; intros s0; simpl; [reflexivity|].
    destruct (has_history_child m q); [|apply IH]. destruct (sort_by _ _); [apply IH|]. rewrite IH. reflexivity.
  Qed.

  Lemma ef_complete o : emitsf P (complete o).
  Proof.
    intros s. unfold complete. destruct (s_status s); try (exists []; split; [reflexivity | constructor]).
    eexists [_]. split; [reflexivity | repeat constructor; apply Pinfra; reflexivity].
  Qed.

  Lemma ef_fire_on_done eng pr m fin : emitsf P (fire_on_done eng pr m fin).
  Proof.
    intros s. unfold fire_on_done. destruct (find _ _).
    - apply (ef_comp (note_chained eng pr) (send_self eng _)); [|apply ef_send_self].
      apply ef_same. intros s0. unfold note_chained. destruct eng, pr; reflexivity.
    - destruct (parent m fin) as [[|p]|]; try apply ef_id; apply ef_complete.
  Qed.

  Lemma e_start_service eng x i : emits P (start_service eng x i).
  Proof.
    unfold start_service. destruct (Nat.eqb (i_src i) 0); [apply e_raise|]. destruct eng.
    - apply e_bind; apply e_lift; [apply ef_logo, Pinfra; reflexivity | intros s; apply ef_deliver].
    - apply e_lift, ef_same. reflexivity.
    - apply e_bind; apply e_lift; [apply ef_logo, Pinfra; reflexivity | intros s; apply ef_deliver].
  Qed.

  Lemma e_sched_run eng m x : emits P (sched_run eng m x).
  Proof.
    unfold sched_run. apply e_bind; [apply e_lift, ef_logo, Pinfra; reflexivity|]. apply e_bind.
    - apply e_lift, ef_same. intros s. generalize (n_after (nd m x)). intros l. revert s.
      induction l as [|dt r IH]; intros s; simpl; [reflexivity|]. rewrite IH.
      generalize (snd dt). intros ts. revert s. induction ts as [|t r' IH']; intros s; simpl; [reflexivity|]. now rewrite IH'.
    - apply e_for_each. intros i. apply e_start_service.
  Qed.
  Lemma e_sched eng m x : emits P (sched eng m x).
  Proof. unfold sched. destruct eng; solve [apply e_sched_run | apply e_ret]. Qed.
  Lemma e_sched_before eng m x : emits P (sched_before eng m x).
  Proof. unfold sched_before. destruct eng; solve [apply e_sched_run | apply e_ret]. Qed.
  Lemma e_sched_after eng m x : emits P (sched_after eng m x).
  Proof. unfold sched_after. destruct eng; solve [apply e_sched_run | apply e_ret]. Qed.
  Lemma e_cancel x : emits P (cancel x).
  Proof. apply e_lift. intros s. eexists [_]. split; [reflexivity | repeat constructor; apply Pinfra; reflexivity]. Qed.

  (* ---- entry: with the causing event passed as Some ev, every state reached - explicitly or by default
          descent - runs its entry actions with that event ---- *)
  Section Enter.
    Hypothesis Penter : forall x, P (OEnter x).
    Variable ev : event.
    Hypothesis Pact : forall k, P (OAct k (e_type ev) (e_tag ev)).

    Lemma e_enter_one eng pr m rec ep ei x :
      (forall l, emits P (rec l (Some ev))) -> emits P (enter_one eng pr m rec ep ei (Some ev) x).
    Proof.
      intros Hrec. unfold enter_one.
      apply e_bind; [apply e_lift; intros s; eexists [_]; split; [reflexivity | repeat constructor; apply Penter]|].
      apply e_bind; [apply e_exec_actions; exact Pact|].
      apply e_bind; [apply e_sched_before|].
      apply e_bind; [destruct (is_final m x); [apply e_lift, ef_fire_on_done | apply e_ret]|].
      assert (Hev : (match eng with Async => Some (entry_event eng m (Some ev) x) | _ => Some ev end) = Some ev) by (destruct eng; reflexivity).
      destruct (kind_of m x); try apply e_sched_after.
      - destruct (n_initial (nd m x)).
        + destruct (mem x ep); [apply e_sched_after|]. apply e_bind; [rewrite Hev; apply Hrec | apply e_sched_after].
        + destruct (children m x); [apply e_sched_after | apply e_raise].
      - apply e_bind; [|apply e_sched_after]. destruct (filter _ _); [apply e_ret | rewrite Hev; apply Hrec].
    Qed.

    Lemma e_enter_states fuel eng pr m : forall l, emits P (enter_states fuel eng pr m l (Some ev)).
    Proof.
      induction fuel as [|f IH]; intros l; simpl; [apply e_raise|].
      apply e_for_each. intros x. apply e_enter_one. exact IH.
    Qed.
    Lemma e_enter eng pr m l : emits P (enter eng pr m l (Some ev)).
    Proof. apply e_enter_states. Qed.
  End Enter.

  Section Exit.
    Hypothesis Pleave : forall x, P (OLeave x).
    Variable ev : event.
    Hypothesis Pact : forall k, P (OAct k (e_type ev) (e_tag ev)).

    Lemma e_leave x : emits P (lift (fun s => if mem x (s_cfg s) then logo (OLeave x) (with_cfg (cdel x (s_cfg s)) s) else s)).
    Proof.
      apply e_lift. intros s. destruct (mem x (s_cfg s)); [|exists []; split; [reflexivity | constructor]].
      eexists [_]. split; [reflexivity | repeat constructor; apply Pleave].
    Qed.

    Lemma e_exit_states eng pr m l : emits P (exit_states eng pr m l (Some ev)).
    Proof.
      unfold exit_states. apply e_bind; [apply e_lift, ef_record_history|].
      destruct eng.
      - apply e_bind; [apply e_for_each; intros x; apply e_cancel|]. apply e_for_each. intros x.
        apply e_bind; [apply e_exec_actions; exact Pact | apply e_leave].
      - apply e_for_each. intros x. apply e_bind; [apply e_cancel|].
        apply e_bind; [apply e_exec_actions; exact Pact | apply e_leave].
      - apply e_bind; [apply e_for_each; intros x; apply e_cancel|]. apply e_for_each. intros x.
        apply e_bind; [apply e_exec_actions; exact Pact | apply e_leave].
    Qed.
  End Exit.
End Emits.

(* ---- the three phases of an external transition ---- *)
Definition no_enter (o : obs) : Prop := match o with OEnter _ => False | _ => True end.
Definition no_leave (o : obs) : Prop := match o with OLeave _ => False | _ => True end.
Definition with_event (ev : event) (o : obs) : Prop :=
  match o with OAct _ ty tag => ty = e_type ev /\ tag = e_tag ev | _ => True end.

Definition exit_phase ev o := no_enter o /\ with_event ev o.
Definition action_phase ev o := no_enter o /\ no_leave o /\ with_event ev o.
Definition entry_phase ev o := no_leave o /\ with_event ev o.

Lemma infra_exit ev o : infra o = true -> exit_phase ev o.
Proof. destruct o; try discriminate; intros _; split; exact I. Qed.
Lemma infra_action ev o : infra o = true -> action_phase ev o.
Proof. destruct o; try discriminate; intros _; repeat split; exact I. Qed.
Lemma infra_entry ev o : infra o = true -> entry_phase ev o.
Proof. destruct o; try discriminate; intros _; split; exact I. Qed.

(* the body of exec_external: exits, then the transition's actions, then entries - and every user action of
   all three runs with the event that caused the transition *)
Theorem external_phases eng pr m t tgt ev s0 s1 :
  let d := find_domain m (t_src t) tgt in
  let xs := ext_exit_set m (s_cfg s0) (s_hist s0) d tgt in
  let hist := is_history m tgt in
  let hts := if hist then resolve_history m (s_hist s0) tgt else [] in
  let path := if hist then [] else ext_path m tgt d in
  (exit_states eng pr m (rev (sort_by (lt_depth_id m) xs)) (Some ev) ;;
   (fun s => exec_actions eng pr (t_actions t) ev s) ;;
   enter eng pr m path (Some ev) ;;
   (if hist then match combined_path m d hts with [] => ret | cp => enter eng pr m cp (Some ev) end else ret)) s0 = (s1, None) ->
  exists l_exit l_act l_entry,
    s_log s1 = l_entry ++ l_act ++ l_exit ++ s_log s0
    /\ Forall (exit_phase ev) l_exit /\ Forall (action_phase ev) l_act /\ Forall (entry_phase ev) l_entry.
Proof.
  cbv zeta. unfold bind at 1. intros H.
  destruct (e_exit_states (exit_phase ev) (infra_exit ev) (fun x => conj I I) ev (fun k => conj I (conj eq_refl eq_refl)) eng pr m
              (rev (sort_by (lt_depth_id m) (ext_exit_set m (s_cfg s0) (s_hist s0) (find_domain m (t_src t) tgt) tgt))) s0) as [l1 [E1 F1]].
  destruct (exit_states eng pr m _ (Some ev) s0) as [sa [e|]]; [discriminate|]. simpl in E1.
  unfold bind at 1 in H.
  destruct (e_exec_actions (action_phase ev) (infra_action ev) eng pr (t_actions t) ev (fun k => conj I (conj I (conj eq_refl eq_refl))) sa) as [l2 [E2 F2]].
  destruct (exec_actions eng pr (t_actions t) ev sa) as [sb [e|]]; [discriminate|]. simpl in E2.
  assert (He : forall l, emits (entry_phase ev) (enter eng pr m l (Some ev))).
  { intros l. apply e_enter; [apply infra_entry | intros x; split; exact I | intros k; split; [exact I | split; reflexivity]]. }
  unfold bind at 1 in H.
  destruct (He (if is_history m tgt then [] else ext_path m tgt (find_domain m (t_src t) tgt)) sb) as [l3 [E3 F3]].
  destruct (enter eng pr m _ (Some ev) sb) as [sc [e|]]; [discriminate|]. simpl in E3.
  assert (H4 : exists l4, s_log s1 = l4 ++ s_log sc /\ Forall (entry_phase ev) l4).
  { destruct (is_history m tgt).
    - destruct (combined_path m _ _) as [|c cp].
      + inversion H; subst. exists []. split; [reflexivity | constructor].
      + destruct (He (c :: cp) sc) as [l4 [E4 F4]]. rewrite H in E4. simpl in E4. exists l4. now split.
    - inversion H; subst. exists []. split; [reflexivity | constructor]. }
  destruct H4 as [l4 [E4 F4]].
  exists l1, l2, (l4 ++ l3). split; [rewrite E4, E3, E2, E1; now rewrite <- !app_assoc|].
  split; [exact F1|]. split; [exact F2 | now apply Forall_app].
Qed.

(* ---- order of exits: deepest first ---- *)
Inductive subseq : list nat -> list nat -> Prop :=
| sub_nil l : subseq [] l
| sub_skip a x l : subseq a l -> subseq a (x :: l)
| sub_take a x l : subseq a l -> subseq (x :: a) (x :: l).

Lemma subseq_app a1 l1 a2 l2 : subseq a1 l1 -> subseq a2 l2 -> subseq (a1 ++ a2) (l1 ++ l2).
Proof.
  intros H1 H2. induction H1 as [l|a x l _ IH|a x l _ IH]; simpl.
  - induction l as [|y l IH]; simpl; [exact H2 | now apply sub_skip].
  - now apply sub_skip.
  - now apply sub_take.
Qed.

(* the OLeave records of a log segment, oldest first *)
Fixpoint leaves_nf (l : list obs) : list nat :=
  match l with [] => [] | OLeave x :: r => x :: leaves_nf r | _ :: r => leaves_nf r end.
Definition leaves_of (l : list obs) : list nat := rev (leaves_nf l).

Lemma leaves_nf_app a b : leaves_nf (a ++ b) = leaves_nf a ++ leaves_nf b.
Proof. induction a as [|o r IH]; simpl; [reflexivity|]. destruct o; simpl; now rewrite ?IH. Qed.
Lemma leaves_of_app a b : leaves_of (a ++ b) = leaves_of b ++ leaves_of a.
Proof. unfold leaves_of. now rewrite leaves_nf_app, rev_app_distr. Qed.
Lemma leaves_nf_none l : Forall no_leave l -> leaves_nf l = [].
Proof. induction 1 as [|o r Ho _ IH]; simpl; [reflexivity|]. destruct o; simpl in *; try exact IH. destruct Ho. Qed.

(* `a` appends a segment whose OLeave records, oldest first, are a subsequence of L *)
Definition leaves_sub (L : list nat) (a : M) : Prop :=
  forall s, exists l, s_log (fst (a s)) = l ++ s_log s /\ subseq (leaves_of l) L.

Lemma ls_of_emits a : emits no_leave a -> leaves_sub [] a.
Proof. intros H s. destruct (H s) as [l [E F]]. exists l. split; [exact E|]. unfold leaves_of. rewrite (leaves_nf_none l F). constructor. Qed.

Lemma ls_bind L1 L2 a b : leaves_sub L1 a -> leaves_sub L2 b -> leaves_sub (L1 ++ L2) (a ;; b).
Proof.
  intros Ha Hb s. unfold bind. destruct (Ha s) as [l1 [E1 S1]]. destruct (a s) as [s' [e|]]; simpl in *.
  - exists l1. split; [exact E1|]. rewrite <- (app_nil_r (leaves_of l1)). apply subseq_app; [exact S1 | constructor].
  - destruct (Hb s') as [l2 [E2 S2]]. exists (l2 ++ l1). split; [rewrite E2, E1; apply app_assoc|].
    rewrite leaves_of_app. now apply subseq_app.
Qed.

Lemma infra_no_leave o : infra o = true -> no_leave o.
Proof. destruct o; try discriminate; intros _; exact I. Qed.

Lemma ls_exit_one eng pr m ev x :
  leaves_sub [x] ((fun s => exec_actions eng pr (n_exit (nd m x)) (exit_event eng m ev x) s) ;;
                  lift (fun s => if mem x (s_cfg s) then logo (OLeave x) (with_cfg (cdel x (s_cfg s)) s) else s)).
Proof.
  apply (ls_bind [] [x]).
  - apply ls_of_emits. apply e_exec_actions; [apply infra_no_leave | intros k; exact I].
  - intros s. simpl. destruct (mem x (s_cfg s)).
    + exists [OLeave x]. split; [reflexivity|]. apply sub_take. constructor.
    + exists []. split; [reflexivity | constructor].
Qed.

Lemma ls_for_each (f : nat -> M) l : (forall x, leaves_sub [x] (f x)) -> leaves_sub l (for_each f l).
Proof.
  intros H. induction l as [|x r IH]; simpl.
  - intros s. exists []. split; [reflexivity | constructor].
  - apply (ls_bind [x] r); [apply H | exact IH].
Qed.

(* states are left in the order of the list handed to exit_states, and only states of that list are left *)
Theorem exit_states_order eng pr m l ev : leaves_sub l (exit_states eng pr m l ev).
Proof.
  unfold exit_states. apply (ls_bind [] l).
  { apply ls_of_emits, e_lift, ef_record_history. }
  destruct eng.
  - apply (ls_bind [] l).
    + apply ls_of_emits, e_for_each. intros x. apply e_cancel, infra_no_leave.
    + apply ls_for_each. intros x. apply ls_exit_one.
  - apply ls_for_each. intros x. apply (ls_bind [] [x]); [apply ls_of_emits, e_cancel, infra_no_leave | apply ls_exit_one].
  - apply (ls_bind [] l).
    + apply ls_of_emits, e_for_each. intros x. apply e_cancel, infra_no_leave.
    + apply ls_for_each. intros x. apply ls_exit_one.
Qed.

(* ... and that list is ordered deepest first: a state comes before its ancestors *)
Lemma lt_depth_id_le m a b : lt_depth_id m b a = false -> depth m a <= depth m b.
Proof.
  unfold lt_depth_id. intros H. apply orb_false_elim in H as [H _]. apply Nat.ltb_ge in H. exact H.
Qed.

Theorem exit_list_deepest_first m (Hids : ids_distinct m) xs :
  Forall (fun s => s < size m) xs ->
  StronglySorted (fun a b => depth m b <= depth m a) (rev (sort_by (lt_depth_id m) xs)).
Proof.
  intros Hr.
  pose proof (sort_by_sorted (lt_depth_id m) (fun s => s < size m) (lt_depth_id_irrefl m)
                (lt_depth_id_trans m) (lt_depth_id_total m Hids) xs Hr) as Hs.
  assert (G : forall l, StronglySorted (le_ (lt_depth_id m)) l -> StronglySorted (fun a b => depth m b <= depth m a) (rev l)).
  { clear. induction 1 as [|a l Hs IH Ha]; simpl; [constructor|].
    assert (App : forall l1 x, StronglySorted (fun a b => depth m b <= depth m a) l1 -> Forall (fun y => depth m x <= depth m y) l1 ->
              StronglySorted (fun a b => depth m b <= depth m a) (l1 ++ [x])).
    { induction l1 as [|y r IHr]; intros x S F; simpl; [repeat constructor|].
      inversion S; subst. inversion F; subst. constructor; [now apply IHr|].
      apply Forall_app. split; [assumption | repeat constructor; assumption]. }
    apply App; [exact IH|]. apply Forall_forall. intros y Hy. apply in_rev in Hy. rewrite Forall_forall in Ha.
    apply lt_depth_id_le. apply Ha. exact Hy. }
  now apply G.
Qed.

(* the entry path is ordered outermost first: a state is entered after its ancestors *)
Theorem entry_path_outermost_first m tgt d :
  wf m = true -> tgt < size m -> StronglySorted (fun a b => depth m a < depth m b) (path_to m tgt d).
Proof.
  intros Hwf Ht. unfold path_to. pose proof (anc_self_sorted m Hwf tgt Ht) as Hs.
  assert (Ht' : forall l, StronglySorted (fun a b => depth m b < depth m a) l -> StronglySorted (fun a b => depth m b < depth m a) (take_until d l)).
  { induction 1 as [|a l Hl IH Ha]; simpl; [constructor|]. destruct (Nat.eqb a d); [constructor|].
    constructor; [exact IH|]. apply Forall_forall. intros y Hy. rewrite Forall_forall in Ha. apply Ha.
    clear -Hy. induction l as [|z l IH]; simpl in *; [destruct Hy|]. destruct (Nat.eqb z d); [destruct Hy|]. destruct Hy as [<-|Hy]; [now left | right; now apply IH]. }
  specialize (Ht' _ Hs). revert Ht'. generalize (take_until d (anc_self m tgt)). intros l.
  induction 1 as [|a l Hl IH Ha]; simpl; [constructor|].
  assert (App : forall l1 x, StronglySorted (fun a b => depth m a < depth m b) l1 -> Forall (fun y => depth m y < depth m x) l1 ->
            StronglySorted (fun a b => depth m a < depth m b) (l1 ++ [x])).
  { induction l1 as [|y r IHr]; intros x S F; simpl; [repeat constructor|].
    inversion S; subst. inversion F; subst. constructor; [now apply IHr|].
    apply Forall_app. split; [assumption | repeat constructor; assumption]. }
  apply App; [exact IH|]. apply Forall_forall. intros y Hy. apply in_rev in Hy. rewrite Forall_forall in Ha. now apply Ha.
Qed.
