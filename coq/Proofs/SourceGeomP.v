(* One external transition executed with the geometry THE SOURCE computes: `exec_external_src` is `Exec.exec_external` with
   its five geometric ingredients - the transition domain, the exit set, the entry path, the expansion of a history target and
   the combined entry path of the restored states - replaced by the functions re-translated from the current source
   (Gen/GenGeom.v), composed the way _execute_transition / _process_single_transition compose them.  Out of a legal
   configuration the two are the same function, so every theorem about `exec_external` (effect formula, preservation of
   legality, exit / entry order, exactly-once accounting, history restoration) is a theorem about the transition as the
   source computes it. *)
From XSM Require Import Model.TreeLib Gen.GenTree Gen.GenGeom Proofs.TreeP Proofs.IdP Proofs.HistP Proofs.LegalP Proofs.DescentP Proofs.PreserveP
  Proofs.HistoryP Proofs.InvariantHP Proofs.GeomBridge.
From Coq Require Import Lia.

Definition exec_external_src0 (eng : engine) (pr : bool) (m : machine) (t : trans) (tgt : nat) (ev : event) : M :=
  fun s0 =>
    let snapshot := s_cfg s0 in
    let domain := find_transition_domain m (t_src t) tgt in                                  (* Optional[StateNode] *)
    let xs := compute_states_to_exit m snapshot (s_hist s0) domain tgt in
    let hist := is_history m tgt in
    let hts := if hist then resolve_history_target m (s_hist s0) tgt else [] in
    let path := if hist then [] else get_path_to_state m tgt domain in
    let cp := fold_left (fun acc h => fold_left (fun acc' x => if mem x acc' then acc' else acc' ++ [x])
                                                (get_path_to_state m h domain) acc) hts [] in
    let body :=
      exit_states eng pr m (rev (sort_by (lt_depth_id m) xs)) (Some ev) ;;
      (fun s => exec_actions eng pr (t_actions t) ev s) ;;
      enter eng pr m path (Some ev) ;;
      (if hist then match cp with [] => ret | cp => enter eng pr m cp (Some ev) end else ret) in
    match body s0 with
    | (s1, None) =>
        match eng with
        | Async => (hook_trans t ;; hook_notify) s1
        | _ => (hook_notify ;; hook_trans t) s1
        end
    | (s1, Some e) =>
        match for_each (sched eng m) (filter (fun x => mem x xs) (sort_nat snapshot)) (with_cfg snapshot s1) with
        | (s2, None) => (s2, Some e)
        | r => r
        end
    end.

Lemma fold_left_ext2 {A B} (f g : A -> B -> A) l : (forall a x, f a x = g a x) -> forall a0, fold_left f l a0 = fold_left g l a0.
Proof. intros H. induction l as [|x l IH]; intros a0; cbn [fold_left]; [reflexivity|]. now rewrite H, IH. Qed.

Lemma root_no_parent m : wf m = true -> parent m 0 = None.
Proof.
  intros Hwf. pose proof (wf_size m Hwf) as H0. destruct (parent m 0) as [p|] eqn:Hp; [|reflexivity].
  destruct (parent_props m Hwf 0 p H0 Hp). lia.
Qed.

Theorem exec_external_src0_eq m : ancestry_side_ok m = true -> forall eng pr t tgt ev s0,
  Legal m (s_cfg s0) -> In (t_src t) (s_cfg s0) -> tgt < size m ->
  exec_external_src0 eng pr m t tgt ev s0 = exec_external eng pr m t tgt ev s0.
Proof.
  intros Hside eng pr t tgt ev s0 HL Hsrc Ht.
  assert (Hwf : wf m = true).
  { unfold ancestry_side_ok in Hside. apply andb_prop in Hside as [H _]. now apply andb_prop in H as [H _]. }
  pose proof (L_range m _ HL) as Hrange.
  assert (Hs : t_src t < size m) by now apply Hrange.
  unfold exec_external_src0, exec_external. cbn zeta.
  rewrite (find_domain_bridge m (t_src t) tgt Hwf Hs Ht), resolve_history_bridge.
  unfold ext_exit_set, ext_path, combined_path.
  destruct (Nat.eqb_spec tgt 0) as [->|Hn0].
  - rewrite exit_set_none by exact Hside. rewrite (get_path_root m (find_domain m (t_src t) 0) Hwf).
    unfold ext_path. cbn [Nat.eqb].
    assert (Hr : resolve_history m (s_hist s0) 0 = []) by (unfold resolve_history; now rewrite (root_no_parent m Hwf)).
    rewrite Hr. destruct (is_history m 0); reflexivity.
  - assert (Hd : find_domain m (t_src t) tgt < size m) by (apply Hrange; now apply domain_active).
    rewrite (exit_set_bridge m Hside _ _ _ tgt Hrange Hd), get_path_bridge.
    rewrite (fold_left_ext2
               (fun acc h => fold_left (fun acc' x => if mem x acc' then acc' else acc' ++ [x])
                                       (get_path_to_state m h (Some (find_domain m (t_src t) tgt))) acc)
               (fun acc h => fold_left (fun acc' x => if mem x acc' then acc' else acc' ++ [x])
                                       (path_to m h (find_domain m (t_src t) tgt)) acc))
      by (intros a x; now rewrite get_path_bridge).
    destruct (is_history m tgt); [|reflexivity].
    match goal with |- context [match ?x with [] => ret | _ :: _ => _ end] => destruct x end; reflexivity.
Qed.

(* ---- the PLAN of the transition, sliced out of _execute_transition (asyncio engine) and _process_single_transition (sync
        engine) by the translator: domain, exit order, entry path, combined entry path of a history target ---- *)
Lemma plan_exit_order m C H src tgt :
  xt_exit_order m C H src tgt = rev (sort_by (lt_depth_id m) (compute_states_to_exit m C H (find_transition_domain m src tgt) tgt)).
Proof. unfold xt_exit_order. cbn zeta. now destruct (is_history m tgt). Qed.
Lemma plan_path m C H src tgt :
  xt_path m C H src tgt = if is_history m tgt then [] else get_path_to_state m tgt (find_transition_domain m src tgt).
Proof. unfold xt_path. cbn zeta. now destruct (is_history m tgt). Qed.
Lemma plan_combined m C H src tgt :
  xt_combined m C H src tgt =
  if is_history m tgt
  then fold_left (fun acc h => fold_left (fun acc' x => if mem x acc' then acc' else acc' ++ [x])
                                         (get_path_to_state m h (find_transition_domain m src tgt)) acc) (resolve_history_target m H tgt) []
  else [].
Proof.
  unfold xt_combined. cbn zeta. destruct (is_history m tgt); [|reflexivity].
  apply fold_left_ext2. intros a h. apply fold_left_ext2. intros a' x. now destruct (mem x a').
Qed.
Lemma plan_domain m C H src tgt : xt_domain m C H src tgt = find_transition_domain m src tgt.
Proof. unfold xt_domain. cbn zeta. now destruct (is_history m tgt). Qed.

Lemma plan_is_geometry m C H src tgt :
  xt_exit_order m C H src tgt = rev (sort_by (lt_depth_id m) (compute_states_to_exit m C H (find_transition_domain m src tgt) tgt)) /\
  xt_path m C H src tgt = (if is_history m tgt then [] else get_path_to_state m tgt (find_transition_domain m src tgt)).
Proof. split; [apply plan_exit_order | apply plan_path]. Qed.

(* both engines plan alike *)
Lemma plans_agree m C H src tgt :
  pst_domain m C H src tgt = xt_domain m C H src tgt /\ pst_exit_order m C H src tgt = xt_exit_order m C H src tgt /\
  pst_path m C H src tgt = xt_path m C H src tgt /\ pst_combined m C H src tgt = xt_combined m C H src tgt.
Proof. repeat split; reflexivity. Qed.

(* one external transition, executed along the plan translated from the source: the effects (exit the planned list, run the
   transition's actions, enter the planned path, enter the combined path of a history target; roll back on an error) are
   those of Exec.exec_external *)
Definition exec_external_src (eng : engine) (pr : bool) (m : machine) (t : trans) (tgt : nat) (ev : event) : M :=
  fun s0 =>
    let snapshot := s_cfg s0 in
    let xs := compute_states_to_exit m snapshot (s_hist s0) (xt_domain m snapshot (s_hist s0) (t_src t) tgt) tgt in
    let body :=
      exit_states eng pr m (xt_exit_order m snapshot (s_hist s0) (t_src t) tgt) (Some ev) ;;
      (fun s => exec_actions eng pr (t_actions t) ev s) ;;
      enter eng pr m (xt_path m snapshot (s_hist s0) (t_src t) tgt) (Some ev) ;;
      (match xt_combined m snapshot (s_hist s0) (t_src t) tgt with [] => ret | cp => enter eng pr m cp (Some ev) end) in
    match body s0 with
    | (s1, None) =>
        match eng with
        | Async => (hook_trans t ;; hook_notify) s1
        | _ => (hook_notify ;; hook_trans t) s1
        end
    | (s1, Some e) =>
        match for_each (sched eng m) (filter (fun x => mem x xs) (sort_nat snapshot)) (with_cfg snapshot s1) with
        | (s2, None) => (s2, Some e)
        | r => r
        end
    end.

Lemma exec_external_src_plan eng pr m t tgt ev s0 : exec_external_src eng pr m t tgt ev s0 = exec_external_src0 eng pr m t tgt ev s0.
Proof.
  unfold exec_external_src, exec_external_src0. cbn zeta.
  rewrite plan_exit_order, plan_path, plan_combined, plan_domain.
  destruct (is_history m tgt); [|reflexivity].
  match goal with |- context [match ?x with [] => ret | _ :: _ => _ end] => destruct x end; reflexivity.
Qed.

Theorem exec_external_src_eq m : ancestry_side_ok m = true -> forall eng pr t tgt ev s0,
  Legal m (s_cfg s0) -> In (t_src t) (s_cfg s0) -> tgt < size m ->
  exec_external_src eng pr m t tgt ev s0 = exec_external eng pr m t tgt ev s0.
Proof. intros Hside eng pr t tgt ev s0 HL Hsrc Ht. rewrite exec_external_src_plan. now apply exec_external_src0_eq. Qed.

(* ---- the legality theorems, restated for the transition as the source computes it ---- *)

Lemma side_wf m : ancestry_side_ok m = true -> wf m = true.
Proof. unfold ancestry_side_ok. intros H. apply andb_prop in H as [H _]. now apply andb_prop in H as [H _]. Qed.

Theorem source_transition_preserves_legal m : ancestry_side_ok m = true -> good_initials m = true ->
  forall eng pr t tgt ev s0 s1,
  Legal m (s_cfg s0) -> In (t_src t) (s_cfg s0) -> tgt < size m -> tgt <> 0 -> is_history m tgt = false ->
  exec_external_src eng pr m t tgt ev s0 = (s1, None) -> Legal m (s_cfg s1).
Proof.
  intros Hside Hgood eng pr t tgt ev s0 s1 HL Hsrc Ht Hn0 Hh E.
  rewrite (exec_external_src_eq m Hside) in E by assumption.
  eapply (transition_preserves_legal m (side_wf m Hside) Hgood); eassumption.
Qed.

Theorem source_history_transition_legal m : ancestry_side_ok m = true -> good_initials m = true ->
  forall eng pr t tgt ev s0 s1,
  Legal m (s_cfg s0) -> HistOK m (s_hist s0) -> In (t_src t) (s_cfg s0) ->
  tgt < size m -> is_history m tgt = true -> hist_static_ok m tgt ->
  exec_external_src eng pr m t tgt ev s0 = (s1, None) -> Legal m (s_cfg s1).
Proof.
  intros Hside Hgood eng pr t tgt ev s0 s1 HL HH Hsrc Ht Hh Hst E.
  rewrite (exec_external_src_eq m Hside) in E by assumption.
  eapply (history_transition_legal m (side_wf m Hside) Hgood); eassumption.
Qed.

Theorem source_root_transition_legal m : ancestry_side_ok m = true -> good_initials m = true ->
  forall eng pr t ev s0 s1, Legal m (s_cfg s0) -> In (t_src t) (s_cfg s0) ->
  exec_external_src eng pr m t 0 ev s0 = (s1, None) -> Legal m (s_cfg s1).
Proof.
  intros Hside Hgood eng pr t ev s0 s1 HL Hsrc E.
  rewrite (exec_external_src_eq m Hside) in E; [| assumption | assumption | apply wf_size, (side_wf m Hside)].
  eapply (root_transition_legal m (side_wf m Hside) Hgood); eassumption.
Qed.
