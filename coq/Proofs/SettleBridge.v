(* Tie T for the settle loop of eventless transitions: the loop of _process_transient_transitions (sync engine) and
   _settle_transient_transitions (asyncio engine) has its SHAPE checked on every build (count a microstep; cut when the
   counter exceeds maxIterations; select for the empty event type; go on while something eventless is selected) and its two
   TESTS re-translated from the current source (Gen/GenGeom.v: settle_cut_sync / _async, settle_goes_on_sync / _async).  `settle_src` is that loop,
   on explicit fuel, around the model's select / process_event; it is the model's `settle` (Model/Macro.v), which recurses on
   the code's own counter - so the bound theorems of C13 (at most maxIterations microsteps, then a cut) are about the loop as
   the source writes it. *)
From XSM Require Import Model.Macro Model.TreeLib Gen.GenGeom Proofs.SkeletonBridge.
From Coq Require Import Lia.

Fixpoint settle_src (cut : machine -> nat -> nat -> bool) (goes_on : machine -> list trans -> bool)
         (fuel iterations limit : nat) (eng : engine) (pr : bool) (m : machine) : M :=
  fun s =>
    match fuel with
    | 0 => (s, None)
    | S f =>
        let iterations := S iterations in                                  (* iterations += 1 *)
        if cut m iterations limit then (logo (OCut 1) s, None)             (* log; break *)
        else match select m (s_cfg s) (s_ctx s) transient_event with       (* selected = self._select_transitions(Event(type="")) *)
             | None => (s, Some EImplMissing)
             | Some ts =>
                 if goes_on m ts
                 then (process_event eng pr m transient_event ;; settle_src cut goes_on f iterations limit eng pr m) s
                 else (s, None)                                            (* break *)
             end
    end.

Lemma goes_on_model m ts : settle_goes_on_sync m ts = existsb (fun t => String.eqb (t_event t) "") ts.
Proof. unfold settle_goes_on_sync. now destruct ts. Qed.

Lemma settle_src_sync_spec eng pr m limit : forall fuel it s, it <= limit -> limit - it < fuel ->
  settle_src settle_cut_sync settle_goes_on_sync fuel it limit eng pr m s = settle (limit - it) eng pr m s.
Proof.
  induction fuel as [|f IH]; intros it s Hle Hf; [lia|]. cbn [settle_src]. cbv zeta. unfold settle_cut_sync at 1.
  destruct (Nat.ltb_spec limit (S it)) as [Hc|Hc].
  - assert (E : limit - it = 0) by lia. rewrite E. reflexivity.
  - assert (E : limit - it = S (limit - S it)) by lia. rewrite E. cbn [settle].
    destruct (select m (s_cfg s) (s_ctx s) transient_event) as [ts|]; [|reflexivity].
    rewrite goes_on_model. destruct (existsb (fun t => String.eqb (t_event t) "") ts); [|reflexivity].
    apply bind_ext; [reflexivity|]. intros s1. apply IH; lia.
Qed.

Theorem settle_sync_bridge eng pr m s :
  settle_src settle_cut_sync settle_goes_on_sync (S (m_max_iter m)) 0 (m_max_iter m) eng pr m s = settle (m_max_iter m) eng pr m s.
Proof. rewrite settle_src_sync_spec by lia. now rewrite Nat.sub_0_r. Qed.

Theorem settle_async_bridge eng pr m s :
  settle_src settle_cut_async settle_goes_on_async (S (m_max_iter m)) 0 (m_max_iter m) eng pr m s = settle (m_max_iter m) eng pr m s.
Proof. exact (settle_sync_bridge eng pr m s). Qed.

(* ---------------- the drain loop of the sync engine (_process_event_queue) ---------------- *)
(* shape checked on every build: re-entrancy guard; while the queue is not empty: count, cut when the count exceeds maxIterations
   (the queue is cleared), pop, on_event_received hooks, process the event, settle; the cut test is translated *)
Fixpoint drain_src (cut : machine -> nat -> nat -> bool) (fuel processed limit : nat) (eng : engine) (m : machine) : M :=
  fun s =>
    match fuel with
    | 0 => (s, None)
    | S f =>
        match s_queue s with                                                  (* while self._event_queue: *)
        | [] => (s, None)
        | ev :: q =>
            let processed := S processed in                                   (* processed += 1 *)
            if cut m processed limit then (logo (OCut 0) (with_queue [] s), None)   (* log; clear; break *)
            else (lift (fun s' => logo (OClock (s_now s')) (logo (OBegin (e_type ev) (e_tag ev)) (with_queue q s'))) ;;   (* popleft; hooks *)
                  process_event eng true m ev ;;
                  settle (m_max_iter m) eng true m ;;
                  drain_src cut f processed limit eng m) s
        end
    end.

Lemma drain_src_spec eng m limit : forall fuel p s, p <= limit -> limit - p < fuel ->
  drain_src drain_cut_sync fuel p limit eng m s = drain (limit - p) eng m s.
Proof.
  induction fuel as [|f IH]; intros p s Hle Hf; [lia|]. cbn [drain_src]. destruct (limit - p) as [|n] eqn:E.
  - cbn [drain]. destruct (s_queue s) as [|ev q]; [reflexivity|]. cbv zeta. unfold drain_cut_sync.
    destruct (Nat.ltb_spec limit (S p)); [reflexivity | lia].
  - cbn [drain]. destruct (s_queue s) as [|ev q]; [reflexivity|]. cbv zeta. unfold drain_cut_sync at 1.
    destruct (Nat.ltb_spec limit (S p)); [lia|].
    apply bind_ext; [reflexivity|]. intros s1. apply bind_ext; [reflexivity|]. intros s2. apply bind_ext; [reflexivity|]. intros s3.
    replace n with (limit - S p) by lia. apply IH; lia.
Qed.

Theorem drain_sync_bridge eng m s :
  drain_src drain_cut_sync (S (m_max_iter m)) 0 (m_max_iter m) eng m s = drain (m_max_iter m) eng m s.
Proof. rewrite drain_src_spec by lia. now rewrite Nat.sub_0_r. Qed.

(* ---------------- one iteration of the consumer loop of the asyncio engine (_run_event_loop) ---------------- *)
(* shape checked on every build: dequeue; chain breaker (log, reset the counter, drop the event); on_event_received hooks;
   process the event and settle with the counter remembered; reset the counter if the step raised nothing; an exception of the
   step is logged and the interpreter keeps running.  Both tests are translated. *)
Definition async_step_src (cut reset : machine -> nat -> nat -> bool) (m : machine) (ev : event) (s : st) : st :=
  if cut m (s_raise_depth s) (m_max_iter m)
  then logo (OCut 2) (with_rd 0 s)
  else
    let s1 := logo (OClock (s_now s)) (logo (OBegin (e_type ev) (e_tag ev)) s) in
    let depth_before := s_raise_depth s1 in
    match (process_event Async true m ev ;; settle (m_max_iter m) Async true m) s1 with
    | (s2, None) => if reset m (s_raise_depth s2) depth_before then with_rd 0 s2 else s2
    | (s2, Some e) => logo (OErr e) s2
    end.

Theorem async_step_bridge m ev s : async_step_src async_chain_cut async_chain_reset m ev s = async_step m ev s.
Proof. reflexivity. Qed.
