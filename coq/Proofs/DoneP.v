(* Done-ness, done events and completion (property C10) *)
From XSM Require Import Model.Macro Proofs.TreeP.
From Coq Require Import Lia.

Definition active_child (m : machine) (C : config) (s : nat) : option nat :=
  find (fun c => match parent m c with Some p => Nat.eqb p s | None => false end) C.

(* declarative done-ness: a final state; a compound state whose active child is
   done; a parallel state all of whose (non-history) regions are active and done *)
Inductive IsDone (m : machine) (C : config) : nat -> Prop :=
| Done_final s : kind_of m s = KFinal -> IsDone m C s
| Done_compound s c : kind_of m s = KCompound -> active_child m C s = Some c -> IsDone m C c -> IsDone m C s
| Done_parallel s : kind_of m s = KParallel ->
    (forall r, In r (children m s) -> is_history m r = false -> In r C /\ IsDone m C r) -> IsDone m C s.

Lemma active_child_props m C s c :
  wf m = true -> s < size m -> active_child m C s = Some c -> In c C /\ parent m c = Some s /\ s < c /\ c < size m.
Proof.
  intros Hwf Hs H. unfold active_child in H. apply find_some in H as [Hin Hp].
  destruct (parent m c) as [p|] eqn:E; [|discriminate]. apply Nat.eqb_eq in Hp. subst p.
  assert (Hc : c < size m).
  { destruct (Nat.lt_ge_cases c (size m)) as [|Hge]; [assumption|].
    unfold parent, nd in E. rewrite nth_overflow in E by exact Hge. discriminate. }
  destruct (parent_props m Hwf c s Hc E) as [Hlt _]. auto.
Qed.

Lemma is_done_spec_fuel m C :
  wf m = true ->
  forall f s, s < size m -> size m - s < f -> (is_done f m C s = true <-> IsDone m C s).
Proof.
  intros Hwf f. induction f as [|f IH]; intros s Hs Hf; [lia|].
  cbn [is_done]. fold (active_child m C s).
  destruct (kind_of m s) eqn:Hk.
  - split; [discriminate|]. intros H. inversion H; congruence.
  - (* compound *)
    destruct (active_child m C s) as [c|] eqn:Ha.
    + destruct (active_child_props m C s c Hwf Hs Ha) as [_ [_ [Hlt Hc]]].
      rewrite (IH c Hc) by lia. split.
      * intros H. eapply Done_compound; eassumption.
      * intros H. inversion H; subst; congruence.
    + split; [discriminate|]. intros H. inversion H; subst; congruence.
  - (* parallel *)
    rewrite forallb_forall. split.
    + intros H. apply Done_parallel; [assumption|]. intros r Hr Hh.
      specialize (H r Hr). rewrite Hh in H.
      destruct (mem r C) eqn:Hm; [|discriminate].
      destruct (child_props m Hwf s r Hs Hr) as [Hlt [Hrs _]].
      split; [now apply mem_In|]. apply (IH r Hrs); [lia | assumption].
    + intros H r Hr. inversion H; subst; try congruence.
      destruct (is_history m r) eqn:Hh; [reflexivity|].
      match goal with H1 : forall r, In r (children m s) -> _ |- _ => destruct (H1 r Hr Hh) as [Hin Hd] end.
      assert (Hm : mem r C = true) by now apply mem_In. rewrite Hm.
      destruct (child_props m Hwf s r Hs Hr) as [Hlt [Hrs _]].
      apply (IH r Hrs); [lia | assumption].
  - split; [intros _; now apply Done_final | reflexivity].
  - split; [discriminate|]. intros H. inversion H; congruence.
Qed.

Theorem is_done_spec m C s :
  wf m = true -> s < size m -> (state_done m C s = true <-> IsDone m C s).
Proof. intros Hwf Hs. unfold state_done. apply is_done_spec_fuel; [assumption | assumption | lia]. Qed.

(* a parallel state is done only when every non-history region is active and done *)
Corollary parallel_done_all m C p r :
  wf m = true -> p < size m -> kind_of m p = KParallel -> state_done m C p = true ->
  In r (children m p) -> is_history m r = false -> In r C /\ state_done m C r = true.
Proof.
  intros Hwf Hp Hk Hd Hr Hh. apply is_done_spec in Hd; [|assumption|assumption].
  inversion Hd; subst; try congruence.
  match goal with H1 : forall r, In r (children m p) -> _ |- _ => destruct (H1 r Hr Hh) as [Hin Hdr] end.
  split; [assumption|]. apply is_done_spec; [assumption | | assumption].
  now destruct (child_props m Hwf p r Hp Hr) as [_ [Hlt' _]].
Qed.

(* ... and is done as soon as they all are *)
Corollary parallel_done_when_all m C p :
  wf m = true -> p < size m -> kind_of m p = KParallel ->
  (forall r, In r (children m p) -> is_history m r = false -> In r C /\ state_done m C r = true) ->
  state_done m C p = true.
Proof.
  intros Hwf Hp Hk H. apply is_done_spec; [assumption|assumption|]. apply Done_parallel; [assumption|].
  intros r Hr Hh. destruct (H r Hr Hh) as [Hin Hd]. split; [assumption|].
  apply is_done_spec in Hd; [assumption | assumption|]. now destruct (child_props m Hwf p r Hp Hr) as [_ [H' _]].
Qed.

(* ---------- firing done events ---------- *)

Definition wants_done (m : machine) (C : config) (a : nat) : bool :=
  match n_ondone (nd m a) with Some _ => state_done m C a | None => false end.

(* entering a final state raises AT MOST ONE done event: for the nearest ancestor
   that declares onDone and is done; otherwise (top-level final) completes *)
Theorem fire_on_done_cases eng pr m fin s :
  (exists pre a post,
      ancestors m fin = pre ++ a :: post
      /\ (forall b, In b pre -> wants_done m (s_cfg s) b = false)
      /\ wants_done m (s_cfg s) a = true
      /\ fire_on_done eng pr m fin s = send_self eng (done_event m a 0) (note_chained eng pr s))
  \/ ((forall b, In b (ancestors m fin) -> wants_done m (s_cfg s) b = false)
      /\ (fire_on_done eng pr m fin s = s
          \/ fire_on_done eng pr m fin s =
             complete (match m_output m with Some o => Some o | None => n_output (nd m fin) end) s)).
Proof.
  unfold fire_on_done. fold (wants_done m (s_cfg s)).
  change (fun a => match n_ondone (nd m a) with Some _ => state_done m (s_cfg s) a | None => false end)
    with (wants_done m (s_cfg s)).
  destruct (find (wants_done m (s_cfg s)) (ancestors m fin)) as [a|] eqn:E.
  - left. clear -E. induction (ancestors m fin) as [|x r IH]; [discriminate|]. simpl in E.
    destruct (wants_done m (s_cfg s) x) eqn:Hx.
    + inversion E; subst. exists [], a, r. split; [reflexivity|]. split; [intros b []|]. split; [assumption | reflexivity].
    + destruct (IH E) as [pre [a' [post [Hr [Hpre [Ha Hf]]]]]]. exists (x :: pre), a', post.
      split; [now rewrite Hr|]. split; [intros b [<-|Hb]; [assumption | now apply Hpre]|]. now split.
  - right. split.
    + intros b Hb. destruct (wants_done m (s_cfg s) b) eqn:Hw; [|reflexivity].
      exfalso. eapply find_none in E; [|exact Hb]. congruence.
    + destruct (parent m fin) as [[|p]|]; auto.
Qed.

Lemma send_self_queue eng ev s :
  s_queue (send_self eng ev s) = s_queue s \/ s_queue (send_self eng ev s) = s_queue s ++ [ev].
Proof. unfold send_self. destruct (accepts eng (s_status s)); auto. Qed.

Lemma complete_queue o s : s_queue (complete o s) = s_queue s.
Proof. unfold complete. destruct (s_status s); reflexivity. Qed.

Theorem fire_on_done_at_most_one eng pr m fin s :
  s_queue (fire_on_done eng pr m fin s) = s_queue s
  \/ exists a, In a (ancestors m fin) /\ wants_done m (s_cfg s) a = true
               /\ s_queue (fire_on_done eng pr m fin s) = s_queue s ++ [done_event m a 0].
Proof.
  destruct (fire_on_done_cases eng pr m fin s) as [[pre [a [post [Ha [_ [Hw Hf]]]]]]|[_ [Hf|Hf]]]; rewrite Hf.
  - assert (Hq : s_queue (note_chained eng pr s) = s_queue s) by (unfold note_chained; destruct eng, pr; reflexivity).
    destruct (send_self_queue eng (done_event m a 0) (note_chained eng pr s)) as [H|H]; rewrite Hq in H; [now left|].
    right. exists a. split; [rewrite Ha; apply in_or_app; right; now left|]. now split.
  - now left.
  - left. apply complete_queue.
Qed.

(* ---------- completion ---------- *)

Lemma complete_idem o1 o2 s : complete o2 (complete o1 s) = complete o1 s.
Proof. unfold complete. destruct (s_status s) eqn:E; simpl; rewrite ?E; reflexivity. Qed.

Lemma complete_status o s :
  s_status (complete o s) = match s_status s with Running => Exec.Done | x => x end.
Proof. unfold complete. destruct (s_status s) eqn:E; simpl; rewrite ?E; reflexivity. Qed.

Lemma complete_output o s : s_status s = Running -> s_output (complete o s) = o.
Proof. unfold complete. intros ->. reflexivity. Qed.

(* on_done hook runs at most once: completing a completed machine logs nothing *)
Lemma complete_log_once o1 o2 s : s_log (complete o2 (complete o1 s)) = s_log (complete o1 s).
Proof. now rewrite complete_idem. Qed.

(* sent events are ignored once the machine is done / failed / stopped *)
Lemma sync_send_inert m ev s : s_status s <> Running -> sync_send m ev s = (s, None).
Proof. unfold sync_send, sync_send_with. destruct (s_status s); try reflexivity. congruence. Qed.

Lemma async_send_inert ev s :
  s_status s = Exec.Done \/ s_status s = Errored \/ s_status s = Stopped -> async_send ev s = s.
Proof. unfold async_send. intros [H|[H|H]]; rewrite H; reflexivity. Qed.

Lemma async_loop_inert fuel m s : s_status s <> Running -> fuel <> 0 -> async_loop fuel m s = (s, false).
Proof. intros H Hf. destruct fuel; [congruence|]. simpl. destruct (s_status s); try reflexivity. congruence. Qed.
