(* Tie T for the "is a failed service handled" test: BaseInterpreter._has_error_handler, which both engines consult before they put
   the machine into the error status, as RE-TRANSLATED from the current source on every build (Gen/GenGeom.v: has_error_handler_src),
   is the flag the model arms every invoked service with (Model/Exec.v: start_service). *)
From XSM Require Import Model.TreeLib Gen.GenTree Gen.GenGeom Proofs.TimerP.

Theorem has_error_handler_bridge m i :
  has_error_handler_src m i = match i_onerror i with [] => false | _ => true end.
Proof. unfold has_error_handler_src, truthy_list. destruct (i_onerror i); reflexivity. Qed.

(* what the asyncio engine arms for an invoked service carries the source's test as its `handled` flag ... *)
Theorem start_service_async_flag_is_the_source m x i s : Nat.eqb (i_src i) 0 = false ->
  start_service Async x i s
  = lift (fun s => arm x (s_now s) (PSvcStart (i_id i) (i_dur i) (i_ok i) (i_val i) (has_error_handler_src m i) (i_machine i)) s) s.
Proof. intros H. unfold start_service. rewrite H. now rewrite has_error_handler_bridge. Qed.

(* ... and so does the outcome the sync engine delivers inline *)
Theorem start_service_sync_flag_is_the_source m x i s : Nat.eqb (i_src i) 0 = false ->
  start_service Sync x i s
  = (lift (logo (OSvc (i_id i))) ;;
     lift (fun s => deliver Sync {| p_owner := x; p_due := s_now s; p_seq := 0;
                                    p_kind := PSvc (i_id i) (i_ok i) (i_val i) (has_error_handler_src m i) |} s)) s.
Proof. intros H. unfold start_service. rewrite H. now rewrite has_error_handler_bridge. Qed.
