(* Legal configurations (property C01): the boolean test used by the monitor and by the correspondence check is the
   declarative definition; what can and cannot change the configuration. *)
From XSM Require Import Model.Macro Proofs.TreeP Proofs.GuardP Proofs.StepP Proofs.FrameP.
From Coq Require Import Lia.

Record Legal (m : machine) (C : config) : Prop := {
  L_root : In 0 C;                                       (* the root is active *)
  L_nodup : NoDup C;
  L_range : forall s, In s C -> s < size m;
  L_parent : forall s, In s C -> match parent m s with None => s = 0 | Some p => In p C end;   (* parents are active *)
  L_nohist : forall s, In s C -> is_history m s = false;  (* no history pseudo-state is active *)
  L_compound : forall s, In s C -> kind_of m s = KCompound -> children m s <> [] ->
               List.length (filter (fun c => mem c C) (children m s)) = 1;                    (* exactly one active child *)
  L_parallel : forall s c, In s C -> kind_of m s = KParallel -> In c (children m s) -> is_history m c = false -> In c C }.

Theorem legal_spec m C : legal m C = true <-> Legal m C.
Proof.
  unfold legal. rewrite !andb_true_iff, forallb_forall, nodup_nat_NoDup, mem_In. split.
  - intros [[H0 Hall] Hnd].
    assert (Hat : forall s, In s C -> s < size m /\ legal_at m C s = true).
    { intros s Hs. specialize (Hall s Hs). apply andb_prop in Hall as [H1 H2]. split; [now apply Nat.ltb_lt | exact H2]. }
    constructor; try assumption.
    + intros s Hs. now destruct (Hat s Hs).
    + intros s Hs. destruct (Hat s Hs) as [_ H]. unfold legal_at in H. apply andb_prop in H as [H _]. apply andb_prop in H as [H _].
      revert H. destruct (parent m s); intros H; [now apply mem_In | now apply Nat.eqb_eq].
    + intros s Hs. destruct (Hat s Hs) as [_ H]. unfold legal_at in H. apply andb_prop in H as [H _]. apply andb_prop in H as [_ H].
      now apply negb_true_iff.
    + intros s Hs Hk Hc. destruct (Hat s Hs) as [_ H]. unfold legal_at in H. apply andb_prop in H as [_ H]. rewrite Hk in H.
      unfold count_active_children in H. revert H Hc. destruct (children m s); intros H Hc; [congruence|]. now apply Nat.eqb_eq.
    + intros s c Hs Hk Hc Hh. destruct (Hat s Hs) as [_ H]. unfold legal_at in H. apply andb_prop in H as [_ H]. rewrite Hk in H.
      rewrite forallb_forall in H. specialize (H c Hc). rewrite Hh in H. now apply mem_In.
  - intros [H0 Hnd Hr Hp Hh Hc Hpar]. split; [split; [exact H0|] | exact Hnd].
    intros s Hs. apply andb_true_intro. split; [apply Nat.ltb_lt; now apply Hr|].
    unfold legal_at. apply andb_true_intro. split; [apply andb_true_intro; split|].
    + specialize (Hp s Hs). revert Hp. destruct (parent m s); intros Hp; [now apply mem_In | now apply Nat.eqb_eq].
    + apply negb_true_iff. now apply Hh.
    + destruct (kind_of m s) eqn:Hk; try reflexivity.
      * destruct (children m s) eqn:Ec; [reflexivity|]. apply Nat.eqb_eq. unfold count_active_children. rewrite Ec.
        rewrite <- Ec. apply Hc; [assumption | assumption | congruence].
      * apply forallb_forall. intros c Hcc. destruct (is_history m c) eqn:Eh; [reflexivity|]. simpl. apply mem_In. now apply (Hpar s c).
Qed.

(* "exactly one": with duplicate-free children (every well-formed machine), a count of one is a unique witness *)
Lemma filter_length_one {A} (f : A -> bool) l :
  NoDup l -> (List.length (filter f l) = 1 <-> exists c, In c l /\ f c = true /\ forall c', In c' l -> f c' = true -> c' = c).
Proof.
  intros N. induction N as [|x r Hx N IH]; simpl.
  - split; [discriminate | intros [c [[] _]]].
  - destruct (f x) eqn:Fx; simpl.
    + split.
      * intros H. exists x. split; [now left|]. split; [exact Fx|]. intros c' [<-|Hc'] Fc'; [reflexivity|].
        exfalso. assert (Hin : In c' (filter f r)) by (apply filter_In; now split).
        destruct (filter f r); [destruct Hin | discriminate].
      * intros [c [Hc [Fc Hu]]]. f_equal. destruct (filter f r) as [|y ys] eqn:E; [reflexivity|]. exfalso.
        assert (Hy : In y (filter f r)) by (rewrite E; now left). apply filter_In in Hy as [Hy Fy].
        assert (y = c) by (apply Hu; [now right | exact Fy]). assert (x = c) by (apply Hu; [now left | exact Fx]). subst. contradiction.
    + rewrite IH. split.
      * intros [c [Hc [Fc Hu]]]. exists c. split; [now right|]. split; [exact Fc|].
        intros c' [<-|Hc'] Fc'; [congruence | now apply Hu].
      * intros [c [[<-|Hc] [Fc Hu]]]; [congruence|]. exists c. split; [exact Hc|]. split; [exact Fc|].
        intros c' Hc' Fc'. apply Hu; [now right | exact Fc'].
Qed.

Corollary legal_one_active_child m C s :
  wf m = true -> Legal m C -> In s C -> kind_of m s = KCompound -> children m s <> [] ->
  exists c, In c (children m s) /\ In c C /\ forall c', In c' (children m s) -> In c' C -> c' = c.
Proof.
  intros Hwf HL Hs Hk Hc. pose proof (L_compound m C HL s Hs Hk Hc) as H1.
  destruct (wf_node m s Hwf (L_range m C HL s Hs)) as [_ Hnd].
  apply (filter_length_one _ _ Hnd) in H1 as [c [Hin [Fc Hu]]]. exists c. split; [exact Hin|]. split; [now apply mem_In|].
  intros c' Hc' Hm. apply Hu; [exact Hc' | now apply mem_In].
Qed.

(* ---- the configuration only changes by entering and leaving; nothing else touches it ---- *)

(* membership changes are logged: a state that is active afterwards and was not before has an OEnter record ... *)
Definition entered_in (l : list obs) (x : nat) : Prop := In (OEnter x) l.
Definition left_in (l : list obs) (x : nat) : Prop := In (OLeave x) l.

(* one transition that aborts leaves the configuration as it was (rollback) - see FaultP; an unhandled event leaves
   the whole state as it was - see SelectP.  Both are re-exported from Props/C01.v. *)

(* exit_set: only active proper descendants of the domain are ever exited *)
Lemma exit_set_sub m C d tgt x : In x (exit_set m C d tgt) -> In x C /\ is_desc m x d = true /\ x <> d.
Proof.
  unfold exit_set. intros H.
  assert (Hc : In x (filter (fun s => is_desc m s d && negb (Nat.eqb s d)) C) -> In x C /\ is_desc m x d = true /\ x <> d).
  { intros Hin. apply filter_In in Hin as [Hin Hf]. apply andb_prop in Hf as [H1 H2]. split; [exact Hin|]. split; [exact H1|].
    apply negb_true_iff in H2. now apply Nat.eqb_neq. }
  destruct (is_parallel m d); [|now apply Hc].
  destruct (branch_of m d tgt); [|now apply Hc]. apply filter_In in H as [H _]. now apply Hc.
Qed.

(* with a history target the exit set is computed from what the pseudo-state resolves to; any other target: as above *)
Lemma exit_set_h_plain m C H d tgt : is_history m tgt = false -> exit_set_h m C H d tgt = exit_set m C d tgt.
Proof. unfold exit_set_h. now intros ->. Qed.

(* a transition to the machine root has the whole machine as its domain; any other target: as computed below *)
Lemma ext_exit_set_nonroot m C H d tgt : tgt <> 0 -> ext_exit_set m C H d tgt = exit_set_h m C H d tgt.
Proof. intros Hne. unfold ext_exit_set. destruct (Nat.eqb_spec tgt 0); [contradiction | reflexivity]. Qed.
Lemma ext_path_nonroot m tgt d : tgt <> 0 -> ext_path m tgt d = path_to m tgt d.
Proof. intros Hne. unfold ext_path. destruct (Nat.eqb_spec tgt 0); [contradiction | reflexivity]. Qed.
Lemma ext_exit_set_root m C H d : ext_exit_set m C H d 0 = C.
Proof. reflexivity. Qed.
Lemma ext_path_root m d : ext_path m 0 d = [0].
Proof. reflexivity. Qed.

Lemma exit_set_h_sub m C H d tgt x : In x (exit_set_h m C H d tgt) -> In x C /\ is_desc m x d = true /\ x <> d.
Proof.
  unfold exit_set_h. intros Hx.
  assert (Hc : In x (filter (fun s => is_desc m s d && negb (Nat.eqb s d)) C) -> In x C /\ is_desc m x d = true /\ x <> d).
  { intros Hin. apply filter_In in Hin as [Hin Hf]. apply andb_prop in Hf as [H1 H2]. split; [exact Hin|]. split; [exact H1|].
    apply negb_true_iff in H2. now apply Nat.eqb_neq. }
  destruct (is_history m tgt); [|now apply (exit_set_sub m C d tgt)].
  destruct (is_parallel m d); [|now apply Hc].
  apply filter_In in Hx as [Hx _]. now apply Hc.
Qed.

(* a history target under a parallel domain: exactly the regions holding a state about to be restored are exited *)
Lemma exit_set_h_scoped m C H d tgt x :
  is_history m tgt = true -> is_parallel m d = true -> In x (exit_set_h m C H d tgt) ->
  exists y b, In y (resolve_history m H tgt) /\ branch_of m d y = Some b /\ is_desc m x b = true.
Proof.
  unfold exit_set_h. intros Hh Hp Hx. rewrite Hh, Hp in Hx. apply filter_In in Hx as [_ Hx].
  apply existsb_exists in Hx as [b [Hb Hd]]. apply in_flat_map in Hb as [y [Hy Hb]].
  exists y, b. destruct (branch_of m d y) as [b'|] eqn:E; [|destruct Hb]. destruct Hb as [<-|[]]. now repeat split.
Qed.

(* leaving a parallel domain for a target inside one of its regions exits that region only: the sibling regions
   are not touched *)
Lemma exit_set_parallel_scoped m C d tgt b x :
  is_parallel m d = true -> branch_of m d tgt = Some b -> In x (exit_set m C d tgt) -> is_desc m x b = true.
Proof. unfold exit_set. intros Hp Hb H. rewrite Hp, Hb in H. apply filter_In in H. tauto. Qed.

(* the entry path: the target's ancestor chain strictly below the domain, outermost first *)
Lemma take_until_sub d l x : In x (take_until d l) -> In x l /\ x <> d.
Proof.
  induction l as [|y r IH]; simpl; [intros []|]. destruct (Nat.eqb_spec y d) as [->|Hne]; [intros []|].
  intros [<-|H]; [split; [now left | exact Hne]|]. destruct (IH H). split; [now right | assumption].
Qed.

Lemma path_to_sub m tgt d x : In x (path_to m tgt d) -> In x (anc_self m tgt) /\ x <> d.
Proof. unfold path_to. rewrite <- in_rev. apply take_until_sub. Qed.

(* ---- legality only depends on the active SET; legal configurations contain the ancestors of their members ---- *)
From Coq Require Import Permutation.
From XSM Require Import Proofs.OrderP Proofs.SnapP Model.Snap.

Lemma filter_ext_in' {A} (f g : A -> bool) l : (forall x, f x = g x) -> filter f l = filter g l.
Proof. intros H. induction l as [|x r IH]; simpl; [reflexivity|]. now rewrite H, IH. Qed.

Lemma Legal_perm m C C' : Permutation C C' -> Legal m C -> Legal m C'.
Proof.
  intros Hp [H0 Hnd Hr Hpa Hh Hc Hpar].
  assert (Hin : forall x, In x C' -> In x C) by (intros x Hx; eapply Permutation_in; [symmetry; exact Hp | exact Hx]).
  assert (Hin' : forall x, In x C -> In x C') by (intros x Hx; eapply Permutation_in; [exact Hp | exact Hx]).
  constructor.
  - now apply Hin'.
  - eapply Permutation_NoDup; eassumption.
  - intros s Hs. apply Hr. now apply Hin.
  - intros s Hs. specialize (Hpa s (Hin s Hs)). destruct (parent m s); [now apply Hin' | exact Hpa].
  - intros s Hs. apply Hh. now apply Hin.
  - intros s Hs Hk Hne. rewrite <- (Hc s (Hin s Hs) Hk Hne). f_equal. apply filter_ext_in'. intros x. symmetry. now apply mem_perm.
  - intros s c Hs Hk Hcc Hhc. apply Hin'. apply (Hpar s c); [now apply Hin | exact Hk | exact Hcc | exact Hhc].
Qed.

Lemma anc_fuel_closed m C : (forall s, In s C -> match parent m s with None => s = 0 | Some p => In p C end) ->
  forall f x a, In x C -> In a (anc_fuel f m x) -> In a C.
Proof.
  intros Hpa f. induction f as [|f IH]; intros x a Hx Ha; simpl in Ha; [destruct Ha|].
  pose proof (Hpa x Hx) as Hp. revert Ha Hp. destruct (parent m x) as [p|]; intros Ha Hp; [|destruct Ha].
  destruct Ha as [<-|Ha]; [exact Hp | eapply IH; eassumption].
Qed.

Lemma Legal_closed m C : Legal m C -> closed m C.
Proof.
  intros HL x a Hx [<-|Ha]; [exact Hx|]. eapply anc_fuel_closed; [apply (L_parent m C HL) | exact Hx | exact Ha].
Qed.

(* a snapshot of a legal configuration restores to a legal configuration *)
Theorem restore_legal m s r :
  Legal m (s_cfg s) -> restore m (persist m s) = Some r -> Legal m (s_cfg r).
Proof.
  intros HL H. unfold restore in H. destruct (forallb _ _); [|discriminate]. inversion H; subst; clear H. simpl.
  eapply Legal_perm; [|exact HL]. symmetry. apply restore_cfg_persist; [now apply Legal_closed | apply (L_nodup m _ HL)].
Qed.
