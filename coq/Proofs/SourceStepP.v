(* One EVENT processed with the decisions THE SOURCE computes: `process_event_src` selects with the re-translated
   _select_transitions (guards through the model's evaluation of each transition's guard) and executes every selected
   transition with the re-translated geometry (`exec_external_src`).  Whenever every consulted guard answers (no missing
   implementation) it is the model's `process_event` on every state that satisfies the run invariant - hence on every state of
   every run (the invariant is C01's) - so the event-level theorems (legality, history store) are theorems about the event step
   as the source decides it.  What remains hand-modelled in this step function are the EFFECTS: entering, exiting, running
   actions, queues, scheduling (tied to the code by the K-macro correspondence). *)
From XSM Require Import Model.TreeLib Gen.GenTree Gen.GenGeom Proofs.TreeP Proofs.IdP Proofs.LegalP Proofs.DescentP Proofs.PreserveP
  Proofs.SelectP Proofs.HistoryP Proofs.InvariantP Proofs.InvariantHP Proofs.GeomBridge Proofs.SelectBridge Proofs.SourceGeomP.
From Coq Require Import Lia.

(* a selected transition, DISPATCHED as the source dispatches it (Gen/GenGeom.v: dispatch_async / dispatch_sync, translated from
   _execute_transition / _execute_transition_sync with the effects replaced by the decision) *)
Definition exec_transition_src (eng : engine) (pr : bool) (m : machine) (t : trans) (ev : event) : M :=
  match (match eng with Async => dispatch_async | _ => dispatch_sync end) m t with
  | DTargetless | DInternal => (fun s => exec_actions eng pr (t_actions t) ev s) ;; hook_trans t
  | DNotFound => raise EStateNotFound
  | DExternal tgt => exec_external_src eng pr m t tgt ev
  end.

Lemma dispatch_is_model eng m t :
  (match eng with Async => dispatch_async | _ => dispatch_sync end) m t =
  match t_target t with
  | TNone => DTargetless
  | TUnresolvable => DNotFound
  | TState tgt => if Nat.eqb tgt (t_src t) && negb (t_reenter t) then DInternal else DExternal tgt
  end.
Proof. destruct eng; unfold dispatch_async, dispatch_sync, has_target, resolved_target; destruct (t_target t); reflexivity. Qed.

(* the value of a transition's guard in a configuration and context (a missing implementation is excluded by hypothesis) *)
Definition guard_of (m : machine) (C : config) (cx : ctx) (t : trans) : bool :=
  match passes m C cx t with Some b => b | None => false end.

Definition process_event_src (eng : engine) (pr : bool) (m : machine) (ev : event) : M :=
  fun s =>
    let ts := select_transitions m (s_cfg s) (guard_of m (s_cfg s) (s_ctx s)) ev in
    for_each (fun t => fun s' =>
                if (match eng with Async => skip_stale_async | _ => skip_stale_sync end) m (s_cfg s') ts t     (* the translated skip test *)
                then (s', None) else exec_transition_src eng pr m t ev s') ts s.

Section SourceStep.
  Variable m : machine.
  Hypothesis Hside : ancestry_side_ok m = true.
  Hypothesis Htwf : twf m = true.
  Hypothesis Hgood : good_initials m = true.
  Hypothesis Hsafe : safe_targets_h m.

  Let Hwf : wf m = true := side_wf m Hside.

  Lemma exec_transition_src_eq eng pr t ev s :
    Inv m s -> In (t_src t) (s_cfg s) -> target_okh m t -> exec_transition_src eng pr m t ev s = exec_transition eng pr m t ev s.
  Proof.
    intros [HL _] Hsrc Hok. unfold exec_transition_src, exec_transition, target_okh in *. rewrite dispatch_is_model.
    destruct (t_target t) as [|tgt|]; try reflexivity.
    destruct (Nat.eqb tgt (t_src t) && negb (t_reenter t)); [reflexivity|].
    apply (exec_external_src_eq m Hside); [exact HL | exact Hsrc | exact (proj1 Hok)].
  Qed.

  Theorem process_event_src_eq eng pr ev s :
    Inv m s -> (forall t, passes m (s_cfg s) (s_ctx s) t <> None) ->
    process_event_src eng pr m ev s = process_event eng pr m ev s.
  Proof.
    intros HI Hg. unfold process_event_src, process_event. cbn zeta.
    replace (match eng with Async => skip_stale_async | _ => skip_stale_sync end)
      with (fun (m0 : machine) (C : list nat) (ts0 : list trans) (t0 : trans) => Nat.ltb 1 (List.length ts0) && negb (mem (t_src t0) C))
      by (destruct eng; reflexivity).
    cbn beta.
    assert (Hgo : forall t, passes m (s_cfg s) (s_ctx s) t = Some (guard_of m (s_cfg s) (s_ctx s) t)).
    { intros t. unfold guard_of. specialize (Hg t). now destruct (passes m (s_cfg s) (s_ctx s) t). }
    pose proof (select_is_the_source m (s_cfg s) (s_ctx s) ev _ Hgo) as Hsel. rewrite Hsel.
    set (ts := select_transitions m (s_cfg s) (guard_of m (s_cfg s) (s_ctx s)) ev) in *.
    assert (Hall : forall t, In t ts -> target_okh m t)
      by (intros t Ht; now destruct (selected_source_active m Hwf Htwf Hsafe s ev ts t HI Hsel Ht)).
    assert (Hfirst : forall t, In t ts -> In (t_src t) (s_cfg s))
      by (intros t Ht; now destruct (selected_source_active m Hwf Htwf Hsafe s ev ts t HI Hsel Ht)).
    assert (Hloop : forall l s0, (forall t, In t l -> In t ts) -> Inv m s0 ->
              (Nat.ltb 1 (List.length ts) = true \/ (forall t, In t l -> In (t_src t) (s_cfg s0)) /\ List.length l <= 1) ->
              for_each (fun t s' => if Nat.ltb 1 (List.length ts) && negb (mem (t_src t) (s_cfg s')) then (s', None)
                                    else exec_transition_src eng pr m t ev s') l s0
              = for_each (fun t s' => if Nat.ltb 1 (List.length ts) && negb (mem (t_src t) (s_cfg s')) then (s', None)
                                      else exec_transition eng pr m t ev s') l s0).
    { induction l as [|t r IHl]; intros s0 Hsub HI0 Hcase; [reflexivity|].
      cbn [for_each]. unfold bind.
      assert (Hstep : (if Nat.ltb 1 (List.length ts) && negb (mem (t_src t) (s_cfg s0)) then (s0, None) else exec_transition_src eng pr m t ev s0)
                      = (if Nat.ltb 1 (List.length ts) && negb (mem (t_src t) (s_cfg s0)) then (s0, None) else exec_transition eng pr m t ev s0)
                      /\ Inv m (fst (if Nat.ltb 1 (List.length ts) && negb (mem (t_src t) (s_cfg s0)) then (s0, None) else exec_transition eng pr m t ev s0))).
      { destruct (Nat.ltb 1 (List.length ts)) eqn:El; cbn [andb].
        - destruct (mem (t_src t) (s_cfg s0)) eqn:Em; cbn [negb]; [|now split].
          assert (Hin : In (t_src t) (s_cfg s0)) by now apply mem_In.
          split; [apply exec_transition_src_eq; [exact HI0 | exact Hin | apply Hall, Hsub; now left]|].
          apply (exec_transition_inv m Hwf Hgood); [exact HI0 | exact Hin | apply Hall, Hsub; now left].
        - destruct Hcase as [Hc|[Hc _]]; [discriminate|].
          split; [apply exec_transition_src_eq; [exact HI0 | apply Hc; now left | apply Hall, Hsub; now left]|].
          apply (exec_transition_inv m Hwf Hgood); [exact HI0 | apply Hc; now left | apply Hall, Hsub; now left]. }
      destruct Hstep as [Heq Hinv]. rewrite Heq.
      destruct (if Nat.ltb 1 (List.length ts) && negb (mem (t_src t) (s_cfg s0)) then (s0, None) else exec_transition eng pr m t ev s0) as [s1 [e|]];
        [reflexivity|].
      apply IHl; [intros x Hx; apply Hsub; now right | exact Hinv|].
      destruct Hcase as [Hc|[_ Hlen]]; [now left|]. right. simpl in Hlen. destruct r; [|simpl in Hlen; lia]. split; [intros x []|simpl; lia]. }
    apply Hloop; [auto | exact HI|].
    destruct (Nat.ltb 1 (List.length ts)) eqn:El; [now left|]. right. split; [exact Hfirst | apply Nat.ltb_ge in El; exact El].
  Qed.

  (* ... hence the event step as the source decides it keeps the run invariant: a legal configuration and a consistent history store *)
  Theorem process_event_src_inv eng pr ev s :
    Inv m s -> (forall t, passes m (s_cfg s) (s_ctx s) t <> None) -> Inv m (fst (process_event_src eng pr m ev s)).
  Proof.
    intros HI Hg. rewrite (process_event_src_eq eng pr ev s HI Hg). now apply (process_event_inv m Hwf Htwf Hgood Hsafe).
  Qed.
End SourceStep.
