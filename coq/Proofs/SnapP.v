(* Snapshots (property C12): restore after persist gives back the same state up to the listing order of the active
   set; a restored interpreter re-persists to the same snapshot; unknown states are rejected *)
From XSM Require Import Model.Macro Model.Snap Proofs.TreeP Proofs.SortP Proofs.OrderP Proofs.HistP.
From Coq Require Import Lia Permutation.

Lemma mem_In' x l : mem x l = true <-> In x l.
Proof.
  unfold mem. rewrite existsb_exists. split.
  - intros [y [Hy E]]. apply Nat.eqb_eq in E. now subst.
  - intros H. exists x. split; [assumption | apply Nat.eqb_refl].
Qed.

Lemma cadd_In x a C : In x (cadd a C) <-> x = a \/ In x C.
Proof.
  unfold cadd. destruct (mem a C) eqn:E.
  - apply mem_In' in E. split; [auto|]. intros [->|H]; assumption.
  - rewrite in_app_iff. simpl. split; [intros [H|[H|[]]]; auto | intros [H|H]; auto].
Qed.

Lemma cadd_nodup a C : NoDup C -> NoDup (cadd a C).
Proof.
  intros N. unfold cadd. destruct (mem a C) eqn:E; [exact N|].
  assert (Hn : ~ In a C) by (intros H; apply mem_In' in H; congruence).
  clear E. induction N as [|y l Hy N IH]; simpl; [repeat constructor; auto|].
  constructor.
  - rewrite in_app_iff. simpl. intros [H|[H|[]]]; [contradiction|]. subst. apply Hn. now left.
  - apply IH. intros H. apply Hn. now right.
Qed.

Lemma fold_cadd_In l : forall C x, In x (fold_left (fun C' a => cadd a C') l C) <-> In x l \/ In x C.
Proof.
  induction l as [|a r IH]; intros C x; simpl; [tauto|].
  rewrite IH, cadd_In. split; [intros [H|[H|H]]; auto | intros [[H|H]|H]; auto].
Qed.

Lemma fold_cadd_nodup l : forall C, NoDup C -> NoDup (fold_left (fun C' a => cadd a C') l C).
Proof. induction l as [|a r IH]; intros C N; simpl; [exact N | apply IH, cadd_nodup, N]. Qed.

Lemma restore_cfg_In_gen m ids : forall C x,
  In x (fold_left (fun C x => fold_left (fun C' a => cadd a C') (anc_self m x) C) ids C)
  <-> (exists y, In y ids /\ In x (anc_self m y)) \/ In x C.
Proof.
  induction ids as [|y r IH]; intros C x; cbn [fold_left].
  - split; [auto | intros [[y [[] _]]|H]; exact H].
  - rewrite IH, fold_cadd_In. split.
    + intros [[z [Hz Hx]]|[H|H]].
      * left. exists z. split; [now right | exact Hx].
      * left. exists y. split; [now left | exact H].
      * now right.
    + intros [[z [[<-|Hz] Hx]]|H].
      * right. left. exact Hx.
      * left. exists z. split; assumption.
      * right. now right.
Qed.

Lemma restore_cfg_nodup_gen m ids : forall C, NoDup C ->
  NoDup (fold_left (fun C x => fold_left (fun C' a => cadd a C') (anc_self m x) C) ids C).
Proof. induction ids as [|y r IH]; intros C N; cbn [fold_left]; [exact N | apply IH, fold_cadd_nodup, N]. Qed.

(* the restored configuration: every listed state and all of its ancestors, each once *)
Theorem restore_cfg_spec m ids x : In x (restore_cfg m ids) <-> exists y, In y ids /\ In x (anc_self m y).
Proof. unfold restore_cfg. rewrite restore_cfg_In_gen. split; [intros [H|[]]; exact H | auto]. Qed.

Lemma restore_cfg_nodup m ids : NoDup (restore_cfg m ids).
Proof. apply restore_cfg_nodup_gen. constructor. Qed.

(* a configuration that contains the ancestors of its members *)
Definition closed (m : machine) (C : config) : Prop := forall x a, In x C -> In a (anc_self m x) -> In a C.

Lemma lt_id_sort_In m x l : In x (sort_by (lt_id m) l) <-> In x l.
Proof. apply sort_by_In. Qed.

Theorem restore_cfg_persist m C : closed m C -> NoDup C -> Permutation (restore_cfg m (sort_by (lt_id m) C)) C.
Proof.
  intros Hc N. apply NoDup_Permutation; [apply restore_cfg_nodup | exact N|].
  intros x. rewrite restore_cfg_spec. split.
  - intros [y [Hy Hx]]. apply lt_id_sort_In in Hy. eapply Hc; eassumption.
  - intros Hx. exists x. split; [now apply lt_id_sort_In | now left].
Qed.

(* the order by id alone is a strict total order when ids are distinct *)
Lemma sort_id_canonical m l1 l2 :
  ids_distinct m -> Forall (fun s => s < size m) l1 -> NoDup l1 -> Permutation l1 l2 ->
  sort_by (lt_id m) l1 = sort_by (lt_id m) l2.
Proof.
  intros Hids. apply (sort_by_canonical (lt_id m) (fun s => s < size m)).
  - intros a. apply str_ltb_irrefl.
  - intros a b c _ _ _. apply str_ltb_trans.
  - intros a b Da Db Hne. apply str_ltb_total. now apply Hids.
Qed.

Section RoundTrip.
  Variable m : machine.
  Hypothesis Hids : ids_distinct m.
  Variable s : st.
  Hypothesis Hrange : Forall (fun x => x < size m) (s_cfg s).
  Hypothesis Hclosed : closed m (s_cfg s).
  Hypothesis Hnodup : NoDup (s_cfg s).
  Hypothesis Hhist : Forall (fun e => snd e <> []) (s_hist s).

  Lemma persist_in_range : forallb (fun x => Nat.ltb x (size m)) (sn_cfg (persist m s)) = true.
  Proof.
    apply forallb_forall. intros x Hx. simpl in Hx. apply lt_id_sort_In in Hx.
    rewrite Forall_forall in Hrange. apply Nat.ltb_lt. now apply Hrange.
  Qed.

  (* restoring a snapshot always succeeds on the machine that produced it *)
  Theorem restore_persist_succeeds : exists r, restore m (persist m s) = Some r.
  Proof. unfold restore. rewrite persist_in_range. eexists; reflexivity. Qed.

  (* ... and gives back every persisted field; the active set is the same set *)
  Theorem restore_persist_fields r :
    restore m (persist m s) = Some r ->
    Permutation (s_cfg r) (s_cfg s) /\ s_hist r = s_hist s /\ s_ctx r = s_ctx s /\ s_status r = s_status s
    /\ s_output r = s_output s /\ s_queue r = [] /\ s_pending r = [] /\ s_log r = [].
  Proof.
    intros H. pose proof (snapshot_keeps_history m s r Hhist H) as Hh.
    unfold restore in H. rewrite persist_in_range in H. inversion H; subst; clear H. simpl in *.
    split; [now apply restore_cfg_persist|]. split; [exact Hh|]. repeat split; reflexivity.
  Qed.

  (* re-snapshotting the restored interpreter reproduces the snapshot *)
  Theorem resnapshot r : restore m (persist m s) = Some r -> persist m r = persist m s.
  Proof.
    intros H. destruct (restore_persist_fields r H) as [Hp [Hh [Hc [Hs [Ho _]]]]].
    unfold persist. rewrite Hh, Hc, Hs, Ho. f_equal.
    symmetry. apply sort_id_canonical; [assumption | assumption | assumption | now symmetry].
  Qed.

  (* the restored interpreter selects, exits, remembers and reports exactly as the original would *)
  Theorem restored_behaves_alike r cx ev d tgt p :
    restore m (persist m s) = Some r ->
    select m (s_cfg r) cx ev = select m (s_cfg s) cx ev
    /\ sort_by (lt_depth_id m) (exit_set_h m (s_cfg r) (s_hist r) d tgt) = sort_by (lt_depth_id m) (exit_set_h m (s_cfg s) (s_hist s) d tgt)
    /\ remembered m (s_cfg r) p = remembered m (s_cfg s) p
    /\ sort_nat (s_cfg r) = sort_nat (s_cfg s).
  Proof.
    intros H. destruct (restore_persist_fields r H) as [Hp [Hh _]]. symmetry in Hp.
    repeat split; symmetry.
    - now apply select_independent.
    - rewrite Hh. now apply exit_order_independent_h.
    - now apply remembered_independent.
    - now apply reported_independent.
  Qed.
End RoundTrip.

(* a snapshot naming a state the machine does not have is rejected *)
Theorem restore_rejects_unknown m sn : (exists x, In x (sn_cfg sn) /\ size m <= x) <-> restore m sn = None.
Proof.
  unfold restore. destruct (forallb _ _) eqn:E.
  - split; [|discriminate]. intros [x [Hx Hge]]. rewrite forallb_forall in E. specialize (E x Hx). apply Nat.ltb_lt in E. lia.
  - split; [reflexivity|]. intros _.
    assert (H : ~ (forall x, In x (sn_cfg sn) -> Nat.ltb x (size m) = true)) by (intros H; apply forallb_forall in H; congruence).
    clear E. induction (sn_cfg sn) as [|y l IH]; [exfalso; apply H; intros x []|].
    destruct (Nat.ltb y (size m)) eqn:Ey.
    + destruct IH as [x [Hx Hge]]; [|exists x; split; [now right | exact Hge]].
      intros Hall. apply H. intros x [<-|Hx]; [exact Ey | now apply Hall].
    + exists y. split; [now left|]. apply Nat.ltb_ge in Ey. exact Ey.
Qed.
