(* Proofs about transition selection (Model/Select.v) - properties C02, C06, C20 *)
From XSM Require Import Model.Select Proofs.PyLibP Proofs.MatchP Proofs.GuardP.
From Coq Require Import Lia.

(* ---------- filter_pass / on_bucket with a total oracle ---------- *)

Lemma filter_pass_total (fb : trans -> bool) l :
  filter_pass (fun t => Some (fb t)) l = Some (filter fb l).
Proof. induction l as [|t r IH]; [reflexivity|]. simpl. rewrite IH. destruct (fb t); reflexivity. Qed.

Lemma filter_pass_missing f l1 t l2 :
  (forall x, In x l1 -> f x <> None) -> f t = None -> filter_pass f (l1 ++ t :: l2) = None.
Proof.
  induction l1 as [|x r IH]; intros H Ht; simpl.
  - now rewrite Ht.
  - destruct (f x) eqn:E; [|reflexivity]. rewrite IH; [reflexivity | intros y Hy; apply H; now right | assumption].
Qed.

(* candidates of one bucket up to (not including) the first forbidden entry *)
Fixpoint before_forbidden (ts : list trans) : list trans * bool :=
  match ts with
  | [] => ([], false)
  | t :: r => if t_forbidden t then ([], true) else let (l, b) := before_forbidden r in (t :: l, b)
  end.

Lemma on_bucket_total (fb : trans -> bool) ts :
  on_bucket (fun t => Some (fb t)) ts =
  Some (filter fb (fst (before_forbidden ts)), snd (before_forbidden ts)).
Proof.
  induction ts as [|t r IH]; [reflexivity|]. simpl.
  destruct (t_forbidden t); [reflexivity|]. rewrite IH.
  destruct (before_forbidden r) as [l b]. simpl. destruct (fb t); reflexivity.
Qed.

(* ---------- first_max ---------- *)

Lemma first_max_In key l w : first_max key l = Some w -> In w l.
Proof.
  revert w; induction l as [|t r IH]; intros w H; [discriminate|]. simpl in H.
  destruct (first_max key r) as [u|] eqn:E.
  - destruct (Nat.ltb (key t) (key u)); inversion H; subst; [right; now apply IH | now left].
  - inversion H; now left.
Qed.

Lemma first_max_nil key l : first_max key l = None <-> l = [].
Proof.
  split; [|intros ->; reflexivity]. destruct l as [|t r]; [reflexivity|]. simpl.
  destruct (first_max key r) as [u|]; [destruct (Nat.ltb _ _)|]; discriminate.
Qed.

Lemma first_max_ge key l w : first_max key l = Some w -> forall x, In x l -> key x <= key w.
Proof.
  revert w; induction l as [|t r IH]; intros w H x Hx; [destruct Hx|]. simpl in H.
  destruct (first_max key r) as [u|] eqn:E.
  - destruct (Nat.ltb_spec (key t) (key u)); inversion H; subst.
    + destruct Hx as [->|Hx]; [lia | now apply IH].
    + destruct Hx as [->|Hx]; [lia|]. specialize (IH u eq_refl x Hx). lia.
  - apply first_max_nil in E. subst r. inversion H; subst. destruct Hx as [->|[]]. lia.
Qed.

(* the FIRST maximal element: everything before the winner is strictly smaller *)
Lemma first_max_first key l w :
  first_max key l = Some w -> exists l1 l2, l = l1 ++ w :: l2 /\ forall x, In x l1 -> key x < key w.
Proof.
  revert w; induction l as [|t r IH]; intros w H; [discriminate|]. simpl in H.
  destruct (first_max key r) as [u|] eqn:E.
  - destruct (Nat.ltb_spec (key t) (key u)); inversion H; subst.
    + destruct (IH w eq_refl) as [l1 [l2 [-> Hl]]]. exists (t :: l1), l2. split; [reflexivity|].
      intros x [->|Hx]; [assumption | now apply Hl].
    + exists [], r. split; [reflexivity | intros x []].
  - inversion H; subst. exists [], r. split; [reflexivity | intros x []].
Qed.

(* a block of equal keys followed by strictly smaller ones: the head of the block wins *)
Lemma first_max_block key (L1 rest : list trans) t k :
  (forall x, In x (t :: L1) -> key x = k) -> (forall x, In x rest -> key x < k) ->
  first_max key ((t :: L1) ++ rest) = Some t.
Proof.
  intros H1 H2.
  destruct (first_max key ((t :: L1) ++ rest)) as [w|] eqn:E.
  - destruct (first_max_first _ _ _ E) as [l1 [l2 [Heq Hlt]]].
    destruct l1 as [|y l1].
    + simpl in Heq. inversion Heq; subst. reflexivity.
    + exfalso. simpl in Heq. inversion Heq; subst y.
      assert (Ht : key t < key w) by (apply Hlt; now left).
      assert (Hw : In w ((t :: L1) ++ rest)) by (eapply first_max_In; exact E).
      rewrite (H1 t) in Ht by now left.
      apply in_app_or in Hw as [Hw|Hw]; [rewrite (H1 w Hw) in Ht; lia | specialize (H2 w Hw); lia].
  - apply first_max_nil in E. discriminate.
Qed.

Lemma first_max_skip_nil key (rest : list trans) : first_max key ([] ++ rest) = first_max key rest.
Proof. reflexivity. Qed.

(* ---------- sel_loop: winners are recorded once, in leaf order ---------- *)

Lemma NoDup_app_singleton {A} (l : list A) x : NoDup l -> ~ In x l -> NoDup (l ++ [x]).
Proof.
  induction l as [|y r IH]; intros Hnd Hx; simpl; [repeat constructor; intros []|].
  inversion Hnd; subst. constructor.
  - intros Hin. apply in_app_or in Hin as [Hin|[->|[]]]; [contradiction | apply Hx; now left].
  - apply IH; [assumption | intros Hin; apply Hx; now right].
Qed.

Lemma sel_loop_ids m f ev ls seen acc out :
  sel_loop m f ev ls seen acc = Some out ->
  NoDup (map t_id acc) -> (forall t, In t acc -> In (t_id t) seen) ->
  NoDup (map t_id out).
Proof.
  revert seen acc; induction ls as [|l r IH]; intros seen acc H Hnd Hseen; simpl in H.
  - now inversion H; subst.
  - destruct (collect f m ev l) as [el|]; [|discriminate].
    destruct (first_max _ el) as [w|].
    + destruct (mem (t_id w) seen) eqn:E.
      * eapply IH; eassumption.
      * eapply IH; [exact H | | ].
        -- rewrite map_app. simpl. apply NoDup_app_singleton; [assumption|].
           intros Hin. apply in_map_iff in Hin as [t [Ht Hin]]. apply Hseen in Hin. rewrite Ht in Hin.
           apply mem_In in Hin. congruence.
        -- intros t Ht. apply in_app_or in Ht as [Ht|[<-|[]]]; [right; now apply Hseen | now left].
    + eapply IH; eassumption.
Qed.

(* ---------- where candidates come from ---------- *)

Definition node_trans (n : node) : list trans :=
  List.concat (map snd (n_on n))
  ++ (match n_ondone n with Some t => [t] | None => [] end)
  ++ List.concat (map snd (n_after n))
  ++ List.concat (map (fun i => i_ondone i ++ i_onerror i) (n_invoke n)).

(* every transition stored at node s names s as its source *)
Definition twf (m : machine) : bool :=
  forallb (fun s => forallb (fun t => Nat.eqb (t_src t) s) (node_trans (nd m s))) (seq 0 (size m)).

Lemma filter_pass_In f l l' t : filter_pass f l = Some l' -> In t l' -> In t l.
Proof.
  revert l'; induction l as [|x r IH]; intros l' H Ht; simpl in H.
  - inversion H; subst. destruct Ht.
  - destruct (f x) as [b|]; [|discriminate]. destruct (filter_pass f r) as [l0|]; [|discriminate].
    inversion H; subst. destruct b.
    + destruct Ht as [->|Ht]; [now left | right; now apply (IH l0)].
    + right. now apply (IH l0).
Qed.

Lemma on_bucket_In f ts l b t : on_bucket f ts = Some (l, b) -> In t l -> In t ts.
Proof.
  revert l b; induction ts as [|x r IH]; intros l b H Ht; simpl in H.
  - inversion H; subst. destruct Ht.
  - destruct (t_forbidden x); [inversion H; subst; destruct Ht|].
    destruct (f x) as [bx|]; [|discriminate]. destruct (on_bucket f r) as [[l0 b0]|]; [|discriminate].
    inversion H; subst. destruct bx.
    + destruct Ht as [->|Ht]; [now left | right; now apply (IH l0 b)].
    + right. now apply (IH l0 b).
Qed.

Lemma lookup_on_incl on key t : In t (lookup_on on key) -> In t (List.concat (map snd on)).
Proof.
  unfold lookup_on. destruct (find _ on) as [p|] eqn:E; [|intros []].
  apply find_some in E as [Hp _]. intros Ht. apply in_concat. exists (snd p). split; [now apply in_map | assumption].
Qed.

Lemma on_keys_In f on keys l b t : on_keys f on keys = Some (l, b) -> In t l -> In t (List.concat (map snd on)).
Proof.
  revert l b; induction keys as [|k r IH]; intros l b H Ht; simpl in H.
  - inversion H; subst. destruct Ht.
  - destruct (on_bucket f (lookup_on on k)) as [[l0 b0]|] eqn:E; [|discriminate].
    destruct b0.
    + inversion H; subst. eapply lookup_on_incl, on_bucket_In; eassumption.
    + destruct (on_keys f on r) as [[l2 b2]|]; [|discriminate]. inversion H; subst.
      apply in_app_or in Ht as [Ht|Ht]; [eapply lookup_on_incl, on_bucket_In; eassumption | now apply (IH l2 b)].
Qed.

Lemma cands_state_In f m ev s l b t :
  cands_state f m ev s = Some (l, b) -> In t l -> In t (node_trans (nd m s)).
Proof.
  unfold cands_state, obind, node_trans. intros H Ht.
  destruct (if String.eqb (e_type ev) "" then Some ([], false) else on_keys f (n_on (nd m s)) _) as [[l1 b1]|] eqn:E1; [|discriminate].
  assert (H1 : forall x, In x l1 -> In x (List.concat (map snd (n_on (nd m s))))).
  { intros x Hx. destruct (String.eqb (e_type ev) ""); [inversion E1; subst; destruct Hx | eapply on_keys_In; eassumption]. }
  cbn [fst snd] in H. destruct b1; [inversion H; subst; apply in_or_app; left; now apply H1|].
  destruct (if is_transient_check ev && in_list "" _ then _ else Some []) as [l2|] eqn:E2; [|discriminate].
  assert (H2 : forall x, In x l2 -> In x (List.concat (map snd (n_on (nd m s))))).
  { intros x Hx. destruct (is_transient_check ev && in_list "" _).
    - eapply lookup_on_incl, filter_pass_In; eassumption.
    - inversion E2; subst; destruct Hx. }
  destruct (match n_ondone (nd m s) with Some t0 => _ | None => Some [] end) as [l3|] eqn:E3; [|discriminate].
  assert (H3 : forall x, In x l3 -> In x (match n_ondone (nd m s) with Some t0 => [t0] | None => [] end)).
  { intros x Hx. destruct (n_ondone (nd m s)) as [t0|]; [|inversion E3; subst; destruct Hx].
    destruct (String.eqb (t_event t0) (e_type ev)); [eapply filter_pass_In; eassumption | inversion E3; subst; destruct Hx]. }
  destruct (match e_kind ev with EAfter => _ | _ => Some [] end) as [l4|] eqn:E4; [|discriminate].
  assert (H4 : forall x, In x l4 -> In x (List.concat (map snd (n_after (nd m s))))).
  { intros x Hx. destruct (e_kind ev); try (inversion E4; subst; destruct Hx).
    apply (filter_pass_In _ _ _ _ E4) in Hx. now apply filter_In in Hx as [Hx _]. }
  destruct (match e_kind ev with EDone src => _ | _ => Some [] end) as [l5|] eqn:E5; [|discriminate].
  assert (H5 : forall x, In x l5 -> In x (List.concat (map (fun i => i_ondone i ++ i_onerror i) (n_invoke (nd m s))))).
  { intros x Hx. destruct (e_kind ev) as [| |src]; try (inversion E5; subst; destruct Hx).
    apply (filter_pass_In _ _ _ _ E5) in Hx. apply filter_In in Hx as [Hx _].
    apply in_concat in Hx as [l0 [Hl0 Hx]]. apply in_map_iff in Hl0 as [i [Hi Hin]].
    apply in_concat. exists (i_ondone i ++ i_onerror i).
    split; [apply (in_map (fun j => i_ondone j ++ i_onerror j)); exact Hin|].
    destruct (String.eqb src (i_id i)); subst; [assumption | destruct Hx]. }
  inversion H; subst.
  repeat (apply in_app_or in Ht as [Ht|Ht]); rewrite !in_app_iff; auto.
Qed.

Lemma twf_src m s t : twf m = true -> s < size m -> In t (node_trans (nd m s)) -> t_src t = s.
Proof.
  unfold twf. rewrite forallb_forall. intros H Hs Ht.
  assert (Hin : In s (seq 0 (size m))) by (apply in_seq; lia).
  specialize (H s Hin). rewrite forallb_forall in H. now apply Nat.eqb_eq, H.
Qed.

(* ---------- the per-leaf winner: nearest ancestor-or-self with an enabled candidate, first one ---------- *)

From Coq Require Import Sorting.Sorted.

Definition src_ok (f : trans -> option bool) (m : machine) (ev : event) (chain : list nat) : Prop :=
  forall s l b t, In s chain -> cands_state f m ev s = Some (l, b) -> In t l -> t_src t = s.

Definition depth_desc (m : machine) (chain : list nat) : Prop :=
  StronglySorted (fun a b => depth m b < depth m a) chain.

Lemma collect_chain_src f m ev chain el t :
  src_ok f m ev chain -> collect_chain f m ev chain = Some el -> In t el -> In (t_src t) chain.
Proof.
  revert el; induction chain as [|s r IH]; intros el Hok H Ht; simpl in H.
  - inversion H; subst. destruct Ht.
  - destruct (cands_state f m ev s) as [[l b]|] eqn:E; [|discriminate].
    assert (Hs : forall x, In x l -> t_src x = s) by (intros x Hx; eapply (Hok s l b x); [now left | exact E | exact Hx]).
    assert (Hok' : src_ok f m ev r) by (intros s' l' b' t' Hs'; apply Hok; now right).
    destruct b.
    + inversion H; subst. left. symmetry. now apply Hs.
    + destruct (collect_chain f m ev r) as [l'|] eqn:E'; [|discriminate]. inversion H; subst.
      apply in_app_or in Ht as [Ht|Ht]; [left; symmetry; now apply Hs | right; now apply (IH l')].
Qed.

Theorem collect_chain_winner f m ev chain el w :
  src_ok f m ev chain -> depth_desc m chain ->
  collect_chain f m ev chain = Some el ->
  first_max (fun t => depth m (t_src t)) el = Some w ->
  exists pre s post l b,
    chain = pre ++ s :: post
    /\ (forall x, In x pre -> cands_state f m ev x = Some ([], false))
    /\ cands_state f m ev s = Some (w :: l, b)
    /\ t_src w = s.
Proof.
  revert el; induction chain as [|s r IH]; intros el Hok Hd H Hw; simpl in H.
  - inversion H; subst. discriminate.
  - destruct (cands_state f m ev s) as [[l b]|] eqn:E; [|discriminate].
    assert (Hs : forall x, In x l -> t_src x = s) by (intros x Hx; eapply (Hok s l b x); [now left | exact E | exact Hx]).
    assert (Hok' : src_ok f m ev r) by (intros s' l' b' t' Hs'; apply Hok; now right).
    inversion Hd as [|? ? Hd' Hall]; subst.
    destruct l as [|t l0].
    + (* nothing eligible here: the winner comes from further up *)
      destruct b; [inversion H; subst; discriminate|].
      destruct (collect_chain f m ev r) as [l'|] eqn:E'; [|discriminate].
      assert (Hel : el = l') by (inversion H; reflexivity). subst el.
      destruct (IH l' Hok' Hd' eq_refl Hw) as [pre [s' [post [l1 [b1 [Hc [Hpre [Hcs Hsrc]]]]]]]].
      exists (s :: pre), s', post, l1, b1. split; [now rewrite Hc|]. split; [|now split].
      intros x [<-|Hx]; [exact E | now apply Hpre].
    + (* this state has eligible candidates: its first one wins *)
      assert (Hwin : first_max (fun t => depth m (t_src t)) el = Some t).
      { destruct b.
        - inversion H; subst. rewrite <- (app_nil_r (t :: l0)).
          apply first_max_block with (k := depth m s); [intros x Hx; now rewrite (Hs x Hx) | intros x []].
        - destruct (collect_chain f m ev r) as [l'|] eqn:E'; [|discriminate]. inversion H; subst.
          apply first_max_block with (k := depth m s); [intros x Hx; now rewrite (Hs x Hx)|].
          intros x Hx. assert (Hr : In (t_src x) r) by (eapply collect_chain_src; eassumption).
          rewrite Forall_forall in Hall. now apply Hall. }
      rewrite Hwin in Hw. inversion Hw; subst w.
      exists [], s, r, l0, b. split; [reflexivity|]. split; [intros x []|]. split; [exact E | apply Hs; now left].
Qed.

(* ---------- on well-formed machines ---------- *)
From XSM Require Import Proofs.TreeP.
From Coq Require Import Permutation.

Lemma src_ok_twf f m ev chain :
  twf m = true -> (forall s, In s chain -> s < size m) -> src_ok f m ev chain.
Proof.
  intros Ht Hlt s l b t Hs Hc Hin. eapply twf_src; [exact Ht | now apply Hlt | eapply cands_state_In; eassumption].
Qed.

(* the per-leaf winner is the FIRST enabled candidate of the NEAREST ancestor-or-self that has one *)
Theorem winner_spec f m ev leaf el w :
  wf m = true -> twf m = true -> leaf < size m ->
  collect f m ev leaf = Some el ->
  first_max (fun t => depth m (t_src t)) el = Some w ->
  exists pre s post l b,
    anc_self m leaf = pre ++ s :: post
    /\ (forall x, In x pre -> cands_state f m ev x = Some ([], false))
    /\ cands_state f m ev s = Some (w :: l, b)
    /\ t_src w = s.
Proof.
  intros Hwf Ht Hl Hc Hw. unfold collect in Hc.
  eapply collect_chain_winner; [| | exact Hc | exact Hw].
  - apply src_ok_twf; [assumption|]. intros s Hs. eapply anc_self_lt_size; eassumption.
  - now apply anc_self_sorted.
Qed.

(* a forbidden entry under a matching descriptor stops the upward walk: nothing above it is consulted *)
Lemma on_bucket_forbidden f t r : t_forbidden t = true -> on_bucket f (t :: r) = Some ([], true).
Proof. intros H. simpl. now rewrite H. Qed.

Theorem forbidden_stops f m ev pre s post l :
  cands_state f m ev s = Some (l, true) ->
  collect_chain f m ev (pre ++ s :: post) = collect_chain f m ev (pre ++ [s]).
Proof.
  intros H. induction pre as [|x r IH]; simpl.
  - now rewrite H.
  - destruct (cands_state f m ev x) as [[lx bx]|]; [|reflexivity]. destruct bx; [reflexivity|]. now rewrite IH.
Qed.

(* each selected transition is selected once *)
Lemma ins_trans_perm m t l : Permutation (t :: l) (ins_trans m t l).
Proof.
  induction l as [|y r IH]; simpl; [reflexivity|].
  destruct (Nat.ltb _ _); [|reflexivity]. rewrite perm_swap. now apply perm_skip.
Qed.
Lemma sort_trans_perm m l : Permutation l (sort_trans m l).
Proof.
  induction l as [|x l IH]; simpl; [constructor|].
  etransitivity; [apply perm_skip, IH | apply ins_trans_perm].
Qed.

Theorem select_once m f C ev out : select_with m f C ev = Some out -> NoDup (map t_id out).
Proof.
  unfold select_with. destruct (sel_loop _ _ _ _ _ _) as [l|] eqn:E; [|discriminate].
  intros H. inversion H; subst.
  eapply Permutation_NoDup; [apply Permutation_map, sort_trans_perm|].
  eapply sel_loop_ids; [exact E | constructor | intros t []].
Qed.

(* every selected transition is the winner of some active leaf *)
Lemma sel_loop_from m f ev ls seen acc out t :
  sel_loop m f ev ls seen acc = Some out -> In t out ->
  In t acc \/ exists leaf el, In leaf ls /\ collect f m ev leaf = Some el
                              /\ first_max (fun t => depth m (t_src t)) el = Some t.
Proof.
  revert seen acc; induction ls as [|l r IH]; intros seen acc H Ht; simpl in H.
  - inversion H; subst. now left.
  - destruct (collect f m ev l) as [el|] eqn:Ec; [|discriminate].
    destruct (first_max _ el) as [w|] eqn:Ew.
    + destruct (mem (t_id w) seen).
      * destruct (IH _ _ H Ht) as [Ha|[lf [e [Hl He]]]]; [now left | right; exists lf, e; split; [now right | assumption]].
      * destruct (IH _ _ H Ht) as [Ha|[lf [e [Hl He]]]].
        -- apply in_app_or in Ha as [Ha|[<-|[]]]; [now left|]. right. exists l, el. split; [now left | now split].
        -- right. exists lf, e. split; [now right | assumption].
    + destruct (IH _ _ H Ht) as [Ha|[lf [e [Hl He]]]]; [now left | right; exists lf, e; split; [now right | assumption]].
Qed.

Theorem selected_is_winner m f C ev out t :
  select_with m f C ev = Some out -> In t out ->
  exists leaf el, In leaf (leaves m C) /\ collect f m ev leaf = Some el
                  /\ first_max (fun t => depth m (t_src t)) el = Some t.
Proof.
  unfold select_with. destruct (sel_loop _ _ _ _ _ _) as [l|] eqn:E; [|discriminate].
  intros H Ht. inversion H; subst.
  assert (Ht' : In t l) by (eapply Permutation_in; [symmetry; apply sort_trans_perm | exact Ht]).
  destruct (sel_loop_from _ _ _ _ _ _ _ _ E Ht') as [[]|[leaf [el [Hl He]]]].
  exists leaf, el. split; [|assumption].
  assert (Hp : Permutation (leaves m C) (sort_by (lt_negdepth_id m) (leaves m C))).
  { clear. generalize (leaves m C). intros l. unfold sort_by. induction l as [|x l IH]; simpl; [constructor|].
    etransitivity; [apply perm_skip, IH|]. clear IH. generalize (fold_right (insert_by (lt_negdepth_id m)) [] l). intros l'.
    induction l' as [|y r IH']; simpl; [reflexivity|]. destruct (lt_negdepth_id m y x); [|reflexivity].
    rewrite perm_swap. now apply perm_skip. }
  eapply Permutation_in; [symmetry; exact Hp | exact Hl].
Qed.
