(* After-timers and invoked services as activation records on the virtual clock (properties C08, C09) *)
From XSM Require Import Model.Macro Proofs.StepP.
From Coq Require Import Lia.

(* leaving a state cancels every timer and service it owns, and nothing else *)
Lemma cancel_spec x s :
  let s' := fst (cancel x s) in
  (forall p, In p (s_pending s') <-> In p (s_pending s) /\ p_owner p <> x) /\ snd (cancel x s) = None.
Proof.
  unfold cancel, lift. simpl. split; [|reflexivity]. intros p. rewrite filter_In.
  split; intros [H1 H2]; (split; [exact H1|]).
  - apply negb_true_iff in H2. now apply Nat.eqb_neq in H2.
  - apply negb_true_iff. apply Nat.eqb_neq. exact H2.
Qed.

(* arming: a timer created at entry is due exactly `delay` after the instant of entry (the delay is resolved then) *)
Lemma arm_spec x due k s :
  s_pending (arm x due k s) = s_pending s ++ [{| p_owner := x; p_due := due; p_seq := s_seq s; p_kind := k |}]
  /\ s_seq (arm x due k s) = S (s_seq s).
Proof. split; reflexivity. Qed.

(* an expiry is delivered at most once: it is removed from the table before it is delivered *)
Lemma drop_pend_removes p s : forall q, In q (s_pending (drop_pend p s)) -> p_seq q <> p_seq p.
Proof.
  intros q H. unfold drop_pend in H. simpl in H. apply filter_In in H as [_ H].
  apply negb_true_iff in H. now apply Nat.eqb_neq in H.
Qed.

(* sync engine: an expiry whose state is no longer active (or whose interpreter is not running) delivers nothing,
   whatever happened to its cancellation *)
Lemma sync_expiry_inactive ty p s :
  p_kind p = PAfter ty -> (mem (p_owner p) (s_cfg s) = false \/ s_status s <> Running) -> deliver Sync p s = s.
Proof.
  intros Hk H. unfold deliver. rewrite Hk. destruct (s_status s) eqn:E; try reflexivity.
  destruct H as [H|H]; [now rewrite H | congruence].
Qed.

(* an expiry only ever queues an AfterEvent of its own type (async: unless the interpreter has finished) *)
Lemma expiry_queues_after eng ty p s :
  p_kind p = PAfter ty ->
  s_queue (deliver eng p s) = s_queue s \/ s_queue (deliver eng p s) = s_queue s ++ [{| e_type := ty; e_kind := EAfter; e_tag := 0 |}].
Proof.
  intros Hk. unfold deliver. rewrite Hk.
  assert (Hs : forall e ev s0, s_queue (send_self e ev s0) = s_queue s0 \/ s_queue (send_self e ev s0) = s_queue s0 ++ [ev]).
  { intros e ev s0. unfold send_self. destruct (accepts e (s_status s0)); auto. }
  destruct eng; try apply Hs; (destruct (s_status s); auto; destruct (mem _ _); auto; apply Hs).
Qed.

(* a finished service delivers exactly one completion event, done (it returned) or error (it raised), carrying
   its invoke id; a failure nobody handles puts the machine into the error status *)
Lemma completion_delivers eng iid ok val handled p s :
  p_kind p = PSvc iid ok val handled -> accepts eng (s_status s) = true ->
  s_queue (deliver eng p s) = s_queue s ++ [svc_event iid ok].
Proof.
  intros Hk Ha. unfold deliver. rewrite Hk. unfold send_self. rewrite Ha.
  destruct (ok || handled); [reflexivity|]. unfold fail_machine. simpl. destruct (s_status s); reflexivity.
Qed.

Lemma unhandled_failure_fails eng iid val p s :
  p_kind p = PSvc iid false val false -> s_status s = Running -> s_status (deliver eng p s) = Errored.
Proof.
  intros Hk Hr. unfold deliver. rewrite Hk. simpl. unfold fail_machine.
  assert (Hst : s_status (send_self eng (svc_event iid false) s) = Running).
  { unfold send_self. destruct (accepts eng (s_status s)); simpl; exact Hr. }
  rewrite Hst. reflexivity.
Qed.

Lemma handled_failure_keeps_running eng iid val p s :
  p_kind p = PSvc iid false val true -> s_status (deliver eng p s) = s_status s.
Proof.
  intros Hk. unfold deliver. rewrite Hk. simpl. unfold send_self. destruct (accepts eng (s_status s)); reflexivity.
Qed.
