(* Proofs about Model/Match.v (property C20) *)
From XSM Require Import Model.Match Proofs.PyLibP.
From Coq Require Import Lia Sorting.Sorted Permutation.

(* k is a partial descriptor "p.*" that covers ev: ev = p or ev begins "p." *)
Definition is_partial_for (ev k : string) : Prop :=
  exists p, k = (p ++ ".*")%string /\ (ev = p \/ exists r, ev = (p ++ "." ++ r)%string).

Lemma in_list_spec x l : in_list x l = true <-> In x l.
Proof.
  unfold in_list. rewrite existsb_exists. split.
  - intros [y [Hy E]]. apply String.eqb_eq in E. now subst.
  - intros H. exists x. split; [exact H | apply String.eqb_refl].
Qed.

Lemma partial_matches_spec ev k : partial_matches ev k = true <-> is_partial_for ev k.
Proof.
  unfold partial_matches, is_partial_for. split.
  - intros H. apply andb_prop in H as [H1 H3]. apply andb_prop in H1 as [_ H2].
    apply endswith_spec in H2 as [p Hp]. exists p. split; [exact Hp|].
    subst k. change 2 with (String.length ".*") in H3. rewrite drop_last_app in H3.
    apply orb_prop in H3 as [H3|H3].
    + left. now apply String.eqb_eq.
    + right. apply startswith_spec in H3 as [r Hr]. exists r. now rewrite Hr, append_assoc.
  - intros [p [Hk Hev]]. subst k.
    assert (Hne : String.eqb (p ++ ".*") "*" = false).
    { apply String.eqb_neq. intro E. apply (f_equal String.length) in E.
      rewrite length_append in E. simpl in E. lia. }
    rewrite Hne. simpl negb. rewrite andb_true_l.
    assert (He : endswith (p ++ ".*") ".*" = true) by (apply endswith_spec; now exists p).
    rewrite He, andb_true_l.
    change 2 with (String.length ".*"). rewrite drop_last_app.
    destruct Hev as [->|[r ->]].
    + now rewrite String.eqb_refl.
    + apply orb_true_intro. right. apply startswith_spec. exists r. now rewrite append_assoc.
Qed.

Lemma exact_part_In keys ev k : In k (exact_part keys ev) <-> k = ev /\ In ev keys.
Proof.
  unfold exact_part. destruct (in_list ev keys) eqn:E.
  - apply in_list_spec in E. simpl. intuition.
  - simpl. split; [tauto|]. intros [_ H]. apply in_list_spec in H. congruence.
Qed.

Lemma star_part_In keys k : In k (star_part keys) <-> k = "*"%string /\ In "*"%string keys.
Proof.
  unfold star_part. destruct (in_list "*" keys) eqn:E.
  - apply in_list_spec in E. simpl. intuition.
  - simpl. split; [tauto|]. intros [_ H]. apply in_list_spec in H. congruence.
Qed.

Lemma partial_part_In keys ev k : In k (partial_part keys ev) <-> In k keys /\ is_partial_for ev k.
Proof.
  unfold partial_part. rewrite sort_len_rev_In, filter_In, partial_matches_spec. tauto.
Qed.

Lemma matching_sound keys ev k :
  In k (matching keys ev) -> In k keys /\ (k = ev \/ is_partial_for ev k \/ k = "*"%string).
Proof.
  unfold matching. destruct (negb (truthy_list keys) || negb (truthy_str ev)); [intros []|].
  destruct (is_internal ev).
  - rewrite exact_part_In. intros [-> H]. tauto.
  - rewrite !in_app_iff, exact_part_In, partial_part_In, star_part_In.
    intros [[-> H]|[[H1 H2]|[-> H]]]; tauto.
Qed.

Lemma truthy_str_true ev : ev <> ""%string -> truthy_str ev = true.
Proof. intros H. unfold truthy_str. apply negb_true_iff, String.eqb_neq, H. Qed.

Lemma truthy_list_In {A} (x : A) l : In x l -> truthy_list l = true.
Proof. destruct l; [intros []|reflexivity]. Qed.

Lemma matching_complete keys ev k :
  ev <> ""%string -> is_internal ev = false -> In k keys ->
  (k = ev \/ is_partial_for ev k \/ k = "*"%string) -> In k (matching keys ev).
Proof.
  intros Hev Hint Hk Hc. unfold matching.
  rewrite (truthy_str_true _ Hev), (truthy_list_In _ _ Hk), Hint. simpl.
  rewrite !in_app_iff, exact_part_In, partial_part_In, star_part_In.
  destruct Hc as [->|[H| ->]]; tauto.
Qed.

(* an exact handler is found for internal events too *)
Lemma matching_exact keys ev : ev <> ""%string -> In ev keys -> In ev (matching keys ev).
Proof.
  intros Hev Hk. unfold matching.
  rewrite (truthy_str_true _ Hev), (truthy_list_In _ _ Hk). simpl.
  destruct (is_internal ev); [|rewrite in_app_iff; left]; apply exact_part_In; tauto.
Qed.

Lemma matching_internal keys ev :
  is_internal ev = true -> matching keys ev = if in_list ev keys then [ev] else [].
Proof.
  intros Hint. unfold matching. rewrite Hint.
  destruct keys as [|k keys]; [reflexivity|].
  assert (Hne : truthy_str ev = true).
  { destruct ev; [discriminate Hint | reflexivity]. }
  rewrite Hne. reflexivity.
Qed.

(* --- order --- *)

(* two partial descriptors covering the same event with equal length are equal *)
Lemma app_inj_len a b c d :
  (a ++ c)%string = (b ++ d)%string -> String.length a = String.length b -> a = b.
Proof.
  revert b; induction a as [|x a IH]; intros [|y b] H L; simpl in *; try discriminate; [reflexivity|].
  inversion H; subst. f_equal. apply IH; [assumption | lia].
Qed.

Lemma partial_same_len ev k1 k2 :
  is_partial_for ev k1 -> is_partial_for ev k2 ->
  String.length k1 = String.length k2 -> k1 = k2.
Proof.
  intros [p1 [-> H1]] [p2 [-> H2]] L. rewrite !length_append in L. simpl in L.
  assert (Lp : String.length p1 = String.length p2) by lia.
  f_equal.
  destruct H1 as [E1|[r1 E1]], H2 as [E2|[r2 E2]].
  - congruence.
  - rewrite E1 in E2. apply (f_equal String.length) in E2. rewrite !length_append in E2. simpl in E2. lia.
  - rewrite E2 in E1. apply (f_equal String.length) in E1. rewrite !length_append in E1. simpl in E1. lia.
  - rewrite E1 in E2. eapply app_inj_len; [exact E2 | exact Lp].
Qed.

Definition len_gt (a b : string) : Prop := String.length b < String.length a.

Lemma sorted_strict ev l :
  NoDup l -> (forall k, In k l -> is_partial_for ev k) -> Sorted len_ge l -> StronglySorted len_gt l.
Proof.
  intros Hnd Hp Hs.
  apply Sorted_StronglySorted in Hs; [| intros a b c; unfold len_ge; lia].
  induction Hs as [|a l Hs IH Hall]; [constructor|].
  inversion Hnd; subst. constructor.
  - apply IH; [assumption | intros k Hk; apply Hp; now right].
  - rewrite Forall_forall in *. intros b Hb. specialize (Hall b Hb). unfold len_ge in Hall. unfold len_gt.
    destruct (Nat.eq_dec (String.length a) (String.length b)) as [E|NE]; [|lia].
    exfalso. assert (a = b) by (apply (partial_same_len ev); [apply Hp; now left | apply Hp; now right | exact E]).
    subst. contradiction.
Qed.

Lemma partial_part_strict keys ev : NoDup keys -> StronglySorted len_gt (partial_part keys ev).
Proof.
  intros Hnd. apply (sorted_strict ev).
  - apply sort_len_rev_NoDup, NoDup_filter, Hnd.
  - intros k Hk. now apply partial_part_In in Hk.
  - apply sort_len_rev_sorted.
Qed.

(* the shape of the answer: exact, then partials longest first, then "*" *)
Lemma matching_order keys ev :
  NoDup keys ->
  exists E P S, matching keys ev = E ++ P ++ S
    /\ (E = [] \/ E = [ev])
    /\ (forall k, In k P -> In k keys /\ is_partial_for ev k)
    /\ StronglySorted len_gt P
    /\ (S = [] \/ S = ["*"%string]).
Proof.
  intros Hnd. unfold matching.
  destruct (negb (truthy_list keys) || negb (truthy_str ev)).
  - exists [], [], []. split; [reflexivity|]. split; [now left|]. split; [intros k []|].
    split; [constructor | now left].
  - destruct (is_internal ev).
    + exists (exact_part keys ev), [], []. rewrite app_nil_r. split; [reflexivity|].
      split; [unfold exact_part; destruct (in_list ev keys); auto|].
      split; [intros k []|]. split; [constructor | now left].
    + exists (exact_part keys ev), (partial_part keys ev), (star_part keys). split; [reflexivity|].
      split; [unfold exact_part; destruct (in_list ev keys); auto|].
      split; [intros k Hk; now apply partial_part_In in Hk|].
      split; [now apply partial_part_strict|].
      unfold star_part; destruct (in_list "*" keys); auto.
Qed.
