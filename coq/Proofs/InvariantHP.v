(* Legality as an invariant of whole runs, HISTORY TARGETS INCLUDED (property C01).
   Proofs/InvariantP.v proves the invariant for machines none of whose transitions targets the root or a history
   pseudo-state.  Here the invariant is strengthened with what the history store holds (`HistOK`: every remembered list
   is the set of proper descendants of its parent in some legal configuration) and history targets are allowed: for
   every well-formed machine none of whose transitions targets the machine root, and whose history pseudo-states have
   sane default targets (`hist_static_ok`), every configuration observed between transitions is legal. *)
From XSM Require Import Model.Macro Proofs.TreeP Proofs.GuardP Proofs.StepP Proofs.LegalP Proofs.DescentP Proofs.EffectP
     Proofs.PreserveP Proofs.SelectP Proofs.FaultP Proofs.ExecP Proofs.FrameP Proofs.TreeEntryP Proofs.HistoryP Proofs.InvariantP.
From Coq Require Import Lia.

(* every transition targets a state of the machine (ANY state: the root restarts the machine); a targeted history
   pseudo-state is statically sane *)
Definition target_okh (m : machine) (t : trans) : Prop :=
  match t_target t with
  | TState g => g < size m /\ (is_history m g = true -> hist_static_ok m g)
  | _ => True
  end.
Definition safe_targets_h (m : machine) : Prop := forall s t, s < size m -> In t (node_trans (nd m s)) -> target_okh m t.

Definition hist_static_okb (m : machine) (h : nat) : bool :=
  match n_hist_default (nd m h) with
  | Some t => Nat.ltb t (size m) && negb (is_history m t) && match parent m h with Some p => mem p (ancestors m t) | None => true end
  | None => true
  end
  && match parent m h with
     | Some p => match n_initial (nd m p) with Some i => negb (is_history m i) | None => true end
     | None => true
     end.
Definition target_okhb (m : machine) (t : trans) : bool :=
  match t_target t with
  | TState g => Nat.ltb g (size m) && (negb (is_history m g) || hist_static_okb m g)
  | _ => true
  end.
Definition safe_targets_hb (m : machine) : bool :=
  forallb (fun s => forallb (target_okhb m) (node_trans (nd m s))) (seq 0 (size m)).

Lemma hist_static_okb_ok m h : hist_static_okb m h = true -> hist_static_ok m h.
Proof.
  unfold hist_static_okb, hist_static_ok. intros H. apply andb_prop in H as [H1 H2]. split.
  - intros t Ht. rewrite Ht in H1. apply andb_prop in H1 as [H1 H3]. apply andb_prop in H1 as [H0 H1].
    split; [now apply Nat.ltb_lt|]. split; [now apply negb_true_iff|]. intros p Hp. rewrite Hp in H3. now apply mem_In.
  - intros p i Hp Hi. rewrite Hp, Hi in H2. now apply negb_true_iff.
Qed.

Lemma safe_targets_hb_ok m : safe_targets_hb m = true -> safe_targets_h m.
Proof.
  unfold safe_targets_hb. rewrite forallb_forall. intros H s t Hs Ht.
  assert (Hin : In s (seq 0 (size m))) by (apply in_seq; lia). specialize (H s Hin). rewrite forallb_forall in H. specialize (H t Ht).
  unfold target_okhb in H. unfold target_okh. destruct (t_target t) as [|g|]; try exact I.
  apply andb_prop in H as [H1 H3].
  split; [now apply Nat.ltb_lt|].
  intros Hh. rewrite Hh in H3. simpl in H3. now apply hist_static_okb_ok.
Qed.

(* the earlier side condition is a special case *)
Lemma safe_targets_weaken m : safe_targets m -> safe_targets_h m.
Proof.
  intros H s t Hs Ht. specialize (H s t Hs Ht). unfold target_ok in H. unfold target_okh. destruct (t_target t) as [|g|]; try exact I.
  destruct H as [H1 [H2 H3]]. split; [exact H1|]. intros Hh. congruence.
Qed.

Section InvariantH.
  Variable m : machine.
  Hypothesis Hwf : wf m = true.
  Hypothesis Htwf : twf m = true.
  Hypothesis Hgood : good_initials m = true.
  Hypothesis Hsafe : safe_targets_h m.

  Definition Inv (s : st) : Prop := Legal m (s_cfg s) /\ HistOK m (s_hist s).

  Lemma inv_same s s' : same_cfg s s' -> Inv s -> Inv s'.
  Proof. intros [Hc Hh] H. unfold Inv. now rewrite Hc, Hh. Qed.

  (* one transition, whether it completes or aborts *)
  Lemma exec_transition_inv eng pr t ev s :
    Inv s -> In (t_src t) (s_cfg s) -> target_okh m t -> Inv (fst (exec_transition eng pr m t ev s)).
  Proof.
    intros HI Hsrc Hok. unfold exec_transition.
    assert (Hint : Inv (fst (((fun s0 => exec_actions eng pr (t_actions t) ev s0) ;; hook_trans t) s))).
    { unfold bind. pose proof (exec_actions_same eng pr (t_actions t) ev s) as Ha.
      destruct (exec_actions eng pr (t_actions t) ev s) as [s1 [e|]]; simpl in *; [now apply (inv_same s)|].
      apply (inv_same s); [|exact HI]. eapply same_cfg_trans; [exact Ha | apply logo_same]. }
    unfold target_okh in Hok. destruct (t_target t) as [|tgt|]; [exact Hint | | exact HI].
    destruct (Nat.eqb tgt (t_src t) && negb (t_reenter t)); [exact Hint|].
    destruct Hok as [Ht Hst]. destruct HI as [HL HH].
    split; [|now apply external_keeps_histok].
    destruct (exec_external eng pr m t tgt ev s) as [s1 [e|]] eqn:E; simpl.
    - rewrite (abort_restores_configuration eng pr m t tgt ev s s1 e E). exact HL.
    - destruct (Nat.eq_dec tgt 0) as [->|Hne]; [now apply (root_transition_legal m Hwf Hgood eng pr t ev s s1)|].
      destruct (is_history m tgt) eqn:Hh.
      + now apply (history_transition_legal m Hwf Hgood eng pr t tgt ev s s1 HL HH Hsrc Ht Hh (Hst eq_refl)).
      + now apply (transition_preserves_legal m Hwf Hgood eng pr t tgt ev s s1).
  Qed.

  (* a selected transition's source is an ancestor-or-self of an active leaf: active, in a legal configuration *)
  Lemma selected_source_active s ev ts t :
    Inv s -> select m (s_cfg s) (s_ctx s) ev = Some ts -> In t ts -> In (t_src t) (s_cfg s) /\ target_okh m t.
  Proof.
    intros [HI _] Hsel Ht. unfold select in Hsel.
    destruct (selected_is_winner m _ (s_cfg s) ev ts t Hsel Ht) as [leaf [el [Hleaf [Hcol Hmax]]]].
    assert (HleafC : In leaf (s_cfg s)).
    { unfold leaves in Hleaf. destruct (filter (is_leaf m) (s_cfg s)) eqn:Ef; [exact Hleaf|]. rewrite <- Ef in Hleaf. apply filter_In in Hleaf. tauto. }
    assert (Hls : leaf < size m) by now apply (L_range m _ HI).
    destruct (winner_spec _ m ev leaf el t Hwf Htwf Hls Hcol Hmax) as [pre [s0 [post [l [b [Hanc [_ [Hcs Hsrc]]]]]]]].
    assert (Hs0 : In s0 (anc_self m leaf)) by (rewrite Hanc; apply in_or_app; right; now left).
    split.
    - rewrite Hsrc. apply (Legal_closed m _ HI leaf s0 HleafC Hs0).
    - apply (Hsafe s0 t); [now apply (anc_self_lt_size m Hwf leaf s0 Hls)|]. apply (cands_state_In _ m ev s0 (t :: l) b t Hcs). now left.
  Qed.

  (* one event *)
  Theorem process_event_inv eng pr ev s : Inv s -> Inv (fst (process_event eng pr m ev s)).
  Proof.
    intros HI. unfold process_event. destruct (select m (s_cfg s) (s_ctx s) ev) as [ts|] eqn:Hsel; [|exact HI].
    assert (Hall : forall t, In t ts -> target_okh m t) by (intros t Ht; now destruct (selected_source_active s ev ts t HI Hsel Ht)).
    assert (Hfirst : forall t, In t ts -> In (t_src t) (s_cfg s)) by (intros t Ht; now destruct (selected_source_active s ev ts t HI Hsel Ht)).
    (* either the guard re-checks the source, or there is a single transition and nothing ran before it *)
    assert (Hloop : forall l s0, (forall t, In t l -> In t ts) -> Inv s0 ->
              (Nat.ltb 1 (List.length ts) = true \/ (forall t, In t l -> In (t_src t) (s_cfg s0)) /\ List.length l <= 1) ->
              Inv (fst (for_each (fun t s' => if Nat.ltb 1 (List.length ts) && negb (mem (t_src t) (s_cfg s')) then (s', None)
                                                 else exec_transition eng pr m t ev s') l s0))).
    { induction l as [|t r IHl]; intros s0 Hsub HI0 Hcase; [exact HI0|].
      cbn [for_each]. unfold bind.
      assert (Hstep : Inv (fst ((if Nat.ltb 1 (List.length ts) && negb (mem (t_src t) (s_cfg s0)) then (s0, None) else exec_transition eng pr m t ev s0)))).
      { destruct (Nat.ltb 1 (List.length ts)) eqn:El; simpl.
        - destruct (mem (t_src t) (s_cfg s0)) eqn:Em; simpl; [|exact HI0].
          apply exec_transition_inv; [exact HI0 | now apply mem_In | apply Hall, Hsub; now left].
        - destruct Hcase as [Hc|[Hc _]]; [discriminate|].
          apply exec_transition_inv; [exact HI0 | apply Hc; now left | apply Hall, Hsub; now left]. }
      destruct (if Nat.ltb 1 (List.length ts) && negb (mem (t_src t) (s_cfg s0)) then (s0, None) else exec_transition eng pr m t ev s0) as [s1 [e|]]; [exact Hstep|].
      apply IHl; [intros x Hx; apply Hsub; now right | exact Hstep|].
      destruct Hcase as [Hc|[_ Hlen]]; [now left|]. right. simpl in Hlen. destruct r; [|simpl in Hlen; lia]. split; [intros x []|simpl; lia]. }
    apply Hloop; [auto | exact HI|].
    destruct (Nat.ltb 1 (List.length ts)) eqn:El; [now left|]. right. split; [exact Hfirst | apply Nat.ltb_ge in El; exact El].
  Qed.

  (* settling the eventless transitions *)
  Lemma settle_inv eng pr : forall n s, Inv s -> Inv (fst (settle n eng pr m s)).
  Proof.
    induction n as [|n IH]; intros s HI; simpl; [exact HI|].
    destruct (select m (s_cfg s) (s_ctx s) transient_event); [|exact HI].
    destruct (existsb _ _); [|exact HI]. unfold bind.
    pose proof (process_event_inv eng pr transient_event s HI) as H1.
    destruct (process_event eng pr m transient_event s) as [s1 [e|]]; simpl in *; [exact H1 | now apply IH].
  Qed.

  (* draining the queue *)
  Lemma drain_inv eng : forall n s, Inv s -> Inv (fst (drain n eng m s)).
  Proof.
    induction n as [|n IH]; intros s HI; simpl.
    - destruct (s_queue s); exact HI.
    - destruct (s_queue s) as [|ev q]; [exact HI|]. unfold bind at 1. simpl.
      set (s1 := logo _ (logo _ (with_queue q s))).
      assert (H1 : Inv s1) by exact HI.
      unfold bind at 1. pose proof (process_event_inv eng true ev s1 H1) as H2.
      destruct (process_event eng true m ev s1) as [s2 [e|]]; simpl in *; [exact H2|].
      unfold bind. pose proof (settle_inv eng true (m_max_iter m) s2 H2) as H3.
      destruct (settle (m_max_iter m) eng true m s2) as [s3 [e|]]; simpl in *; [exact H3 | now apply IH].
  Qed.

  Theorem send_inv eng ev s : Inv s -> Inv (fst (sync_send_with eng m ev s)).
  Proof. intros HI. unfold sync_send_with. destruct (s_status s); try exact HI. now apply drain_inv. Qed.

  Theorem send_events_inv evs s : Inv s -> Inv (fst (sync_send_events m evs s)).
  Proof. intros HI. unfold sync_send_events. destruct (s_status s); try exact HI. now apply drain_inv. Qed.

  (* start(): if the initial entry does not fail, the interpreter is left in a legal configuration *)
  Theorem start_inv eng cx s' : sync_start_with eng m (st_init cx) = (s', None) -> Inv s'.
  Proof.
    intros H. unfold sync_start_with in H. simpl in H.
    apply bind_ok in H as [s1 [H1 H]]. inversion H1; subst s1; clear H1.
    apply bind_ok in H as [s2 [H2 H]].
    assert (I2 : Inv s2).
    { split; [apply (initial_entry_legal m Hwf Hgood eng true None (logo OStarted (with_status Running None (st_init cx))) s2); [reflexivity | exact H2]|].
      pose proof (f_enter same_hist same_hist_prims eng true m [0] None (logo OStarted (with_status Running None (st_init cx)))) as K.
      rewrite H2 in K. unfold same_hist in K. simpl in K. rewrite K. apply histok_nil. }
    apply bind_ok in H as [s3 [H3 H]].
    assert (I3 : Inv s3) by (pose proof (settle_inv eng true (m_max_iter m) s2 I2) as K; rewrite H3 in K; exact K).
    apply bind_ok in H as [s4 [H4 H]].
    assert (I4 : Inv s4) by (pose proof (drain_inv eng (m_max_iter m) s3 I3) as K; rewrite H4 in K; exact K).
    inversion H; subst. exact I4.
  Qed.

  (* a whole run of the sync engine *)
  Theorem sync_run_inv cx evs :
    snd (sync_start m (st_init cx)) = None -> Inv (sync_run m cx evs).
  Proof.
    intros Hs. unfold sync_run.
    assert (I0 : Inv (catch (sync_start m) (st_init cx))).
    { unfold catch. destruct (sync_start m (st_init cx)) as [s0 [e|]] eqn:E; [discriminate|]. now apply (start_inv Sync cx s0). }
    revert I0. generalize (catch (sync_start m) (st_init cx)). induction evs as [|ev r IH]; intros s0 I0; simpl; [exact I0|].
    apply IH. unfold catch. pose proof (send_inv Sync ev s0 I0) as K. unfold sync_send.
    destruct (sync_send_with Sync m ev s0) as [s1 [e|]]; exact K.
  Qed.

  (* ---- the async engine ---- *)
  Lemma async_step_inv ev s : Inv s -> Inv (async_step m ev s).
  Proof.
    intros HI. unfold async_step. destruct (Nat.ltb (m_max_iter m) (s_raise_depth s)); [exact HI|].
    cbv zeta. set (s1 := logo _ (logo _ s)). assert (H1 : Inv s1) by exact HI.
    unfold bind. pose proof (process_event_inv Async true ev s1 H1) as H2.
    destruct (process_event Async true m ev s1) as [s2 [e|]]; simpl in *; [exact H2|].
    pose proof (settle_inv Async true (m_max_iter m) s2 H2) as H3.
    destruct (settle (m_max_iter m) Async true m s2) as [s3 [e|]]; simpl in *; [exact H3|].
    destruct (Nat.eqb _ _); exact H3.
  Qed.

  Lemma async_loop_inv : forall fuel s, Inv s -> Inv (fst (async_loop fuel m s)).
  Proof.
    induction fuel as [|f IH]; intros s HI; simpl; [exact HI|].
    destruct (s_status s); try exact HI. destruct (s_queue s) as [|ev q]; [exact HI|].
    apply IH. now apply async_step_inv.
  Qed.

  Lemma async_send_inv ev s : Inv s -> Inv (async_send ev s).
  Proof. intros HI. unfold async_send. destruct (s_status s); exact HI. Qed.

  Theorem async_start_inv cx s' : async_start m (st_init cx) = (s', None) -> Inv s'.
  Proof.
    intros H. unfold async_start in H. simpl in H.
    match type of H with (match ?b with _ => _ end) = _ => destruct b as [s1 [e|]] eqn:E end; [discriminate|].
    inversion H; subst s1; clear H.
    apply bind_ok in E as [t1 [T1 E]]. inversion T1; subst t1; clear T1.
    apply bind_ok in E as [t2 [T2 E]].
    assert (I2 : Inv t2).
    { split; [apply (initial_entry_legal m Hwf Hgood Async false (Some init_event) (logo OStarted (with_status Running None (st_init cx))) t2); [reflexivity | exact T2]|].
      pose proof (f_enter same_hist same_hist_prims Async false m [0] (Some init_event) (logo OStarted (with_status Running None (st_init cx)))) as K.
      rewrite T2 in K. unfold same_hist in K. simpl in K. rewrite K. apply histok_nil. }
    pose proof (settle_inv Async false (m_max_iter m) t2 I2) as K. rewrite E in K. exact K.
  Qed.

  (* a whole run of the async engine, observed whenever its queue is drained *)
  Theorem async_run_inv fuel cx evs :
    snd (async_start m (st_init cx)) = None -> Inv (fst (async_run fuel m cx evs)).
  Proof.
    intros Hs. unfold async_run.
    assert (I0 : Inv (fst (async_loop fuel m (catch (async_start m) (st_init cx))))).
    { apply async_loop_inv. unfold catch. destruct (async_start m (st_init cx)) as [s0 [e|]] eqn:E; [discriminate|]. now apply (async_start_inv cx s0). }
    revert I0. generalize (async_loop fuel m (catch (async_start m) (st_init cx))). induction evs as [|ev r IH]; intros sb I0; simpl; [exact I0|].
    apply IH. destruct (snd sb); [exact I0|]. apply async_loop_inv, async_send_inv, I0.
  Qed.
End InvariantH.
