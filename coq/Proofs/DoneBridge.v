(* Tie T for completion: WHICH ancestor's onDone fires when a final state is entered, or whether the machine completes -
   the decision taken by _check_and_fire_on_done, in BOTH engines' copies (base_interpreter.py for the asyncio engine,
   sync_interpreter.py), re-translated from the current source on every build with the effects replaced by what they decide
   (Gen/GenGeom.v: on_done_async, on_done_sync) - is the decision of the model's `fire_on_done` (Model/Exec.v). *)
From XSM Require Import Model.TreeLib Gen.GenGeom Proofs.TreeP Proofs.GeomBridge.
From Coq Require Import Lia.

Definition model_decision (m : machine) (C : config) (fin : nat) : on_done_decision :=
  match find (fun a => match n_ondone (nd m a) with Some _ => state_done m C a | None => false end) (ancestors m fin) with
  | Some a => DFire a
  | None => match parent m fin with Some (S _) => DNothing | _ => DComplete end
  end.

(* the model's effectful step is: decide, then act on the decision *)
Lemma fire_on_done_decides eng pr m fin s :
  fire_on_done eng pr m fin s =
  match model_decision m (s_cfg s) fin with
  | DFire a => send_self eng (done_event m a 0) (note_chained eng pr s)
  | DComplete => complete (match m_output m with Some o => Some o | None => n_output (nd m fin) end) s
  | DNothing => s
  end.
Proof.
  unfold fire_on_done, model_decision.
  destruct (find _ (ancestors m fin)); [reflexivity|]. destruct (parent m fin) as [[|p]|]; reflexivity.
Qed.

Lemma chain_more m : forall f o, ends f m o -> chain (S f) m o = chain f m o.
Proof.
  induction f as [|f IH]; intros o He.
  - cbn in He. subst. reflexivity.
  - destruct o as [c|]; [|reflexivity]. cbn [ends] in He. change (c :: chain (S f) m (parent m c) = c :: chain f m (parent m c)).
    now rewrite IH.
Qed.

Section D.
  Variable m : machine.
  Variable C : config.
  Let P := fun a => match n_ondone (nd m a) with Some _ => state_done m C a | None => false end.

  Lemma loop_async fin : forall fuel cur,
    fst (on_done_async_loop1 m C fin fuel cur) = match find P (chain fuel m cur) with Some a => Some (DFire a) | None => None end.
  Proof.
    induction fuel as [|f IH]; intros cur; [reflexivity|]. cbn [on_done_async_loop1 chain]. destruct cur as [c|]; [|reflexivity].
    cbn [find]. unfold P at 1. destruct (n_ondone (nd m c)) as [t|].
    - rewrite state_done_bridge. destruct (state_done m C c); [reflexivity|]. cbn zeta. apply IH.
    - cbn zeta. apply IH.
  Qed.

  Lemma loop_sync fin : forall fuel cur,
    fst (on_done_sync_loop1 m C fin fuel cur) = match find P (chain fuel m cur) with Some a => Some (DFire a) | None => None end.
  Proof.
    induction fuel as [|f IH]; intros cur; [reflexivity|]. cbn [on_done_sync_loop1 chain]. destruct cur as [c|]; [|reflexivity].
    cbn [find]. unfold P at 1. destruct (n_ondone (nd m c)) as [t|].
    - rewrite state_done_bridge. destruct (state_done m C c); [reflexivity|]. cbn zeta. apply IH.
    - cbn zeta. apply IH.
  Qed.

  Hypothesis Hwf : wf m = true.

  Lemma chain_is_ancestors fin : fin < size m -> chain (S (size m)) m (parent m fin) = ancestors m fin.
  Proof.
    intros Hf. unfold ancestors. rewrite anc_fuel_chain. apply chain_more.
    destruct (parent m fin) as [p|] eqn:Hp; [|now destruct (size m)].
    destruct (parent_props m Hwf fin p Hf Hp) as [Hlt _].
    destruct (size m) as [|n] eqn:En; [lia|]. apply ends_wf; [exact Hwf | lia | lia].
  Qed.

  Lemma top_level fin :
    (if opt_eqb (parent m fin) (Some 0) || opt_eqb (parent m fin) None then DComplete else DNothing)
    = match parent m fin with Some (S _) => DNothing | _ => DComplete end.
  Proof. destruct (parent m fin) as [[|p]|]; reflexivity. Qed.

  Theorem on_done_async_bridge fin : fin < size m -> on_done_async m C fin = model_decision m C fin.
  Proof.
    intros Hf. unfold on_done_async, model_decision. cbn zeta.
    pose proof (loop_async fin (S (size m)) (parent m fin)) as H.
    destruct (on_done_async_loop1 m C fin (S (size m)) (parent m fin)) as [r a]. cbn [fst] in H. subst r.
    rewrite (chain_is_ancestors fin Hf). fold P. destruct (find P (ancestors m fin)); [reflexivity|]. apply top_level.
  Qed.

  Theorem on_done_sync_bridge fin : fin < size m -> on_done_sync m C fin = model_decision m C fin.
  Proof.
    intros Hf. unfold on_done_sync, model_decision. cbn zeta.
    pose proof (loop_sync fin (S (size m)) (parent m fin)) as H.
    destruct (on_done_sync_loop1 m C fin (S (size m)) (parent m fin)) as [r a]. cbn [fst] in H. subst r.
    rewrite (chain_is_ancestors fin Hf). fold P. destruct (find P (ancestors m fin)); [reflexivity|]. apply top_level.
  Qed.
End D.
