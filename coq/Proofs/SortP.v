(* Sorting is canonical: the order in which a Python set happens to be iterated does not matter once the result is
   sorted with a total order (properties C16, C12) *)
From XSM Require Import Model.Macro Proofs.TreeP.
From Coq Require Import Lia Permutation Sorting.Sorted.

Section Canon.
  Variable lt : nat -> nat -> bool.
  Variable D : nat -> Prop.                       (* the domain on which lt is a strict total order *)
  Hypothesis lt_irrefl : forall a, lt a a = false.
  Hypothesis lt_trans : forall a b c, D a -> D b -> D c -> lt a b = true -> lt b c = true -> lt a c = true.
  Hypothesis lt_total : forall a b, D a -> D b -> a <> b -> lt a b = true \/ lt b a = true.

  Lemma insert_by_perm x l : Permutation (x :: l) (insert_by lt x l).
  Proof.
    induction l as [|y r IH]; simpl; [reflexivity|].
    destruct (lt y x); [|reflexivity]. rewrite perm_swap. now apply perm_skip.
  Qed.

  Lemma sort_by_perm l : Permutation l (sort_by lt l).
  Proof.
    induction l as [|x l IH]; simpl; [constructor|]. etransitivity; [apply perm_skip, IH | apply insert_by_perm].
  Qed.

  Lemma sort_by_In x l : In x (sort_by lt l) <-> In x l.
  Proof.
    split; intro H; [eapply Permutation_in; [symmetry; apply sort_by_perm | exact H] | eapply Permutation_in; [apply sort_by_perm | exact H]].
  Qed.

  (* "a may come before b" *)
  Definition le_ (a b : nat) : Prop := lt b a = false.

  Lemma insert_by_sorted x l :
    D x -> Forall D l -> StronglySorted le_ l -> StronglySorted le_ (insert_by lt x l).
  Proof.
    intros Dx Dl Hs. induction Hs as [|y r Hs IH Hall]; simpl; [repeat constructor|].
    inversion Dl as [|? ? Dy Dr]; subst.
    destruct (lt y x) eqn:E.
    - constructor; [now apply IH|].
      apply Forall_forall. intros z Hz.
      apply (Permutation_in z (Permutation_sym (insert_by_perm x r))) in Hz.
      destruct Hz as [<-|Hz]; [|rewrite Forall_forall in Hall; now apply Hall].
      unfold le_. destruct (lt x y) eqn:E2; [|reflexivity].
      exfalso. pose proof (lt_trans y x y Dy Dx Dy E E2) as H. rewrite lt_irrefl in H. discriminate.
    - constructor; [now constructor|]. constructor; [exact E|].
      rewrite Forall_forall in *. intros z Hz. specialize (Hall z Hz). unfold le_ in *.
      destruct (lt z x) eqn:E3; [|reflexivity]. exfalso.
      destruct (Nat.eq_dec y z) as [->|Hne]; [congruence|].
      assert (Dz : D z) by now apply Dr.
      destruct (lt_total y z Dy Dz Hne) as [H|H]; [|congruence].
      pose proof (lt_trans y z x Dy Dz Dx H E3). congruence.
  Qed.

  Lemma sort_by_sorted l : Forall D l -> StronglySorted le_ (sort_by lt l).
  Proof.
    induction l as [|x l IH]; intros Dl; simpl; [constructor|].
    inversion Dl; subst. apply insert_by_sorted; [assumption | | now apply IH].
    apply Forall_forall. intros z Hz. apply (proj1 (sort_by_In z l)) in Hz.
    match goal with H : Forall D l |- _ => rewrite Forall_forall in H; now apply H end.
  Qed.

  (* two sorted duplicate-free lists with the same elements are equal *)
  Lemma sorted_unique l1 l2 :
    Forall D l1 -> NoDup l1 -> NoDup l2 -> (forall x, In x l1 <-> In x l2) ->
    StronglySorted le_ l1 -> StronglySorted le_ l2 -> l1 = l2.
  Proof.
    revert l2; induction l1 as [|a r1 IH]; intros l2 Dl N1 N2 Hiff S1 S2.
    - destruct l2 as [|b r2]; [reflexivity|]. exfalso. apply (Hiff b). now left.
    - destruct l2 as [|b r2]; [exfalso; apply (Hiff a); now left|].
      inversion S1 as [|? ? S1' A1]; inversion S2 as [|? ? S2' A2]; subst.
      inversion N1; inversion N2; subst. inversion Dl as [|? ? Da Dr]; subst.
      assert (Hab : a = b).
      { destruct (Nat.eq_dec a b) as [|Hne]; [assumption|]. exfalso.
        assert (Hb : In b r1) by (destruct (proj2 (Hiff b) (or_introl eq_refl)) as [E|E]; [congruence | exact E]).
        assert (Ha : In a r2) by (destruct (proj1 (Hiff a) (or_introl eq_refl)) as [E|E]; [congruence | exact E]).
        rewrite Forall_forall in A1, A2, Dr. pose proof (A1 b Hb) as Hx1. pose proof (A2 a Ha) as Hx2. unfold le_ in *.
        destruct (lt_total a b Da (Dr b Hb) Hne); congruence. }
      subst b. f_equal. apply IH; try assumption.
      intros x. split; intros Hx.
      + destruct (proj1 (Hiff x) (or_intror Hx)) as [E|E]; [subst; contradiction | exact E].
      + destruct (proj2 (Hiff x) (or_intror Hx)) as [E|E]; [subst; contradiction | exact E].
  Qed.

  (* the sort of a set does not depend on the order in which the set was listed *)
  Theorem sort_by_canonical l1 l2 :
    Forall D l1 -> NoDup l1 -> Permutation l1 l2 -> sort_by lt l1 = sort_by lt l2.
  Proof.
    intros Dl N1 P.
    assert (Dl2 : Forall D l2) by (rewrite Forall_forall in *; intros x Hx; apply Dl; eapply Permutation_in; [symmetry; exact P | exact Hx]).
    apply sorted_unique.
    - apply Forall_forall. intros x Hx. apply (proj1 (sort_by_In x l1)) in Hx. rewrite Forall_forall in Dl. auto.
    - eapply Permutation_NoDup; [apply sort_by_perm | exact N1].
    - eapply Permutation_NoDup; [apply sort_by_perm|]. eapply Permutation_NoDup; [exact P | exact N1].
    - intros x. rewrite !sort_by_In. split; intro H; [eapply Permutation_in; [exact P | exact H] | eapply Permutation_in; [symmetry; exact P | exact H]].
    - now apply sort_by_sorted.
    - now apply sort_by_sorted.
  Qed.

  (* sorting is idempotent *)
  Lemma sort_by_idem l : Forall D l -> NoDup l -> sort_by lt (sort_by lt l) = sort_by lt l.
  Proof. intros Dl N. symmetry. apply sort_by_canonical; [assumption | assumption | apply sort_by_perm]. Qed.
End Canon.

(* ---- instance: numeric order (sort_nat) ---- *)
Lemma sort_nat_canonical l1 l2 : NoDup l1 -> Permutation l1 l2 -> sort_nat l1 = sort_nat l2.
Proof.
  intros N P. unfold sort_nat. apply (sort_by_canonical Nat.ltb (fun _ => True)); auto.
  - intros a. apply Nat.ltb_irrefl.
  - intros a b c _ _ _ H1 H2. apply Nat.ltb_lt in H1, H2. apply Nat.ltb_lt. lia.
  - intros a b _ _ Hne. destruct (Nat.lt_gt_cases a b) as [H _]. destruct (H Hne); [left | right]; now apply Nat.ltb_lt.
  - apply Forall_forall. auto.
Qed.

(* ---- instance: the engine's (depth, id) orders, for machines whose state ids are pairwise distinct ---- *)

Lemma ascii_compare_trans a b c : Ascii.compare a b = Lt -> Ascii.compare b c = Lt -> Ascii.compare a c = Lt.
Proof. unfold Ascii.compare. rewrite !N.compare_lt_iff. lia. Qed.

Lemma str_compare_lt_trans s1 : forall s2 s3,
  String.compare s1 s2 = Lt -> String.compare s2 s3 = Lt -> String.compare s1 s3 = Lt.
Proof.
  induction s1 as [|a s1 IH]; intros [|b s2] [|c s3] H1 H2; simpl in *; try discriminate; try reflexivity.
  destruct (Ascii.compare a b) eqn:E1; try discriminate; destruct (Ascii.compare b c) eqn:E2; try discriminate.
  - apply Ascii.compare_eq_iff in E1, E2. subst. rewrite (proj2 (N.compare_eq_iff _ _) eq_refl) || idtac.
    assert (Hcc : Ascii.compare c c = Eq) by (unfold Ascii.compare; apply N.compare_refl). rewrite Hcc. eapply IH; eassumption.
  - apply Ascii.compare_eq_iff in E1. subst. now rewrite E2.
  - apply Ascii.compare_eq_iff in E2. subst. now rewrite E1.
  - now rewrite (ascii_compare_trans a b c E1 E2).
Qed.

Lemma str_ltb_irrefl s : str_ltb s s = false.
Proof.
  unfold str_ltb. assert (H : String.compare s s = Eq).
  { induction s as [|a s IH]; simpl; [reflexivity|]. assert (Ha : Ascii.compare a a = Eq) by (unfold Ascii.compare; apply N.compare_refl). now rewrite Ha. }
  now rewrite H.
Qed.

Lemma str_ltb_trans a b c : str_ltb a b = true -> str_ltb b c = true -> str_ltb a c = true.
Proof.
  unfold str_ltb. destruct (String.compare a b) eqn:E1; try discriminate. destruct (String.compare b c) eqn:E2; try discriminate.
  intros _ _. now rewrite (str_compare_lt_trans a b c E1 E2).
Qed.

Lemma str_ltb_total a b : a <> b -> str_ltb a b = true \/ str_ltb b a = true.
Proof.
  intros Hne. unfold str_ltb. rewrite (String.compare_antisym b a).
  destruct (String.compare a b) eqn:E; simpl; auto. apply String.compare_eq_iff in E. contradiction.
Qed.

Definition ids_distinct (m : machine) : Prop :=
  forall a b, a < size m -> b < size m -> a <> b -> id_of m a <> id_of m b.

Section IdOrders.
  Variable m : machine.
  Hypothesis Hids : ids_distinct m.
  Let D := fun s => s < size m.

  Lemma lt_depth_id_irrefl a : lt_depth_id m a a = false.
  Proof. unfold lt_depth_id. now rewrite Nat.ltb_irrefl, Nat.eqb_refl, str_ltb_irrefl. Qed.

  Lemma lt_depth_id_trans a b c : D a -> D b -> D c ->
    lt_depth_id m a b = true -> lt_depth_id m b c = true -> lt_depth_id m a c = true.
  Proof.
    unfold lt_depth_id. intros _ _ _ H1 H2.
    apply orb_prop in H1 as [H1|H1]; apply orb_prop in H2 as [H2|H2].
    - apply Nat.ltb_lt in H1, H2. apply orb_true_intro. left. apply Nat.ltb_lt. lia.
    - apply andb_prop in H2 as [H2 _]. apply Nat.ltb_lt in H1. apply Nat.eqb_eq in H2. apply orb_true_intro. left. apply Nat.ltb_lt. lia.
    - apply andb_prop in H1 as [H1 _]. apply Nat.ltb_lt in H2. apply Nat.eqb_eq in H1. apply orb_true_intro. left. apply Nat.ltb_lt. lia.
    - apply andb_prop in H1 as [H1 S1]. apply andb_prop in H2 as [H2 S2]. apply Nat.eqb_eq in H1, H2.
      apply orb_true_intro. right. apply andb_true_intro. split; [apply Nat.eqb_eq; lia | eapply str_ltb_trans; eassumption].
  Qed.

  Lemma lt_depth_id_total a b : D a -> D b -> a <> b -> lt_depth_id m a b = true \/ lt_depth_id m b a = true.
  Proof.
    unfold lt_depth_id. intros Da Db Hne.
    destruct (Nat.lt_trichotomy (depth m a) (depth m b)) as [H|[H|H]].
    - left. apply orb_true_intro. left. now apply Nat.ltb_lt.
    - destruct (str_ltb_total (id_of m a) (id_of m b) (Hids a b Da Db Hne)) as [S|S].
      + left. apply orb_true_intro. right. apply andb_true_intro. split; [now apply Nat.eqb_eq | exact S].
      + right. apply orb_true_intro. right. apply andb_true_intro. split; [apply Nat.eqb_eq; lia | exact S].
    - right. apply orb_true_intro. left. now apply Nat.ltb_lt.
  Qed.

  Lemma lt_negdepth_id_irrefl a : lt_negdepth_id m a a = false.
  Proof. unfold lt_negdepth_id. now rewrite Nat.ltb_irrefl, Nat.eqb_refl, str_ltb_irrefl. Qed.

  Lemma lt_negdepth_id_trans a b c : D a -> D b -> D c ->
    lt_negdepth_id m a b = true -> lt_negdepth_id m b c = true -> lt_negdepth_id m a c = true.
  Proof.
    unfold lt_negdepth_id. intros _ _ _ H1 H2.
    apply orb_prop in H1 as [H1|H1]; apply orb_prop in H2 as [H2|H2].
    - apply Nat.ltb_lt in H1, H2. apply orb_true_intro. left. apply Nat.ltb_lt. lia.
    - apply andb_prop in H2 as [H2 _]. apply Nat.ltb_lt in H1. apply Nat.eqb_eq in H2. apply orb_true_intro. left. apply Nat.ltb_lt. lia.
    - apply andb_prop in H1 as [H1 _]. apply Nat.ltb_lt in H2. apply Nat.eqb_eq in H1. apply orb_true_intro. left. apply Nat.ltb_lt. lia.
    - apply andb_prop in H1 as [H1 S1]. apply andb_prop in H2 as [H2 S2]. apply Nat.eqb_eq in H1, H2.
      apply orb_true_intro. right. apply andb_true_intro. split; [apply Nat.eqb_eq; lia | eapply str_ltb_trans; eassumption].
  Qed.

  Lemma lt_negdepth_id_total a b : D a -> D b -> a <> b -> lt_negdepth_id m a b = true \/ lt_negdepth_id m b a = true.
  Proof.
    unfold lt_negdepth_id. intros Da Db Hne.
    destruct (Nat.lt_trichotomy (depth m a) (depth m b)) as [H|[H|H]].
    - right. apply orb_true_intro. left. now apply Nat.ltb_lt.
    - destruct (str_ltb_total (id_of m a) (id_of m b) (Hids a b Da Db Hne)) as [S|S].
      + left. apply orb_true_intro. right. apply andb_true_intro. split; [now apply Nat.eqb_eq | exact S].
      + right. apply orb_true_intro. right. apply andb_true_intro. split; [apply Nat.eqb_eq; lia | exact S].
    - left. apply orb_true_intro. left. now apply Nat.ltb_lt.
  Qed.

  (* the exit order and the leaf order do not depend on how the active set was listed *)
  Theorem exit_order_canonical l1 l2 :
    Forall D l1 -> NoDup l1 -> Permutation l1 l2 -> sort_by (lt_depth_id m) l1 = sort_by (lt_depth_id m) l2.
  Proof. apply (sort_by_canonical (lt_depth_id m) D lt_depth_id_irrefl lt_depth_id_trans lt_depth_id_total). Qed.

  Theorem leaf_order_canonical l1 l2 :
    Forall D l1 -> NoDup l1 -> Permutation l1 l2 -> sort_by (lt_negdepth_id m) l1 = sort_by (lt_negdepth_id m) l2.
  Proof. apply (sort_by_canonical (lt_negdepth_id m) D lt_negdepth_id_irrefl lt_negdepth_id_trans lt_negdepth_id_total). Qed.
End IdOrders.

(* a boolean test for "state ids are pairwise distinct" (every machine the library builds has this: ids are paths) *)
Fixpoint nodupb_str (l : list string) : bool :=
  match l with [] => true | x :: r => negb (existsb (String.eqb x) r) && nodupb_str r end.
Definition ids_distinctb (m : machine) : bool := nodupb_str (map (id_of m) (seq 0 (size m))).

Lemma nodupb_str_ok l : nodupb_str l = true -> NoDup l.
Proof.
  induction l as [|x r IH]; simpl; [constructor|]. intros H. apply andb_prop in H as [Hx Hr].
  constructor; [|now apply IH]. intros Hin. apply negb_true_iff in Hx.
  assert (E : existsb (String.eqb x) r = true) by (apply existsb_exists; exists x; split; [assumption | apply String.eqb_refl]).
  congruence.
Qed.

Lemma nodup_map_inj {A B} (f : A -> B) l a b : NoDup (map f l) -> In a l -> In b l -> f a = f b -> a = b.
Proof.
  induction l as [|x r IH]; simpl; [intros _ []|]. intros N Ha Hb E. inversion N as [|? ? Hx Nr]; subst.
  destruct Ha as [<-|Ha], Hb as [<-|Hb]; [reflexivity | | |now apply IH].
  - exfalso. apply Hx. rewrite E. now apply in_map.
  - exfalso. apply Hx. rewrite <- E. now apply in_map.
Qed.

Lemma ids_distinctb_ok m : ids_distinctb m = true -> ids_distinct m.
Proof.
  intros H a b Ha Hb Hne E. apply Hne. apply nodupb_str_ok in H.
  apply (nodup_map_inj (id_of m) (seq 0 (size m))); [assumption | apply in_seq; lia | apply in_seq; lia | assumption].
Qed.
