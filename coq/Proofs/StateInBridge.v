(* Tie T for the built-in `stateIn` guard: the part of _is_state_in that follows the decoding of the guard's params, as
   RE-TRANSLATED from the current source on every build (Gen/GenStateIn.v: a function of the target string and the ids of the
   active states), computes the model's `state_in` (Model/Select.v) on every machine and every active set. *)
From XSM Require Import Model.Select Gen.GenStateIn Proofs.GuardP.

Lemma existsb_map_ids {A B} (f : A -> B) (p : B -> bool) l : existsb p (map f l) = existsb (fun x => p (f x)) l.
Proof. induction l as [|x r IH]; [reflexivity|]. cbn [map existsb]. now rewrite IH. Qed.

Theorem state_in_bridge m C target : state_in_src target (map (id_of m) C) = state_in m C target.
Proof.
  unfold state_in_src, state_in, truthy_str. rewrite Bool.negb_involutive.
  destruct (String.eqb target "") eqn:E; [reflexivity|].
  rewrite existsb_map_ids.
  destruct (existsb _ C) eqn:X; reflexivity.
Qed.

(* the stateIn leaf of the guard evaluator, read through the source's function *)
Theorem geval_statein_is_the_source m C cx target :
  geval m C cx (GStateIn target) = Some (state_in_src target (map (id_of m) C)).
Proof. cbn [geval]. now rewrite state_in_bridge. Qed.
