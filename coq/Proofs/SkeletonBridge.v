(* Tie T for the ORDER OF EFFECTS when states are left and entered: the effect skeletons of _exit_states and _enter_states,
   extracted from BOTH engines' copies in the current source on every build (Gen/GenGeom.v: exit_skeleton_*, entry_skeleton_*;
   for _enter_states the translator enumerates every path through the loop body and refuses unless all of them agree with
   one total order of the five effects, start with add / entry actions, and schedule the state's tasks unless they raise),
   interpreted over the model's own effect primitives (Model/TreeLib.v: run_exit_skeleton, run_entry_skeleton), ARE the
   model's exit_states and enter_one (Model/Exec.v) - state by state, as functions of the interpreter state. *)
From XSM Require Import Model.TreeLib Gen.GenGeom.

Lemma bind_ret_r (a : M) s : (a ;; ret) s = a s.
Proof. unfold bind, ret. destruct (a s) as [s' [e|]]; reflexivity. Qed.

Lemma bind_ext (a a' b b' : M) s : a s = a' s -> (forall s1, b s1 = b' s1) -> (a ;; b) s = (a' ;; b') s.
Proof. intros Ha Hb. unfold bind. rewrite Ha. destruct (a' s) as [s' [e|]]; [reflexivity | apply Hb]. Qed.

Lemma for_each_ext {A} (f g : A -> M) l : (forall x s, f x s = g x s) -> forall s, for_each f l s = for_each g l s.
Proof.
  intros H. induction l as [|x r IH]; intros s; cbn [for_each]; [reflexivity|]. apply bind_ext; [apply H | exact IH].
Qed.

(* ---------------- leaving ---------------- *)
Theorem exit_skeleton_async_bridge pr m l ev s :
  run_exit_skeleton exit_skeleton_async Async pr m l ev s = exit_states Async pr m l ev s.
Proof.
  unfold run_exit_skeleton, exit_skeleton_async, exit_states. cbn [for_each run_xstep].
  apply bind_ext; [reflexivity|]. intros s1. rewrite bind_ret_r.
  apply for_each_ext. intros x s2. cbn [for_each run_xeff].
  apply bind_ext; [reflexivity|]. intros s3. apply bind_ext; [reflexivity|]. intros s4. apply bind_ret_r.
Qed.

Theorem exit_skeleton_sync_bridge eng pr m l ev s : eng <> Async ->
  run_exit_skeleton exit_skeleton_sync eng pr m l ev s = exit_states eng pr m l ev s.
Proof.
  intros He. unfold run_exit_skeleton, exit_skeleton_sync, exit_states. cbn [for_each run_xstep].
  assert (G : forall s0, (lift (record_history m l) ;;
                          for_each (fun x => for_each (run_xeff eng pr m ev x) [XCancel]) l ;;
                          for_each (fun x => for_each (run_xeff eng pr m ev x) [XActions; XLeave]) l ;; ret) s0
                       = (lift (record_history m l) ;; for_each cancel l ;;
                          for_each (fun x => (fun s => exec_actions eng pr (n_exit (nd m x)) (exit_event eng m ev x) s) ;;
                                             lift (fun s => if mem x (s_cfg s) then logo (OLeave x) (with_cfg (cdel x (s_cfg s)) s) else s)) l) s0).
  { intros s0. apply bind_ext; [reflexivity|]. intros s1. apply bind_ext.
    - apply for_each_ext. intros x s2. cbn [for_each run_xeff]. apply bind_ret_r.
    - intros s2. rewrite bind_ret_r. apply for_each_ext. intros x s3. cbn [for_each run_xeff].
      apply bind_ext; [reflexivity|]. intros s4. apply bind_ret_r. }
  destruct eng; [apply G | congruence | apply G].
Qed.

(* ---------------- entering one state ---------------- *)
Lemma ret_bind_l (b : M) s : (ret ;; b) s = b s.
Proof. reflexivity. Qed.

Lemma descend_then (eng : engine) (pr : bool) (m : machine) (rec : list nat -> option event -> M) l ev x (k : M) s :
  (run_neff eng pr m rec l ev x NDescend ;; k) s =
  match descent_of m l x with
  | DescendInto below => (rec below (match eng with Async => Some (entry_event eng m ev x) | _ => ev end) ;; k) s
  | DescendNone => k s
  | DescendError => raise EInvalidConfig s
  end.
Proof. cbn [run_neff]. destruct (descent_of m l x); reflexivity. Qed.

Lemma enter_one_shape eng pr m rec l ev x s :
  enter_one eng pr m rec (parents_of m l) (with_parent m l) ev x s =
  (lift (fun s => logo (OEnter x) (with_cfg (cadd x (s_cfg s)) s)) ;;
   (fun s => exec_actions eng pr (n_entry (nd m x)) (entry_event eng m ev x) s) ;;
   sched_before eng m x ;;
   (if is_final m x then lift (fire_on_done eng pr m x) else ret) ;;
   match descent_of m l x with
   | DescendInto below => rec below (match eng with Async => Some (entry_event eng m ev x) | _ => ev end) ;; sched_after eng m x
   | DescendNone => sched_after eng m x
   | DescendError => raise EInvalidConfig
   end) s.
Proof.
  unfold enter_one, descent_of.
  destruct (kind_of m x); try reflexivity.
  - destruct (n_initial (nd m x)); [now destruct (mem x (parents_of m l))|]. now destruct (children m x).
  - now destruct (filter _ (children m x)).
Qed.

Theorem entry_skeleton_async_bridge pr m rec l ev x s :
  run_entry_skeleton entry_skeleton_async Async pr m rec l ev x s = enter_one Async pr m rec (parents_of m l) (with_parent m l) ev x s.
Proof.
  rewrite enter_one_shape. unfold run_entry_skeleton, entry_skeleton_async. cbn [for_each].
  apply bind_ext; [reflexivity|]. intros s1. apply bind_ext; [reflexivity|]. intros s2.
  apply bind_ext; [reflexivity|]. intros s3. apply bind_ext; [reflexivity|]. intros s4.
  rewrite descend_then. destruct (descent_of m l x); [|reflexivity|reflexivity].
  apply bind_ext; [reflexivity|]. intros s5. reflexivity.
Qed.

Theorem entry_skeleton_sync_bridge eng pr m rec l ev x s : eng <> Async ->
  run_entry_skeleton entry_skeleton_sync eng pr m rec l ev x s = enter_one eng pr m rec (parents_of m l) (with_parent m l) ev x s.
Proof.
  intros He. rewrite enter_one_shape. unfold run_entry_skeleton, entry_skeleton_sync. cbn [for_each].
  apply bind_ext; [reflexivity|]. intros s1. apply bind_ext; [reflexivity|]. intros s2.
  assert (Hb : forall s0 (k : M), (sched_before eng m x ;; k) s0 = k s0) by (intros s0 k; destruct eng; [reflexivity | congruence | reflexivity]).
  rewrite Hb. apply bind_ext; [reflexivity|]. intros s3.
  rewrite descend_then.
  assert (Ha : forall s0, (run_neff eng pr m rec l ev x NSchedule ;; ret) s0 = sched_after eng m x s0).
  { intros s0. rewrite bind_ret_r. cbn [run_neff]. destruct eng; [reflexivity | congruence | reflexivity]. }
  destruct (descent_of m l x); [|apply Ha|reflexivity].
  apply bind_ext; [reflexivity|]. exact Ha.
Qed.

(* ---------------- scheduling the tasks of an entered state ---------------- *)
Theorem schedule_skeleton_bridge eng m x s : run_schedule_skeleton schedule_skeleton eng m x s = sched_run eng m x s.
Proof.
  unfold run_schedule_skeleton, schedule_skeleton, sched_run. cbn [for_each run_seff].
  apply bind_ext; [reflexivity|]. intros s1. apply bind_ext; [reflexivity|]. intros s2. apply bind_ret_r.
Qed.
