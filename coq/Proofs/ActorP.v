(* Actor bookkeeping (property C15): addressing, exactly-once delivery, cancel, stop. *)
From XSM Require Import Model.Actors.
From Coq Require Import Lia.

(* ---- list_upd / aupd ---- *)
Lemma list_upd_length {A} (l : list A) i f : List.length (list_upd l i f) = List.length l.
Proof. revert i; induction l as [|x r IH]; intros [|i]; simpl; auto. Qed.

Lemma nth_list_upd_same {A} (l : list A) i f d : i < List.length l -> nth i (list_upd l i f) d = f (nth i l d).
Proof. revert i; induction l as [|x r IH]; intros [|i] H; simpl in *; try lia; [reflexivity | apply IH; lia]. Qed.

Lemma nth_list_upd_other {A} (l : list A) i j f d : i <> j -> nth j (list_upd l i f) d = nth j l d.
Proof.
  revert i j; induction l as [|x r IH]; intros [|i] [|j] H; simpl; try reflexivity; try congruence.
  apply IH. congruence.
Qed.

Lemma aget_aupd_same s i f : i < List.length (actors s) -> aget (aupd s i f) i = f (aget s i).
Proof. intros H. unfold aget, aupd. simpl. now apply nth_list_upd_same. Qed.
Lemma aget_aupd_other s i j f : i <> j -> aget (aupd s i f) j = aget s j.
Proof. intros H. unfold aget, aupd. simpl. now apply nth_list_upd_other. Qed.

(* ---- addressing ---- *)

(* a resolved target is always one of: the actor registered under that systemId, one of MY children, my parent *)
Theorem resolve_sound s me spec t :
  resolve s me spec = RActor t ->
  dget (registry s) spec = Some t
  \/ (exists k, In (k, t) (a_children (aget s me)))
  \/ ((spec = "parent" \/ spec = "#parent")%string /\ a_parent (aget s me) = Some t).
Proof.
  assert (Hd : forall k i, dget (a_children (aget s me)) k = Some i -> exists k', In (k', i) (a_children (aget s me))).
  { intros k i Hk. unfold dget in Hk. destruct (find _ _) as [p|] eqn:Ef; [|discriminate]. inversion Hk; subst.
    apply find_some in Ef as [Hin _]. exists (fst p). now destruct p. }
  unfold resolve.
  destruct (dget (registry s) spec) as [i|] eqn:Er; [intros H; inversion H; subst; now left|].
  destruct (dget (a_children (aget s me)) spec) as [i|] eqn:Ec; [intros H; inversion H; subst; right; left; eapply Hd; eassumption|].
  destruct (filter _ (a_children (aget s me))) as [|p [|q r]] eqn:Ef.
  - destruct (find _ (a_sources (aget s me))) as [p|] eqn:Es.
    + destruct (dget (a_children (aget s me)) (fst p)) as [i|] eqn:Ei; [|discriminate]. intros H. inversion H; subst. right; left. eapply Hd; eassumption.
    + destruct (String.eqb spec "parent" || String.eqb spec "#parent") eqn:Ep; [|discriminate].
      destruct (a_parent (aget s me)) as [p|] eqn:Epa; [|discriminate]. intros H. inversion H; subst. right; right. split; [|reflexivity].
      apply orb_prop in Ep as [E|E]; apply String.eqb_eq in E; auto.
  - intros H. inversion H; subst. right; left. exists (fst p).
    assert (Hin : In p (filter (fun p0 => in_list spec (tl (a_id (aget s (snd p0))))) (a_children (aget s me)))) by (rewrite Ef; now left).
    apply filter_In in Hin as [Hin _]. now destruct p.
  - discriminate.
Qed.

(* the explicit, stable name wins *)
Theorem resolve_registry_first s me spec i : dget (registry s) spec = Some i -> resolve s me spec = RActor i.
Proof. intros H. unfold resolve. now rewrite H. Qed.

(* a bare key that matches several children (and is neither a systemId nor a full id) is ambiguous: nobody gets it *)
Theorem resolve_ambiguous s me spec p q r :
  dget (registry s) spec = None -> dget (a_children (aget s me)) spec = None ->
  filter (fun c => in_list spec (tl (a_id (aget s (snd c))))) (a_children (aget s me)) = p :: q :: r ->
  resolve s me spec = RAmbiguous.
Proof. intros H1 H2 H3. unfold resolve. now rewrite H1, H2, H3. Qed.

(* an unknown name resolves to nobody *)
Theorem resolve_unknown s me spec :
  dget (registry s) spec = None -> dget (a_children (aget s me)) spec = None ->
  filter (fun c => in_list spec (tl (a_id (aget s (snd c))))) (a_children (aget s me)) = [] ->
  (forall p, In p (a_sources (aget s me)) -> snd p <> spec) ->
  spec <> "parent"%string -> spec <> "#parent"%string ->
  resolve s me spec = RNone.
Proof.
  intros H1 H2 H3 H4 H5 H6. unfold resolve. rewrite H1, H2, H3.
  destruct (find _ (a_sources (aget s me))) as [p|] eqn:Ef.
  - apply find_some in Ef as [Hin Hp]. apply andb_prop in Hp as [Hp _]. apply String.eqb_eq in Hp. exfalso. eapply H4; eassumption.
  - apply String.eqb_neq in H5, H6. now rewrite H5, H6.
Qed.

(* ---- delivery: exactly once, to exactly the addressed actor ---- *)
Theorem recv_sync_exact s t tag j :
  t < List.length (actors s) ->
  a_inbox (aget (recv ASync t tag s) j) =
  if Nat.eqb j t && a_running (aget s t) then tag :: a_inbox (aget s j) else a_inbox (aget s j).
Proof.
  intros Ht. unfold recv. destruct (a_running (aget s t)) eqn:Er.
  - destruct (Nat.eqb_spec j t) as [->|Hne]; simpl.
    + now rewrite aget_aupd_same.
    + rewrite aget_aupd_other by congruence. reflexivity.
  - now rewrite andb_false_r.
Qed.

(* ... and nothing but that inbox changes *)
Theorem recv_frame eng s t tag :
  registry (recv eng t tag s) = registry s /\ pending (recv eng t tag s) = pending s /\
  List.length (actors (recv eng t tag s)) = List.length (actors s) /\
  forall j, a_running (aget (recv eng t tag s) j) = a_running (aget s j)
            /\ a_children (aget (recv eng t tag s) j) = a_children (aget s j)
            /\ a_sends (aget (recv eng t tag s) j) = a_sends (aget s j).
Proof.
  unfold recv. destruct (a_running (aget s t)); [|repeat split; reflexivity].
  assert (G : forall g, (forall a, a_running (g a) = a_running a /\ a_children (g a) = a_children a /\ a_sends (g a) = a_sends a) ->
      registry (aupd s t g) = registry s /\ pending (aupd s t g) = pending s /\
      List.length (actors (aupd s t g)) = List.length (actors s) /\
      forall j, a_running (aget (aupd s t g) j) = a_running (aget s j)
                /\ a_children (aget (aupd s t g) j) = a_children (aget s j)
                /\ a_sends (aget (aupd s t g) j) = a_sends (aget s j)).
  { intros g Hg. split; [reflexivity|]. split; [reflexivity|]. split; [simpl; apply list_upd_length|].
    intros j. destruct (Nat.eq_dec t j) as [->|Hne].
    - destruct (Nat.lt_ge_cases j (List.length (actors s))) as [Hl|Hl].
      + rewrite aget_aupd_same by exact Hl. apply Hg.
      + unfold aget, aupd; simpl. rewrite !nth_overflow by (rewrite ?list_upd_length; lia). repeat split; reflexivity.
    - rewrite aget_aupd_other by exact Hne. repeat split; reflexivity. }
  destruct eng; apply G; intros a; repeat split; reflexivity.
Qed.

(* a stopped interpreter receives nothing *)
Theorem recv_stopped eng s t tag : a_running (aget s t) = false -> recv eng t tag s = s.
Proof. intros H. unfold recv. now rewrite H. Qed.

(* ---- cancel: that pending send, and only that one ---- *)
Theorem cancel_seq_spec q s d : In d (pending (cancel_seq q s)) <-> In d (pending s) /\ d_seq d <> q.
Proof.
  unfold cancel_seq. simpl. rewrite filter_In, negb_true_iff, Nat.eqb_neq. tauto.
Qed.

Theorem cancel_only_that_one eng me trigger k s q :
  dget (a_sends (aget s me)) k = Some q ->
  forall d, In d (pending (do_op eng me trigger (OpCancel k) s)) <-> In d (pending s) /\ d_seq d <> q.
Proof.
  intros H d. simpl. rewrite H. rewrite cancel_seq_spec. simpl. tauto.
Qed.

Theorem cancel_unknown_is_noop eng me trigger k s :
  dget (a_sends (aget s me)) k = None -> do_op eng me trigger (OpCancel k) s = s.
Proof. intros H. simpl. now rewrite H. Qed.

(* a cancelled (or superseded) send can never fire: firing only ever takes a send out of the pending list *)
Lemma fire_pending eng e s x : In x (pending (fire eng e s)) -> In x (pending s) /\ d_seq x <> d_seq e.
Proof.
  unfold fire. intros H.
  change (pending (flush ?z)) with (pending z) in H.
  match type of H with In x (pending (recv eng ?t ?g ?z)) => destruct (recv_frame eng z t g) as [_ [Hpe _]]; rewrite Hpe in H; clear Hpe end.
  assert (Hin : In x (pending (cancel_seq (d_seq e) s))).
  { destruct (d_sid e) as [k|]; [|exact H]. destruct (dget _ k) as [q|]; [|exact H]. destruct (Nat.eqb q (d_seq e)); exact H. }
  now apply cancel_seq_spec in Hin.
Qed.

Theorem advance_fires_pending_only : forall fuel eng t s d,
  In d (pending (advance_to fuel eng t s)) -> In d (pending s).
Proof.
  induction fuel as [|f IH]; intros eng t s d H; simpl in H; [exact H|].
  destruct (fold_right ins_due [] _) as [|e rest]; [exact H|].
  apply IH in H. apply fire_pending in H as [H _]. simpl in H.
  destruct rest as [|e0 r]; [exact H|]. destruct (Nat.eqb _ _); exact H.
Qed.

(* ---- stop ---- *)
Lemma flush_length s : List.length (actors (flush s)) = List.length (actors s).
Proof. unfold flush. simpl. apply map_length. Qed.

Lemma aget_aupd_running s j g y : (forall a, a_running (g a) = a_running a) ->
  a_running (aget (aupd s j g) y) = a_running (aget s y).
Proof.
  intros Hg. destruct (Nat.eq_dec j y) as [->|Hne].
  - destruct (Nat.lt_ge_cases y (List.length (actors s))) as [Hl|Hl].
    + rewrite aget_aupd_same by exact Hl. apply Hg.
    + unfold aget, aupd. simpl. rewrite !nth_overflow by (rewrite ?list_upd_length; lia). reflexivity.
  - now rewrite aget_aupd_other by exact Hne.
Qed.

Lemma stop_finish_running eng i z x : a_running (aget (stop_finish eng i z) x) = a_running (aget z x).
Proof.
  unfold stop_finish.
  set (s3 := aupd z i _). set (s4 := with_pending_sends _ _ s3).
  assert (H3 : a_running (aget s4 x) = a_running (aget z x)).
  { change (aget s4 x) with (aget s3 x). unfold s3. apply aget_aupd_running. intros a. destruct eng; reflexivity. }
  destruct eng; try exact H3.
  destruct (a_threaded (aget s4 i)); try exact H3.
  destruct (a_parent (aget s4 i)) as [p|]; try exact H3.
  destruct (dget _ _) as [j|]; try exact H3.
  destruct (Nat.eqb j i); try exact H3.
  rewrite aget_aupd_running by reflexivity. exact H3.
Qed.

(* nothing but a spawn ever makes an actor run: stop never revives anybody *)
Lemma stop_actor_mono : forall fuel eng i s x,
  a_running (aget (stop_actor fuel eng i s) x) = true -> a_running (aget s x) = true.
Proof.
  induction fuel as [|f IH]; intros eng i s x H; simpl in H; [exact H|].
  destruct (a_running (aget s i)) eqn:Ei; simpl in H; [|exact H].
  rewrite stop_finish_running in H.
  assert (H2 : forall l s0, a_running (aget (fold_left (fun s' (p : string * nat) => unregister (snd p) (stop_actor f eng (snd p) s')) l s0) x) = true ->
                            a_running (aget s0 x) = true).
  { induction l as [|p r IHl]; intros s0 Hy; cbn [fold_left] in Hy; [exact Hy|]. apply IHl in Hy.
    change (aget (unregister ?j ?z) x) with (aget z x) in Hy. eapply IH; exact Hy. }
  apply H2 in H. destruct (Nat.eq_dec i x) as [->|Hne].
  - destruct (Nat.lt_ge_cases x (List.length (actors s))) as [Hl|Hl].
    + rewrite aget_aupd_same in H by exact Hl. discriminate.
    + unfold aget, aupd in H. simpl in H. rewrite nth_overflow in H by (rewrite list_upd_length; lia). discriminate.
  - now rewrite aget_aupd_other in H by exact Hne.
Qed.

(* stop(i) leaves i stopped *)
Theorem stop_stops eng i s : i < List.length (actors s) -> a_running (aget (stop eng i s) i) = false.
Proof.
  intros Hi. unfold stop. destruct (a_running (aget (stop_actor _ eng i s) i)) eqn:E; [|reflexivity].
  exfalso. simpl in E.
  destruct (a_running (aget s i)) eqn:Ei; simpl in E; [|congruence].
  rewrite stop_finish_running in E.
  assert (H2 : forall l s0, a_running (aget (fold_left (fun s' (p : string * nat) => unregister (snd p) (stop_actor (List.length (actors s)) eng (snd p) s')) l s0) i) = true ->
                            a_running (aget s0 i) = true).
  { induction l as [|p r IHl]; intros s0 Hy; cbn [fold_left] in Hy; [exact Hy|]. apply IHl in Hy.
    change (aget (unregister ?j ?z) i) with (aget z i) in Hy. eapply stop_actor_mono; exact Hy. }
  apply H2 in E. rewrite aget_aupd_same in E by exact Hi. discriminate.
Qed.

(* stop is idempotent *)
Theorem stop_idempotent eng i s : a_running (aget s i) = false -> stop eng i s = s.
Proof. intros H. unfold stop. simpl. now rewrite H. Qed.

(* nothing is revived by any stop *)
Theorem stop_never_revives eng i s x : a_running (aget (stop eng i s) x) = true -> a_running (aget s x) = true.
Proof. apply stop_actor_mono. Qed.

(* ---- the cascade: the children are stopped too ---- *)
Lemma aupd_length s i f : List.length (actors (aupd s i f)) = List.length (actors s).
Proof. unfold aupd. simpl. apply list_upd_length. Qed.

Lemma unregister_length j z : List.length (actors (unregister j z)) = List.length (actors z).
Proof. reflexivity. Qed.

Lemma stop_finish_length eng i z : List.length (actors (stop_finish eng i z)) = List.length (actors z).
Proof.
  unfold stop_finish.
  set (s3 := aupd z i _). set (s4 := with_pending_sends _ _ s3).
  assert (H : List.length (actors s4) = List.length (actors z)) by (unfold s4, s3; simpl; apply list_upd_length).
  destruct eng; try exact H.
  destruct (a_threaded (aget s4 i)); try exact H.
  destruct (a_parent (aget s4 i)) as [p|]; try exact H.
  destruct (dget _ _) as [j|]; try exact H.
  destruct (Nat.eqb j i); try exact H.
  rewrite aupd_length. exact H.
Qed.

Lemma stop_actor_length : forall fuel eng i s, List.length (actors (stop_actor fuel eng i s)) = List.length (actors s).
Proof.
  induction fuel as [|f IH]; intros eng i s; simpl; [reflexivity|].
  destruct (a_running (aget s i)); simpl; [|reflexivity].
  rewrite stop_finish_length.
  assert (H : forall l s0, List.length (actors (fold_left (fun s' (p : string * nat) => unregister (snd p) (stop_actor f eng (snd p) s')) l s0))
                           = List.length (actors s0)).
  { induction l as [|p r IHl]; intros s0; cbn [fold_left]; [reflexivity|]. rewrite IHl, unregister_length. apply IH. }
  rewrite H. apply aupd_length.
Qed.

Lemma stop_actor_stops_S f eng i s : i < List.length (actors s) -> a_running (aget (stop_actor (S f) eng i s) i) = false.
Proof.
  intros Hi. destruct (a_running (aget (stop_actor (S f) eng i s) i)) eqn:E; [|reflexivity]. exfalso.
  simpl in E. destruct (a_running (aget s i)) eqn:Ei; simpl in E; [|congruence].
  rewrite stop_finish_running in E.
  assert (H2 : forall l s0, a_running (aget (fold_left (fun s' (p : string * nat) => unregister (snd p) (stop_actor f eng (snd p) s')) l s0) i) = true ->
                            a_running (aget s0 i) = true).
  { induction l as [|p r IHl]; intros s0 Hy; cbn [fold_left] in Hy; [exact Hy|]. apply IHl in Hy.
    change (aget (unregister ?j ?z) i) with (aget z i) in Hy. eapply stop_actor_mono; exact Hy. }
  apply H2 in E. rewrite aget_aupd_same in E by exact Hi. discriminate.
Qed.

(* every actor in the stopped actor's children map is stopped *)
Theorem stop_stops_children eng i s k c :
  a_running (aget s i) = true -> In (k, c) (a_children (aget s i)) -> i < List.length (actors s) -> c < List.length (actors s) ->
  0 < List.length (actors s) -> a_running (aget (stop eng i s) c) = false.
Proof.
  intros Hr Hin Hi Hc Hn. unfold stop. destruct (a_running (aget (stop_actor _ eng i s) c)) eqn:E; [|reflexivity]. exfalso.
  simpl in E. rewrite Hr in E. simpl in E. rewrite stop_finish_running in E.
  set (s1 := aupd s i (fun a => set_queue [] (set_running false a))) in *.
  assert (Hch : a_children (aget s1 i) = a_children (aget s i)) by (unfold s1; rewrite aget_aupd_same by exact Hi; reflexivity).
  rewrite Hch in E.
  destruct (List.length (actors s)) as [|n] eqn:En; [lia|].
  assert (H2 : forall l s0, List.length (actors s0) = S n -> In (k, c) l ->
               a_running (aget (fold_left (fun s' (p : string * nat) => unregister (snd p) (stop_actor (S n) eng (snd p) s')) l s0) c) = false).
  { induction l as [|p r IHl]; intros s0 Hl Hp; [destruct Hp|]. cbn [fold_left].
    assert (Hl' : List.length (actors (unregister (snd p) (stop_actor (S n) eng (snd p) s0))) = S n)
      by (rewrite unregister_length, stop_actor_length; exact Hl).
    destruct Hp as [->|Hp].
    - cbn [snd].
      assert (Hs : a_running (aget (unregister c (stop_actor (S n) eng c s0)) c) = false).
      { change (aget (unregister ?j ?z) c) with (aget z c). apply stop_actor_stops_S. lia. }
      destruct (a_running (aget (fold_left _ r _) c)) eqn:E2; [|reflexivity]. exfalso.
      assert (Hm : forall l' z, a_running (aget (fold_left (fun s' (p : string * nat) => unregister (snd p) (stop_actor (S n) eng (snd p) s')) l' z) c) = true ->
                                a_running (aget z c) = true).
      { induction l' as [|q r' IHl']; intros z Hy; cbn [fold_left] in Hy; [exact Hy|]. apply IHl' in Hy.
        change (aget (unregister ?j ?z0) c) with (aget z0 c) in Hy. eapply stop_actor_mono; exact Hy. }
      apply Hm in E2. congruence.
    - apply IHl; assumption. }
  rewrite (H2 (a_children (aget s i)) s1) in E; [discriminate | unfold s1; rewrite aupd_length; exact En | exact Hin].
Qed.

(* a stopped actor emits nothing: none of its delayed sends is left pending *)
Theorem stop_finish_silences eng i z d : In d (pending (stop_finish eng i z)) -> d_sender d <> i.
Proof.
  unfold stop_finish.
  set (s3 := aupd z i _). set (s4 := with_pending_sends _ _ s3).
  assert (H : In d (pending s4) -> d_sender d <> i).
  { unfold s4. simpl. rewrite filter_In, negb_true_iff, Nat.eqb_neq. tauto. }
  destruct eng; try exact H.
  destruct (a_threaded (aget s4 i)); try exact H.
  destruct (a_parent (aget s4 i)) as [p|]; try exact H.
  destruct (dget _ _) as [j|]; try exact H.
  destruct (Nat.eqb j i); exact H.
Qed.

Theorem stop_silences eng i s d :
  a_running (aget s i) = true -> In d (pending (stop eng i s)) -> d_sender d <> i.
Proof. intros Hr. unfold stop. simpl. rewrite Hr. simpl. apply stop_finish_silences. Qed.

(* its children map is empty afterwards *)
Lemma stop_finish_clears eng i z : i < List.length (actors z) -> a_children (aget (stop_finish eng i z) i) = [].
Proof.
  intros Hl. unfold stop_finish.
  set (s3 := aupd z i _). set (s4 := with_pending_sends _ _ s3).
  assert (H3 : a_children (aget s4 i) = []).
  { change (aget s4 i) with (aget s3 i). unfold s3. rewrite aget_aupd_same by exact Hl. destruct eng; reflexivity. }
  destruct eng; try exact H3.
  destruct (a_threaded (aget s4 i)); try exact H3.
  destruct (a_parent (aget s4 i)) as [p|]; try exact H3.
  destruct (dget _ _) as [j|]; try exact H3.
  destruct (Nat.eqb j i); try exact H3.
  destruct (Nat.eq_dec p i) as [->|Hne].
  - rewrite aget_aupd_same by (unfold s4, s3; simpl; rewrite list_upd_length; exact Hl).
    simpl. rewrite H3. reflexivity.
  - rewrite aget_aupd_other by exact Hne. exact H3.
Qed.

Theorem stop_clears_children eng i s :
  a_running (aget s i) = true -> i < List.length (actors s) -> a_children (aget (stop eng i s) i) = [].
Proof.
  intros Hr Hi. unfold stop. cbn [stop_actor]. rewrite Hr. cbn [negb]. apply stop_finish_clears.
  assert (H : forall l s0, List.length (actors (fold_left (fun s' (p : string * nat) => unregister (snd p) (stop_actor (List.length (actors s)) eng (snd p) s')) l s0))
                         = List.length (actors s0)).
  { induction l as [|p r IHl]; intros s0; cbn [fold_left]; [reflexivity|]. rewrite IHl, unregister_length. apply stop_actor_length. }
  rewrite H, aupd_length. exact Hi.
Qed.

(* ---- the runner thread's poll (sync engine, thread-managed children) ---- *)
Lemma reap_fold_never_revives : forall l s x,
  a_running (aget (fold_left (fun s' i => if orphaned s' i then stop ASync i s' else s') l s) x) = true -> a_running (aget s x) = true.
Proof.
  induction l as [|i r IH]; intros s x H; cbn [fold_left] in H; [exact H|].
  apply IH in H. destruct (orphaned s i); [eapply stop_never_revives; exact H|exact H].
Qed.

(* the poll never starts anybody *)
Theorem reap_never_revives eng s x : a_running (aget (reap_orphans eng s) x) = true -> a_running (aget s x) = true.
Proof. destruct eng; [apply reap_fold_never_revives|exact (fun H => H)]. Qed.

(* the async engine has no runner threads *)
Theorem reap_async_noop s : reap_orphans AAsync s = s.
Proof. reflexivity. Qed.

(* where every thread-managed child still is its parent's entry, the poll changes nothing *)
Theorem reap_without_orphans_noop eng s : (forall i, orphaned s i = false) -> reap_orphans eng s = s.
Proof.
  intros H. destruct eng; [|reflexivity]. unfold reap_orphans.
  generalize (seq 0 (List.length (actors s))). induction l as [|i r IH]; cbn [fold_left]; [reflexivity|].
  rewrite H. exact IH.
Qed.

Theorem runner_polls_never_revives eng t s x :
  a_running (aget (runner_polls eng t s) x) = true -> a_running (aget s x) = true.
Proof.
  unfold runner_polls. destruct eng; [|exact (fun H => H)].
  destruct (existsb _ _ && _); [|exact (fun H => H)].
  destruct (_ || _); [change (aget (note_tie ?z) x) with (aget z x)|]; apply reap_never_revives.
Qed.

(* only a running, thread-managed child whose parent's entry is not this child is touched: with nobody orphaned, or on
   the async engine, or when the clock does not move, the poll is the identity *)
Theorem runner_polls_noop eng t s :
  (eng = AAsync \/ t <= now s \/ forall i, orphaned s i = false) -> runner_polls eng t s = s.
Proof.
  intros H. unfold runner_polls. destruct eng; [|reflexivity].
  destruct H as [H|[H|H]]; [discriminate| |].
  - replace (Nat.ltb (now s) t) with false by (symmetry; apply Nat.ltb_ge; exact H). now rewrite andb_false_r.
  - replace (existsb (orphaned s) _) with false; [reflexivity|].
    symmetry. destruct (existsb (orphaned s) _) eqn:E; [|reflexivity].
    apply existsb_exists in E. destruct E as [i [_ Hi]]. rewrite H in Hi. discriminate.
Qed.

Lemma list_upd_beyond {A} (l : list A) i f : List.length l <= i -> list_upd l i f = l.
Proof. revert i; induction l as [|x r IH]; intros [|i] H; simpl in *; try reflexivity; try lia. f_equal. apply IH. lia. Qed.

Lemma aget_aupd_cases s i g p :
  aget (aupd s i g) p = if Nat.eqb p i && Nat.ltb i (List.length (actors s)) then g (aget s i) else aget s p.
Proof.
  destruct (Nat.eqb_spec p i) as [->|Hne]; simpl.
  - destruct (Nat.ltb_spec i (List.length (actors s))) as [Hl|Hl].
    + apply aget_aupd_same. exact Hl.
    + unfold aget, aupd. simpl. now rewrite list_upd_beyond by exact Hl.
  - apply aget_aupd_other. congruence.
Qed.

Lemma dget_ddel_some {V} (l : list (string * V)) k' k v : dget (ddel l k') k = Some v -> dget l k = Some v.
Proof.
  unfold dget, ddel. induction l as [|[a b] r IH]; simpl; [discriminate|].
  destruct (String.eqb_spec a k') as [->|Hak']; simpl.
  - destruct (String.eqb_spec k' k) as [->|Hk]; simpl.
    + intros H. exfalso. clear IH.
      destruct (find _ (filter _ r)) as [q|] eqn:E; [|discriminate].
      apply find_some in E. destruct E as [Hin Hq]. apply filter_In in Hin. destruct Hin as [_ Hn].
      rewrite Hq in Hn. discriminate.
    + exact IH.
  - destruct (String.eqb a k); simpl; [exact (fun H => H)|exact IH].
Qed.

Definition same_static (a b : actor) : Prop := a_id a = a_id b /\ a_parent a = a_parent b /\ a_threaded a = a_threaded b.
Lemma same_static_refl a : same_static a a. Proof. repeat split. Qed.
Lemma same_static_trans a b c : same_static a b -> same_static b c -> same_static a c.
Proof. unfold same_static. intuition congruence. Qed.

Lemma aget_aupd_static s j g x : (forall a, same_static (g a) a) -> same_static (aget (aupd s j g) x) (aget s x).
Proof. intros Hg. rewrite aget_aupd_cases. destruct (_ && _) eqn:E; [|apply same_static_refl].
  apply andb_true_iff in E. destruct E as [E _]. apply Nat.eqb_eq in E. subst. apply Hg. Qed.

(* what a children map says after a stop it already said before: stop only ever removes entries *)
Definition kids_shrink (s' s : sys) : Prop :=
  forall p k j, dget (a_children (aget s' p)) k = Some j -> dget (a_children (aget s p)) k = Some j.
Definition static_same (s' s : sys) : Prop := forall x, same_static (aget s' x) (aget s x).

Lemma stop_finish_shrink eng i z : kids_shrink (stop_finish eng i z) z /\ static_same (stop_finish eng i z) z.
Proof.
  unfold stop_finish.
  set (s3 := aupd z i _). set (s4 := with_pending_sends _ _ s3).
  assert (H4 : kids_shrink s4 z /\ static_same s4 z).
  { split.
    - intros p k j. change (aget s4 p) with (aget s3 p). unfold s3. rewrite aget_aupd_cases.
      destruct (_ && _); [|exact (fun H => H)]. destruct eng; simpl; discriminate.
    - intros x. change (aget s4 x) with (aget s3 x). unfold s3. apply aget_aupd_static. intros a. destruct eng; repeat split. }
  destruct eng; try exact H4.
  destruct (a_threaded (aget s4 i)); try exact H4.
  destruct (a_parent (aget s4 i)) as [p0|]; try exact H4.
  destruct (dget _ _) as [j0|]; try exact H4.
  destruct (Nat.eqb j0 i); try exact H4.
  destruct H4 as [Hk Hs]. split.
  - intros p k j. rewrite aget_aupd_cases. destruct (_ && _) eqn:E.
    + apply andb_true_iff in E. destruct E as [E _]. apply Nat.eqb_eq in E. subst p0. simpl. intros H. apply dget_ddel_some in H. apply Hk. exact H.
    + apply Hk.
  - intros x. eapply same_static_trans; [apply aget_aupd_static; intros a; repeat split|apply Hs].
Qed.

Lemma stop_actor_shrink : forall fuel eng i s, kids_shrink (stop_actor fuel eng i s) s /\ static_same (stop_actor fuel eng i s) s.
Proof.
  induction fuel as [|f IH]; intros eng i s; simpl.
  - split; [intros p k j H; exact H|intros x; apply same_static_refl].
  - destruct (a_running (aget s i)); simpl; [|split; [intros p k j H; exact H|intros x; apply same_static_refl]].
    set (s1 := aupd s i _).
    assert (H1 : kids_shrink s1 s /\ static_same s1 s).
    { split.
      - intros p k j. unfold s1. rewrite aget_aupd_cases. destruct (_ && _) eqn:E; [|exact (fun H => H)].
        apply andb_true_iff in E. destruct E as [E _]. apply Nat.eqb_eq in E. subst p. simpl. exact (fun H => H).
      - intros x. unfold s1. apply aget_aupd_static. intros a. repeat split. }
    assert (H2 : forall l s0, kids_shrink (fold_left (fun s' (p : string * nat) => unregister (snd p) (stop_actor f eng (snd p) s')) l s0) s0
                              /\ static_same (fold_left (fun s' (p : string * nat) => unregister (snd p) (stop_actor f eng (snd p) s')) l s0) s0).
    { induction l as [|q r IHl]; intros s0; cbn [fold_left].
      - split; [intros p k j H; exact H|intros x; apply same_static_refl].
      - destruct (IHl (unregister (snd q) (stop_actor f eng (snd q) s0))) as [Ha Hb]. destruct (IH eng (snd q) s0) as [Hc Hd]. split.
        + intros p k j H. apply Ha in H. change (aget (unregister ?a ?z) p) with (aget z p) in H. apply Hc. exact H.
        + intros x. eapply same_static_trans; [apply Hb|]. change (aget (unregister ?a ?z) x) with (aget z x). apply Hd. }
    destruct (stop_finish_shrink eng i (fold_left (fun s' (p : string * nat) => unregister (snd p) (stop_actor f eng (snd p) s')) (a_children (aget s1 i)) s1)) as [Ha Hb].
    destruct (H2 (a_children (aget s1 i)) s1) as [Hc Hd]. destruct H1 as [He Hf]. split.
    + intros p k j H. apply He, Hc, Ha. exact H.
    + intros x. eapply same_static_trans; [apply Hb|]. eapply same_static_trans; [apply Hd|apply Hf].
Qed.

(* a child that is orphaned and still running after somebody else's stop is still orphaned *)
Lemma orphaned_survives_stop h s i :
  orphaned s i = true -> a_running (aget (stop ASync h s) i) = true -> orphaned (stop ASync h s) i = true.
Proof.
  unfold stop. set (s' := stop_actor _ ASync h s). intros Ho Hr.
  destruct (stop_actor_shrink (S (List.length (actors s))) ASync h s) as [Hk Hs]. fold s' in Hk, Hs.
  unfold orphaned in *. rewrite Hr. destruct (Hs i) as [Hid [Hp Ht]]. rewrite Ht, Hp, Hid.
  apply andb_true_iff in Ho. destruct Ho as [Ho1 Ho]. apply andb_true_iff in Ho1. destruct Ho1 as [_ Ho1]. rewrite Ho1. simpl.
  destruct (a_parent (aget s i)) as [p|]; [|exact Ho].
  destruct (dget (a_children (aget s' p)) _) as [j|] eqn:E; [|reflexivity].
  apply Hk in E. rewrite E in Ho. exact Ho.
Qed.

Lemma reap_fold_stops_orphan i : forall l s,
  In i l -> i < List.length (actors s) -> orphaned s i = true ->
  a_running (aget (fold_left (fun s' x => if orphaned s' x then stop ASync x s' else s') l s) i) = false.
Proof.
  induction l as [|h r IH]; intros s Hin Hl Ho; [destruct Hin|]. cbn [fold_left].
  destruct Hin as [->|Hin].
  - rewrite Ho.
    destruct (a_running (aget (fold_left _ r _) i)) eqn:E; [|reflexivity].
    apply reap_fold_never_revives in E. rewrite stop_stops in E by exact Hl. discriminate.
  - destruct (orphaned s h) eqn:Eh; [|apply IH; assumption].
    destruct (a_running (aget (stop ASync h s) i)) eqn:Er.
    + apply IH; [exact Hin| |apply orphaned_survives_stop; assumption].
      unfold stop. rewrite stop_actor_length. exact Hl.
    + destruct (a_running (aget (fold_left _ r _) i)) eqn:E; [|reflexivity].
      apply reap_fold_never_revives in E. congruence.
Qed.

(* the poll stops every orphaned thread-managed child *)
Theorem reap_stops_orphans s i :
  i < List.length (actors s) -> orphaned s i = true -> a_running (aget (reap_orphans ASync s) i) = false.
Proof. intros Hl Ho. unfold reap_orphans. apply reap_fold_stops_orphan; [apply in_seq; lia|exact Hl|exact Ho]. Qed.
