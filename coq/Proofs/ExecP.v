(* Proofs about Model/Exec.v and Model/Macro.v that do not need the tree lemmas *)
From XSM Require Import Model.Macro Proofs.SelectP.
From Coq Require Import Lia.

(* an event with no nominee is a no-op: configuration, context, history, queue,
   status, output and log are all unchanged (the whole state is) *)
Lemma process_unhandled eng pr m ev s :
  select m (s_cfg s) (s_ctx s) ev = Some [] -> process_event eng pr m ev s = (s, None).
Proof. intros H. unfold process_event. now rewrite H. Qed.

(* a missing guard aborts the step before anything runs *)
Lemma process_missing eng pr m ev s :
  select m (s_cfg s) (s_ctx s) ev = None -> process_event eng pr m ev s = (s, Some EImplMissing).
Proof. intros H. unfold process_event. now rewrite H. Qed.

Lemma can_spec m C cx ev : can m C cx ev = true <-> exists t ts, select m C cx ev = Some (t :: ts).
Proof.
  unfold can. destruct (select m C cx ev) as [[|t ts]|]; split; try discriminate.
  - intros [t [ts H]]. discriminate.
  - intros _. now exists t, ts.
  - reflexivity.
  - intros [t [ts H]]. discriminate.
Qed.
