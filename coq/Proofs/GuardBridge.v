(* Tie T for composite guards: the and / or / not part of _is_guard_satisfied as RE-TRANSLATED from the current source on
   every build (Gen/GenGuard.v) computes the model's `geval` (Model/Select.v), given as oracle for the non-composite guards
   the model's own evaluation of them (stateIn, user predicate, raising predicate = false, missing predicate = error: tied
   to the code by the K-macro correspondence of the C06 check). *)
From XSM Require Import Model.TreeLib Gen.GenGuard Proofs.GuardP.
From Coq Require Import Lia.

Fixpoint gdepth (g : guard) : nat :=
  match g with
  | GAnd l | GOr l => S (fold_right Nat.max 0 (map gdepth l))
  | GNot x => S (gdepth x)
  | _ => 0
  end.

Lemma gdepth_child c l : In c l -> gdepth c <= fold_right Nat.max 0 (map gdepth l).
Proof.
  induction l as [|x r IH]; intros H; [destruct H|]. cbn [map fold_right].
  destruct H as [->|H]; [lia|]. specialize (IH H). lia.
Qed.

Section G.
  Variables (m : machine) (C : config) (cx : ctx).
  Let leaf := geval m C cx.

  Lemma all_children f l :
    Forall (fun c => forall fuel, gdepth c < fuel -> is_guard_satisfied fuel leaf (Some c) = geval m C cx c) l ->
    (forall c, In c l -> gdepth c < f) ->
    py_all (fun c => is_guard_satisfied f leaf (Some c)) l
    = (fix all (l : list guard) : option bool :=
         match l with
         | [] => Some true
         | x :: r => match geval m C cx x with None => None | Some false => Some false | Some true => all r end
         end) l.
  Proof.
    induction l as [|x r IH]; intros HF Hd; [reflexivity|]. cbn [py_all].
    inversion HF as [|? ? Hx Hr]; subst. rewrite (Hx f (Hd x (or_introl eq_refl))).
    destruct (geval m C cx x) as [[|]|]; try reflexivity. apply IH; [exact Hr | intros c Hc; apply Hd; now right].
  Qed.

  Lemma any_children f l :
    Forall (fun c => forall fuel, gdepth c < fuel -> is_guard_satisfied fuel leaf (Some c) = geval m C cx c) l ->
    (forall c, In c l -> gdepth c < f) ->
    py_any (fun c => is_guard_satisfied f leaf (Some c)) l
    = (fix any (l : list guard) : option bool :=
         match l with
         | [] => Some false
         | x :: r => match geval m C cx x with None => None | Some true => Some true | Some false => any r end
         end) l.
  Proof.
    induction l as [|x r IH]; intros HF Hd; [reflexivity|]. cbn [py_any].
    inversion HF as [|? ? Hx Hr]; subst. rewrite (Hx f (Hd x (or_introl eq_refl))).
    destruct (geval m C cx x) as [[|]|]; try reflexivity. apply IH; [exact Hr | intros c Hc; apply Hd; now right].
  Qed.

  (* with enough fuel for the nesting depth, the translated evaluator is the model's, at ANY nesting depth *)
  Theorem guard_bridge g : forall fuel, gdepth g < fuel -> is_guard_satisfied fuel leaf (Some g) = geval m C cx g.
  Proof.
    induction g as [v z|k|k|t|l IH|l IH|g IH] using guard_ind'; intros fuel Hf; (destruct fuel as [|f]; [lia|]);
      try reflexivity.
    - cbn [is_guard_satisfied g_is_composite g_type_is_and g_children geval].
      apply all_children; [exact IH|]. intros c Hc. pose proof (gdepth_child c l Hc). cbn [gdepth] in Hf. lia.
    - cbn [is_guard_satisfied g_is_composite g_type_is_and g_type_is_or g_children geval].
      apply any_children; [exact IH|]. intros c Hc. pose proof (gdepth_child c l Hc). cbn [gdepth] in Hf. lia.
    - cbn [is_guard_satisfied g_is_composite g_type_is_and g_type_is_or g_children geval option_map].
      rewrite IH by (cbn [gdepth] in Hf; lia). now destruct (geval m C cx g) as [[|]|].
  Qed.

  (* the guard of a transition: an unguarded transition passes *)
  Theorem passes_bridge t :
    is_guard_satisfied (S (match t_guard t with Some g => gdepth g | None => 0 end)) leaf (t_guard t) = passes m C cx t.
  Proof.
    unfold passes. destruct (t_guard t) as [g|]; [|reflexivity]. apply guard_bridge. lia.
  Qed.
End G.
