(* Tie T for snapshots: what get_persisted_snapshot writes for the interpreter's own state and how from_snapshot rebuilds the
   active set and the history store, as RE-TRANSLATED / sliced from the current source on every build (Gen/GenGeom.v:
   persist_fields, restore_add, restore_cfg_src, restore_hist_src), are the model's `persist` / `restore` (Model/Snap.v). *)
From XSM Require Import Model.TreeLib Model.Snap Gen.GenTree Gen.GenGeom Proofs.TreeP Proofs.HistP Proofs.GeomBridge.
From Coq Require Import Lia.

(* ---------------- how one listed state is made active ---------------- *)

Lemma restore_add_loop_spec m n : forall fuel acc cur,
  fst (restore_add_loop1 m n fuel acc cur) = fold_left (fun a x => set_add x a) (chain fuel m cur) acc.
Proof.
  induction fuel as [|f IH]; intros acc cur; [reflexivity|].
  cbn [restore_add_loop1 chain]. destruct cur as [c|]; [|reflexivity]. cbn zeta. now rewrite IH.
Qed.

Lemma chain_more f m : forall o, ends f m o -> chain (S f) m o = chain f m o.
Proof.
  induction f as [|f IH]; intros o H.
  - cbn [ends] in H. subst o. reflexivity.
  - destruct o as [c|]; [|reflexivity]. cbn [ends] in H. cbn [chain]. f_equal. apply (IH _ H).
Qed.

(* the translated statement sequence adds the state and then walks its parent chain: the state with all its ancestors *)
Theorem restore_add_bridge m A x : wf m = true -> x < size m ->
  restore_add m A x = fold_left (fun C' a => cadd a C') (anc_self m x) A.
Proof.
  intros Hwf Hx. unfold restore_add. cbn zeta.
  pose proof (restore_add_loop_spec m x (S (size m)) (set_add x A) (parent m x)) as H.
  destruct (restore_add_loop1 m x (S (size m)) (set_add x A) (parent m x)) as [a c]. cbn [fst] in H. rewrite H.
  assert (He : ends (size m) m (parent m x)).
  { pose proof (ends_wf m Hwf (size m) x Hx Hx) as E. exact E. }
  rewrite (chain_more _ _ _ He). unfold anc_self, ancestors. rewrite anc_fuel_chain. reflexivity.
Qed.

(* ---------------- the loop over the stored configuration ---------------- *)

Lemma restore_cfg_src_none m ids : fold_left (fun acc_ v_state_id => match acc_ with None => None | Some v_active =>
      match get_state_by_id m v_state_id with Some v_node => Some (restore_add m v_active v_node) | None => None end end) ids None = None.
Proof. induction ids as [|x r IH]; [reflexivity | exact IH]. Qed.

Lemma restore_cfg_src_gen m : wf m = true -> forall ids A,
  fold_left (fun acc_ v_state_id => match acc_ with None => None | Some v_active =>
      match get_state_by_id m v_state_id with Some v_node => Some (restore_add m v_active v_node) | None => None end end) ids (Some A)
  = if forallb (fun x => Nat.ltb x (size m)) ids
    then Some (fold_left (fun C x => fold_left (fun C' a => cadd a C') (anc_self m x) C) ids A) else None.
Proof.
  intros Hwf. induction ids as [|x r IH]; intros A; [reflexivity|].
  cbn [fold_left forallb]. unfold get_state_by_id at 2. destruct (Nat.ltb x (size m)) eqn:E; cbn [andb].
  - apply Nat.ltb_lt in E. rewrite IH. now rewrite (restore_add_bridge m A x Hwf E).
  - apply restore_cfg_src_none.
Qed.

(* the translated loop: StateNotFoundError (None) exactly when an id is unknown, otherwise the model's restore_cfg *)
Theorem restore_cfg_bridge m ids : wf m = true ->
  restore_cfg_src m ids = if forallb (fun x => Nat.ltb x (size m)) ids then Some (restore_cfg m ids) else None.
Proof. intros Hwf. unfold restore_cfg_src, restore_cfg. now apply restore_cfg_src_gen. Qed.

(* ---------------- the history store of the restored interpreter ---------------- *)

Lemma filter_some_known m l : forallb (fun x => Nat.ltb x (size m)) l = true -> filter_some (get_state_by_id m) l = l.
Proof.
  induction l as [|x r IH]; intros H; [reflexivity|]. cbn [forallb] in H. apply andb_prop in H as [Hx Hr].
  cbn [filter_some]. unfold get_state_by_id at 1. rewrite Hx. now rewrite IH.
Qed.

Definition hist_known (m : machine) (h : list (nat * list nat)) : bool :=
  forallb (fun e => forallb (fun x => Nat.ltb x (size m)) (snd e)) h.
Definition nonempty (e : nat * list nat) : bool := match snd e with [] => false | _ => true end.

Lemma find_absent (p : nat) (h : list (nat * list nat)) :
  ~ In p (map fst h) -> find (fun e => Nat.eqb (fst e) p) h = None.
Proof.
  induction h as [|e r IH]; intros H; [reflexivity|]. cbn [find]. cbn [map] in H.
  destruct (Nat.eqb_spec (fst e) p) as [E|E]; [exfalso; apply H; now left|]. apply IH. intros Hin. apply H. now right.
Qed.

Lemma restore_hist_src_gen m p : forall h acc, NoDup (map fst h) ->
  hist_get (fold_left (fun v_H e_ => let v_nodes := filter_some (get_state_by_id m) (snd e_) in
      if truthy_list v_nodes then hist_set v_H (fst e_) v_nodes else v_H) h acc) p
  = match find (fun e => Nat.eqb (fst e) p) h with
    | Some e => if truthy_list (filter_some (get_state_by_id m) (snd e)) then filter_some (get_state_by_id m) (snd e) else hist_get acc p
    | None => hist_get acc p
    end.
Proof.
  induction h as [|e r IH]; intros acc Hnd; [reflexivity|].
  cbn [map] in Hnd. inversion Hnd as [|? ? Hnotin Hr]; subst.
  cbn [fold_left find]. cbn zeta. rewrite (IH _ Hr).
  destruct (Nat.eqb_spec (fst e) p) as [E|E].
  - subst p. rewrite (find_absent _ _ Hnotin).
    destruct (truthy_list (filter_some (get_state_by_id m) (snd e))); [apply hist_get_set_same | reflexivity].
  - assert (X : hist_get (if truthy_list (filter_some (get_state_by_id m) (snd e))
                         then hist_set acc (fst e) (filter_some (get_state_by_id m) (snd e)) else acc) p = hist_get acc p).
    { destruct (truthy_list _); [|reflexivity]. apply hist_get_set_other. congruence. }
    rewrite X. reflexivity.
Qed.

Lemma hist_get_filter_nonempty p : forall h, NoDup (map fst h) ->
  hist_get (filter nonempty h) p
  = match find (fun e => Nat.eqb (fst e) p) h with Some e => snd e | None => [] end.
Proof.
  unfold hist_get. induction h as [|e r IH]; intros Hnd; [reflexivity|].
  cbn [map] in Hnd. inversion Hnd as [|? ? Hnotin Hr]; subst. cbn [filter find].
  destruct (Nat.eqb_spec (fst e) p) as [E|E].
  - destruct (nonempty e) eqn:N.
    + cbn [find]. rewrite E, Nat.eqb_refl. reflexivity.
    + rewrite (IH Hr). subst p. rewrite (find_absent _ _ Hnotin). unfold nonempty in N. now destruct (snd e).
  - destruct (nonempty e); [cbn [find]; destruct (Nat.eqb_spec (fst e) p); [contradiction|]|]; apply (IH Hr).
Qed.

(* the restored history store answers every lookup like the model's: the stored lists, in stored order, without the empty ones *)
Theorem restore_hist_bridge m h p : NoDup (map fst h) -> hist_known m h = true ->
  hist_get (restore_hist_src m h) p = hist_get (filter nonempty h) p.
Proof.
  intros Hnd Hk. unfold restore_hist_src. etransitivity; [exact (restore_hist_src_gen m p h [] Hnd)|].
  rewrite (hist_get_filter_nonempty p h Hnd). change (hist_get [] p) with (@nil nat).
  destruct (find (fun e => Nat.eqb (fst e) p) h) as [e|] eqn:F; [|reflexivity].
  apply find_some in F as [Hin _]. unfold hist_known in Hk. rewrite forallb_forall in Hk. specialize (Hk e Hin).
  rewrite (filter_some_known m _ Hk). destruct (snd e); reflexivity.
Qed.

(* ---------------- from_snapshot as a whole, read through the translated pieces ---------------- *)

Definition restore_src (m : machine) (sn : snap) : option st :=
  match restore_cfg_src m (sn_cfg sn) with
  | None => None
  | Some C => Some (mk C (restore_hist_src m (sn_hist sn)) (sn_ctx sn) [] (sn_status sn) (sn_output sn) [] 0 0 [] 0)
  end.

Theorem restore_bridge m sn : wf m = true -> NoDup (map fst (sn_hist sn)) -> hist_known m (sn_hist sn) = true ->
  match restore_src m sn, restore m sn with
  | None, None => True
  | Some a, Some b => s_cfg a = s_cfg b /\ (forall p, hist_get (s_hist a) p = hist_get (s_hist b) p) /\ s_ctx a = s_ctx b
                      /\ s_status a = s_status b /\ s_output a = s_output b /\ s_queue a = s_queue b /\ s_pending a = s_pending b
  | _, _ => False
  end.
Proof.
  intros Hwf Hnd Hk. unfold restore_src, restore. rewrite (restore_cfg_bridge m _ Hwf).
  destruct (forallb _ (sn_cfg sn)); [|exact I].
  cbn. repeat split. intros p. now apply restore_hist_bridge.
Qed.

(* ---------------- get_persisted_snapshot: the fields it writes ---------------- *)

Record psnap := { p_status : option status; p_ctx : option ctx; p_cfg : option (list nat); p_output : option (option Z);
                  p_hist : option (list (nat * list nat)) }.
Definition pfill (m : machine) (s : st) (acc : psnap) (f : pfield) : psnap :=
  match f with
  | PStatus => {| p_status := Some (s_status s); p_ctx := p_ctx acc; p_cfg := p_cfg acc; p_output := p_output acc; p_hist := p_hist acc |}
  | PContextCopy => {| p_status := p_status acc; p_ctx := Some (s_ctx s); p_cfg := p_cfg acc; p_output := p_output acc; p_hist := p_hist acc |}
  | PConfigSortedIds => {| p_status := p_status acc; p_ctx := p_ctx acc; p_cfg := Some (sort_by (lt_id m) (s_cfg s)); p_output := p_output acc; p_hist := p_hist acc |}
  | POutput => {| p_status := p_status acc; p_ctx := p_ctx acc; p_cfg := p_cfg acc; p_output := Some (s_output s); p_hist := p_hist acc |}
  | PHistoryInOrder => {| p_status := p_status acc; p_ctx := p_ctx acc; p_cfg := p_cfg acc; p_output := p_output acc; p_hist := Some (s_hist s) |}
  end.
Definition persist_by (m : machine) (s : st) (fs : list pfield) : option snap :=
  match fold_left (pfill m s) fs {| p_status := None; p_ctx := None; p_cfg := None; p_output := None; p_hist := None |} with
  | {| p_status := Some a; p_ctx := Some b; p_cfg := Some c; p_output := Some d; p_hist := Some e |} =>
      Some {| sn_status := a; sn_ctx := b; sn_cfg := c; sn_output := d; sn_hist := e |}
  | _ => None
  end.

(* the fields the source writes, read this way, are the model's snapshot *)
Theorem persist_bridge m s : persist_by m s persist_fields = Some (persist m s).
Proof. reflexivity. Qed.

(* ---------------- the round trip, stated over the SOURCE's pieces only ---------------- *)
From XSM Require Import Proofs.SnapP.
From Coq Require Import Sorting.Permutation.

Theorem source_round_trip m s sn :
  wf m = true -> Forall (fun x => x < size m) (s_cfg s) -> closed m (s_cfg s) -> NoDup (s_cfg s) ->
  Forall (fun e => snd e <> []) (s_hist s) -> NoDup (map fst (s_hist s)) -> hist_known m (s_hist s) = true ->
  persist_by m s persist_fields = Some sn ->
  exists r, restore_src m sn = Some r
    /\ Permutation (s_cfg r) (s_cfg s) /\ (forall p, hist_get (s_hist r) p = hist_get (s_hist s) p)
    /\ s_ctx r = s_ctx s /\ s_status r = s_status s /\ s_output r = s_output s /\ s_queue r = [] /\ s_pending r = [].
Proof.
  intros Hwf Hlt Hcl Hnd Hne Hk1 Hk2 Hp.
  rewrite persist_bridge in Hp. injection Hp as <-.
  destruct (restore_persist_succeeds m s Hlt) as [r' Hr'].
  pose proof (restore_persist_fields m s Hlt Hcl Hnd Hne r' Hr') as (Pc & Ph & Px & Pst & Po & Pq & Pp & _).
  pose proof (restore_bridge m (persist m s) Hwf) as B. cbn [persist sn_hist] in B. specialize (B Hk1 Hk2).
  rewrite Hr' in B. destruct (restore_src m (persist m s)) as [a|]; [|contradiction].
  destruct B as (Bc & Bh & Bx & Bst & Bo & Bq & Bp).
  exists a. split; [reflexivity|]. repeat split.
  - rewrite Bc. exact Pc.
  - intros p. rewrite Bh, Ph. reflexivity.
  - congruence.
  - congruence.
  - congruence.
  - congruence.
  - congruence.
Qed.
