(* Exactly-once accounting of entries and exits inside one transition (property C03).
   The OEnter records a successful external transition writes are exactly the list `entered ... path`, in order; its
   OLeave records are exactly the members of the exit list that were active, in order; the entered states are pairwise
   distinct and none of them stayed active through the exit phase - so a state is never entered while it is active, and
   for every state (entries - exits) is its change in activity. *)
From XSM Require Import Model.Macro Proofs.TreeP Proofs.GuardP Proofs.StepP Proofs.PhaseP Proofs.LegalP Proofs.DescentP Proofs.EffectP
     Proofs.PreserveP Proofs.SnapP.
From XSM Require Import Proofs.SortP Proofs.OrderP.
From Coq Require Import Lia Permutation.

Fixpoint enters_nf (l : list obs) : list nat :=
  match l with [] => [] | OEnter x :: r => x :: enters_nf r | _ :: r => enters_nf r end.
Definition enters_of (l : list obs) : list nat := rev (enters_nf l).

Lemma enters_nf_app a b : enters_nf (a ++ b) = enters_nf a ++ enters_nf b.
Proof. induction a as [|o r IH]; simpl; [reflexivity|]. destruct o; simpl; now rewrite ?IH. Qed.
Lemma enters_of_app a b : enters_of (a ++ b) = enters_of b ++ enters_of a.
Proof. unfold enters_of. now rewrite enters_nf_app, rev_app_distr. Qed.
Lemma enters_nf_none l : Forall no_enter l -> enters_nf l = [].
Proof. induction 1 as [|o r Ho _ IH]; simpl; [reflexivity|]. destruct o; simpl in *; try exact IH. destruct Ho. Qed.

(* `a`, when it succeeds, appends a log segment whose OEnter records (oldest first) are exactly L and which has no OLeave *)
Definition tracks (L : list nat) (a : M) : Prop :=
  forall s s', a s = (s', None) -> exists seg, s_log s' = seg ++ s_log s /\ enters_of seg = L /\ leaves_nf seg = [].

Lemma infra_no_enter o : infra o = true -> no_enter o.
Proof. destruct o; try discriminate; intros _; exact I. Qed.

Definition quiet_obs (o : obs) : Prop := no_enter o /\ no_leave o.
Lemma infra_quiet o : infra o = true -> quiet_obs o.
Proof. destruct o; try discriminate; intros _; split; exact I. Qed.

Lemma tracks_of_emits a : emits quiet_obs a -> tracks [] a.
Proof.
  intros H s s' Hs. destruct (H s) as [seg [E F]]. rewrite Hs in E. simpl in E. exists seg. split; [exact E|].
  split.
  - unfold enters_of. rewrite (enters_nf_none seg); [reflexivity|]. eapply Forall_impl; [|exact F]. intros o [Ho _]. exact Ho.
  - apply leaves_nf_none. eapply Forall_impl; [|exact F]. intros o [_ Ho]. exact Ho.
Qed.

Lemma tracks_ret : tracks [] ret.
Proof. intros s s' H. inversion H; subst. exists []. repeat split. Qed.

Lemma tracks_bind L1 L2 a b : tracks L1 a -> tracks L2 b -> tracks (L1 ++ L2) (a ;; b).
Proof.
  intros Ha Hb s s' H. apply bind_ok in H as [s1 [H1 H2]].
  destruct (Ha s s1 H1) as [g1 [E1 [N1 V1]]]. destruct (Hb s1 s' H2) as [g2 [E2 [N2 V2]]].
  exists (g2 ++ g1). split; [rewrite E2, E1; apply app_assoc|]. split; [rewrite enters_of_app, N1, N2; reflexivity|].
  rewrite leaves_nf_app, V1, V2. reflexivity.
Qed.

Section Account.
  Variable m : machine.
  Variables (eng : engine) (pr : bool).

  Lemma tracks_actions acts ev : tracks [] (fun s => exec_actions eng pr acts ev s).
  Proof. apply tracks_of_emits. apply e_exec_actions; [apply infra_quiet | intros k; split; exact I]. Qed.
  Lemma tracks_sched_before x : tracks [] (sched_before eng m x).
  Proof. apply tracks_of_emits, e_sched_before, infra_quiet. Qed.
  Lemma tracks_sched_after x : tracks [] (sched_after eng m x).
  Proof. apply tracks_of_emits, e_sched_after, infra_quiet. Qed.
  Lemma tracks_fire x : tracks [] (if is_final m x then lift (fire_on_done eng pr m x) else ret).
  Proof. destruct (is_final m x); [|apply tracks_ret]. apply tracks_of_emits, e_lift, ef_fire_on_done, infra_quiet. Qed.

  (* the OEnter records of an entry are the list `entered`, in order *)
  Theorem enter_states_tracks : forall f l ev, tracks (entered f m l) (enter_states f eng pr m l ev).
  Proof.
    induction f as [|f IH]; intros l ev; [intros s s' H; discriminate|].
    cbn [enter_states entered].
    set (ep := parents_of m l). set (ei := with_parent m l).
    set (body := fun x => x :: match kind_of m x with
             | KCompound => match n_initial (nd m x) with
                            | Some i => if mem x ep then [] else entered f m [i]
                            | None => []
                            end
             | KParallel => entered f m (filter (fun c => negb (is_history m c) && negb (mem c ei)) (children m x))
             | _ => []
             end).
    assert (Hgen : forall l0, tracks (List.concat (map body l0)) (for_each (enter_one eng pr m (enter_states f eng pr m) ep ei ev) l0)); [|apply Hgen].
    induction l0 as [|x r IHr]; [apply tracks_ret|].
    cbn [for_each map List.concat]. apply tracks_bind; [|exact IHr].
    unfold enter_one, body.
    change (x :: ?rest) with ([x] ++ rest).
    apply tracks_bind.
    { intros s s' H. inversion H; subst. exists [OEnter x]. repeat split. }
    change (match kind_of m x with KCompound => _ | KParallel => _ | _ => [] end) with ([] ++ ([] ++ ([] ++ match kind_of m x with
             | KCompound => match n_initial (nd m x) with
                            | Some i => if mem x ep then [] else entered f m [i]
                            | None => []
                            end
             | KParallel => entered f m (filter (fun c => negb (is_history m c) && negb (mem c ei)) (children m x))
             | _ => []
             end))).
    apply tracks_bind; [apply tracks_actions|]. apply tracks_bind; [apply tracks_sched_before|]. apply tracks_bind; [apply tracks_fire|].
    destruct (kind_of m x); try apply tracks_sched_after.
    - destruct (n_initial (nd m x)) as [i|].
      + destruct (mem x ep); [apply tracks_sched_after|]. rewrite <- (app_nil_r (entered f m [i])). apply tracks_bind; [apply IH | apply tracks_sched_after].
      + destruct (children m x); [apply tracks_sched_after | intros s s' H; discriminate].
    - rewrite <- (app_nil_r (entered f m _)). apply tracks_bind; [|apply tracks_sched_after].
      destruct (filter (fun c => negb (is_history m c) && negb (mem c ei)) (children m x)) as [|c r'] eqn:Ef; [rewrite entered_nil; apply tracks_ret | apply IH].
  Qed.
End Account.

Lemma record_fold_log m C c : forall s0,
  s_log (fold_left (fun s' p => if has_history_child m p then
          match sort_by (lt_depth_id m) (filter (fun n => negb (Nat.eqb n p) && is_desc m n p) C) with
          | [] => s' | _ :: _ => with_hist (hist_set (s_hist s') p (sort_by (lt_depth_id m) (filter (fun n => negb (Nat.eqb n p) && is_desc m n p) C))) s' end
        else s') c s0) = s_log s0.
Proof.
  induction c as [|q r IH]; intros s0; simpl; [reflexivity|].
  destruct (has_history_child m q); [|apply IH]. destruct (sort_by _ _); [apply IH|]. rewrite IH. reflexivity.
Qed.
Lemma record_history_log m l s : s_log (record_history m l s) = s_log s.
Proof. unfold record_history. apply record_fold_log. Qed.

(* ---- exits: the OLeave records are the listed states that were active, in list order ---- *)
Section Exits.
  Variable m : machine.
  Variables (eng : engine) (pr : bool).

  Definition xtracks (L : list nat -> list nat) (a : M) : Prop :=
    forall s s', a s = (s', None) -> exists seg, s_log s' = seg ++ s_log s /\ leaves_of seg = L (s_cfg s) /\ enters_nf seg = [].

  Lemma leaves_none_of_emits a s s' : emits quiet_obs a -> a s = (s', None) -> exists seg, s_log s' = seg ++ s_log s /\ leaves_nf seg = [] /\ enters_nf seg = [].
  Proof.
    intros H Hs. destruct (H s) as [seg [E F]]. rewrite Hs in E. simpl in E. exists seg. split; [exact E|]. split.
    - apply leaves_nf_none. eapply Forall_impl; [|exact F]. intros o [_ Ho]. exact Ho.
    - apply enters_nf_none. eapply Forall_impl; [|exact F]. intros o [Ho _]. exact Ho.
  Qed.

  Lemma keeps_of_emits_actions acts ev s s' : exec_actions eng pr acts ev s = (s', None) -> s_cfg s' = s_cfg s.
  Proof. intros H. pose proof (exec_actions_same eng pr acts ev s) as [Hc _]. rewrite H in Hc. exact Hc. Qed.

  Theorem exit_states_leaves l ev s s' : NoDup l ->
    exit_states eng pr m l ev s = (s', None) ->
    exists seg, s_log s' = seg ++ s_log s /\ leaves_of seg = filter (fun x => mem x (s_cfg s)) l /\ enters_nf seg = [].
  Proof.
    intros Hnd H. unfold exit_states in H. apply bind_ok in H as [s1 [H1 H]].
    assert (E1 : s_cfg s1 = s_cfg s /\ s_log s1 = s_log s).
    { inversion H1; subst. split; [apply record_history_cfg | apply record_history_log]. }
    destruct E1 as [Ec1 El1].
    (* the per-state loop, with any configuration-preserving, silent prefix step (cancel or nothing) *)
    assert (Hloop : forall (pre : nat -> M), (forall x, emits quiet_obs (pre x)) -> (forall x, keeps_cfg (pre x)) -> forall l0 t t', NoDup l0 ->
              for_each (fun x => pre x ;; (fun s => exec_actions eng pr (n_exit (nd m x)) (exit_event eng m ev x) s) ;;
                                 lift (fun s => if mem x (s_cfg s) then logo (OLeave x) (with_cfg (cdel x (s_cfg s)) s) else s)) l0 t = (t', None) ->
              exists seg, s_log t' = seg ++ s_log t /\ leaves_of seg = filter (fun x => mem x (s_cfg t)) l0 /\ enters_nf seg = []).
    { intros pre Hpe Hpk. induction l0 as [|x r IHr]; intros t t' Hn Ht.
      - inversion Ht; subst. exists []. repeat split.
      - cbn [for_each] in Ht. apply bind_ok in Ht as [t1 [T1 Ht]]. inversion Hn as [|? ? Hx Hnr]; subst.
        apply bind_ok in T1 as [u0 [U0 T1]]. apply bind_ok in T1 as [u1 [U1 T1]]. inversion T1; subst t1; clear T1.
        destruct (leaves_none_of_emits (pre x) t u0 (Hpe x) U0) as [g0 [G0 [L0 N0]]].
        assert (C0 : s_cfg u0 = s_cfg t) by (pose proof (Hpk x t) as K; rewrite U0 in K; exact K).
        destruct (leaves_none_of_emits (fun s => exec_actions eng pr (n_exit (nd m x)) (exit_event eng m ev x) s) u0 u1) as [g1 [G1 [L1 N1]]];
          [apply e_exec_actions; [apply infra_quiet | intros k; split; exact I] | exact U1|].
        assert (C1 : s_cfg u1 = s_cfg u0) by (now apply (keeps_of_emits_actions (n_exit (nd m x)) (exit_event eng m ev x))).
        destruct (IHr _ t' Hnr Ht) as [g2 [G2 [L2 N2]]].
        assert (Hrest : filter (fun y => mem y (s_cfg (if mem x (s_cfg u1) then logo (OLeave x) (with_cfg (cdel x (s_cfg u1)) u1) else u1))) r
                        = filter (fun y => mem y (s_cfg t)) r).
        { apply filter_ext_in. intros y Hy. destruct (mem x (s_cfg u1)) eqn:Em; simpl; [|congruence].
          rewrite C1, C0. unfold cdel, mem. rewrite !existsb_exists_iff_mem_filter || idtac.
          destruct (existsb (Nat.eqb y) (s_cfg t)) eqn:E1.
          - apply existsb_exists in E1 as [z [Hz Ez]]. apply Nat.eqb_eq in Ez. subst z.
            apply existsb_exists. exists y. split; [|apply Nat.eqb_refl]. apply filter_In. split; [exact Hz|].
            apply negb_true_iff, Nat.eqb_neq. intros ->. contradiction.
          - destruct (existsb (Nat.eqb y) (filter (fun z => negb (Nat.eqb z x)) (s_cfg t))) eqn:E2; [|reflexivity].
            apply existsb_exists in E2 as [z [Hz Ez]]. apply filter_In in Hz as [Hz _].
            assert (existsb (Nat.eqb y) (s_cfg t) = true) by (apply existsb_exists; exists z; now split). congruence. }
        destruct (mem x (s_cfg u1)) eqn:Em.
        + exists (g2 ++ OLeave x :: g1 ++ g0). split.
          { rewrite G2. simpl. rewrite G1, G0. rewrite <- app_assoc. simpl. rewrite <- app_assoc. reflexivity. }
          split.
          * unfold leaves_of. rewrite leaves_nf_app. simpl. rewrite leaves_nf_app, L1, L0. simpl. rewrite rev_app_distr. simpl.
            fold (leaves_of g2). rewrite L2, Hrest. cbn [filter]. rewrite <- C0, <- C1, Em. reflexivity.
          * rewrite enters_nf_app. simpl. rewrite enters_nf_app, N2, N1, N0. reflexivity.
        + exists (g2 ++ g1 ++ g0). split.
          { rewrite G2, G1, G0. now rewrite <- !app_assoc. }
          split.
          * unfold leaves_of. rewrite !leaves_nf_app, L1, L0, !app_nil_r. fold (leaves_of g2). rewrite L2, Hrest. cbn [filter]. rewrite <- C0, <- C1, Em. reflexivity.
          * rewrite !enters_nf_app, N2, N1, N0. reflexivity. }
    assert (Hcan : forall x, emits quiet_obs (cancel x)) by (intros x; apply e_cancel, infra_quiet).
    destruct eng.
    - apply bind_ok in H as [s2 [H2 H]].
      destruct (leaves_none_of_emits (for_each cancel l) s1 s2 (e_for_each quiet_obs cancel l Hcan) H2) as [g0 [G0 [L0 N0]]].
      assert (C2 : s_cfg s2 = s_cfg s1) by (pose proof (for_each_keeps cancel l keeps_cancel s1) as K; rewrite H2 in K; exact K).
      destruct (Hloop (fun _ => ret) (fun _ => e_ret quiet_obs) (fun _ => keeps_ret) l s2 s' Hnd H) as [g [G [L N]]].
      exists (g ++ g0). split; [rewrite G, G0, El1; now rewrite <- app_assoc|]. split; [unfold leaves_of; rewrite leaves_nf_app, L0, app_nil_r; fold (leaves_of g); rewrite L, C2, Ec1; reflexivity|].
      rewrite enters_nf_app, N, N0. reflexivity.
    - destruct (Hloop cancel Hcan keeps_cancel l s1 s' Hnd H) as [g [G [L N]]].
      exists g. split; [rewrite G, El1; reflexivity|]. split; [rewrite L, Ec1; reflexivity | exact N].
    - apply bind_ok in H as [s2 [H2 H]].
      destruct (leaves_none_of_emits (for_each cancel l) s1 s2 (e_for_each quiet_obs cancel l Hcan) H2) as [g0 [G0 [L0 N0]]].
      assert (C2 : s_cfg s2 = s_cfg s1) by (pose proof (for_each_keeps cancel l keeps_cancel s1) as K; rewrite H2 in K; exact K).
      destruct (Hloop (fun _ => ret) (fun _ => e_ret quiet_obs) (fun _ => keeps_ret) l s2 s' Hnd H) as [g [G [L N]]].
      exists (g ++ g0). split; [rewrite G, G0, El1; now rewrite <- app_assoc|]. split; [unfold leaves_of; rewrite leaves_nf_app, L0, app_nil_r; fold (leaves_of g); rewrite L, C2, Ec1; reflexivity|].
      rewrite enters_nf_app, N, N0. reflexivity.
  Qed.
End Exits.

(* ---- the entered states of a path are pairwise distinct ---- *)
Section Distinct.
  Variable m : machine.
  Hypothesis Hwf : wf m = true.

  Lemma nodup_concat_filter {A} (g : A -> list nat) (p : A -> bool) l : NoDup (List.concat (map g l)) -> NoDup (List.concat (map g (filter p l))).
  Proof.
    induction l as [|a r IH]; simpl; intros H; [constructor|].
    assert (Hr : NoDup (List.concat (map g r))) by (clear -H; induction (g a) as [|y ys IHy]; simpl in H; [exact H | inversion H; auto]).
    destruct (p a); simpl; [|now apply IH].
    apply nodup_app.
    - clear -H. induction (g a) as [|y ys IHy]; simpl in *; [constructor|]. inversion H as [|? ? Hy Hys]; subst.
      constructor; [intros Hin; apply Hy; apply in_or_app; now left | now apply IHy].
    - now apply IH.
    - intros y Hy Hin. apply in_concat in Hin as [l' [Hl' Hy']]. apply in_map_iff in Hl' as [b [<- Hb]]. apply filter_In in Hb as [Hb _].
      clear -H Hy Hy' Hb. induction (g a) as [|z zs IHz]; [destruct Hy|]. simpl in H. inversion H as [|? ? Hz Hzs]; subst.
      destruct Hy as [<-|Hy]; [|now apply IHz]. apply Hz. apply in_or_app. right. apply in_concat. exists (g b). split; [now apply in_map | exact Hy'].
  Qed.

  Lemma chain_below d p : chain m d p -> forall y, In y p -> desc m y (hd 0 p).
  Proof.
    induction 1 as [d x Hx Hp|d x r Hx Hp Hc IH]; intros y Hy; simpl.
    - destruct Hy as [<-|[]]. apply desc_refl.
    - destruct Hy as [<-|Hy]; [apply desc_refl|].
      destruct r as [|x' r']; [inversion Hc|]. simpl in IH.
      assert (Hx' : x' < size m /\ parent m x' = Some x) by (inversion Hc; subst; split; assumption). destruct Hx' as [Hx's Hpx'].
      destruct (chain_props m Hwf x (x' :: r') Hc y Hy) as [Hys _].
      apply (desc_trans m Hwf x' x Hx's); [apply (desc_child m Hwf x' x x Hx's Hpx'), desc_refl | exact Hys | now apply IH].
  Qed.

  Theorem entered_chain_nodup f d P : chain m d P -> NoDup (entered (S f) m P).
  Proof.
    intros HcP. pose proof (with_parent_chain m Hwf d P HcP) as Hwp.
    cbn [entered]. rewrite Hwp.
    set (B := fun x => x :: match kind_of m x with
             | KCompound => match n_initial (nd m x) with
                            | Some i => if mem x (parents_of m P) then [] else entered f m [i]
                            | None => []
                            end
             | KParallel => entered f m (filter (fun c => negb (is_history m c) && negb (mem c P)) (children m x))
             | _ => []
             end).
    (* every piece: the member itself plus default descents of some of its children outside the path *)
    assert (HB : forall x, In x P -> exists S, B x = x :: List.concat (map (descent f m) S) /\ NoDup (B x)
                                       /\ (forall c, In c S -> In c (children m x) /\ ~ In c P)).
    { intros x Hx. destruct (chain_props m Hwf d P HcP x Hx) as [Hxs _].
      pose proof (descent_nodup m Hwf (S f) x Hxs) as Hnd. cbn [descent] in Hnd.
      unfold B. destruct (kind_of m x) eqn:Hk; try (exists []; split; [reflexivity | split; [repeat constructor; intros [] | intros c []]]).
      - destruct (n_initial (nd m x)) as [i|] eqn:Hi; [|exists []; split; [reflexivity | split; [repeat constructor; intros [] | intros c []]]].
        destruct (mem x (parents_of m P)) eqn:Em; [exists []; split; [reflexivity | split; [repeat constructor; intros [] | intros c []]]|].
        assert (Hok : ok_list m [i]) by (apply (ok_children m Hwf x); [exact Hxs | intros z Hz; destruct Hz as [E|[]]; subst z; now apply (initial_child m Hwf x i)]).
        exists [i]. split; [now rewrite (entered_ok m Hwf f [i] Hok)|]. split.
        + rewrite (entered_ok m Hwf f [i] Hok). unfold kids in Hnd. rewrite Hk, Hi in Hnd. exact Hnd.
        + intros c Hc. destruct Hc as [E|[]]. subst c. split; [now apply (initial_child m Hwf x i)|].
          intros HiP. apply mem_false in Em. apply Em. apply (in_parents_of m). exists i. split; [exact HiP|].
          now destruct (child_props m Hwf x i Hxs (initial_child m Hwf x i Hxs Hi)) as [_ [_ Hp]].
      - set (regs' := filter (fun c => negb (is_history m c) && negb (mem c P)) (children m x)).
        assert (Hok : ok_list m regs') by (apply (ok_children m Hwf x); [exact Hxs | intros z Hz; apply filter_In in Hz; tauto]).
        exists regs'. split; [now rewrite (entered_ok m Hwf f regs' Hok)|]. split.
        + rewrite (entered_ok m Hwf f regs' Hok). unfold kids in Hnd. rewrite Hk in Hnd.
          assert (Er : regs' = filter (fun c => negb (mem c P)) (filter (fun c => negb (is_history m c)) (children m x))).
          { unfold regs'. clear. induction (children m x) as [|c r IH]; simpl; [reflexivity|]. destruct (negb (is_history m c)); simpl; [destruct (negb (mem c P)); simpl; now rewrite IH | exact IH]. }
          rewrite Er. inversion Hnd as [|? ? Hx' Hrest]; subst. constructor.
          * intros Hin. apply Hx'. apply in_concat in Hin as [l' [Hl' Hy]]. apply in_map_iff in Hl' as [c [<- Hc]]. apply filter_In in Hc as [Hc _].
            apply in_concat. exists (descent f m c). split; [now apply in_map | exact Hy].
          * now apply nodup_concat_filter.
        + intros c Hc. unfold regs' in Hc. apply filter_In in Hc as [Hc Hb]. split; [exact Hc|]. apply andb_prop in Hb as [_ Hb].
          apply negb_true_iff in Hb. now apply mem_false. }
    (* along the path *)
    assert (Hsuf : forall r pre d', P = pre ++ r -> chain m d' r -> NoDup (List.concat (map B r))).
    { induction r as [|x r IH]; intros pre d' HP Hcr; [constructor|].
      assert (HxP : In x P) by (rewrite HP; apply in_or_app; right; now left).
      destruct (chain_props m Hwf d P HcP x HxP) as [Hxs _].
      destruct (HB x HxP) as [Sx [EB [NB HS]]].
      cbn [map List.concat]. destruct r as [|x' r']; [simpl; rewrite app_nil_r; exact NB|].
      assert (Hc' : chain m x (x' :: r')) by (inversion Hcr; subst; assumption).
      assert (Hx' : x' < size m /\ parent m x' = Some x) by (inversion Hc'; subst; split; assumption). destruct Hx' as [Hx's Hpx'].
      destruct (child_of_parent m Hwf x' x Hx's Hpx') as [_ Hcx'].
      apply nodup_app; [exact NB | apply (IH (pre ++ [x]) x); [rewrite <- app_assoc; exact HP | exact Hc']|].
      intros z Hz Hin. apply in_concat in Hin as [l' [Hl' Hz']]. apply in_map_iff in Hl' as [y [<- Hy]].
      assert (HyP : In y P) by (rewrite HP; apply in_or_app; right; right; exact Hy).
      destruct (chain_props m Hwf d P HcP y HyP) as [Hys _].
      destruct (HB y HyP) as [Sy [EBy [_ HSy]]].
      (* z is at or below y, hence at or below x' *)
      assert (Hzy : desc m z y /\ z < size m).
      { rewrite EBy in Hz'. destruct Hz' as [<-|Hz']; [split; [apply desc_refl | exact Hys]|].
        apply in_concat in Hz' as [l2 [Hl2 Hz2]]. apply in_map_iff in Hl2 as [c [<- Hc]].
        destruct (HSy c Hc) as [Hcy _]. destruct (child_props m Hwf y c Hys Hcy) as [_ [Hcs Hpc]].
        destruct (descent_ge m Hwf f c z Hcs Hz2) as [_ Hzs]. split; [|exact Hzs].
        apply (desc_trans m Hwf c y Hcs); [apply (desc_child m Hwf c y y Hcs Hpc), desc_refl | exact Hzs | now apply (descent_desc m Hwf f c z Hcs)]. }
      destruct Hzy as [Hzy Hzs].
      assert (Hzx' : desc m z x').
      { apply (desc_trans m Hwf y x' Hys); [|exact Hzs | exact Hzy]. apply (chain_below x (x' :: r') Hc' y Hy). }
      rewrite EB in Hz. destruct Hz as [E|Hz].
      - subst z. apply (child_not_above m Hwf x x' Hxs Hcx' Hzx').
      - apply in_concat in Hz as [l2 [Hl2 Hz2]]. apply in_map_iff in Hl2 as [c [<- Hc]].
        destruct (HS c Hc) as [Hcx HcNP]. destruct (child_props m Hwf x c Hxs Hcx) as [_ [Hcs _]].
        assert (c = x') by (apply (siblings_disjoint m Hwf x c x' z Hxs Hzs Hcx Hcx'); [now apply (descent_desc m Hwf f c z Hcs) | exact Hzx']).
        subst c. apply HcNP. rewrite HP. apply in_or_app. right. right. now left. }
    apply (Hsuf P [] d); [reflexivity | exact HcP].
  Qed.
End Distinct.

(* ---- one whole external transition ---- *)
Section Transition.
  Variable m : machine.
  Variables (eng : engine) (pr : bool).

  Lemma filter_all_true {A} (f : A -> bool) l : (forall x, In x l -> f x = true) -> filter f l = l.
  Proof. induction l as [|a r IH]; simpl; intros H; [reflexivity|]. rewrite (H a (or_introl eq_refl)). f_equal. apply IH. intros x Hx. apply H. now right. Qed.

  (* the log of a successful external transition: its OLeave records are exactly the exit list, in order, and its
     OEnter records exactly the states `entered` computes from the entry path (and from the restored history path) *)
  Theorem external_log t tgt ev s0 s1 :
    NoDup (s_cfg s0) ->
    exec_external eng pr m t tgt ev s0 = (s1, None) ->
    let d := find_domain m (t_src t) tgt in
    let xs := rev (sort_by (lt_depth_id m) (ext_exit_set m (s_cfg s0) (s_hist s0) d tgt)) in
    let hist := is_history m tgt in
    let path := if hist then [] else ext_path m tgt d in
    let cp := if hist then combined_path m d (resolve_history m (s_hist s0) tgt) else [] in
    exists seg, s_log s1 = seg ++ s_log s0
      /\ leaves_of seg = xs
      /\ enters_of seg = entered (S (size m)) m path ++ entered (S (size m)) m cp.
  Proof.
    intros Hnd H. cbv zeta. unfold exec_external in H.
    match type of H with (match ?b s0 with _ => _ end) = _ => destruct (b s0) as [sb [e|]] eqn:Eb end.
    - exfalso. destruct (for_each _ _ _) as [s2 [e2|]]; discriminate.
    - set (d := find_domain m (t_src t) tgt) in *.
      set (X := ext_exit_set m (s_cfg s0) (s_hist s0) d tgt) in *.
      set (xs := rev (sort_by (lt_depth_id m) X)) in *.
      assert (HX : NoDup xs).
      { unfold xs. apply NoDup_rev. apply (Permutation_NoDup (sort_by_perm (lt_depth_id m) X)).
        unfold X, ext_exit_set, exit_set_h, exit_set. destruct (Nat.eqb tgt 0); [exact Hnd|].
        destruct (is_history m tgt); destruct (is_parallel m d); try destruct (branch_of m d tgt);
          repeat apply filter_nodup; exact Hnd. }
      assert (Hact : filter (fun x => mem x (s_cfg s0)) xs = xs).
      { apply filter_all_true. intros x Hx. apply mem_In. unfold xs in Hx. rewrite <- in_rev in Hx.
        apply (proj1 (sort_by_In (lt_depth_id m) x X)) in Hx. unfold X, ext_exit_set in Hx. destruct (Nat.eqb tgt 0); [exact Hx|].
        now apply (exit_set_h_sub m (s_cfg s0) (s_hist s0) d tgt x). }
      (* hooks only add OTrans / ONotify *)
      assert (Hk : exists hk, s_log s1 = hk ++ s_log sb /\ leaves_nf hk = [] /\ enters_nf hk = []).
      { destruct eng; unfold bind, hook_trans, hook_notify, lift, logo in H; inversion H; subst; simpl;
          eexists [_; _]; (split; [reflexivity | split; reflexivity]). }
      destruct Hk as [hk [Ek [Lk Nk]]]. clear H.
      apply bind_ok in Eb as [sx [Hx Eb]].
      destruct (exit_states_leaves m eng pr xs (Some ev) s0 sx HX Hx) as [g1 [E1 [L1 N1]]]. rewrite Hact in L1.
      apply bind_ok in Eb as [sa [Ha Eb]].
      destruct (tracks_actions eng pr (t_actions t) ev sx sa Ha) as [g2 [E2 [N2 L2]]].
      apply bind_ok in Eb as [se [He Eb]]. unfold enter in He.
      destruct (enter_states_tracks m eng pr (S (size m)) _ (Some ev) sa se He) as [g3 [E3 [N3 L3]]].
      assert (H4 : exists g4, s_log sb = g4 ++ s_log se /\
                   enters_of g4 = entered (S (size m)) m (if is_history m tgt then combined_path m d (resolve_history m (s_hist s0) tgt) else [])
                   /\ leaves_nf g4 = []).
      { destruct (is_history m tgt).
        - destruct (combined_path m d _) as [|c cp] eqn:Ecp.
          + inversion Eb; subst. exists []. rewrite entered_nil. repeat split.
          + unfold enter in Eb. exact (enter_states_tracks m eng pr (S (size m)) _ (Some ev) se sb Eb).
        - inversion Eb; subst. exists []. rewrite entered_nil. repeat split. }
      destruct H4 as [g4 [E4 [N4 L4]]].
      exists (hk ++ g4 ++ g3 ++ g2 ++ g1). split; [rewrite Ek, E4, E3, E2, E1; now rewrite <- !app_assoc|]. split.
      + rewrite !leaves_of_app. unfold leaves_of at 2 3 4 5. rewrite Lk, L4, L3, L2. simpl. now rewrite !app_nil_r.
      + rewrite !enters_of_app. unfold enters_of at 1 5. rewrite N1, Nk. simpl. rewrite N2, N3, N4. simpl. now rewrite app_nil_r.
  Qed.
End Transition.

(* ---- exactly-once accounting for a transition out of a legal configuration ---- *)
Section Accounting.
  Variable m : machine.
  Hypothesis Hwf : wf m = true.
  Hypothesis Hgood : good_initials m = true.
  Variables (eng : engine) (pr : bool).

  (* everything an entry path activates lies at or below the path's first state *)
  Lemma entered_below_head d x1 P' : chain m d (x1 :: P') -> is_history m (last (x1 :: P') 0) = false ->
    forall y, In y (entered (S (size m)) m (x1 :: P')) -> desc m y x1.
  Proof.
    intros Hchain Hlast y Hy.
    assert (HNc : Closed m x1 (entered (S (size m)) m (x1 :: P'))).
    { apply (Closed_ext m x1 (chain_set m (size m) (x1 :: P'))).
      - intros z. symmetry. now apply (entered_chain m Hwf (size m) d (x1 :: P') Hchain).
      - apply (chain_set_closed m Hwf Hgood (size m) d (x1 :: P') x1 Hchain); [reflexivity | | exact Hlast].
        intros z Hz. destruct (chain_props m Hwf d (x1 :: P') Hchain z Hz). lia. }
    now apply (K_below m x1 _ HNc).
  Qed.

  Theorem external_accounting t tgt ev s0 s1 :
    Legal m (s_cfg s0) -> In (t_src t) (s_cfg s0) -> tgt < size m -> tgt <> 0 -> is_history m tgt = false ->
    exec_external eng pr m t tgt ev s0 = (s1, None) ->
    exists seg, s_log s1 = seg ++ s_log s0
      /\ NoDup (leaves_of seg) /\ NoDup (enters_of seg)
      /\ (forall x, In x (leaves_of seg) -> In x (s_cfg s0))
      /\ (forall x, In x (enters_of seg) -> In x (s_cfg s0) -> In x (leaves_of seg))
      /\ (forall x, In x (s_cfg s1) <-> (In x (s_cfg s0) /\ ~ In x (leaves_of seg)) \/ In x (enters_of seg)).
  Proof.
    intros HL Hsrc Ht Hne Hh Hex.
    set (C := s_cfg s0) in *. set (d := find_domain m (t_src t) tgt).
    assert (Hd : In d (ancestors m tgt)) by (apply (domain_above_target m Hwf); [now apply (L_range m _ HL) | exact Ht | exact Hne]).
    assert (HdC : In d C) by now apply (domain_active m Hwf).
    destruct (external_log m eng pr t tgt ev s0 s1 (L_nodup m _ HL) Hex) as [seg [Elog [Elv Een]]].
    cbv zeta in Elv, Een. fold d in Elv, Een. rewrite Hh in Een. rewrite entered_nil, app_nil_r in Een.
    rewrite (ext_exit_set_nonroot m _ _ d tgt Hne), (exit_set_h_plain m (s_cfg s0) (s_hist s0) d tgt Hh) in Elv. fold C in Elv.
    rewrite (ext_path_nonroot m tgt d Hne) in Een.
    pose proof (external_effect m eng pr t tgt ev s0 s1 Hex) as Heff. cbv zeta in Heff. fold d in Heff. rewrite Hh in Heff.
    rewrite entered_nil in Heff. unfold add_all at 1 in Heff. cbn [fold_left] in Heff.
    rewrite (ext_exit_set_nonroot m _ _ d tgt Hne), (ext_path_nonroot m tgt d Hne), (exit_set_h_plain m (s_cfg s0) (s_hist s0) d tgt Hh) in Heff. fold C in Heff.
    destruct (formula_parts m Hwf C d tgt HL Ht Hd HdC) as [x1 [P' [Bs [EP [Hchain [Hlast [Hrm [HBs [Hx1B _]]]]]]]]].
    set (xs := rev (sort_by (lt_depth_id m) (exit_set m C d tgt))) in *.
    set (N := entered (S (size m)) m (path_to m tgt d)) in *.
    assert (HinX : forall x, In x xs -> In x C).
    { intros x Hx. unfold xs in Hx. rewrite <- in_rev in Hx. apply (proj1 (sort_by_In (lt_depth_id m) x _)) in Hx.
      now apply (exit_set_sub m C d tgt x). }
    assert (HXnd : NoDup xs).
    { unfold xs. apply NoDup_rev. apply (Permutation_NoDup (sort_by_perm (lt_depth_id m) _)).
      unfold exit_set. destruct (is_parallel m d); try destruct (branch_of m d tgt); repeat apply filter_nodup; apply (L_nodup m _ HL). }
    exists seg. split; [exact Elog|]. rewrite Elv, Een.
    split; [exact HXnd|]. split; [unfold N; rewrite EP; now apply (entered_chain_nodup m Hwf (size m) d)|].
    split; [exact HinX|]. split.
    - (* never entered while active: an entered state that was active lies below the path head, hence was exited *)
      intros x HxN HxC.
      assert (Hdx : desc m x x1) by (unfold N in HxN; rewrite EP in HxN; apply (entered_below_head d x1 P' Hchain); [now rewrite Hlast | exact HxN]).
      destruct (in_dec Nat.eq_dec x xs) as [Hin|Hnin]; [exact Hin|]. exfalso.
      assert (Hk : In x (remove_all xs C)) by (rewrite remove_all_filter; apply filter_In; split; [exact HxC|]; apply negb_true_iff, mem_false; exact Hnin).
      rewrite Hrm in Hk. apply (kept_In m Bs C x) in Hk as [_ Hk].
      assert (removedb m Bs x = true) by (apply (removedb_spec m Bs x); exists x1; now split). congruence.
    - intros x. rewrite Heff. unfold add_all. rewrite fold_cadd_In. fold N. rewrite remove_all_filter, filter_In, negb_true_iff, mem_false. tauto.
  Qed.
End Accounting.
