(* Legality is preserved by transitions that target a history pseudo-state (property C01), part 2.
   What history remembers for a parent p is always the set of proper descendants of p in some LEGAL configuration
   (`HistOK`, an invariant of runs: _record_history copies it from the configuration the transition starts in).
   Hence the states a history pseudo-state resolves to - and all the states on the paths down to them - lie in one
   legal configuration, the combined entry path is a tree that satisfies the hypotheses of Proofs/TreeEntryP.v, and the
   transition leaves a legal configuration.  A never-recorded history state resolves to a single state (its default
   target, the parent's initial child, or the parallel parent itself) and the chain theorem of PreserveP applies. *)
From XSM Require Import Model.Macro Proofs.TreeP Proofs.GuardP Proofs.StepP Proofs.LegalP Proofs.DescentP Proofs.EffectP
     Proofs.PreserveP Proofs.SnapP Proofs.SortP Proofs.OrderP Proofs.HistP Proofs.TreeEntryP Proofs.PhaseP Proofs.AccountP.
From Coq Require Import Lia Permutation Sorting.Sorted.

(* what is remembered for p: the proper descendants of p in a legal configuration that contains p *)
Definition rem_ok (m : machine) (p : nat) (rem : list nat) : Prop :=
  exists C0, Legal m C0 /\ In p C0 /\ forall y, In y rem <-> In y C0 /\ desc m y p /\ y <> p.
Definition HistOK (m : machine) (H : list (nat * list nat)) : Prop :=
  forall p, hist_get H p <> [] -> rem_ok m p (hist_get H p).

Lemma histok_nil m : HistOK m [].
Proof. intros p Hne. exfalso. apply Hne. reflexivity. Qed.

Section Record.
  Variable m : machine.
  Hypothesis Hwf : wf m = true.

  Lemma remembered_In C p y : In y (remembered m C p) <-> In y C /\ desc m y p /\ y <> p.
  Proof.
    unfold remembered. rewrite (sort_by_In (lt_depth_id m) y). rewrite filter_In, andb_true_iff, negb_true_iff, Nat.eqb_neq.
    unfold is_desc, desc. rewrite mem_In. tauto.
  Qed.

  (* _record_history keeps the invariant when it runs in a legal configuration *)
  Theorem record_history_histok l s : Legal m (s_cfg s) -> HistOK m (s_hist s) -> HistOK m (s_hist (record_history m l s)).
  Proof.
    intros HL HH p Hne. rewrite (record_history_spec m l s p) in *.
    destruct (existsb (Nat.eqb p) _ && records m (s_cfg s) p); [|now apply HH].
    exists (s_cfg s). split; [exact HL|]. split; [|intros y; apply remembered_In].
    destruct (remembered m (s_cfg s) p) as [|y r] eqn:E; [congruence|].
    assert (Hy : In y (remembered m (s_cfg s) p)) by (rewrite E; now left). apply remembered_In in Hy as [HyC [Hd _]].
    apply (Legal_closed m _ HL y p HyC Hd).
  Qed.
End Record.

(* ---- chains and combined entry paths ---- *)
Section Paths2.
  Variable m : machine.
  Hypothesis Hwf : wf m = true.

  Lemma chain_parent d P : chain m d P -> forall x, In x P -> exists q, parent m x = Some q /\ (q = d \/ In q P).
  Proof.
    induction 1 as [d x Hx Hp|d x r Hx Hp Hc IH]; intros y Hy.
    - destruct Hy as [<-|[]]. exists d. split; [exact Hp | now left].
    - destruct Hy as [<-|Hy]; [exists d; split; [exact Hp | now left]|].
      destruct (IH y Hy) as [q [Hq Hc']]. exists q. split; [exact Hq|]. right. destruct Hc' as [->|Hin]; [now left | now right].
  Qed.

  Lemma chain_head_only d P : chain m d P -> forall x, In x P -> parent m x = Some d -> hd_error P = Some x.
  Proof.
    intros Hc x Hx Hp. destruct Hc as [d x0 Hx0 Hp0|d x0 r Hx0 Hp0 Hc]; [destruct Hx as [<-|[]]; reflexivity|].
    destruct Hx as [<-|Hx]; [reflexivity|]. exfalso.
    destruct (chain_props m Hwf x0 r Hc x Hx) as [Hxs [Hdep _]].
    destruct (parent_props m Hwf x d Hxs Hp) as [_ [_ D1]]. destruct (parent_props m Hwf x0 d Hx0 Hp0) as [_ [_ D2]]. lia.
  Qed.

  Lemma chain_nodup d P : chain m d P -> NoDup P.
  Proof.
    intros Hc. pose proof (chain_sorted m Hwf d P Hc) as Hs. clear Hc.
    induction Hs as [|x r Hs IH Hx]; constructor; [|exact IH].
    intros Hin. rewrite Forall_forall in Hx. specialize (Hx x Hin). lia.
  Qed.

  Definition step_add (acc : list nat) (x : nat) : list nat := if mem x acc then acc else acc ++ [x].

  Lemma fold_step_In P : forall acc x, In x (fold_left step_add P acc) <-> In x acc \/ In x P.
  Proof.
    induction P as [|y r IH]; intros acc x; simpl; [tauto|].
    rewrite IH. unfold step_add. destruct (mem y acc) eqn:E.
    - apply mem_In in E. split; [tauto|]. intros [H|[<-|H]]; tauto.
    - rewrite in_app_iff. simpl. tauto.
  Qed.

  Lemma fold_step_fresh P : forall acc, NoDup (acc ++ P) -> fold_left step_add P acc = acc ++ P.
  Proof.
    induction P as [|y r IH]; intros acc Hnd; simpl; [now rewrite app_nil_r|].
    assert (Hy : mem y acc = false).
    { apply mem_false. intros Hin. apply NoDup_remove_2 in Hnd. apply Hnd. apply in_or_app. now left. }
    unfold step_add at 2. rewrite Hy. rewrite IH; [now rewrite <- app_assoc|]. now rewrite <- app_assoc.
  Qed.

  Lemma combined_path_In d hts x : In x (combined_path m d hts) <-> exists t, In t hts /\ In x (path_to m t d).
  Proof.
    unfold combined_path. fold step_add.
    assert (H : forall acc, In x (fold_left (fun acc0 h => fold_left step_add (path_to m h d) acc0) hts acc) <->
                            In x acc \/ exists t, In t hts /\ In x (path_to m t d)).
    { induction hts as [|h r IH]; intros acc; simpl.
      - split; [tauto|]. intros [H|[t [[] _]]]; exact H.
      - rewrite IH, fold_step_In. split.
        + intros [[H|H]|[t [Ht Hx]]]; [now left | right; exists h; split; [now left | exact H] | right; exists t; split; [now right | exact Hx]].
        + intros [H|[t [[<-|Ht] Hx]]]; [left; now left | left; now right | right; exists t; now split]. }
    rewrite H. split; [intros [[]|H']; exact H' | now right].
  Qed.

  Lemma combined_single d t : NoDup (path_to m t d) -> combined_path m d [t] = path_to m t d.
  Proof. intros Hnd. unfold combined_path. fold step_add. simpl. now apply (fold_step_fresh (path_to m t d) []). Qed.
End Paths2.

(* ---- what a history-target transition exits ---- *)
Section HistExit.
  Variable m : machine.
  Hypothesis Hwf : wf m = true.

  Definition branches (d : nat) (hts : list nat) : list nat :=
    flat_map (fun x => match branch_of m d x with Some b => [b] | None => [] end) hts.

  Lemma branch_of_child d x b : branch_of m d x = Some b -> parent m b = Some d /\ In b (anc_self m x).
  Proof.
    unfold branch_of. intros H. apply find_some in H as [Hin Hp]. destruct (parent m b) as [q|]; [|discriminate].
    apply Nat.eqb_eq in Hp. subst q. now split.
  Qed.

  Lemma below_child_strict d b y : d < size m -> y < size m -> In b (children m d) -> desc m y b -> desc m y d /\ y <> d.
  Proof.
    intros Hd Hy Hb Hyb. destruct (child_props m Hwf d b Hd Hb) as [_ [Hbs Hp]].
    split.
    - apply (desc_trans m Hwf b d Hbs); [|exact Hy | exact Hyb]. apply (desc_child m Hwf b d d Hbs Hp). apply desc_refl.
    - intros ->. pose proof (desc_depth m Hwf d b Hd Hyb). destruct (parent_props m Hwf b d Hbs Hp) as [_ [_ D]]. lia.
  Qed.

  Lemma exit_h_kept C H d h :
    is_history m h = true -> Legal m C -> In d C ->
    (is_parallel m d = true -> forall b, In b (branches d (resolve_history m H h)) -> In b (children m d)) ->
    remove_all (rev (sort_by (lt_depth_id m) (exit_set_h m C H d h))) C
    = kept m (if is_parallel m d then branches d (resolve_history m H h) else children m d) C.
  Proof.
    intros Hh HL HdC Hbr. assert (Hds : d < size m) by now apply (L_range m _ HL).
    rewrite remove_all_filter. unfold kept. apply filter_ext_in. intros y Hy. f_equal.
    assert (Hys : y < size m) by now apply (L_range m _ HL).
    set (X := exit_set_h m C H d h).
    assert (HX : mem y (rev (sort_by (lt_depth_id m) X)) = true <-> In y X).
    { rewrite mem_In, <- in_rev. apply (sort_by_In (lt_depth_id m)). }
    assert (Goal : In y X <-> removedb m (if is_parallel m d then branches d (resolve_history m H h) else children m d) y = true).
    { unfold X, exit_set_h. rewrite Hh. destruct (is_parallel m d) eqn:Hp.
      - fold (branches d (resolve_history m H h)). set (bs := branches d (resolve_history m H h)) in *.
        rewrite filter_In, filter_In, existsb_exists, (removedb_spec m bs y). split.
        + intros [_ [b [Hb Hdb]]]. exists b. split; [exact Hb|]. unfold is_desc in Hdb. now apply mem_In in Hdb.
        + intros [b [Hb Hdb]]. destruct (below_child_strict d b y Hds Hys (Hbr eq_refl b Hb) Hdb) as [H1 H2].
          split; [split; [exact Hy|]|].
          * apply andb_true_iff. split; [unfold is_desc; now apply mem_In | apply negb_true_iff; now apply Nat.eqb_neq].
          * exists b. split; [exact Hb | unfold is_desc; now apply mem_In].
      - rewrite filter_In, (removedb_spec m (children m d) y). split.
        + intros [_ Hb]. apply andb_prop in Hb as [H1 H2]. unfold is_desc in H1. apply mem_In in H1. apply negb_true_iff, Nat.eqb_neq in H2.
          now apply (below_some_child m Hwf).
        + intros [b [Hb Hdb]]. destruct (below_child_strict d b y Hds Hys Hb Hdb) as [H1 H2].
          split; [exact Hy|]. apply andb_true_iff. split; [unfold is_desc; now apply mem_In | apply negb_true_iff; now apply Nat.eqb_neq]. }
    assert (Hiff : mem y (rev (sort_by (lt_depth_id m) X)) = true <->
                   removedb m (if is_parallel m d then branches d (resolve_history m H h) else children m d) y = true)
      by (rewrite HX; exact Goal).
    clear HX Goal.
    destruct (mem y (rev (sort_by (lt_depth_id m) X))); destruct (removedb m _ y); try reflexivity; exfalso.
    - destruct Hiff as [A _]. specialize (A eq_refl). discriminate.
    - destruct Hiff as [_ A]. specialize (A eq_refl). discriminate.
  Qed.
End HistExit.

(* ---- a visited history state ---- *)
Section Visited.
  Variable m : machine.
  Hypothesis Hwf : wf m = true.
  Hypothesis Hgood : good_initials m = true.

  Lemma desc_strict_depth y a : y < size m -> desc m y a -> y <> a -> depth m a < depth m y.
  Proof.
    intros Hy Hd Hne. destruct (desc_cases m Hwf y a Hy Hd) as [E|[q [Hq Hqa]]]; [congruence|].
    destruct (parent_props m Hwf y q Hy Hq) as [_ [_ D]].
    assert (Hqs : q < size m) by (eapply parent_lt_size; eassumption).
    pose proof (desc_depth m Hwf q a Hqs Hqa). lia.
  Qed.

  (* whatever kind of history: a recorded history state resolves to remembered states, at least one *)
  Lemma resolve_visited H h p : parent m h = Some p -> hist_get H p <> [] ->
    resolve_history m H h <> [] /\ forall t, In t (resolve_history m H h) -> In t (hist_get H p).
  Proof.
    intros Hp Hne. unfold resolve_history. rewrite Hp. destruct (hist_get H p) as [|x rest] eqn:E; [congruence|].
    assert (Hgen : forall (f : nat -> bool), (match filter f (x :: rest) with [] => x :: rest | l => l end) <> [] /\
                   forall t, In t (match filter f (x :: rest) with [] => x :: rest | l => l end) -> In t (x :: rest)).
    { intros f. destruct (filter f (x :: rest)) as [|a r] eqn:Ef; [split; [discriminate | auto]|].
      split; [discriminate|]. intros t Ht. assert (Hin : In t (filter f (x :: rest))) by (rewrite Ef; exact Ht). apply filter_In in Hin. tauto. }
    destruct (kind_of m h) as [| | | |[|]]; apply Hgen.
  Qed.

  Variables (C : config) (H : list (nat * list nat)) (d h p : nat).
  Hypothesis HL : Legal m C.
  Hypothesis HdC : In d C.
  Hypothesis Hh : is_history m h = true.
  Hypothesis Hp : parent m h = Some p.
  Hypothesis Hdp : desc m p d.
  Hypothesis HH : HistOK m H.
  Hypothesis Hvis : hist_get H p <> [].

  Let hts := resolve_history m H h.
  Let l := combined_path m d hts.
  Let Bs := if is_parallel m d then branches m d hts else children m d.

  (* everything the tree theorems need, for the combined entry path of a recorded history state *)
  Definition tree_hyps : Prop :=
    (forall x, In x l -> x < size m) /\ (forall x, In x l -> is_history m x = false)
    /\ (forall x, In x l -> exists q, parent m x = Some q /\ (q = d \/ In q l))
    /\ (forall x c c', In x l -> kind_of m x = KCompound -> In c (children m x) -> In c' (children m x) -> In c l -> In c' l -> c = c')
    /\ l <> []
    /\ (forall b, In b Bs -> In b (children m d))
    /\ (forall r, In r l /\ parent m r = Some d -> In r Bs)
    /\ (kind_of m d = KCompound -> (forall c, In c (children m d) -> In c Bs) /\
                                  (forall r r', In r l /\ parent m r = Some d -> In r' l /\ parent m r' = Some d -> r = r'))
    /\ (kind_of m d = KParallel -> forall b, In b Bs -> is_history m b = false -> In b l /\ parent m b = Some d)
    /\ remove_all (rev (sort_by (lt_depth_id m) (exit_set_h m C H d h))) C = kept m Bs C
    /\ NoDup l.

  Lemma combined_nodup : NoDup l.
  Proof.
    unfold l, combined_path. fold (step_add). generalize hts. intros ts.
    assert (G : forall P acc, NoDup acc -> NoDup (fold_left step_add P acc)).
    { induction P as [|y r IH]; intros acc Hn; simpl; [exact Hn|]. apply IH. unfold step_add. destruct (mem y acc) eqn:E; [exact Hn|].
      apply mem_false in E. apply (nodup_app acc [y] Hn); [repeat constructor; intros [] | intros z Hz [<-|[]]; contradiction]. }
    assert (G2 : forall ts0 acc, NoDup acc -> NoDup (fold_left (fun acc0 t => fold_left step_add (path_to m t d) acc0) ts0 acc)).
    { induction ts0 as [|t r IH]; intros acc Hn; simpl; [exact Hn|]. apply IH. now apply G. }
    apply G2. constructor.
  Qed.

  Lemma visited_setup : tree_hyps.
  Proof.
    destruct (HH p Hvis) as [C0 [HL0 [HpC0 Hrem]]].
    destruct (resolve_visited H h p Hp Hvis) as [Hne Hsub]. fold hts in Hne, Hsub.
    assert (Hds : d < size m) by now apply (L_range m _ HL).
    assert (Hps : p < size m) by now apply (L_range m _ HL0).
    assert (HdC0 : In d C0) by now apply (Legal_closed m _ HL0 p d HpC0).
    (* every resolved target lies in C0, strictly below d *)
    assert (Ht : forall t, In t hts -> In t C0 /\ t < size m /\ In d (ancestors m t)).
    { intros t Hin. apply Hsub, Hrem in Hin as [HtC0 [Htp Hne']]. assert (Hts : t < size m) by now apply (L_range m _ HL0).
      split; [exact HtC0|]. split; [exact Hts|]. apply (desc_proper m t d Hts).
      - apply (desc_trans m Hwf p d Hps Hdp t Hts Htp).
      - intros ->. pose proof (desc_strict_depth t p Hts Htp Hne'). pose proof (desc_depth m Hwf p t Hps Hdp). lia. }
    assert (Hch : forall t, In t hts -> chain m d (path_to m t d) /\ last (path_to m t d) 0 = t)
      by (intros t Hin; destruct (Ht t Hin) as [_ [Hts Hd']]; now apply (path_chain m Hwf)).
    assert (Hl : forall x, In x l <-> exists t, In t hts /\ In x (path_to m t d)) by (intros x; apply combined_path_In).
    assert (HlC0 : forall x, In x l -> In x C0).
    { intros x Hx. apply Hl in Hx as [t [Hin Hx]]. destruct (Ht t Hin) as [HtC0 _]. apply path_to_sub in Hx as [Hx _].
      now apply (Legal_closed m _ HL0 t x HtC0). }
    (* roots are path heads *)
    assert (Hhead : forall t, In t hts -> exists x1 P', path_to m t d = x1 :: P' /\ branch_of m d t = Some x1 /\ In x1 l /\ parent m x1 = Some d).
    { intros t Hin. destruct (Hch t Hin) as [Hc _]. destruct (Ht t Hin) as [_ [Hts _]].
      destruct (path_to m t d) as [|x1 P'] eqn:EP; [inversion Hc|]. exists x1, P'. split; [reflexivity|].
      split; [now apply (branch_is_path_head m Hwf d t x1 P' Hts Hc)|]. split; [apply Hl; exists t; split; [exact Hin | rewrite EP; now left]|].
      inversion Hc; subst; assumption. }
    assert (Hroot_head : forall r, In r l -> parent m r = Some d -> exists t, In t hts /\ branch_of m d t = Some r).
    { intros r Hr Hpr. apply Hl in Hr as [t [Hin Hr]]. destruct (Hch t Hin) as [Hc _].
      pose proof (chain_head_only m Hwf d _ Hc r Hr Hpr) as Hhd. destruct (Hhead t Hin) as [x1 [P' [EP [Hb _]]]].
      rewrite EP in Hhd. simpl in Hhd. inversion Hhd; subst x1. exists t. now split. }
    assert (Hkeep : remove_all (rev (sort_by (lt_depth_id m) (exit_set_h m C H d h))) C = kept m Bs C).
    { unfold Bs, hts. apply (exit_h_kept m Hwf C H d h Hh HL HdC). intros _ b Hb. unfold branches in Hb. apply in_flat_map in Hb as [t [Hin Hb]].
      destruct (branch_of m d t) as [b'|] eqn:Eb; [|destruct Hb]. destruct Hb as [<-|[]]. apply branch_of_child in Eb as [Hpb Hanc].
      fold hts in Hin. destruct (Ht t Hin) as [_ [Hts _]]. assert (Hbs : b' < size m) by now apply (anc_self_lt_size m Hwf t).
      now destruct (parent_props m Hwf b' d Hbs Hpb) as [_ [Hc _]]. }
    unfold tree_hyps. split; [|split; [|split; [|split; [|split; [|split; [|split; [|split; [|split; [|split; [exact Hkeep | exact combined_nodup]]]]]]]]]].
    - intros x Hx. apply (L_range m _ HL0). now apply HlC0.
    - intros x Hx. apply (L_nohist m _ HL0). now apply HlC0.
    - intros x Hx. apply Hl in Hx as [t [Hin Hx]]. destruct (Hch t Hin) as [Hc _].
      destruct (chain_parent m d _ Hc x Hx) as [q [Hq Hcase]]. exists q. split; [exact Hq|]. destruct Hcase as [->|Hq']; [now left|].
      right. apply Hl. exists t. now split.
    - intros x c c' Hx Hk Hc Hc' Hcl Hc'l.
      assert (Hne' : children m x <> []) by (intros E; rewrite E in Hc; destruct Hc).
      destruct (legal_one_active_child m C0 x Hwf HL0 (HlC0 x Hx) Hk Hne') as [c0 [_ [_ Hu]]].
      rewrite (Hu c Hc (HlC0 c Hcl)), (Hu c' Hc' (HlC0 c' Hc'l)). reflexivity.
    - destruct hts as [|t0 r0] eqn:Eh; [congruence|]. assert (Hin : In t0 hts) by (rewrite Eh; now left). rewrite <- Eh in *.
      destruct (Hhead t0 Hin) as [x1 [_ [_ [_ [Hx1 _]]]]]. intros E. rewrite E in Hx1. destruct Hx1.
    - (* the branch roots are children of d *)
      intros b Hb. unfold Bs in Hb. destruct (is_parallel m d); [|exact Hb].
      unfold branches in Hb. apply in_flat_map in Hb as [t [Hin Hb]]. destruct (branch_of m d t) as [b'|] eqn:Eb; [|destruct Hb].
      destruct Hb as [<-|[]]. apply branch_of_child in Eb as [Hpb Hanc]. destruct (Ht t Hin) as [_ [Hts _]].
      assert (Hbs : b' < size m) by now apply (anc_self_lt_size m Hwf t). now destruct (parent_props m Hwf b' d Hbs Hpb) as [_ [Hc _]].
    - (* every root is a branch root *)
      intros r [Hr Hpr]. unfold Bs. destruct (is_parallel m d).
      + destruct (Hroot_head r Hr Hpr) as [t [Hin Hb]]. unfold branches. apply in_flat_map. exists t. split; [exact Hin|]. rewrite Hb. now left.
      + assert (Hrs : r < size m) by (apply (L_range m _ HL0); now apply HlC0). now destruct (parent_props m Hwf r d Hrs Hpr) as [_ [Hc _]].
    - (* compound domain *)
      intros Hk. assert (Hpar : is_parallel m d = false) by (unfold is_parallel; now rewrite Hk). split.
      + intros c Hc. unfold Bs. now rewrite Hpar.
      + intros r r' [Hr Hpr] [Hr' Hpr'].
        assert (Hrs : r < size m) by (apply (L_range m _ HL0); now apply HlC0).
        assert (Hr's : r' < size m) by (apply (L_range m _ HL0); now apply HlC0).
        destruct (parent_props m Hwf r d Hrs Hpr) as [_ [Hc _]]. destruct (parent_props m Hwf r' d Hr's Hpr') as [_ [Hc' _]].
        assert (Hne' : children m d <> []) by (intros E; rewrite E in Hc; destruct Hc).
        destruct (legal_one_active_child m C0 d Hwf HL0 HdC0 Hk Hne') as [c0 [_ [_ Hu]]].
        rewrite (Hu r Hc (HlC0 r Hr)), (Hu r' Hc' (HlC0 r' Hr')). reflexivity.
    - (* parallel domain *)
      intros Hk b Hb Hbh. assert (Hpar : is_parallel m d = true) by (unfold is_parallel; now rewrite Hk).
      unfold Bs in Hb. rewrite Hpar in Hb. unfold branches in Hb. apply in_flat_map in Hb as [t [Hin Hb]].
      destruct (Hhead t Hin) as [x1 [P' [_ [Hbr [Hx1 Hpx1]]]]]. rewrite Hbr in Hb. destruct Hb as [<-|[]]. now split.
  Qed.

  Theorem visited_legal :
    Legal m (add_all (entered (S (size m)) m l) (remove_all (rev (sort_by (lt_depth_id m) (exit_set_h m C H d h))) C)).
  Proof.
    destruct visited_setup as [A1 [A2 [A3 [A4 [A5 [A6 [A7 [A8 [A9 [A10 _]]]]]]]]]].
    assert (Hds : d < size m) by now apply (L_range m _ HL).
    rewrite A10. now apply (tree_entry_legal m Hwf Hgood d l Hds A1 A2 A3 A4 C Bs HL HdC A5 A6 A7 A8 A9).
  Qed.

  (* exactly-once: the entered list has no duplicates and lies at or below the exited branch roots *)
  Theorem visited_entered_once :
    NoDup (entered (S (size m)) m l) /\
    forall y, In y (entered (S (size m)) m l) -> ~ In y (remove_all (rev (sort_by (lt_depth_id m) (exit_set_h m C H d h))) C).
  Proof.
    destruct visited_setup as [A1 [A2 [A3 [A4 [A5 [A6 [A7 [A8 [A9 [A10 A11]]]]]]]]]].
    assert (Hds : d < size m) by now apply (L_range m _ HL).
    split; [now apply (entered_tree_nodup m Hwf d l Hds A1 A3 A11)|].
    intros y Hy Hin. rewrite A10 in Hin. apply (kept_In m Bs C y) in Hin as [_ Hk].
    apply (entered_tree m Hwf d l Hds A1 A2 A3) in Hy as [r [Hr Hyr]].
    assert (Hc : Closed m r (tset m l (S (size m)) r)) by (apply (tset_closed m Hwf Hgood d l Hds A1 A2 A4); [now destruct Hr | lia]).
    assert (removedb m Bs y = true) by (apply (removedb_spec m Bs y); exists r; split; [now apply A7 | now apply (K_below m r _ Hc)]).
    congruence.
  Qed.
End Visited.

(* ---- a history state that resolves to ONE state strictly below the domain: as a plain transition to that state ---- *)
Section Single.
  Variable m : machine.
  Hypothesis Hwf : wf m = true.
  Hypothesis Hgood : good_initials m = true.

  Variables (C : config) (H : list (nat * list nat)) (d h t : nat).
  Hypothesis HL : Legal m C.
  Hypothesis HdC : In d C.
  Hypothesis Hh : is_history m h = true.
  Hypothesis Hres : resolve_history m H h = [t].
  Hypothesis Hts : t < size m.
  Hypothesis Hth : is_history m t = false.
  Hypothesis Hdt : In d (ancestors m t).

  Lemma single_exit : exit_set_h m C H d h = exit_set m C d t.
  Proof.
    destruct (path_chain m Hwf t d Hts Hdt) as [Hc _]. destruct (path_to m t d) as [|x1 P'] eqn:EP; [inversion Hc|].
    pose proof (branch_is_path_head m Hwf d t x1 P' Hts Hc EP) as Hb.
    unfold exit_set_h, exit_set. rewrite Hh, Hres. destruct (is_parallel m d); [|reflexivity].
    simpl. rewrite Hb. simpl. apply filter_ext. intros y. now rewrite orb_false_r.
  Qed.

  Lemma single_path : combined_path m d (resolve_history m H h) = path_to m t d.
  Proof.
    rewrite Hres. apply combined_single. destruct (path_chain m Hwf t d Hts Hdt) as [Hc _]. now apply (chain_nodup m Hwf d).
  Qed.

  Theorem single_legal :
    Legal m (add_all (entered (S (size m)) m (combined_path m d (resolve_history m H h)))
                     (remove_all (rev (sort_by (lt_depth_id m) (exit_set_h m C H d h))) C)).
  Proof. rewrite single_exit, single_path. now apply (formula_legal m Hwf Hgood C d t). Qed.

  Theorem single_entered_once :
    NoDup (entered (S (size m)) m (combined_path m d (resolve_history m H h))) /\
    forall y, In y (entered (S (size m)) m (combined_path m d (resolve_history m H h))) ->
              ~ In y (remove_all (rev (sort_by (lt_depth_id m) (exit_set_h m C H d h))) C).
  Proof.
    rewrite single_exit, single_path.
    destruct (formula_parts m Hwf C d t HL Hts Hdt HdC) as [x1 [P' [Bs [EP [Hchain [Hlast [Hrm [HBs [Hx1B _]]]]]]]]].
    rewrite EP, Hrm. split; [now apply (AccountP.entered_chain_nodup m Hwf (size m) d)|].
    intros y Hy Hin. apply (kept_In m Bs C y) in Hin as [_ Hk].
    assert (Hdy : desc m y x1) by (apply (AccountP.entered_below_head m Hwf Hgood d x1 P' Hchain); [now rewrite Hlast | exact Hy]).
    assert (removedb m Bs y = true) by (apply (removedb_spec m Bs y); exists x1; now split). congruence.
  Qed.
End Single.

(* ---- every transition that targets a history pseudo-state ---- *)
Section HistTransition.
  Variable m : machine.
  Hypothesis Hwf : wf m = true.
  Hypothesis Hgood : good_initials m = true.

  (* static side condition on a history pseudo-state: its default target (if any) is a proper descendant of its parent
     and not itself a history state; an `initial` declared on its parent does not name a history state *)
  Definition hist_static_ok (h : nat) : Prop :=
    (forall t, n_hist_default (nd m h) = Some t ->
       t < size m /\ is_history m t = false /\ forall p, parent m h = Some p -> In p (ancestors m t))
    /\ (forall p i, parent m h = Some p -> n_initial (nd m p) = Some i -> is_history m i = false).

  Lemma ancestors_of_child y p : y < size m -> parent m y = Some p -> ancestors m y = anc_self m p.
  Proof. intros Hy Hp. rewrite (ancestors_unfold m Hwf y Hy), Hp. reflexivity. Qed.

  Lemma above_parent_above y p d : y < size m -> p < size m -> In p (ancestors m y) -> desc m p d -> In d (ancestors m y).
  Proof.
    intros Hy Hps Hp Hd. apply (desc_proper m y d Hy).
    - apply (desc_trans m Hwf p d Hps Hd y Hy). now right.
    - intros ->. assert (Hyp : desc m y p) by now right.
      assert (Hne : y <> p).
      { intros ->. pose proof (anc_self_sorted m Hwf p Hps) as Hs. unfold anc_self in Hs. inversion Hs as [|? ? _ Hall]; subst.
        rewrite Forall_forall in Hall. specialize (Hall p Hp). lia. }
      pose proof (desc_strict_depth m Hwf y p Hy Hyp Hne). pose proof (desc_depth m Hwf p y Hps Hd). lia.
  Qed.

  (* the outcome of a history-target transition: a legal configuration, every state entered once, none while active *)
  Definition good_outcome (C : config) (H : list (nat * list nat)) (d h : nat) : Prop :=
    Legal m (add_all (entered (S (size m)) m (combined_path m d (resolve_history m H h)))
                     (remove_all (rev (sort_by (lt_depth_id m) (exit_set_h m C H d h))) C))
    /\ NoDup (entered (S (size m)) m (combined_path m d (resolve_history m H h)))
    /\ forall y, In y (entered (S (size m)) m (combined_path m d (resolve_history m H h))) ->
                 ~ In y (remove_all (rev (sort_by (lt_depth_id m) (exit_set_h m C H d h))) C).

  Theorem history_formula_good C H d h :
    Legal m C -> HistOK m H -> In d C -> h < size m -> is_history m h = true -> hist_static_ok h ->
    In d (ancestors m h) -> good_outcome C H d h.
  Proof.
    intros HL HH HdC Hhs Hh [Hdef Hini] Hd.
    assert (Hds : d < size m) by now apply (L_range m _ HL).
    destruct (parent m h) as [p|] eqn:Hp; [|destruct (root_props m Hwf h Hhs Hp) as [-> _]; rewrite (good_root m Hgood) in Hh; discriminate].
    destruct (parent_props m Hwf h p Hhs Hp) as [Hlt [Hch _]]. assert (Hps : p < size m) by lia.
    assert (Hdp : desc m p d) by (rewrite (ancestors_of_child h p Hhs Hp) in Hd; exact Hd).
    destruct (has_child_kind m Hwf p h Hps Hch) as [Hph Hpk].
    destruct (hist_get H p) as [|x rest] eqn:Hg.
    - (* never recorded *)
      assert (Hone : forall t, resolve_history m H h = [t] -> t < size m -> is_history m t = false -> In d (ancestors m t) ->
                good_outcome C H d h).
      { intros t Hres Hts Hth Hdt. split; [now apply (single_legal m Hwf Hgood C H d h t HL HdC Hh Hres Hts Hth)|].
        now apply (single_entered_once m Hwf Hgood C H d h t HL HdC Hh Hres Hts Hth). }
      unfold good_outcome, resolve_history in Hone |- *. rewrite Hp, Hg in Hone |- *.
      destruct (n_hist_default (nd m h)) as [t0|] eqn:Hd0.
      { destruct (Hdef t0 eq_refl) as [H1 [H2 H3]]. apply (Hone t0 eq_refl H1 H2). apply (above_parent_above t0 p d H1 Hps); [now apply H3 | exact Hdp]. }
      destruct (n_initial (nd m p)) as [i|] eqn:Hi.
      { pose proof (initial_child m Hwf p i Hps Hi) as Hic. destruct (child_props m Hwf p i Hps Hic) as [_ [His Hpi]].
        apply (Hone i eq_refl His (Hini p i eq_refl Hi)). apply (above_parent_above i p d His Hps); [now apply (parent_in_ancestors m Hwf) | exact Hdp]. }
      destruct (is_parallel m p) eqn:Hpar.
      + destruct (Nat.eq_dec d p) as [->|Hne].
        * (* the domain is the parallel parent itself: nothing is exited, nothing entered *)
          assert (Ecp : combined_path m p [p] = []).
          { assert (E0 : path_to m p p = []) by (unfold path_to; rewrite (anc_self_unfold m Hwf p Hps); cbn [take_until]; now rewrite Nat.eqb_refl).
            unfold combined_path. cbn [fold_left]. rewrite E0. reflexivity. }
          assert (Ebr : branch_of m p p = None).
          { unfold branch_of. destruct (find _ (anc_self m p)) as [a|] eqn:Ef; [|reflexivity]. exfalso.
            apply find_some in Ef as [Ha Hpa]. destruct (parent m a) as [q|] eqn:Hq; [|discriminate]. apply Nat.eqb_eq in Hpa. subst q.
            assert (Has : a < size m) by now apply (anc_self_lt_size m Hwf p).
            destruct (parent_props m Hwf a p Has Hq) as [_ [_ D]]. pose proof (desc_depth m Hwf p a Hps Ha). lia. }
          assert (Ex : exit_set_h m C H p h = []).
          { unfold exit_set_h. rewrite Hh, Hpar. unfold resolve_history. rewrite Hp, Hg, Hd0, Hi, Hpar. simpl. rewrite Ebr. simpl.
            induction (filter _ C) as [|y r IH]; [reflexivity | exact IH]. }
          rewrite Ecp, Ex. rewrite entered_nil. split; [exact HL|]. split; [constructor | intros y []].
        * apply (Hone p eq_refl Hps Hph). apply (desc_proper m p d Hps Hdp). congruence.
      + (* a compound parent with children declares its initial child *)
        exfalso. destruct Hpk as [Hk|Hk]; [|unfold is_parallel in Hpar; rewrite Hk in Hpar; discriminate].
        assert (Hne : children m p <> []) by (intros E; rewrite E in Hch; destruct Hch).
        destruct (good_compound m Hgood p Hps Hk Hne) as [i [Hi' _]]. congruence.
    - (* recorded *)
      assert (Hv : hist_get H p <> []) by (rewrite Hg; discriminate).
      split; [now apply (visited_legal m Hwf Hgood C H d h p HL HdC Hh Hp Hdp HH)|].
      now apply (visited_entered_once m Hwf Hgood C H d h p HL HdC Hh Hp Hdp HH).
  Qed.

  Theorem history_formula_legal C H d h :
    Legal m C -> HistOK m H -> In d C -> h < size m -> is_history m h = true -> hist_static_ok h ->
    In d (ancestors m h) ->
    Legal m (add_all (entered (S (size m)) m (combined_path m d (resolve_history m H h)))
                     (remove_all (rev (sort_by (lt_depth_id m) (exit_set_h m C H d h))) C)).
  Proof. intros HL HH HdC Hhs Hh Hst Hd. now destruct (history_formula_good C H d h HL HH HdC Hhs Hh Hst Hd). Qed.

End HistTransition.

(* ---- the history store across one external transition: rewritten by _record_history only ---- *)
From XSM Require Import Proofs.FrameP.

Definition same_hist (s s' : st) : Prop := s_hist s' = s_hist s.

Lemma same_hist_prims : prims same_hist.
Proof.
  constructor; unfold same_hist; intros; simpl; try reflexivity.
  - congruence.
  - unfold complete. destruct (s_status s); reflexivity.
  - unfold fail_machine. destruct (s_status s); reflexivity.
Qed.

Lemma bind_assoc (a b c : M) s : ((a ;; b) ;; c) s = (a ;; (b ;; c)) s.
Proof. unfold bind. destruct (a s) as [s1 [e|]]; reflexivity. Qed.

Lemma bind_lift_first f (a : M) s : (lift f ;; a) s = a (f s).
Proof. reflexivity. Qed.

Section HistFrame.
  Variable m : machine.
  Variables (eng : engine) (pr : bool).

  Let P := same_hist_prims.
  Let Rrefl := p_refl same_hist P.
  Let Rtrans := p_trans same_hist P.

  (* what exit_states does after recording history *)
  Definition exit_rest (l : list nat) (ev : option event) : M :=
    match eng with
    | Sync | Pure =>
        for_each cancel l ;;
        for_each (fun x => (fun s => exec_actions eng pr (n_exit (nd m x)) (exit_event eng m ev x) s) ;;
                           lift (fun s => if mem x (s_cfg s) then logo (OLeave x) (with_cfg (cdel x (s_cfg s)) s) else s)) l
    | Async =>
        for_each (fun x => cancel x ;;
                           (fun s => exec_actions eng pr (n_exit (nd m x)) (exit_event eng m ev x) s) ;;
                           lift (fun s => if mem x (s_cfg s) then logo (OLeave x) (with_cfg (cdel x (s_cfg s)) s) else s)) l
    end.

  Lemma exit_states_split l ev s : exit_states eng pr m l ev s = exit_rest l ev (record_history m l s).
  Proof. unfold exit_states, exit_rest. destruct eng; reflexivity. Qed.

  Lemma exit_rest_hist l ev : preserves same_hist (exit_rest l ev).
  Proof.
    unfold exit_rest. destruct eng.
    - apply pres_bind; [apply Rtrans | apply pres_for_each; [apply Rrefl | apply Rtrans | intros x; apply (f_cancel same_hist P)] |].
      apply pres_for_each; [apply Rrefl | apply Rtrans|]. intros x.
      apply pres_bind; [apply Rtrans | apply (f_exec_actions same_hist P) | apply (f_leave same_hist P)].
    - apply pres_for_each; [apply Rrefl | apply Rtrans|]. intros x.
      apply pres_bind; [apply Rtrans | apply (f_cancel same_hist P)|].
      apply pres_bind; [apply Rtrans | apply (f_exec_actions same_hist P) | apply (f_leave same_hist P)].
    - apply pres_bind; [apply Rtrans | apply pres_for_each; [apply Rrefl | apply Rtrans | intros x; apply (f_cancel same_hist P)] |].
      apply pres_for_each; [apply Rrefl | apply Rtrans|]. intros x.
      apply pres_bind; [apply Rtrans | apply (f_exec_actions same_hist P) | apply (f_leave same_hist P)].
  Qed.

  (* whatever the outcome (completed, or aborted and rolled back), the history store after an external transition is
     the one _record_history wrote at its start *)
  Theorem exec_external_hist t tgt ev s0 :
    let d := find_domain m (t_src t) tgt in
    let xs := rev (sort_by (lt_depth_id m) (ext_exit_set m (s_cfg s0) (s_hist s0) d tgt)) in
    s_hist (fst (exec_external eng pr m t tgt ev s0)) = s_hist (record_history m xs s0).
  Proof.
    cbv zeta. unfold exec_external.
    set (d := find_domain m (t_src t) tgt). set (X := ext_exit_set m (s_cfg s0) (s_hist s0) d tgt).
    set (xs := rev (sort_by (lt_depth_id m) X)).
    set (r0 := record_history m xs s0).
    match goal with |- s_hist (fst (match ?b s0 with _ => _ end)) = _ => set (body := b) end.
    set (rest := (fun s => exec_actions eng pr (t_actions t) ev s) ;;
                 enter eng pr m (if is_history m tgt then [] else ext_path m tgt d) (Some ev) ;;
                 (if is_history m tgt then match combined_path m d (if is_history m tgt then resolve_history m (s_hist s0) tgt else []) with
                                            | [] => ret | cp => enter eng pr m cp (Some ev) end else ret)).
    assert (Hbody : body s0 = (exit_rest xs (Some ev) ;; rest) r0).
    { unfold body, rest. unfold bind at 1. rewrite exit_states_split. fold r0. reflexivity. }
    assert (Hpres : preserves same_hist (exit_rest xs (Some ev) ;; rest)).
    { apply pres_bind; [apply Rtrans | apply exit_rest_hist|]. unfold rest.
      apply pres_bind; [apply Rtrans | apply (f_exec_actions same_hist P)|].
      apply pres_bind; [apply Rtrans | apply (f_enter same_hist P)|].
      destruct (is_history m tgt); [|apply pres_ret, Rrefl]. destruct (combined_path m d _); [apply pres_ret, Rrefl | apply (f_enter same_hist P)]. }
    specialize (Hpres r0). rewrite <- Hbody in Hpres.
    destruct (body s0) as [s1 [e|]]; simpl in Hpres.
    - assert (Hr : preserves same_hist (for_each (sched eng m) (filter (fun x => mem x X) (sort_nat (s_cfg s0)))))
        by (apply pres_for_each; [apply Rrefl | apply Rtrans | intros x; apply (f_sched same_hist P)]).
      specialize (Hr (with_cfg (s_cfg s0) s1)).
      destruct (for_each (sched eng m) _ (with_cfg (s_cfg s0) s1)) as [s2 [e2|]]; simpl in *; unfold same_hist in *; simpl in *; congruence.
    - assert (Hh : forall (a b : M), preserves same_hist a -> preserves same_hist b -> s_hist (fst ((a ;; b) s1)) = s_hist s1)
        by (intros a b Ha Hb; apply (pres_bind same_hist Rtrans a b Ha Hb s1)).
      unfold same_hist in Hpres. rewrite <- Hpres.
      destruct eng; apply Hh; (apply (f_hook_trans same_hist P) || apply (f_hook_notify same_hist P)).
  Qed.
End HistFrame.

Section HistStep.
  Variable m : machine.
  Hypothesis Hwf : wf m = true.
  Hypothesis Hgood : good_initials m = true.

  (* a completed transition to a history pseudo-state leaves a legal configuration *)
  Theorem history_transition_legal eng pr t tgt ev s0 s1 :
    Legal m (s_cfg s0) -> HistOK m (s_hist s0) -> In (t_src t) (s_cfg s0) ->
    tgt < size m -> is_history m tgt = true -> hist_static_ok m tgt ->
    exec_external eng pr m t tgt ev s0 = (s1, None) -> Legal m (s_cfg s1).
  Proof.
    intros HL HH Hsrc Ht Hh Hst Hex.
    assert (Hne : tgt <> 0) by (intros ->; rewrite (good_root m Hgood) in Hh; discriminate).
    set (d := find_domain m (t_src t) tgt).
    assert (Hd : In d (ancestors m tgt)) by (apply (domain_above_target m Hwf); [now apply (L_range m _ HL) | exact Ht | exact Hne]).
    assert (HdC : In d (s_cfg s0)) by now apply (domain_active m Hwf).
    pose proof (external_effect m eng pr t tgt ev s0 s1 Hex) as Heff. cbv zeta in Heff. fold d in Heff. rewrite Hh in Heff.
    rewrite (entered_nil (S (size m)) m) in Heff. unfold add_all at 2 in Heff. cbn [fold_left] in Heff.
    rewrite (ext_exit_set_nonroot m _ _ d tgt Hne) in Heff.
    rewrite Heff. now apply (history_formula_legal m Hwf Hgood).
  Qed.

  (* exactly-once accounting for a completed transition to a history pseudo-state (property C03) *)
  Theorem history_accounting eng pr t tgt ev s0 s1 :
    Legal m (s_cfg s0) -> HistOK m (s_hist s0) -> In (t_src t) (s_cfg s0) ->
    tgt < size m -> is_history m tgt = true -> hist_static_ok m tgt ->
    exec_external eng pr m t tgt ev s0 = (s1, None) ->
    exists seg, s_log s1 = seg ++ s_log s0
      /\ NoDup (leaves_of seg) /\ NoDup (AccountP.enters_of seg)
      /\ (forall x, In x (leaves_of seg) -> In x (s_cfg s0))
      /\ (forall x, In x (AccountP.enters_of seg) -> In x (s_cfg s0) -> In x (leaves_of seg))
      /\ (forall x, In x (s_cfg s1) <-> (In x (s_cfg s0) /\ ~ In x (leaves_of seg)) \/ In x (AccountP.enters_of seg)).
  Proof.
    intros HL HH Hsrc Ht Hh Hst Hex.
    assert (Hne : tgt <> 0) by (intros ->; rewrite (good_root m Hgood) in Hh; discriminate).
    set (d := find_domain m (t_src t) tgt).
    assert (Hd : In d (ancestors m tgt)) by (apply (domain_above_target m Hwf); [now apply (L_range m _ HL) | exact Ht | exact Hne]).
    assert (HdC : In d (s_cfg s0)) by now apply (domain_active m Hwf).
    destruct (history_formula_good m Hwf Hgood (s_cfg s0) (s_hist s0) d tgt HL HH HdC Ht Hh Hst Hd) as [_ [Hnd Hnot]].
    destruct (AccountP.external_log m eng pr t tgt ev s0 s1 (L_nodup m _ HL) Hex) as [seg [Elog [Elv Een]]].
    cbv zeta in Elv, Een. fold d in Elv, Een. rewrite Hh in Een. rewrite (entered_nil (S (size m)) m) in Een. cbn [app] in Een.
    rewrite (ext_exit_set_nonroot m _ _ d tgt Hne) in Elv.
    pose proof (external_effect m eng pr t tgt ev s0 s1 Hex) as Heff. cbv zeta in Heff. fold d in Heff. rewrite Hh in Heff.
    rewrite (entered_nil (S (size m)) m) in Heff. unfold add_all at 2 in Heff. cbn [fold_left] in Heff.
    rewrite (ext_exit_set_nonroot m _ _ d tgt Hne) in Heff.
    set (X := exit_set_h m (s_cfg s0) (s_hist s0) d tgt) in *.
    set (xs := rev (sort_by (lt_depth_id m) X)) in *.
    set (N := entered (S (size m)) m (combined_path m d (resolve_history m (s_hist s0) tgt))) in *.
    assert (HinX : forall x, In x xs -> In x (s_cfg s0)).
    { intros x Hx. unfold xs in Hx. rewrite <- in_rev in Hx. apply (proj1 (sort_by_In (lt_depth_id m) x X)) in Hx.
      now apply (exit_set_h_sub m (s_cfg s0) (s_hist s0) d tgt x). }
    assert (HXnd : NoDup xs).
    { unfold xs. apply NoDup_rev. apply (Permutation_NoDup (sort_by_perm (lt_depth_id m) X)).
      unfold X, exit_set_h, exit_set. destruct (is_history m tgt); destruct (is_parallel m d); try destruct (branch_of m d tgt);
        repeat apply filter_nodup; apply (L_nodup m _ HL). }
    exists seg. split; [exact Elog|]. rewrite Elv, Een. split; [exact HXnd|]. split; [exact Hnd|]. split; [exact HinX|]. split.
    - intros x HxN HxC. destruct (in_dec Nat.eq_dec x xs) as [Hin|Hnin]; [exact Hin|]. exfalso. apply (Hnot x HxN).
      rewrite remove_all_filter. apply filter_In. split; [exact HxC|]. apply negb_true_iff, mem_false. exact Hnin.
    - intros x. rewrite Heff. unfold add_all. rewrite fold_cadd_In. fold N. rewrite remove_all_filter, filter_In, negb_true_iff, mem_false. tauto.
  Qed.

  (* and, completed or aborted, keeps the history invariant *)
  Theorem external_keeps_histok eng pr t tgt ev s0 :
    Legal m (s_cfg s0) -> HistOK m (s_hist s0) -> HistOK m (s_hist (fst (exec_external eng pr m t tgt ev s0))).
  Proof. intros HL HH. rewrite exec_external_hist. now apply record_history_histok. Qed.
End HistStep.

(* ---- what a history transition restores is active afterwards (property C11) ---- *)
Section Restores.
  Variable m : machine.
  Hypothesis Hwf : wf m = true.

  Lemma entered_contains f l x : In x l -> In x (entered (S f) m l).
  Proof.
    intros Hx. cbn [entered]. apply in_concat. eexists. split; [apply in_map_iff; exists x; split; [reflexivity | exact Hx]|]. now left.
  Qed.

  Theorem history_targets_active eng pr t tgt ev s0 s1 y :
    exec_external eng pr m t tgt ev s0 = (s1, None) -> is_history m tgt = true ->
    In y (resolve_history m (s_hist s0) tgt) -> y < size m -> In (find_domain m (t_src t) tgt) (ancestors m y) ->
    In y (s_cfg s1).
  Proof.
    intros Hex Hh Hy Hys Hd.
    pose proof (external_effect m eng pr t tgt ev s0 s1 Hex) as Heff. cbv zeta in Heff. rewrite Hh in Heff.
    rewrite Heff. unfold add_all at 1. apply fold_cadd_In. left. apply entered_contains. apply combined_path_In.
    exists y. split; [exact Hy|]. destruct (path_chain m Hwf y _ Hys Hd) as [Hc Hl].
    destruct (path_to m y (find_domain m (t_src t) tgt)) as [|a r] eqn:E; [inversion Hc|]. rewrite <- Hl.
    clear. revert a. induction r as [|b r IH]; intros a; [now left|]. right. apply IH.
  Qed.
End Restores.

(* ---- a transition that targets the machine root restarts the machine ---- *)
Section RootTarget.
  Variable m : machine.
  Hypothesis Hwf : wf m = true.
  Hypothesis Hgood : good_initials m = true.

  Lemma remove_all_super l C : incl C l -> remove_all l C = [].
  Proof.
    intros Hi. rewrite remove_all_filter.
    assert (G : forall C', incl C' l -> filter (fun y => negb (mem y l)) C' = []).
    { induction C' as [|y r IH]; intros Hi'; [reflexivity|]. simpl.
      assert (Hy : mem y l = true) by (apply mem_In, Hi'; now left). rewrite Hy. simpl. apply IH. intros z Hz. apply Hi'. now right. }
    now apply G.
  Qed.

  Lemma root_ok_list : ok_list m [0].
  Proof.
    pose proof (wf_size m Hwf) as H0. intros x [<-|[]]. split; [exact H0|].
    assert (Hp : parent m 0 = None).
    { destruct (parent m 0) as [q|] eqn:Hq; [|reflexivity]. destruct (parent_props m Hwf 0 q H0 Hq). lia. }
    split.
    - unfold parents_of. simpl. rewrite Hp. reflexivity.
    - intros c _. unfold with_parent. simpl. rewrite Hp. reflexivity.
  Qed.

  (* what entering the root from nothing activates is a legal configuration *)
  Theorem root_formula_legal : Legal m (add_all (entered (S (size m)) m [0]) []).
  Proof.
    rewrite (entered_ok m Hwf (S (size m)) [0] root_ok_list). cbn [map List.concat]. rewrite app_nil_r.
    pose proof (descent_legal m Hwf Hgood (S (size m)) (Nat.lt_succ_diag_r _)) as HL.
    rewrite (add_all_fresh (descent (S (size m)) m 0) []); [exact HL|]. simpl. apply (L_nodup m _ HL).
  Qed.

  Theorem root_transition_legal eng pr t ev s0 s1 :
    exec_external eng pr m t 0 ev s0 = (s1, None) -> Legal m (s_cfg s1).
  Proof.
    intros Hex.
    pose proof (external_effect m eng pr t 0 ev s0 s1 Hex) as Heff. cbv zeta in Heff.
    rewrite (good_root m Hgood) in Heff. rewrite (entered_nil (S (size m)) m) in Heff. unfold add_all at 1 in Heff. cbn [fold_left] in Heff.
    rewrite ext_exit_set_root, ext_path_root in Heff.
    rewrite (remove_all_super (rev (sort_by (lt_depth_id m) (s_cfg s0))) (s_cfg s0)) in Heff.
    - rewrite Heff. exact root_formula_legal.
    - intros y Hy. rewrite <- in_rev. now apply (sort_by_In (lt_depth_id m)).
  Qed.

  (* exactly-once accounting for a restart: every active state is left once, the default descent entered once *)
  Theorem root_accounting eng pr t ev s0 s1 :
    NoDup (s_cfg s0) ->
    exec_external eng pr m t 0 ev s0 = (s1, None) ->
    exists seg, s_log s1 = seg ++ s_log s0
      /\ NoDup (leaves_of seg) /\ NoDup (AccountP.enters_of seg)
      /\ (forall x, In x (leaves_of seg) <-> In x (s_cfg s0))
      /\ (forall x, In x (s_cfg s1) <-> In x (AccountP.enters_of seg)).
  Proof.
    intros Hnd Hex.
    destruct (AccountP.external_log m eng pr t 0 ev s0 s1 Hnd Hex) as [seg [Elog [Elv Een]]].
    cbv zeta in Elv, Een. rewrite (good_root m Hgood) in Een. rewrite ext_exit_set_root in Elv. rewrite ext_path_root in Een.
    rewrite (entered_nil (S (size m)) m), app_nil_r in Een.
    pose proof (external_effect m eng pr t 0 ev s0 s1 Hex) as Heff. cbv zeta in Heff.
    rewrite (good_root m Hgood) in Heff. rewrite (entered_nil (S (size m)) m) in Heff. unfold add_all at 1 in Heff. cbn [fold_left] in Heff.
    rewrite ext_exit_set_root, ext_path_root in Heff.
    rewrite (remove_all_super (rev (sort_by (lt_depth_id m) (s_cfg s0))) (s_cfg s0)) in Heff
      by (intros y Hy; rewrite <- in_rev; now apply (sort_by_In (lt_depth_id m))).
    exists seg. split; [exact Elog|]. rewrite Elv, Een. split; [|split; [|split]].
    - apply NoDup_rev. now apply (Permutation_NoDup (sort_by_perm (lt_depth_id m) (s_cfg s0))).
    - rewrite (entered_ok m Hwf (S (size m)) [0] root_ok_list). cbn [map List.concat]. rewrite app_nil_r.
      apply (descent_nodup m Hwf). apply (wf_size m Hwf).
    - intros x. rewrite <- in_rev. apply (sort_by_In (lt_depth_id m)).
    - intros x. rewrite Heff. unfold add_all. rewrite fold_cadd_In. simpl. tauto.
  Qed.
End RootTarget.
