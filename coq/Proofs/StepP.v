(* Frame lemmas for the primitives of Model/Exec.v: which fields each one can touch. *)
From XSM Require Import Model.Macro.
From Coq Require Import Lia.

(* "s' differs from s at most in log, context, queue, raise depth, clock, pending tasks and (through a failing
   service delivered during a slow action) status" - i.e. configuration, history and output are untouched *)
Definition same_cfg (s s' : st) : Prop := s_cfg s' = s_cfg s /\ s_hist s' = s_hist s.

Lemma same_cfg_refl s : same_cfg s s.
Proof. split; reflexivity. Qed.
Lemma same_cfg_trans a b c : same_cfg a b -> same_cfg b c -> same_cfg a c.
Proof. intros [H1 H2] [H3 H4]. split; congruence. Qed.

Lemma logo_same o s : same_cfg s (logo o s).
Proof. split; reflexivity. Qed.
Lemma with_ctx_same c s : same_cfg s (with_ctx c s).
Proof. split; reflexivity. Qed.
Lemma with_rd_same n s : same_cfg s (with_rd n s).
Proof. split; reflexivity. Qed.
Lemma with_now_same n s : same_cfg s (with_now n s).
Proof. split; reflexivity. Qed.
Lemma with_pending_same p q s : same_cfg s (with_pending p q s).
Proof. split; reflexivity. Qed.
Lemma with_queue_same q s : same_cfg s (with_queue q s).
Proof. split; reflexivity. Qed.
Lemma with_status_same x o s : same_cfg s (with_status x o s).
Proof. split; reflexivity. Qed.

Lemma send_self_same eng ev s : same_cfg s (send_self eng ev s).
Proof. unfold send_self. destruct (accepts eng (s_status s)); [apply with_queue_same | apply same_cfg_refl]. Qed.

Lemma fail_machine_same s : same_cfg s (fail_machine s).
Proof.
  unfold fail_machine. destruct (s_status s); try apply same_cfg_refl;
    (eapply same_cfg_trans; [apply with_status_same|]; eapply same_cfg_trans; [apply logo_same | apply logo_same]).
Qed.

Lemma arm_same x d k s : same_cfg s (arm x d k s).
Proof. unfold arm. apply with_pending_same. Qed.

Lemma deliver_same eng p s : same_cfg s (deliver eng p s).
Proof.
  unfold deliver. destruct (p_kind p) as [ty|iid ok val h|iid dur ok val h].
  - destruct eng; try apply send_self_same;
      (destruct (s_status s); try apply same_cfg_refl; destruct (mem (p_owner p) (s_cfg s)); [apply send_self_same | apply same_cfg_refl]).
  - destruct (ok || h); [apply send_self_same|]. eapply same_cfg_trans; [apply send_self_same | apply fail_machine_same].
  - eapply same_cfg_trans; [apply logo_same | apply arm_same].
Qed.

Lemma busy_loop_same f eng t s : same_cfg s (busy_loop f eng t s).
Proof.
  revert s; induction f as [|f IH]; intros s; simpl; [apply same_cfg_refl|].
  destruct (sort_pend _) as [|p rest]; [apply same_cfg_refl|].
  eapply same_cfg_trans; [|apply IH].
  match goal with |- same_cfg s ((if ?c then _ else _) ?x) => destruct c end;
    (eapply same_cfg_trans; [apply with_pending_same|]; try (eapply same_cfg_trans; [apply deliver_same | apply logo_same]); apply deliver_same).
Qed.

Lemma advance_busy_same eng d s : same_cfg s (advance_busy eng d s).
Proof. unfold advance_busy. eapply same_cfg_trans; [apply busy_loop_same | apply with_now_same]. Qed.

(* actions never touch the configuration or the history *)
Lemma run_actions_same eng pr acts ev s : same_cfg s (fst (run_actions eng pr acts ev s)).
Proof.
  revert s; induction acts as [|a r IH]; intros s; simpl; [apply same_cfg_refl|].
  destruct a as [k|k|k|v z|ty tag|k|k|k d|k v].
  - eapply same_cfg_trans; [apply logo_same | apply IH].
  - simpl. eapply same_cfg_trans; apply logo_same.
  - apply same_cfg_refl.
  - eapply same_cfg_trans; [apply with_ctx_same | apply IH].
  - eapply same_cfg_trans; [|apply IH]. eapply same_cfg_trans; [|apply send_self_same].
    destruct eng; try apply same_cfg_refl. destruct pr; [apply with_rd_same | apply same_cfg_refl].
  - simpl. apply logo_same.
  - eapply same_cfg_trans; [|apply IH]. eapply same_cfg_trans; apply logo_same.
  - eapply same_cfg_trans; [|apply IH].
    eapply same_cfg_trans; [apply logo_same|]. eapply same_cfg_trans; [apply advance_busy_same | apply logo_same].
  - eapply same_cfg_trans; [|apply IH]. eapply same_cfg_trans; [apply logo_same | apply with_ctx_same].
Qed.

Lemma pure_actions_same acts s : same_cfg s (pure_actions acts s).
Proof.
  revert s; induction acts as [|a r IH]; intros s; simpl; [apply same_cfg_refl|].
  eapply same_cfg_trans; [|apply IH].
  destruct a; try apply logo_same. eapply same_cfg_trans; [apply with_ctx_same | apply logo_same].
Qed.

Lemma exec_actions_same eng pr acts ev s : same_cfg s (fst (exec_actions eng pr acts ev s)).
Proof. unfold exec_actions. destruct eng; try apply run_actions_same. simpl. apply pure_actions_same. Qed.

(* ---- generic combinators ---- *)

Definition preserves (R : st -> st -> Prop) (a : M) : Prop := forall s, R s (fst (a s)).

Section Pres.
  Variable R : st -> st -> Prop.
  Hypothesis Rrefl : forall s, R s s.
  Hypothesis Rtrans : forall a b c, R a b -> R b c -> R a c.

  Lemma pres_ret : preserves R ret.
  Proof. intros s. apply Rrefl. Qed.
  Lemma pres_raise e : preserves R (raise e).
  Proof. intros s. apply Rrefl. Qed.
  Lemma pres_lift f : (forall s, R s (f s)) -> preserves R (lift f).
  Proof. intros H s. apply H. Qed.
  Lemma pres_bind a b : preserves R a -> preserves R b -> preserves R (bind a b).
  Proof.
    intros Ha Hb s. unfold bind. specialize (Ha s). destruct (a s) as [s' [e|]]; simpl in *; [exact Ha|].
    eapply Rtrans; [exact Ha | apply Hb].
  Qed.
  Lemma pres_for_each {A} (f : A -> M) l : (forall x, preserves R (f x)) -> preserves R (for_each f l).
  Proof. intros H. induction l as [|x r IH]; simpl; [apply pres_ret | apply pres_bind; [apply H | exact IH]]. Qed.
  Lemma pres_fun (a : M) : (forall s, R s (fst (a s))) -> preserves R (fun s => a s).
  Proof. intros H s. apply H. Qed.
End Pres.

(* scheduling never touches the configuration or the history *)
Lemma start_service_same eng x i : preserves same_cfg (start_service eng x i).
Proof.
  unfold start_service. destruct (Nat.eqb (i_src i) 0); [apply pres_raise, same_cfg_refl|].
  destruct eng.
  - apply pres_bind; try apply same_cfg_trans; apply pres_lift; intros s; [apply logo_same | apply deliver_same].
  - apply pres_lift. intros s. apply arm_same.
  - apply pres_bind; try apply same_cfg_trans; apply pres_lift; intros s; [apply logo_same | apply deliver_same].
Qed.

Lemma fold_arm_same x (ts : list trans) d s :
  same_cfg s (fold_left (fun s'' t => arm x (s_now s'' + d) (PAfter (t_event t)) s'') ts s).
Proof.
  revert s; induction ts as [|t r IH]; intros s; simpl; [apply same_cfg_refl|].
  eapply same_cfg_trans; [apply arm_same | apply IH].
Qed.

Lemma sched_run_same eng m x : preserves same_cfg (sched_run eng m x).
Proof.
  unfold sched_run. apply pres_bind; [apply same_cfg_trans | apply pres_lift; intros s; apply logo_same|].
  apply pres_bind; [apply same_cfg_trans | |apply pres_for_each; [apply same_cfg_refl | apply same_cfg_trans | intros i; apply start_service_same]].
  apply pres_lift. intros s. generalize (n_after (nd m x)). intros l. revert s.
  induction l as [|dt r IH]; intros s; simpl; [apply same_cfg_refl|].
  eapply same_cfg_trans; [apply fold_arm_same | apply IH].
Qed.

Lemma sched_same eng m x : preserves same_cfg (sched eng m x).
Proof. unfold sched. destruct eng; try apply sched_run_same. apply pres_ret, same_cfg_refl. Qed.
