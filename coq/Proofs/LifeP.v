(* Lifecycle: the status only moves along uninitialized -> running -> (done | error) -> stopped, running -> stopped (C14) *)
From XSM Require Import Model.Macro Proofs.StepP Proofs.FrameP Proofs.DoneP.
From Coq Require Import Lia.

(* one edge of the lifecycle graph *)
Definition edge (a b : status) : bool :=
  match a, b with
  | Uninit, Running | Running, Exec.Done | Running, Errored | Running, Stopped
  | Exec.Done, Stopped | Errored, Stopped => true
  | _, _ => false
  end.

(* reachability along edges (reflexive-transitive closure, computed) *)
Definition reach (a b : status) : bool :=
  match a, b with
  | Uninit, _ => true
  | Running, Uninit => false | Running, _ => true
  | Exec.Done, (Exec.Done | Stopped) => true
  | Errored, (Errored | Stopped) => true
  | Stopped, Stopped => true
  | _, _ => false
  end.

Lemma reach_refl a : reach a a = true.
Proof. destruct a; reflexivity. Qed.
Lemma reach_trans a b c : reach a b = true -> reach b c = true -> reach a c = true.
Proof. destruct a, b, c; simpl; intros; try reflexivity; discriminate. Qed.
Lemma edge_reach a b : edge a b = true -> reach a b = true.
Proof. destruct a, b; simpl; intros; try reflexivity; discriminate. Qed.
(* reach is exactly the closure of edge: every reach step decomposes into edges *)
Lemma reach_is_closure a b : reach a b = true ->
  a = b \/ edge a b = true \/ exists c, edge a c = true /\ (c = b \/ edge c b = true \/ exists d, edge c d = true /\ edge d b = true).
Proof.
  destruct a, b; simpl; intros H; try discriminate; auto.
  - right. right. exists Running. auto.
  - right. right. exists Running. auto.
  - right. right. exists Running. split; [reflexivity|]. right. right. exists Exec.Done. auto.
Qed.

Definition Rst (s s' : st) : Prop := reach (s_status s) (s_status s') = true.

(* completion and failure are single edges (or no-ops) *)
Lemma complete_edge o s : s_status (complete o s) = s_status s \/ (s_status s = Running /\ s_status (complete o s) = Exec.Done).
Proof. unfold complete. destruct (s_status s) eqn:E; simpl; rewrite ?E; auto. Qed.

Lemma fail_edge s :
  s_status (fail_machine s) = s_status s
  \/ (s_status s = Running /\ s_status (fail_machine s) = Errored)
  \/ (s_status s = Uninit /\ s_status (fail_machine s) = Errored).
Proof. unfold fail_machine. destruct (s_status s) eqn:E; simpl; auto. Qed.

Lemma Rst_prims : prims Rst.
Proof.
  constructor; unfold Rst; intros; simpl; try apply reach_refl.
  - eapply reach_trans; eassumption.
  - destruct (complete_edge o s) as [->|[H1 ->]]; [apply reach_refl | rewrite H1; reflexivity].
  - destruct (fail_edge s) as [->|[[H1 ->]|[H1 ->]]]; [apply reach_refl | rewrite H1; reflexivity | rewrite H1; reflexivity].
Qed.

Lemma Rst_hist H s : Rst s (with_hist H s).
Proof. unfold Rst. simpl. apply reach_refl. Qed.

Lemma Rst_log o s : Rst s (logo o s).
Proof. unfold Rst. simpl. apply reach_refl. Qed.

Lemma Rst_queue q s : Rst s (with_queue q s).
Proof. unfold Rst. simpl. apply reach_refl. Qed.

(* every operation moves the status along lifecycle edges only *)
Lemma Rst_refl s : Rst s s.
Proof. apply reach_refl. Qed.

Theorem send_status_path m ev s : Rst s (fst (sync_send m ev s)).
Proof.
  unfold sync_send, sync_send_with. destruct (s_status s) eqn:E; simpl; try apply Rst_refl.
  eapply (p_trans Rst Rst_prims); [apply Rst_queue|]. apply (f_drain Rst Rst_prims Rst_hist Rst_queue Rst_log).
Qed.

Theorem send_events_status_path m evs s : Rst s (fst (sync_send_events m evs s)).
Proof.
  unfold sync_send_events. destruct (s_status s) eqn:E; simpl; try apply Rst_refl.
  eapply (p_trans Rst Rst_prims); [apply Rst_queue|]. apply (f_drain Rst Rst_prims Rst_hist Rst_queue Rst_log).
Qed.

Lemma Rst_start s : s_status s = Uninit -> Rst s (logo OStarted (with_status Running None s)).
Proof. intros H. unfold Rst. simpl. rewrite H. reflexivity. Qed.

Theorem start_status_path m s : Rst s (fst (sync_start m s)).
Proof.
  unfold sync_start, sync_start_with. destruct (s_status s) eqn:E; simpl; try apply Rst_refl.
  unfold bind at 1. unfold lift at 1. cbn beta.
  set (s1 := logo OStarted (with_status Running None s)).
  assert (H1 : Rst s s1) by (apply Rst_start; exact E).
  set (rest := (enter Sync true m [0] None ;; _)).
  assert (Hr : preserves Rst rest).
  { unfold rest. apply (pres_bind Rst (p_trans Rst Rst_prims)); [apply (f_enter Rst Rst_prims)|].
    apply (pres_bind Rst (p_trans Rst Rst_prims)); [apply (f_settle Rst Rst_prims Rst_hist)|].
    apply (pres_bind Rst (p_trans Rst Rst_prims)); [apply (f_drain Rst Rst_prims Rst_hist Rst_queue Rst_log)|].
    apply pres_lift. intros s'. apply Rst_log. }
  eapply (p_trans Rst Rst_prims); [exact H1 | apply Hr].
Qed.

Theorem async_step_status_path m ev s : Rst s (async_step m ev s).
Proof. apply (f_async_step Rst Rst_prims Rst_hist Rst_log). Qed.

Theorem async_loop_status_path fuel m s : Rst s (fst (async_loop fuel m s)).
Proof. apply (f_async_loop Rst Rst_prims Rst_hist Rst_queue Rst_log). Qed.

Theorem async_start_status_path m s : Rst s (fst (async_start m s)).
Proof.
  unfold async_start. destruct (s_status s) eqn:E; simpl; try apply Rst_refl.
  set (a := (lift _ ;; _)).
  assert (Ha : forall s0, s_status s0 = Uninit -> Rst s0 (fst (a s0))).
  { intros s0 E0. unfold a. unfold bind at 1. unfold lift at 1. cbn beta.
    eapply (p_trans Rst Rst_prims); [apply Rst_start; exact E0|].
    apply (pres_bind Rst (p_trans Rst Rst_prims)); [apply (f_enter Rst Rst_prims) | apply (f_settle Rst Rst_prims Rst_hist)]. }
  specialize (Ha s E). destruct (a s) as [s' [e|]]; simpl in *; [|exact Ha].
  unfold Rst in *. simpl. rewrite E in *. destruct (s_status s'); reflexivity.
Qed.

(* stop(): idempotent, allowed in any status, releases every armed timer and running service *)
Theorem stop_status_edge s :
  s_status (stop_interp s) = s_status s \/ (s_status (stop_interp s) = Stopped /\ edge (s_status s) Stopped = true).
Proof. unfold stop_interp. destruct (s_status s) eqn:E; simpl; rewrite ?E; auto. Qed.

Theorem stop_idempotent s : stop_interp (stop_interp s) = stop_interp s.
Proof. unfold stop_interp. destruct (s_status s) eqn:E; simpl; rewrite ?E; reflexivity. Qed.

Theorem stop_releases s :
  s_status s <> Uninit -> s_status s <> Stopped -> s_pending (stop_interp s) = [] /\ s_status (stop_interp s) = Stopped.
Proof. unfold stop_interp. destruct (s_status s) eqn:E; simpl; intros H1 H2; try congruence; auto. Qed.

(* a failed async start also ends stopped with nothing armed *)
Theorem async_start_failure_releases m s s' e :
  async_start m s = (s', Some e) -> s_status s = Uninit -> s_status s' = Stopped /\ s_pending s' = [].
Proof.
  unfold async_start. intros H E. rewrite E in H.
  destruct ((lift _ ;; _) s) as [s1 [e1|]]; inversion H; subst; simpl; auto.
Qed.

Theorem start_idempotent_running m s : s_status s = Running -> sync_start m s = (s, None) /\ async_start m s = (s, None).
Proof. intros E. unfold sync_start, sync_start_with, async_start. rewrite E. auto. Qed.

Theorem start_stopped_errors m s :
  s_status s = Stopped -> sync_start m s = (s, Some EInvalidConfig) /\ async_start m s = (s, Some EInvalidConfig).
Proof. intros E. unfold sync_start, sync_start_with, async_start. rewrite E. auto. Qed.
