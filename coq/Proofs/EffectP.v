(* What one successful external transition does to the configuration (property C01): a closed formula.
   after = (before minus the exit list) plus the states the entry procedure adds, where the added states are computed by
   `entered`, a function of the machine and the entry list alone. *)
From XSM Require Import Model.Macro Proofs.TreeP Proofs.GuardP Proofs.StepP Proofs.DescentP.
From Coq Require Import Lia.

(* the states _enter_states adds, in order, for an ARBITRARY entry list (explicit paths included: a member whose child
   is also listed skips its default initial; a parallel member skips the regions that are listed) *)
Fixpoint entered (f : nat) (m : machine) (l : list nat) : list nat :=
  match f with
  | 0 => []
  | S f' =>
      List.concat (map (fun x =>
        x :: match kind_of m x with
             | KCompound => match n_initial (nd m x) with
                            | Some i => if mem x (parents_of m l) then [] else entered f' m [i]
                            | None => []
                            end
             | KParallel => entered f' m (filter (fun c => negb (is_history m c) && negb (mem c (with_parent m l))) (children m x))
             | _ => []
             end) l)
  end.

Lemma entered_nil f m : entered f m [] = [].
Proof. destruct f; reflexivity. Qed.

Definition remove_all (l : list nat) (C : config) : config := fold_left (fun C x => cdel x C) l C.

Lemma cdel_not_mem x C : mem x C = false -> cdel x C = C.
Proof.
  intros H. unfold cdel. apply mem_false in H. induction C as [|y r IH]; simpl; [reflexivity|].
  destruct (Nat.eqb_spec y x) as [->|Hne]; simpl.
  - exfalso. apply H. now left.
  - f_equal. apply IH. intros Hin. apply H. now right.
Qed.

Lemma record_fold_cfg m C c : forall s0,
  s_cfg (fold_left (fun s' p => if has_history_child m p then
          match sort_by (lt_depth_id m) (filter (fun n => negb (Nat.eqb n p) && is_desc m n p) C) with
          | [] => s' | _ :: _ => with_hist (hist_set (s_hist s') p (sort_by (lt_depth_id m) (filter (fun n => negb (Nat.eqb n p) && is_desc m n p) C))) s' end
        else s') c s0) = s_cfg s0.
Proof.
  induction c as [|q r IH]; intros s0; simpl; [reflexivity|].
  destruct (has_history_child m q); [|apply IH]. destruct (sort_by _ _); [apply IH|]. rewrite IH. reflexivity.
Qed.

Lemma record_history_cfg m l s : s_cfg (record_history m l s) = s_cfg s.
Proof. unfold record_history. apply record_fold_cfg. Qed.

Section Effect.
  Variable m : machine.
  Variables (eng : engine) (pr : bool).

  Theorem enter_states_effect : forall f l ev s s',
    enter_states f eng pr m l ev s = (s', None) -> s_cfg s' = add_all (entered f m l) (s_cfg s).
  Proof.
    induction f as [|f IH]; intros l ev s s' H; [discriminate|].
    cbn [enter_states] in H. cbn [entered].
    set (ep := parents_of m l) in *. set (ei := with_parent m l) in *.
    set (body := fun x => x :: match kind_of m x with
             | KCompound => match n_initial (nd m x) with
                            | Some i => if mem x ep then [] else entered f m [i]
                            | None => []
                            end
             | KParallel => entered f m (filter (fun c => negb (is_history m c) && negb (mem c ei)) (children m x))
             | _ => []
             end).
    change (s_cfg s' = add_all (List.concat (map body l)) (s_cfg s)).
    revert s s' H. generalize l at 1 2. intros l0.
    induction l0 as [|x r IHr]; intros s s' H; [inversion H; reflexivity|].
    cbn [for_each] in H. apply bind_ok in H as [s1 [H1 H]].
    assert (E1 : s_cfg s1 = add_all (body x) (s_cfg s)).
    { clear H IHr. unfold enter_one in H1.
      apply bind_ok in H1 as [t1 [T1 H1]]. inversion T1; subst t1; clear T1.
      apply bind_ok in H1 as [t2 [T2 H1]].
      assert (E2 : s_cfg t2 = cadd x (s_cfg s)).
      { pose proof (exec_actions_same eng pr (n_entry (nd m x)) (entry_event eng m ev x) (logo (OEnter x) (with_cfg (cadd x (s_cfg s)) s))) as [Hc _].
        rewrite T2 in Hc. exact Hc. }
      apply bind_ok in H1 as [t3 [T3 H1]].
      assert (E3 : s_cfg t3 = s_cfg t2) by (pose proof (keeps_sched_before eng m x t2) as K; rewrite T3 in K; exact K).
      apply bind_ok in H1 as [t4 [T4 H1]].
      assert (E4 : s_cfg t4 = s_cfg t3).
      { destruct (is_final m x); [|inversion T4; reflexivity]. inversion T4; subst. now destruct (fire_on_done_same eng pr m x t3). }
      assert (Hsa : forall t t', sched_after eng m x t = (t', None) -> s_cfg t' = s_cfg t)
        by (intros t t' Ht; pose proof (keeps_sched_after eng m x t) as K; rewrite Ht in K; exact K).
      unfold body. unfold add_all at 1. cbn [fold_left].
      match goal with |- _ = fold_left _ ?rest _ => fold (add_all rest (cadd x (s_cfg s))) end.
      rewrite <- E2, <- E3, <- E4.
      destruct (kind_of m x) eqn:Hk.
      - rewrite (Hsa _ _ H1). reflexivity.
      - destruct (n_initial (nd m x)) as [i|] eqn:Hi.
        + fold ep in H1. destruct (mem x ep).
          * rewrite (Hsa _ _ H1). reflexivity.
          * apply bind_ok in H1 as [t5 [T5 H1]]. rewrite (Hsa _ _ H1). now apply IH in T5.
        + destruct (children m x); [rewrite (Hsa _ _ H1); reflexivity | discriminate].
      - apply bind_ok in H1 as [t5 [T5 H1]]. rewrite (Hsa _ _ H1). fold ei in T5.
        destruct (filter (fun c => negb (is_history m c) && negb (mem c ei)) (children m x)) as [|c r'] eqn:Ef.
        + inversion T5. rewrite entered_nil. reflexivity.
        + now apply IH in T5.
      - rewrite (Hsa _ _ H1). reflexivity.
      - rewrite (Hsa _ _ H1). reflexivity. }
    cbn [map List.concat]. rewrite add_all_app, <- E1. now apply IHr.
  Qed.

  Lemma keeps_cancel x : keeps_cfg (cancel x).
  Proof. intros s. reflexivity. Qed.

  Lemma for_each_keeps {A} (f : A -> M) l : (forall x, keeps_cfg (f x)) -> keeps_cfg (for_each f l).
  Proof.
    intros Hf. induction l as [|x r IH]; intros s; simpl; [reflexivity|].
    unfold bind. pose proof (Hf x s) as Hx. destruct (f x s) as [s1 [e|]]; simpl in *; [exact Hx|].
    rewrite IH. exact Hx.
  Qed.

  Theorem exit_states_effect l ev s s' :
    exit_states eng pr m l ev s = (s', None) -> s_cfg s' = remove_all l (s_cfg s).
  Proof.
    intros H. unfold exit_states in H. apply bind_ok in H as [s1 [H1 H]].
    assert (E1 : s_cfg s1 = s_cfg s) by (inversion H1; subst; apply record_history_cfg).
    assert (Hloop : forall (pre : nat -> M), (forall x, keeps_cfg (pre x)) -> forall l0 t t',
              for_each (fun x => pre x ;; (fun s => exec_actions eng pr (n_exit (nd m x)) (exit_event eng m ev x) s) ;;
                                 lift (fun s => if mem x (s_cfg s) then logo (OLeave x) (with_cfg (cdel x (s_cfg s)) s) else s)) l0 t = (t', None) ->
              s_cfg t' = remove_all l0 (s_cfg t)).
    { intros pre Hpre. induction l0 as [|x r IHr]; intros t t' Ht; [inversion Ht; reflexivity|].
      cbn [for_each] in Ht. apply bind_ok in Ht as [t1 [T1 Ht]].
      apply bind_ok in T1 as [u0 [U0 T1]]. apply bind_ok in T1 as [u1 [U1 T1]]. inversion T1; subst t1; clear T1.
      assert (E0 : s_cfg u0 = s_cfg t) by (pose proof (Hpre x t) as K; rewrite U0 in K; exact K).
      assert (Eu : s_cfg u1 = s_cfg u0).
      { pose proof (exec_actions_same eng pr (n_exit (nd m x)) (exit_event eng m ev x) u0) as [Hc _]. rewrite U1 in Hc. exact Hc. }
      apply IHr in Ht. rewrite Ht. unfold remove_all. cbn [fold_left]. f_equal.
      destruct (mem x (s_cfg u1)) eqn:Em; simpl; [congruence|]. rewrite (cdel_not_mem x (s_cfg t)); congruence. }
    destruct eng.
    - apply bind_ok in H as [s2 [H2 H]].
      assert (E2 : s_cfg s2 = s_cfg s1) by (pose proof (for_each_keeps cancel l keeps_cancel s1) as K; rewrite H2 in K; exact K).
      apply (Hloop (fun _ => ret) (fun _ => keeps_ret)) in H. rewrite H. congruence.
    - apply (Hloop cancel keeps_cancel) in H. rewrite H. congruence.
    - apply bind_ok in H as [s2 [H2 H]].
      assert (E2 : s_cfg s2 = s_cfg s1) by (pose proof (for_each_keeps cancel l keeps_cancel s1) as K; rewrite H2 in K; exact K).
      apply (Hloop (fun _ => ret) (fun _ => keeps_ret)) in H. rewrite H. congruence.
  Qed.

  (* the whole transition *)
  Theorem external_effect t tgt ev s0 s1 :
    exec_external eng pr m t tgt ev s0 = (s1, None) ->
    let d := find_domain m (t_src t) tgt in
    let xs := rev (sort_by (lt_depth_id m) (ext_exit_set m (s_cfg s0) (s_hist s0) d tgt)) in
    let hist := is_history m tgt in
    let path := if hist then [] else ext_path m tgt d in
    let cp := if hist then combined_path m d (resolve_history m (s_hist s0) tgt) else [] in
    s_cfg s1 = add_all (entered (S (size m)) m cp) (add_all (entered (S (size m)) m path) (remove_all xs (s_cfg s0))).
  Proof.
    intros H. cbv zeta. unfold exec_external in H.
    match type of H with (match ?b s0 with _ => _ end) = _ => destruct (b s0) as [sb [e|]] eqn:Eb end.
    - (* the body failed: the rollback path returns an error *)
      exfalso. destruct (for_each _ _ _) as [s2 [e2|]]; discriminate.
    - assert (Hk : s_cfg s1 = s_cfg sb).
      { destruct eng; unfold bind, hook_trans, hook_notify, lift in H; inversion H; reflexivity. }
      rewrite Hk. clear H Hk.
      apply bind_ok in Eb as [sx [Hx Eb]]. apply exit_states_effect in Hx.
      apply bind_ok in Eb as [sa [Ha Eb]].
      assert (Ea : s_cfg sa = s_cfg sx).
      { pose proof (exec_actions_same eng pr (t_actions t) ev sx) as [Hc _]. rewrite Ha in Hc. exact Hc. }
      apply bind_ok in Eb as [se [He Eb]]. apply enter_states_effect in He.
      destruct (is_history m tgt).
      + destruct (combined_path m _ _) as [|c cp] eqn:Ecp.
        * inversion Eb; subst. rewrite entered_nil. unfold add_all at 1. simpl. rewrite He, Ea, Hx. reflexivity.
        * apply enter_states_effect in Eb. rewrite Eb, He, Ea, Hx. reflexivity.
      + inversion Eb; subst. rewrite entered_nil. unfold add_all at 1. simpl. rewrite He, Ea, Hx. reflexivity.
  Qed.
End Effect.
