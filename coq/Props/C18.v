(* C18 - config front-end: spellings are equivalent, malformed input fails loudly.  Statements only.
   Two models: (1) Model/Resolve.v, the resolver's four strategies over the tree of state keys - tied to resolver.py by
   K-resolve (every state x a set of valid and junk spellings, library answer vs model answer evaluated in Coq);
   (2) Model/Generic.v, labelled trees extracted from BUILT machines (harness/tomodel.py) - the machines built from a
   config and from its respellings are compared as trees in Coq, one kernel-checked certificate per pair.
   What is proved: every target spelling the documentation declares equivalent resolves to the same state, for ALL key
   trees and source states, under exactly the side conditions the rewriter checks; a resolved target always exists;
   tree equality is reflected, so equal trees have equal behaviour for every behaviour that is a function of the
   extracted structure, and an empty list from the batch checker means every compared pair is equal.
   PARTIAL: the normalisers for transition / action / delay / always / initial forms are not modelled one by one:
   their equivalence is decided per pair by the tree certificate plus the trace comparison on both engines; 'malformed
   input fails loudly' is a monitor over single-point corruptions (no raw exception; rejection independent of
   truthiness), not a theorem.  Custom '#id' anchors are outside Resolve.v. *)
From XSM Require Import Model.Generic Model.Resolve Proofs.GenericP Proofs.ResolveP.
Open Scope list_scope.

Theorem C18_spelling_absolute : forall root ref T,
  exists_at root T = true -> forallb (fun s => negb (String.eqb s "")) T = true ->
  resolve_target root ref (SAbs (kkey root :: T)) = Some T.
Proof. exact spelling_absolute. Qed.
Print Assumptions C18_spelling_absolute.

Theorem C18_spelling_relative : forall root S rel,
  exists_at root (parent_path S ++ rel) = true -> forallb (fun s => negb (String.eqb s "")) rel = true ->
  resolve_target root S (SRel rel) = Some (parent_path S ++ rel).
Proof. exact spelling_relative. Qed.
Print Assumptions C18_spelling_relative.

Theorem C18_spelling_dot : forall root S, resolve_target root S SDot = Some (parent_path S).
Proof. exact spelling_dot. Qed.
Print Assumptions C18_spelling_dot.

Theorem C18_spelling_below_source : forall root S rel,
  exists_at root (S ++ rel) = true -> forallb (fun s => negb (String.eqb s "")) rel = true ->
  resolve_target root S (SPlain rel) = Some (S ++ rel).
Proof. exact spelling_below_source. Qed.
Print Assumptions C18_spelling_below_source.

(* sibling key / dotted path *)
Theorem C18_spelling_plain : forall root S rel,
  S <> [] ->
  exists_at root (S ++ rel) = false ->
  match rel with [k] => String.eqb k (last_key root S) | _ => false end = false ->
  exists_at root (parent_path S ++ rel) = true ->
  forallb (fun s => negb (String.eqb s "")) rel = true ->
  resolve_target root S (SPlain rel) = Some (parent_path S ++ rel).
Proof. exact spelling_plain_via_parent. Qed.
Print Assumptions C18_spelling_plain.

Theorem C18_spelling_own_key : forall root S k,
  S <> [] -> exists_at root (S ++ [k]) = false -> String.eqb k (last_key root S) = true ->
  negb (String.eqb k "") = true ->
  resolve_target root S (SPlain [k]) = Some S.
Proof. exact spelling_plain_self. Qed.
Print Assumptions C18_spelling_own_key.

(* nothing is invented: what the bubbling lookup returns exists *)
Theorem C18_resolved_exists : forall fuel root cur segs p,
  exists_at root cur = true -> bubble fuel root cur segs = Some p -> exists_at root p = true.
Proof. exact bubble_sound. Qed.
Print Assumptions C18_resolved_exists.

(* the per-pair certificate *)
Theorem C18_tree_equality_reflects : forall a b, gt_eqb a b = true <-> a = b.
Proof. exact gt_eqb_spec. Qed.
Print Assumptions C18_tree_equality_reflects.
Theorem C18_equal_trees_equal_behaviour : forall (B : Type) (beh : gt -> B) a b, gt_eqb a b = true -> beh a = beh b.
Proof. exact @equal_trees_equal_behaviour. Qed.
Print Assumptions C18_equal_trees_equal_behaviour.
Theorem C18_batch_certificate : forall l, bad_pairs l = [] -> forall a b, In (a, b) l -> a = b.
Proof. exact bad_pairs_empty_all_equal. Qed.
Print Assumptions C18_batch_certificate.

(* non-vacuity: m { a { idle, busy }, b { idle, busy } }: '.idle' and 'idle' from a.busy and from b.busy *)
Definition ex_t : ktree := KT "m" [KT "a" [KT "idle" []; KT "busy" []]; KT "b" [KT "idle" []; KT "busy" []]].
Example C18_ex :
  resolve_target ex_t ["a"; "busy"] (SRel ["idle"]) = Some ["a"; "idle"] /\
  resolve_target ex_t ["b"; "busy"] (SRel ["idle"]) = Some ["b"; "idle"] /\
  resolve_target ex_t ["a"; "busy"] (SPlain ["idle"]) = Some ["a"; "idle"] /\
  resolve_target ex_t ["b"; "busy"] (SPlain ["a"; "idle"]) = Some ["a"; "idle"] /\
  resolve_target ex_t ["a"; "busy"] (SAbs ["m"; "b"; "busy"]) = Some ["b"; "busy"] /\
  resolve_target ex_t ["a"; "busy"] (SPlain ["busy"]) = Some ["a"; "busy"] /\
  resolve_target ex_t ["a"; "busy"] (SPlain ["nosuch"]) = None /\
  gt_eqb (G "x" [G "y" []; G "z" []]) (G "x" [G "y" []; G "z" []]) = true /\ gt_eqb (G "x" [G "y" []]) (G "x" [G "y" []; G "z" []]) = false.
Proof. vm_compute. repeat split; reflexivity. Qed.
