(* C02 - selection: deepest handler, first enabled candidate, once per region;
   unhandled events are no-ops; can() predicts without changing anything.
   Statements only.  The model functions are Model/Select.v (collect, first_max,
   select_with, can) and Model/Exec.v (process_event); they are tied to
   _collect_eligible_transitions / _select_transitions / _process_event / can()
   by the K-macro correspondence (harness/props/c02.py). *)
From XSM Require Import Model.Macro Proofs.SelectP Proofs.ExecP Proofs.SelectBridge Model.TreeLib Gen.GenGeom.

(* For an active atomic state `leaf`, the nominated transition w is the FIRST
   candidate whose guard passes (w :: l is the eligible list of s, in candidate
   order) of the NEAREST ancestor-or-self s that has any (every state x before s
   on the walk has none and does not forbid the event).  f is the guard oracle:
   f t = Some b when t's guard evaluates to b. *)
Theorem C02_nominee_nearest_first : forall f m ev leaf el w,
  wf m = true -> twf m = true -> leaf < size m ->
  collect f m ev leaf = Some el ->
  first_max (fun t => depth m (t_src t)) el = Some w ->
  exists pre s post l b,
    anc_self m leaf = pre ++ s :: post
    /\ (forall x, In x pre -> cands_state f m ev x = Some ([], false))
    /\ cands_state f m ev s = Some (w :: l, b)
    /\ t_src w = s.
Proof. exact winner_spec. Qed.
Print Assumptions C02_nominee_nearest_first.

(* within one `on` bucket the eligible candidates are exactly those whose guard
   is true, in declaration order *)
Theorem C02_bucket_is_filter : forall (fb : trans -> bool) ts,
  on_bucket (fun t => Some (fb t)) ts =
  Some (filter fb (fst (before_forbidden ts)), snd (before_forbidden ts)).
Proof. exact on_bucket_total. Qed.
Print Assumptions C02_bucket_is_filter.

(* exactly the nominated transitions are selected: each selected one is the
   nominee of some active leaf ... *)
Theorem C02_selected_is_nominee : forall m f C ev out t,
  select_with m f C ev = Some out -> In t out ->
  exists leaf el, In leaf (leaves m C) /\ collect f m ev leaf = Some el
                  /\ first_max (fun t => depth m (t_src t)) el = Some t.
Proof. exact selected_is_winner. Qed.
Print Assumptions C02_selected_is_nominee.

(* ... and one declared on an ancestor shared by several regions is selected once *)
Theorem C02_shared_ancestor_once : forall m f C ev out,
  select_with m f C ev = Some out -> NoDup (map t_id out).
Proof. exact select_once. Qed.
Print Assumptions C02_shared_ancestor_once.

(* an event with no nominee leaves the whole interpreter state unchanged:
   configuration, context, history, queue, status, output, log *)
Theorem C02_unhandled_noop : forall eng pr m ev s,
  select m (s_cfg s) (s_ctx s) ev = Some [] -> process_event eng pr m ev s = (s, None).
Proof. exact process_unhandled. Qed.
Print Assumptions C02_unhandled_noop.

(* can(event) is true exactly when a nominee exists; it is a function of
   (configuration, context, event) only and returns no new state *)
Theorem C02_can : forall m C cx ev,
  can m C cx ev = true <-> exists t ts, select m C cx ev = Some (t :: ts).
Proof. exact can_spec. Qed.
Print Assumptions C02_can.

(* TIE T: _collect_eligible_transitions and _select_transitions are RE-TRANSLATED from the current source on every run
   (Gen/GenGeom.v, harness/py2coq_tree.py: the `while current:` walk as a Fixpoint on fuel, the loops with `break` as folds
   carrying a flag, `max(...)` as the first maximal element, the nested helper _passes - the transition's guard through
   _is_guard_satisfied, memoised per pass - as an oracle gpass : trans -> bool; _matching_descriptors is the translated
   function of C20) and proved EQUAL to the model functions the theorems above are stated over, for every guard oracle that
   answers (a guard whose implementation is missing raises out of the selection: the model's None, tied by K-macro) *)
Theorem C02_collect_is_the_source : forall gpass m ev leaf,
  collect (fun t => Some (gpass t)) m ev leaf = Some (GenGeom.collect_eligible_transitions m gpass leaf ev).
Proof. exact collect_bridge. Qed.
Print Assumptions C02_collect_is_the_source.

Theorem C02_select_with_is_the_source : forall gpass m ev C,
  select_with m (fun t => Some (gpass t)) C ev = Some (GenGeom.select_transitions m C gpass ev).
Proof. exact select_bridge. Qed.
Print Assumptions C02_select_with_is_the_source.

Theorem C02_select_is_the_source : forall m C cx ev (g : trans -> bool),
  (forall t, passes m C cx t = Some (g t)) -> select m C cx ev = Some (GenGeom.select_transitions m C g ev).
Proof. exact select_is_the_source. Qed.
Print Assumptions C02_select_is_the_source.

Theorem C02_can_is_the_source : forall m C cx ev (g : trans -> bool),
  (forall t, passes m C cx t = Some (g t)) -> can m C cx ev = truthy_list (GenGeom.select_transitions m C g ev).
Proof. exact can_is_the_source. Qed.
Print Assumptions C02_can_is_the_source.

(* non-vacuity: a parallel machine whose regions share an ancestor handler *)
Definition ex_t (i s : nat) (e : string) (tg : target) : trans :=
  Build_trans i s e tg None [] false false.
Definition ex_n id par k ch ini d on : node :=
  Build_node id par k ch ini d [] [] on None [] [] None None.
Definition ex_m : machine := Build_machine
  [ ex_n "m" None KCompound [1] (Some 1) 0 [];
    ex_n "m.p" (Some 0) KParallel [2; 4] None 1 [("E"%string, [ex_t 1 1 "E" TNone])];
    ex_n "m.p.r" (Some 1) KCompound [3] (Some 3) 2 [];
    ex_n "m.p.r.a" (Some 2) KAtomic [] None 3 [("F"%string, [ex_t 2 3 "F" TNone])];
    ex_n "m.p.s" (Some 1) KCompound [5] (Some 5) 2 [];
    ex_n "m.p.s.a" (Some 4) KAtomic [] None 3 [] ] 10 None.
Example C02_ex :
  wf ex_m = true /\ twf ex_m = true /\
  option_map (map t_id) (select ex_m [0; 1; 2; 3; 4; 5] [] (Build_event "E" EPlain 0)) = Some [1] /\
  option_map (map t_id) (select ex_m [0; 1; 2; 3; 4; 5] [] (Build_event "F" EPlain 0)) = Some [2] /\
  select ex_m [0; 1; 2; 3; 4; 5] [] (Build_event "G" EPlain 0) = Some [] /\
  map t_id (GenGeom.select_transitions ex_m [0; 1; 2; 3; 4; 5] (fun _ => true) (Build_event "E" EPlain 0)) = [1] /\
  map t_id (GenGeom.collect_eligible_transitions ex_m (fun _ => true) 3 (Build_event "F" EPlain 0)) = [2].
Proof. vm_compute. repeat split; reflexivity. Qed.
