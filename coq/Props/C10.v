(* C10 - completion: onDone exactly once per completion; a top-level final
   state ends the machine.  Statements only.
   Model: Exec.is_done / state_done (_is_state_done), Exec.fire_on_done
   (_check_and_fire_on_done), Exec.complete (_complete), Macro.sync_send /
   async_send.  Tied to the code by K-macro on completion machines
   (harness/props/c10.py). *)
From XSM Require Import Model.Macro Proofs.TreeP Proofs.DoneP Proofs.GeomBridge Proofs.DoneBridge Proofs.LifeBridge Model.TreeLib Gen.GenGeom.

(* done-ness is exactly: final; compound with a done active child; parallel with
   EVERY non-history region active and done (history children are not regions) *)
Theorem C10_is_done_spec : forall m C s,
  wf m = true -> s < size m -> (state_done m C s = true <-> IsDone m C s).
Proof. exact is_done_spec. Qed.
Print Assumptions C10_is_done_spec.

(* TIE T: _is_state_done as RE-TRANSLATED from the current source on every run (Gen/GenGeom.v; recursion on explicit fuel,
   the `for region in ...` loop with its early returns as a short-cutting fold) is the model's `is_done`, for every fuel -
   so C10_is_done_spec is a statement about the function the engine runs *)
Theorem C10_doneness_is_the_source : forall m C fuel s, GenGeom.is_state_done fuel m C s = is_done fuel m C s.
Proof. exact is_state_done_bridge. Qed.
Print Assumptions C10_doneness_is_the_source.
Theorem C10_source_doneness_spec : forall m C s,
  wf m = true -> s < size m -> (GenGeom.is_state_done (S (size m)) m C s = true <-> IsDone m C s).
Proof. exact source_doneness_spec. Qed.
Print Assumptions C10_source_doneness_spec.

(* TIE T for the completion step: WHICH ancestor's onDone fires when a final state is entered, or whether the machine
   completes - the decision of _check_and_fire_on_done in BOTH engines' copies (base_interpreter.py: asyncio engine,
   sync_interpreter.py), re-translated from the current source on every run with the effects replaced by what they decide
   (the translator refuses unless the effect block queues the done event of THIS ancestor, with the final state's output,
   and returns) - is the model's: the nearest ancestor that declares onDone and is done, else completion iff the final
   state is a child of the root.  The model's effectful fire_on_done decides exactly so and acts on the decision. *)
Theorem C10_fire_decision_is_the_source_async : forall m C, wf m = true -> forall fin, fin < size m ->
  GenGeom.on_done_async m C fin = model_decision m C fin.
Proof. exact on_done_async_bridge. Qed.
Print Assumptions C10_fire_decision_is_the_source_async.

Theorem C10_fire_decision_is_the_source_sync : forall m C, wf m = true -> forall fin, fin < size m ->
  GenGeom.on_done_sync m C fin = model_decision m C fin.
Proof. exact on_done_sync_bridge. Qed.
Print Assumptions C10_fire_decision_is_the_source_sync.

Theorem C10_fire_acts_on_the_decision : forall eng pr m fin s,
  fire_on_done eng pr m fin s =
  match model_decision m (s_cfg s) fin with
  | DFire a => send_self eng (done_event m a 0) (note_chained eng pr s)
  | DComplete => complete (match m_output m with Some o => Some o | None => n_output (nd m fin) end) s
  | DNothing => s
  end.
Proof. exact fire_on_done_decides. Qed.
Print Assumptions C10_fire_acts_on_the_decision.

(* ... and "sets the status to done exactly once": _complete (shared by both engines) ignores the call unless the status is
   `running` - the test it starts with, re-translated from the current source - which is the model's `complete` *)
Theorem C10_complete_test_is_the_source : forall m out s,
  (GenGeom.complete_ignored m (status_name (s_status s)) = true -> complete out s = s) /\
  (GenGeom.complete_ignored m (status_name (s_status s)) = false -> s_status (complete out s) = Done /\ s_output (complete out s) = out).
Proof. exact complete_ignored_bridge. Qed.
Print Assumptions C10_complete_test_is_the_source.

(* never while any region is not final ... *)
Theorem C10_parallel_all : forall m C p r,
  wf m = true -> p < size m -> kind_of m p = KParallel -> state_done m C p = true ->
  In r (children m p) -> is_history m r = false -> In r C /\ state_done m C r = true.
Proof. exact parallel_done_all. Qed.
Print Assumptions C10_parallel_all.

(* ... and as soon as the last region is *)
Theorem C10_last_region : forall m C p,
  wf m = true -> p < size m -> kind_of m p = KParallel ->
  (forall r, In r (children m p) -> is_history m r = false -> In r C /\ state_done m C r = true) ->
  state_done m C p = true.
Proof. exact parallel_done_when_all. Qed.
Print Assumptions C10_last_region.

(* entering a final state raises at most one done event: for the NEAREST ancestor
   that declares onDone and is done *)
Theorem C10_fire_once : forall eng pr m fin s,
  s_queue (fire_on_done eng pr m fin s) = s_queue s
  \/ exists a, In a (ancestors m fin) /\ wants_done m (s_cfg s) a = true
               /\ s_queue (fire_on_done eng pr m fin s) = s_queue s ++ [done_event m a 0].
Proof. exact fire_on_done_at_most_one. Qed.
Print Assumptions C10_fire_once.

Theorem C10_fire_nearest : forall eng pr m fin s,
  (exists pre a post,
      ancestors m fin = pre ++ a :: post
      /\ (forall b, In b pre -> wants_done m (s_cfg s) b = false)
      /\ wants_done m (s_cfg s) a = true
      /\ fire_on_done eng pr m fin s = send_self eng (done_event m a 0) (note_chained eng pr s))
  \/ ((forall b, In b (ancestors m fin) -> wants_done m (s_cfg s) b = false)
      /\ (fire_on_done eng pr m fin s = s
          \/ fire_on_done eng pr m fin s =
             complete (match m_output m with Some o => Some o | None => n_output (nd m fin) end) s)).
Proof. exact fire_on_done_cases. Qed.
Print Assumptions C10_fire_nearest.

(* the status becomes done exactly once, the machine-level output wins (see the
   `complete` argument above), and the on_done hook is not run again *)
Theorem C10_complete_once : forall o1 o2 s, complete o2 (complete o1 s) = complete o1 s.
Proof. exact complete_idem. Qed.
Print Assumptions C10_complete_once.

Theorem C10_complete_output : forall o s, s_status s = Running -> s_output (complete o s) = o.
Proof. exact complete_output. Qed.
Print Assumptions C10_complete_output.

(* from then on sent events change nothing and queue nothing, on both engines *)
Theorem C10_send_ignored_sync : forall m ev s, s_status s <> Running -> sync_send m ev s = (s, None).
Proof. exact sync_send_inert. Qed.
Print Assumptions C10_send_ignored_sync.

Theorem C10_send_ignored_async : forall ev s,
  s_status s = Exec.Done \/ s_status s = Errored \/ s_status s = Stopped -> async_send ev s = s.
Proof. exact async_send_inert. Qed.
Print Assumptions C10_send_ignored_async.

(* non-vacuity: a parallel state with two regions, one holding a nested parallel state *)
Definition n_ id par k ch ini d : node := Build_node id par k ch ini d [] [] [] None [] [] None None.
Definition ex_m : machine := Build_machine
  [ n_ "m" None KCompound [1] (Some 1) 0;
    n_ "m.p" (Some 0) KParallel [2; 9] None 1;
    n_ "m.p.r1" (Some 1) KCompound [3] (Some 3) 2;
    n_ "m.p.r1.q" (Some 2) KParallel [4; 7] None 3;
    n_ "m.p.r1.q.s1" (Some 3) KCompound [5; 6] (Some 5) 4;
    n_ "m.p.r1.q.s1.x" (Some 4) KAtomic [] None 5;
    n_ "m.p.r1.q.s1.f" (Some 4) KFinal [] None 5;
    n_ "m.p.r1.q.s2" (Some 3) KCompound [8] (Some 8) 4;
    n_ "m.p.r1.q.s2.y" (Some 7) KAtomic [] None 5;
    n_ "m.p.r2" (Some 1) KCompound [10] (Some 10) 2;
    n_ "m.p.r2.f" (Some 9) KFinal [] None 3 ] 10 None.
Example C10_ex :
  wf ex_m = true /\
  state_done ex_m [0; 1; 2; 3; 4; 6; 7; 8; 9; 10] 1 = false /\   (* s1 final, s2 not: p is NOT done *)
  state_done ex_m [0; 1; 2; 3; 4; 6; 7; 8; 9; 10] 4 = true /\
  state_done ex_m [0; 1; 2; 3; 4; 6; 7; 8; 9; 10] 9 = true /\
  GenGeom.is_state_done 12 ex_m [0; 1; 2; 3; 4; 6; 7; 8; 9; 10] 1 = false /\
  GenGeom.is_state_done 12 ex_m [0; 1; 2; 3; 4; 6; 7; 8; 9; 10] 4 = true.
Proof. vm_compute. repeat split; reflexivity. Qed.
