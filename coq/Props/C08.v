(* C08 - delayed (after) transitions fire when due and never after the state was left.  Statements only.
   Model: activation records (Exec.pend) on a virtual clock: armed by sched_run at entry, removed by cancel at exit
   and by stop_interp, delivered by deliver (busy: advance_busy; idle: advance_idle).  Tied to the code by K-macro on
   timer machines driven on the virtual clock, on the async engine (virtual-time event loop) and on the sync engine
   (deterministic threads), incl. slow actions spanning deadlines (harness/props/c08.py).
   PARTIAL: the bookkeeping is proved; "never after the state was left" is REFUTED for an expiry that is already in
   the queue (finding F8, witness below). *)
From XSM Require Import Model.Macro Proofs.TimerP Proofs.LifeP.
From XSM Require Import Model.TreeLib Gen.GenGeom Proofs.SkeletonBridge.

(* a timer armed at entry is due exactly `delay` after that instant: named / computed delays are resolved at entry *)
Theorem C08_armed_at_entry : forall x due k s,
  s_pending (arm x due k s) = s_pending s ++ [{| p_owner := x; p_due := due; p_seq := s_seq s; p_kind := k |}]
  /\ s_seq (arm x due k s) = S (s_seq s).
Proof. exact arm_spec. Qed.
Print Assumptions C08_armed_at_entry.

(* leaving the state removes every timer it owns - and only those: several delays on one state, and timers of other
   states, are independent *)
Theorem C08_exit_cancels : forall x s,
  (forall p, In p (s_pending (fst (cancel x s))) <-> In p (s_pending s) /\ p_owner p <> x) /\ snd (cancel x s) = None.
Proof. exact cancel_spec. Qed.
Print Assumptions C08_exit_cancels.

(* at most once per activation: an expiry is removed from the table before it is delivered *)
Theorem C08_at_most_once : forall p s q, In q (s_pending (drop_pend p s)) -> p_seq q <> p_seq p.
Proof. exact drop_pend_removes. Qed.
Print Assumptions C08_at_most_once.

(* stopping the interpreter guarantees that no timer fires afterwards *)
Theorem C08_stop_silences : forall s,
  s_status s <> Uninit -> s_status s <> Stopped -> s_pending (stop_interp s) = [] /\ s_status (stop_interp s) = Stopped.
Proof. exact stop_releases. Qed.
Print Assumptions C08_stop_silences.

(* sync engine: an expiry whose state is not active any more delivers nothing *)
Theorem C08_sync_rechecks_owner : forall ty p s,
  p_kind p = PAfter ty -> (mem (p_owner p) (s_cfg s) = false \/ s_status s <> Running) -> deliver Sync p s = s.
Proof. exact sync_expiry_inactive. Qed.
Print Assumptions C08_sync_rechecks_owner.

(* an expiry does nothing but queue one AfterEvent of its own type *)
Theorem C08_expiry_only_queues : forall eng ty p s,
  p_kind p = PAfter ty ->
  s_queue (deliver eng p s) = s_queue s \/ s_queue (deliver eng p s) = s_queue s ++ [{| e_type := ty; e_kind := EAfter; e_tag := 0 |}].
Proof. exact expiry_queues_after. Qed.
Print Assumptions C08_expiry_only_queues.

(* TIE T for the ORDER OF EFFECTS: the effect skeletons of _exit_states and _enter_states are extracted from BOTH engines' copies
   in the current source on every run (Gen/GenGeom.v; for _enter_states every path through the loop body must agree with one
   total order of the five effects) and, interpreted over the model's own effect primitives, ARE the model's exit_states and
   enter_one - so "a state's tasks are cancelled before its exit actions run", "exit actions before the state leaves the
   configuration", "entry actions before the default descent", "where the state's tasks are scheduled relative to the
   descent" are read off the source, per engine *)
Theorem C08_exit_order_is_the_source_async : forall pr m l ev s,
  run_exit_skeleton GenGeom.exit_skeleton_async Async pr m l ev s = exit_states Async pr m l ev s.
Proof. exact exit_skeleton_async_bridge. Qed.
Print Assumptions C08_exit_order_is_the_source_async.
Theorem C08_exit_order_is_the_source_sync : forall eng pr m l ev s, eng <> Async ->
  run_exit_skeleton GenGeom.exit_skeleton_sync eng pr m l ev s = exit_states eng pr m l ev s.
Proof. exact exit_skeleton_sync_bridge. Qed.
Print Assumptions C08_exit_order_is_the_source_sync.

(* what is scheduled when a state is entered - first one timer per delayed transition in the order of the `after` map, then the
   invoked services in order, a service that is not registered raising ImplementationMissingError before it is started - is read
   off _schedule_state_tasks (shared by both engines) on every run and is the model's sched_run *)
Theorem C08_schedule_is_the_source : forall eng m x s,
  run_schedule_skeleton GenGeom.schedule_skeleton eng m x s = sched_run eng m x s.
Proof. exact schedule_skeleton_bridge. Qed.
Print Assumptions C08_schedule_is_the_source.

(* REFUTED at HEAD (finding F8): the queued AfterEvent is matched by type only.  State a (after 50 ms -> timeout);
   a slow action (80 ms) is processed while a is active, with LEAVE and BACK queued behind it: the expiry falls due
   during the slow action and queues behind them; a is left and re-entered (at t = 81), and the stale expiry then
   fires the delayed transition on the NEW activation, 0 ms after its entry. *)
Definition n_ id par k ch ini d on after : node := Build_node id par k ch ini d [] [] on None after [] None None.
Definition tr i s e tg acts : trans := Build_trans i s e (TState tg) None acts false false.
Definition f8 : machine := Build_machine
  [ n_ "m" None KCompound [1; 2; 3] (Some 1) 0
       [("SLOW"%string, [Build_trans 1 0 "SLOW" TNone None [ASlow 1 80] false false]);
        ("LEAVE"%string, [tr 2 0 "LEAVE" 2 []]); ("BACK"%string, [tr 3 0 "BACK" 1 []])] [];
    n_ "m.a" (Some 0) KAtomic [] None 1 [] [(50, [tr 4 1 "after.50.m.a" 3 []])];
    n_ "m.c" (Some 0) KAtomic [] None 1 [] [];
    n_ "m.timeout" (Some 0) KAtomic [] None 1 [] [] ] 10 None.
Definition e_ ty : event := Build_event ty EPlain 0.
Theorem C08_stale_refuted :
  let s0 := fst (async_loop 50 f8 (fst (async_start f8 (st_init [])))) in
  let s1 := fst (async_loop 50 f8 (fold_left (fun s ev => async_send ev s) [e_ "SLOW"; e_ "LEAVE"; e_ "BACK"] s0)) in
  sort_nat (s_cfg s1) = [0; 3]                 (* the delayed transition fired ... *)
  /\ s_now s1 = 80                             (* ... at t = 80, the instant a was re-entered (entered at 0, left, back at 80) *)
  /\ In (OEnter 1) (firstn 12 (s_log s1)).
Proof. vm_compute. repeat split; auto 20. Qed.
Print Assumptions C08_stale_refuted.
