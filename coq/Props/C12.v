(* C12 - snapshots are faithful, isolated resume points.  Statements only.
   Model: Snap.persist (get_persisted_snapshot) and Snap.restore (from_snapshot), without child actors.
   Tied to the code by K-snap (model vs implementation on persist / restore / continue, build/cases/c12_*.v) and by the
   C12 check: for every cut point k of random runs, restore the implementation's snapshot into a fresh interpreter
   and compare every continuation with the uninterrupted run; snapshot is valid JSON; later execution does not
   change it; re-snapshot reproduces it; corrupt streams are rejected with a library error (harness/props/c12.py).
   C12_restored_continues_alike lifts the state-level theorems to EVERY continuation (sync engine; machines without
   transitions into the root or into history states); C12_restored_continues_alike_h allows transitions into history
   states (what they restore comes from the snapshot's history section).  PARTIAL: the async engine's
   continuations are covered by the correspondence only; child actors and systemId registrations are outside Snap.v
   (see C15); JSON validity, isolation and corrupt-stream rejection are runtime monitors. *)
From XSM Require Import Model.Macro Model.Snap Proofs.SortP Proofs.OrderP Proofs.HistP Proofs.SnapP Proofs.LegalP Proofs.DescentP Proofs.InvariantP Proofs.PermP Proofs.SelectP Proofs.HistoryP Proofs.InvariantHP Proofs.PermHP Model.TreeLib Gen.GenGeom Proofs.SnapBridge.
From Coq Require Import Permutation.

(* a snapshot can always be restored on the machine that produced it *)
Theorem C12_restore_succeeds : forall m s,
  Forall (fun x => x < size m) (s_cfg s) -> exists r, restore m (persist m s) = Some r.
Proof. exact restore_persist_succeeds. Qed.
Print Assumptions C12_restore_succeeds.

(* ... and gives back configuration (as a set), history, context, status and output; queue, timers, services and
   log start empty (pending timers and in-flight services are documented as not persisted) *)
Theorem C12_restore_is_faithful : forall m s,
  Forall (fun x => x < size m) (s_cfg s) -> closed m (s_cfg s) -> NoDup (s_cfg s) ->
  Forall (fun e => snd e <> []) (s_hist s) ->
  forall r, restore m (persist m s) = Some r ->
  Permutation (s_cfg r) (s_cfg s) /\ s_hist r = s_hist s /\ s_ctx r = s_ctx s /\ s_status r = s_status s
  /\ s_output r = s_output s /\ s_queue r = [] /\ s_pending r = [] /\ s_log r = [].
Proof. exact restore_persist_fields. Qed.
Print Assumptions C12_restore_is_faithful.

(* so the restored interpreter selects, exits, remembers and reports as the uninterrupted one would *)
Theorem C12_restored_behaves_alike : forall m, ids_distinct m -> forall s,
  Forall (fun x => x < size m) (s_cfg s) -> closed m (s_cfg s) -> NoDup (s_cfg s) ->
  Forall (fun e => snd e <> []) (s_hist s) ->
  forall r cx ev d tgt p, restore m (persist m s) = Some r ->
  select m (s_cfg r) cx ev = select m (s_cfg s) cx ev
  /\ sort_by (lt_depth_id m) (exit_set_h m (s_cfg r) (s_hist r) d tgt) = sort_by (lt_depth_id m) (exit_set_h m (s_cfg s) (s_hist s) d tgt)
  /\ remembered m (s_cfg r) p = remembered m (s_cfg s) p
  /\ sort_nat (s_cfg r) = sort_nat (s_cfg s).
Proof. exact restored_behaves_alike. Qed.
Print Assumptions C12_restored_behaves_alike.

(* FOR EVERY CONTINUATION: the interpreter restored from the snapshot of a legal state and the interpreter the snapshot
   was taken from (seen at that quiescent point, with what a snapshot does not carry - queue, log, clock, pending timers
   and services - reset) produce, for any sequence of events, states that differ only in the listing order of the
   active set: identical logs (configurations shown to hooks included), context, history, status, output.  For every
   well-formed machine with distinct ids, declared initials and no transition targeting the root or a history state. *)
Theorem C12_restored_continues_alike : forall m, wf m = true -> twf m = true -> good_initials m = true -> safe_targets m -> ids_distinct m ->
  forall s r evs, Legal m (s_cfg s) -> Forall (fun e => snd e <> []) (s_hist s) -> restore m (persist m s) = Some r ->
  eqv m (fold_left (fun s ev => catch (sync_send m ev) s) evs r) (fold_left (fun s ev => catch (sync_send m ev) s) evs (quiet s)).
Proof. exact PermP.restored_continues_alike. Qed.
Print Assumptions C12_restored_continues_alike.

Theorem C12_restored_continues_alike_h : forall m, wf m = true -> twf m = true -> good_initials m = true -> safe_targets_h m -> ids_distinct m ->
  forall s r evs, Legal m (s_cfg s) -> HistOK m (s_hist s) -> Forall (fun e => snd e <> []) (s_hist s) -> restore m (persist m s) = Some r ->
  eqv m (fold_left (fun s ev => catch (sync_send m ev) s) evs r) (fold_left (fun s ev => catch (sync_send m ev) s) evs (quiet s)).
Proof. exact PermHP.restored_continues_alike. Qed.
Print Assumptions C12_restored_continues_alike_h.

(* re-snapshotting a restored interpreter reproduces the snapshot *)
Theorem C12_resnapshot : forall m, ids_distinct m -> forall s,
  Forall (fun x => x < size m) (s_cfg s) -> closed m (s_cfg s) -> NoDup (s_cfg s) ->
  Forall (fun e => snd e <> []) (s_hist s) ->
  forall r, restore m (persist m s) = Some r -> persist m r = persist m s.
Proof. exact resnapshot. Qed.
Print Assumptions C12_resnapshot.

(* the restored configuration is exactly the listed states and their ancestors *)
Theorem C12_restore_cfg : forall m ids x,
  In x (restore_cfg m ids) <-> exists y, In y ids /\ In x (anc_self m y).
Proof. exact restore_cfg_spec. Qed.
Print Assumptions C12_restore_cfg.

(* a snapshot naming a state the machine does not have is rejected, and only such a snapshot *)
Theorem C12_unknown_state_rejected : forall m sn,
  (exists x, In x (sn_cfg sn) /\ size m <= x) <-> restore m sn = None.
Proof. exact restore_rejects_unknown. Qed.
Print Assumptions C12_unknown_state_rejected.

(* TIE T.  from_snapshot, sliced and re-translated from the current source on every build (Gen/GenGeom.v): how ONE listed state is
   made active (`restore_add`: the statements of the loop body, with their parent-chain walk) is the model's "the state and all
   its ancestors" ... *)
Theorem C12_restore_step_is_the_source : forall m A x, wf m = true -> x < size m ->
  restore_add m A x = fold_left (fun C' a => cadd a C') (anc_self m x) A.
Proof. exact restore_add_bridge. Qed.
Print Assumptions C12_restore_step_is_the_source.

(* ... the loop over the stored configuration raises StateNotFoundError exactly when an id is unknown and otherwise builds the
   model's restore_cfg ... *)
Theorem C12_restore_cfg_is_the_source : forall m ids, wf m = true ->
  restore_cfg_src m ids = if forallb (fun x => Nat.ltb x (size m)) ids then Some (restore_cfg m ids) else None.
Proof. exact restore_cfg_bridge. Qed.
Print Assumptions C12_restore_cfg_is_the_source.

(* ... the history store it rebuilds answers every lookup like the model's (distinct parents, known ids: what a snapshot the
   library wrote contains) ... *)
Theorem C12_restore_history_is_the_source : forall m h p, NoDup (map fst h) -> hist_known m h = true ->
  hist_get (restore_hist_src m h) p = hist_get (filter nonempty h) p.
Proof. exact restore_hist_bridge. Qed.
Print Assumptions C12_restore_history_is_the_source.

(* ... so from_snapshot read through the translated pieces IS the model's restore: it fails on the same snapshots, and the
   restored interpreter has the same active set (as a list), history lookups, context, status, output, empty queue, nothing armed *)
Theorem C12_restore_is_the_source : forall m sn, wf m = true -> NoDup (map fst (sn_hist sn)) -> hist_known m (sn_hist sn) = true ->
  match restore_src m sn, restore m sn with
  | None, None => True
  | Some a, Some b => s_cfg a = s_cfg b /\ (forall p, hist_get (s_hist a) p = hist_get (s_hist b) p) /\ s_ctx a = s_ctx b
                      /\ s_status a = s_status b /\ s_output a = s_output b /\ s_queue a = s_queue b /\ s_pending a = s_pending b
  | _, _ => False
  end.
Proof. exact restore_bridge. Qed.
Print Assumptions C12_restore_is_the_source.

(* THE ROUND TRIP OVER THE SOURCE'S PIECES ONLY: what get_persisted_snapshot writes (as sliced), fed to from_snapshot (as translated),
   succeeds and gives back the configuration as a set, every history lookup, context, status and output, with nothing queued or armed -
   for every well-formed machine and every ancestor-closed, duplicate-free configuration with a consistent history store *)
Theorem C12_source_round_trip : forall m s sn,
  wf m = true -> Forall (fun x => x < size m) (s_cfg s) -> closed m (s_cfg s) -> NoDup (s_cfg s) ->
  Forall (fun e => snd e <> []) (s_hist s) -> NoDup (map fst (s_hist s)) -> hist_known m (s_hist s) = true ->
  persist_by m s persist_fields = Some sn ->
  exists r, restore_src m sn = Some r
    /\ Permutation (s_cfg r) (s_cfg s) /\ (forall p, hist_get (s_hist r) p = hist_get (s_hist s) p)
    /\ s_ctx r = s_ctx s /\ s_status r = s_status s /\ s_output r = s_output s /\ s_queue r = [] /\ s_pending r = [].
Proof. exact source_round_trip. Qed.
Print Assumptions C12_source_round_trip.

(* get_persisted_snapshot: the five fields it writes of the interpreter's own state (status, deep-copied context, SORTED ids of the
   active set, output, the history lists in stored order), as sliced from the source, are the model's persist *)
Theorem C12_persist_is_the_source : forall m s, persist_by m s persist_fields = Some (persist m s).
Proof. exact persist_bridge. Qed.
Print Assumptions C12_persist_is_the_source.

(* non-vacuity *)
Definition n_ id par k ch ini d : node := Build_node id par k ch ini d [] [] [] None [] [] None None.
Definition ex_m : machine := Build_machine
  [ n_ "m" None KCompound [1; 8] (Some 1) 0;
    n_ "m.p" (Some 0) KParallel [2; 5; 7] None 1;
    n_ "m.p.r1" (Some 1) KCompound [3; 4] (Some 3) 2;
    n_ "m.p.r1.x" (Some 2) KAtomic [] None 3;
    n_ "m.p.r1.y" (Some 2) KAtomic [] None 3;
    n_ "m.p.r2" (Some 1) KCompound [6] (Some 6) 2;
    n_ "m.p.r2.z" (Some 5) KAtomic [] None 3;
    n_ "m.p.h" (Some 1) (KHistory true) [] None 2;
    n_ "m.o" (Some 0) KAtomic [] None 1 ] 10 None.
Example C12_ex :
  let s := mk [0; 1; 5; 6; 2; 4] [(1, [2; 5; 4; 6])] [(0, 7%Z)] [] Running None [] 0 0 [] 0 in
  ids_distinctb ex_m = true /\
  match restore ex_m (persist ex_m s) with
  | Some r => s_cfg r = [0; 1; 2; 4; 5; 6] /\ s_hist r = s_hist s /\ persist ex_m r = persist ex_m s
  | None => False end
  /\ restore ex_m {| sn_status := Running; sn_ctx := []; sn_cfg := [0; 42]; sn_output := None; sn_hist := [] |} = None.
Proof. vm_compute. auto. Qed.
Example C12_source_round_trip_ex :
  let s := mk [0; 1; 5; 6; 2; 4] [(1, [2; 5; 4; 6])] [(0, 7%Z)] [] Running None [] 0 0 [] 0 in
  wf ex_m = true /\ hist_known ex_m (s_hist s) = true /\
  match persist_by ex_m s persist_fields with
  | Some sn => match restore_src ex_m sn with Some r => s_cfg r = [0; 1; 2; 4; 5; 6] /\ s_hist r = s_hist s | None => False end
  | None => False end.
Proof. vm_compute. auto. Qed.
Example C12_source_restore_ex :
  wf ex_m = true /\ restore_cfg_src ex_m [6; 4] = Some [6; 5; 1; 0; 4; 2] /\ restore_cfg_src ex_m [6; 42] = None
  /\ restore_hist_src ex_m [(1, [2; 5; 4; 6]); (0, [])] = [(1, [2; 5; 4; 6])].
Proof. vm_compute. auto. Qed.
