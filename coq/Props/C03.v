(* C03 - exit, then transition, then entry actions; exactly-once accounting.  Statements only.
   Model: Exec.exec_external (both engines' _execute_transition / _process_single_transition), exit_states,
   enter_states.  Tied to the code by K-macro (the log records every action with the event it received, every
   enter / leave, every timer cancel and task start, in order) on exhaustive small trees x all source/target pairs
   with an action on every entry and exit, and by the monitor (order, event identity, accounting, frame).
   What is proved, for ALL machines, transitions, events, states and both engines:
   (1) the record of a successful external transition splits into an exit segment without any entry, the transition's
       own actions without entry or exit, and an entry segment without any exit; every user action in all three
       received the event that caused the transition - including states reached by default descent;
   (2) states are left in the order of the exit list and that list is deepest first; the entry path is outermost first;
   (3) the exit set is confined to active proper descendants of the transition domain - and to the target's own
       region when the domain is parallel; internal / targetless transitions run their actions only.
   (4) exactly-once accounting (Proofs/AccountP.v): the OLeave records of a successful external transition are exactly
       its exit list and its OEnter records exactly the `entered` set of its entry path(s); out of a legal configuration,
       for a target that is neither the root nor a history pseudo-state, both lists are duplicate-free, only active states
       are left, a state that is entered was not active or has just been left (never entered while active), and a state is
       active afterwards iff it (was active and was not left) or was entered: entries - exits = change in activity.
   Former finding F21 ('entered while active': the history child of a parallel state targeted from inside it) is repaired
   in /repo; the witness machine is kept below as a positive example.
       The same for transitions to history pseudo-states (C03_history_exactly_once_accounting; deep / shallow, recorded or
       not, from inside or outside the parent), under the consistency of the history store that every run maintains.
   PARTIAL: (4) is proved per transition (every transition of every run by the C01 run invariant); timer / service
   non-interference for siblings follows from (3) only for what is cancelled. *)
From XSM Require Import Model.Macro Proofs.PhaseP Proofs.LegalP Proofs.SortP Proofs.StepP Proofs.DescentP Proofs.EffectP Proofs.AccountP Proofs.HistoryP Proofs.IdP Proofs.GeomBridge Proofs.SourceGeomP Proofs.SkeletonBridge Model.TreeLib Gen.GenGeom.
From Coq Require Import Sorting.Sorted.

Theorem C03_phases_and_event_identity : forall eng pr m t tgt ev s0 s1,
  let d := find_domain m (t_src t) tgt in
  let xs := ext_exit_set m (s_cfg s0) (s_hist s0) d tgt in
  let hist := is_history m tgt in
  let hts := if hist then resolve_history m (s_hist s0) tgt else [] in
  let path := if hist then [] else ext_path m tgt d in
  (exit_states eng pr m (rev (sort_by (lt_depth_id m) xs)) (Some ev) ;;
   (fun s => exec_actions eng pr (t_actions t) ev s) ;;
   enter eng pr m path (Some ev) ;;
   (if hist then match combined_path m d hts with [] => ret | cp => enter eng pr m cp (Some ev) end else ret)) s0 = (s1, None) ->
  exists l_exit l_act l_entry,
    s_log s1 = l_entry ++ l_act ++ l_exit ++ s_log s0
    /\ Forall (exit_phase ev) l_exit /\ Forall (action_phase ev) l_act /\ Forall (entry_phase ev) l_entry.
Proof. exact external_phases. Qed.
Print Assumptions C03_phases_and_event_identity.

(* states are left in list order, only listed states are left *)
Theorem C03_exit_in_list_order : forall eng pr m l ev s, exists seg,
  s_log (fst (exit_states eng pr m l ev s)) = seg ++ s_log s /\ subseq (leaves_of seg) l.
Proof. intros eng pr m l ev s. exact (exit_states_order eng pr m l ev s). Qed.
Print Assumptions C03_exit_in_list_order.

(* ... the list is deepest first (a state's exit actions run before those of its ancestors) *)
Theorem C03_exit_list_deepest_first : forall m, ids_distinct m -> forall xs,
  Forall (fun s => s < size m) xs ->
  StronglySorted (fun a b => depth m b <= depth m a) (rev (sort_by (lt_depth_id m) xs)).
Proof. exact exit_list_deepest_first. Qed.
Print Assumptions C03_exit_list_deepest_first.

(* the entry path is outermost first (a state's entry actions run after those of its ancestors) *)
Theorem C03_entry_path_outermost_first : forall m tgt d,
  wf m = true -> tgt < size m -> StronglySorted (fun a b => depth m a < depth m b) (path_to m tgt d).
Proof. exact entry_path_outermost_first. Qed.
Print Assumptions C03_entry_path_outermost_first.

(* frame: what can be exited *)
Theorem C03_exit_confined : forall m C H d tgt x,
  In x (exit_set_h m C H d tgt) -> In x C /\ is_desc m x d = true /\ x <> d.
Proof. exact exit_set_h_sub. Qed.
Print Assumptions C03_exit_confined.
Theorem C03_sibling_regions_untouched : forall m C H d tgt b x,
  is_history m tgt = false ->
  is_parallel m d = true -> branch_of m d tgt = Some b -> In x (exit_set_h m C H d tgt) -> is_desc m x b = true.
Proof. intros m C H d tgt b x Hh. rewrite (exit_set_h_plain m C H d tgt Hh). exact (exit_set_parallel_scoped m C d tgt b x). Qed.
Print Assumptions C03_sibling_regions_untouched.
(* a history target: the regions exited are those holding a state the pseudo-state resolves to, i.e. about to be entered *)
Theorem C03_sibling_regions_untouched_history : forall m C H d tgt x,
  is_history m tgt = true -> is_parallel m d = true -> In x (exit_set_h m C H d tgt) ->
  exists y b, In y (resolve_history m H tgt) /\ branch_of m d y = Some b /\ is_desc m x b = true.
Proof. exact exit_set_h_scoped. Qed.
Print Assumptions C03_sibling_regions_untouched_history.

(* exactly-once accounting: what the log of one successful external transition contains ... *)
Theorem C03_transition_log : forall m eng pr t tgt ev s0 s1,
  NoDup (s_cfg s0) ->
  exec_external eng pr m t tgt ev s0 = (s1, None) ->
  let d := find_domain m (t_src t) tgt in
  let xs := rev (sort_by (lt_depth_id m) (ext_exit_set m (s_cfg s0) (s_hist s0) d tgt)) in
  let hist := is_history m tgt in
  let path := if hist then [] else ext_path m tgt d in
  let cp := if hist then combined_path m d (resolve_history m (s_hist s0) tgt) else [] in
  exists seg, s_log s1 = seg ++ s_log s0
    /\ leaves_of seg = xs
    /\ enters_of seg = entered (S (size m)) m path ++ entered (S (size m)) m cp.
Proof. exact external_log. Qed.
Print Assumptions C03_transition_log.

(* ... and out of a legal configuration every state is left at most once, entered at most once, never entered while
   active, and (entries - exits) is exactly its change in activity *)
Theorem C03_exactly_once_accounting : forall m, wf m = true -> good_initials m = true -> forall eng pr t tgt ev s0 s1,
  Legal m (s_cfg s0) -> In (t_src t) (s_cfg s0) -> tgt < size m -> tgt <> 0 -> is_history m tgt = false ->
  exec_external eng pr m t tgt ev s0 = (s1, None) ->
  exists seg, s_log s1 = seg ++ s_log s0
    /\ NoDup (leaves_of seg) /\ NoDup (enters_of seg)
    /\ (forall x, In x (leaves_of seg) -> In x (s_cfg s0))
    /\ (forall x, In x (enters_of seg) -> In x (s_cfg s0) -> In x (leaves_of seg))
    /\ (forall x, In x (s_cfg s1) <-> (In x (s_cfg s0) /\ ~ In x (leaves_of seg)) \/ In x (enters_of seg)).
Proof. exact external_accounting. Qed.
Print Assumptions C03_exactly_once_accounting.

(* ... also when the target is a history pseudo-state (the entered states are those of the combined path's tree) *)
Theorem C03_history_exactly_once_accounting : forall m, wf m = true -> good_initials m = true -> forall eng pr t tgt ev s0 s1,
  Legal m (s_cfg s0) -> HistOK m (s_hist s0) -> In (t_src t) (s_cfg s0) ->
  tgt < size m -> is_history m tgt = true -> hist_static_ok m tgt ->
  exec_external eng pr m t tgt ev s0 = (s1, None) ->
  exists seg, s_log s1 = seg ++ s_log s0
    /\ NoDup (leaves_of seg) /\ NoDup (enters_of seg)
    /\ (forall x, In x (leaves_of seg) -> In x (s_cfg s0))
    /\ (forall x, In x (enters_of seg) -> In x (s_cfg s0) -> In x (leaves_of seg))
    /\ (forall x, In x (s_cfg s1) <-> (In x (s_cfg s0) /\ ~ In x (leaves_of seg)) \/ In x (enters_of seg)).
Proof. exact history_accounting. Qed.
Print Assumptions C03_history_exactly_once_accounting.

(* ... and when the target is the machine root (the machine restarts): every active state is left exactly once, then the
   default descent from the root is entered, each state exactly once *)
Theorem C03_restart_exactly_once_accounting : forall m, wf m = true -> good_initials m = true -> forall eng pr t ev s0 s1,
  NoDup (s_cfg s0) ->
  exec_external eng pr m t 0 ev s0 = (s1, None) ->
  exists seg, s_log s1 = seg ++ s_log s0
    /\ NoDup (leaves_of seg) /\ NoDup (enters_of seg)
    /\ (forall x, In x (leaves_of seg) <-> In x (s_cfg s0))
    /\ (forall x, In x (s_cfg s1) <-> In x (enters_of seg)).
Proof. exact root_accounting. Qed.
Print Assumptions C03_restart_exactly_once_accounting.

(* internal / targetless transitions run actions only: configuration and history untouched *)
Theorem C03_internal_actions_only : forall eng pr m t ev s,
  t_target t = TNone -> same_cfg s (fst (exec_transition eng pr m t ev s)).
Proof.
  intros eng pr m t ev s H. unfold exec_transition. rewrite H. unfold bind.
  pose proof (exec_actions_same eng pr (t_actions t) ev s) as Ha.
  destruct (exec_actions eng pr (t_actions t) ev s) as [s' [e|]]; simpl in *; [exact Ha|].
  eapply same_cfg_trans; [exact Ha | apply logo_same].
Qed.
Print Assumptions C03_internal_actions_only.


(* TIE T: which states a transition leaves and which it enters is decided in the source by _find_transition_domain,
   _compute_states_to_exit and _get_path_to_state; these are re-translated from the current source on every run
   (Gen/GenGeom.v) and equal the model functions the theorems above are stated over. *)
Theorem C03_domain_is_the_source : forall m src tgt, wf m = true -> src < size m -> tgt < size m ->
  GenGeom.find_transition_domain m src tgt = if Nat.eqb tgt 0 then None else Some (find_domain m src tgt).
Proof. exact find_domain_bridge. Qed.
Print Assumptions C03_domain_is_the_source.
Theorem C03_exit_set_is_the_source : forall m, ancestry_side_ok m = true -> forall C H d tgt,
  (forall s, In s C -> s < size m) -> d < size m ->
  GenGeom.compute_states_to_exit m C H (Some d) tgt = exit_set_h m C H d tgt.
Proof. exact exit_set_bridge. Qed.
Print Assumptions C03_exit_set_is_the_source.
Theorem C03_entry_path_is_the_source : forall m t d, GenGeom.get_path_to_state m t (Some d) = path_to m t d.
Proof. exact get_path_bridge. Qed.
Print Assumptions C03_entry_path_is_the_source.
(* ... and composed as the source composes them, the whole transition: out of a legal configuration `exec_external_src` (the
   transition run with the source's own domain / exit set / entry paths) is `exec_external`, the function the phase, order and
   accounting theorems above are about *)
Theorem C03_transition_is_the_source : forall m, ancestry_side_ok m = true -> forall eng pr t tgt ev s0,
  Legal m (s_cfg s0) -> In (t_src t) (s_cfg s0) -> tgt < size m ->
  exec_external_src eng pr m t tgt ev s0 = exec_external eng pr m t tgt ev s0.
Proof. exact exec_external_src_eq. Qed.
Print Assumptions C03_transition_is_the_source.

(* TIE T for the ORDER OF EFFECTS: the effect skeletons of _exit_states and _enter_states are extracted from BOTH engines' copies
   in the current source on every run (Gen/GenGeom.v; for _enter_states every path through the loop body must agree with one
   total order of the five effects) and, interpreted over the model's own effect primitives, ARE the model's exit_states and
   enter_one - so "a state's tasks are cancelled before its exit actions run", "exit actions before the state leaves the
   configuration", "entry actions before the default descent", "where the state's tasks are scheduled relative to the
   descent" are read off the source, per engine *)
Theorem C03_exit_order_is_the_source_async : forall pr m l ev s,
  run_exit_skeleton GenGeom.exit_skeleton_async Async pr m l ev s = exit_states Async pr m l ev s.
Proof. exact exit_skeleton_async_bridge. Qed.
Print Assumptions C03_exit_order_is_the_source_async.
Theorem C03_exit_order_is_the_source_sync : forall eng pr m l ev s, eng <> Async ->
  run_exit_skeleton GenGeom.exit_skeleton_sync eng pr m l ev s = exit_states eng pr m l ev s.
Proof. exact exit_skeleton_sync_bridge. Qed.
Print Assumptions C03_exit_order_is_the_source_sync.
Theorem C03_entry_order_is_the_source_async : forall pr m rec l ev x s,
  run_entry_skeleton GenGeom.entry_skeleton_async Async pr m rec l ev x s
  = enter_one Async pr m rec (parents_of m l) (with_parent m l) ev x s.
Proof. exact entry_skeleton_async_bridge. Qed.
Print Assumptions C03_entry_order_is_the_source_async.
Theorem C03_entry_order_is_the_source_sync : forall eng pr m rec l ev x s, eng <> Async ->
  run_entry_skeleton GenGeom.entry_skeleton_sync eng pr m rec l ev x s
  = enter_one eng pr m rec (parents_of m l) (with_parent m l) ev x s.
Proof. exact entry_skeleton_sync_bridge. Qed.
Print Assumptions C03_entry_order_is_the_source_sync.
Example C03_skeletons_read :
  GenGeom.exit_skeleton_async = [XRecord; XLoop [XCancel; XActions; XLeave]] /\
  GenGeom.exit_skeleton_sync = [XRecord; XLoop [XCancel]; XLoop [XActions; XLeave]] /\
  GenGeom.entry_skeleton_async = [NAdd; NActions; NSchedule; NFinalCheck; NDescend] /\
  GenGeom.entry_skeleton_sync = [NAdd; NActions; NFinalCheck; NDescend; NSchedule].
Proof. repeat split; reflexivity. Qed.

(* the machine of former finding F21 (repaired in /repo by the fix that also closes F34, see known_findings.json): parallel
   machine {a (entry 1, exit 2; H -> #m.h; OUT -> reenter a), h: history}.  After OUT has recorded history, H used to
   enter a again while it was active (OEnter 1 with no OLeave 1 before it); now a is exited first.  The log is newest first. *)
Definition f21 : machine := Build_machine
  [ Build_node "m" None KParallel [1; 2] None 0 [] [] [] None [] [] None None;
    Build_node "m.a" (Some 0) KAtomic [] None 1 [AMark 1] [AMark 2]
      [("H"%string, [Build_trans 0 1 "H" (TState 2) None [] false false]);
       ("OUT"%string, [Build_trans 1 1 "OUT" (TState 1) None [] true false])] None [] [] None None;
    Build_node "m.h" (Some 0) (KHistory false) [] None 1 [] [] [] None [] [] None None ] 10 None.
Example C03_history_target_exits_before_reentry :
  wf f21 = true /\
  let s0 := fst (sync_start f21 (st_init [])) in
  let s1 := fst (sync_send f21 (Build_event "OUT" EPlain 0) s0) in
  let s2 := fst (sync_send f21 (Build_event "H" EPlain 0) (with_log [] s1)) in
  mem 1 (s_cfg s1) = true /\
  filter (fun o => match o with OEnter _ | OLeave _ => true | _ => false end) (s_log s2) = [OEnter 1; OLeave 1] /\
  s_cfg s2 = [0; 1].
Proof. vm_compute. repeat split; reflexivity. Qed.

(* non-vacuity: a transition out of a parallel state; exits deepest first, entry after, one event throughout *)
Definition n_ id par k ch ini d en ex on_ : node := Build_node id par k ch ini d en ex on_ None [] [] None None.
Definition ex_t : trans := Build_trans 0 3 "GO" (TState 6) None [AMark 9] false false.
Definition ex_m : machine := Build_machine
  [ n_ "m" None KCompound [1; 6] (Some 1) 0 [] [] [];
    n_ "m.p" (Some 0) KParallel [2; 4] None 1 [AMark 1] [AMark 2] [];
    n_ "m.p.r1" (Some 1) KCompound [3] (Some 3) 2 [] [AMark 3] [];
    n_ "m.p.r1.x" (Some 2) KAtomic [] None 3 [] [AMark 6] [("GO", [ex_t])];
    n_ "m.p.r2" (Some 1) KCompound [5] (Some 5) 2 [] [AMark 4] [];
    n_ "m.p.r2.z" (Some 4) KAtomic [] None 3 [] [] [];
    n_ "m.o" (Some 0) KAtomic [] None 1 [AMark 5] [] [] ] 10 None.
Example C03_ex :
  let s := mk [0; 1; 2; 3; 4; 5] [] [] [] Running None [] 0 0 [] 0 in
  let r := exec_external Sync true ex_m ex_t 6 (Build_event "GO" EPlain 1) s in
  snd r = None /\
  filter (fun o => match o with OAct _ _ _ | OEnter _ | OLeave _ => true | _ => false end) (rev (s_log (fst r))) =
  [OLeave 5; OAct 6 "GO" 1; OLeave 3; OAct 4 "GO" 1; OLeave 4; OAct 3 "GO" 1; OLeave 2; OAct 2 "GO" 1; OLeave 1;
   OAct 9 "GO" 1; OEnter 6; OAct 5 "GO" 1].
Proof. vm_compute. split; reflexivity. Qed.
(* ... and the hypotheses of the accounting theorem hold of it *)
Example C03_ex_accounting_premises :
  wf ex_m = true /\ good_initials ex_m = true /\ legal ex_m [0; 1; 2; 3; 4; 5] = true /\ is_history ex_m 6 = false.
Proof. vm_compute. repeat split; reflexivity. Qed.
