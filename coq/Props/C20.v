(* C20 - event descriptors: exact > partial > wildcard; internal private.
   Statements only.  `matching_descriptors` is the function as translated
   from the current source (coq/Gen/GenMatch.v); every theorem below is
   about it, via the bridge Proofs/GenBridge.gen_matching_eq.
   keys = the keys of a state's `on` map in insertion order (a Python dict:
   duplicate-free, hence the NoDup hypothesis where order is strict). *)
From XSM Require Import Model.Match Gen.GenMatch Proofs.PyLibP Proofs.MatchP Proofs.GenBridge.
From Coq Require Import Sorting.Sorted.

(* soundness: every returned key is a key of the map and is the event type
   itself, a partial descriptor p.* with ev = p or ev = p.<more>, or "*" *)
Theorem C20_sound : forall keys ev k,
  In k (matching_descriptors keys ev) ->
  In k keys /\ (k = ev \/ is_partial_for ev k \/ k = "*"%string).
Proof. intros keys ev k. rewrite gen_matching_eq. exact (matching_sound keys ev k). Qed.
Print Assumptions C20_sound.

(* completeness for external events: every such key is returned *)
Theorem C20_complete : forall keys ev k,
  ev <> ""%string -> is_internal ev = false -> In k keys ->
  (k = ev \/ is_partial_for ev k \/ k = "*"%string) ->
  In k (matching_descriptors keys ev).
Proof. intros keys ev k. rewrite gen_matching_eq. exact (matching_complete keys ev k). Qed.
Print Assumptions C20_complete.

(* an exact handler is always found, internal event or not *)
Theorem C20_exact_found : forall keys ev,
  ev <> ""%string -> In ev keys -> In ev (matching_descriptors keys ev).
Proof. intros keys ev. rewrite gen_matching_eq. exact (matching_exact keys ev). Qed.
Print Assumptions C20_exact_found.

(* order: exact first, then partials by STRICTLY decreasing length, "*" last *)
Theorem C20_order : forall keys ev,
  NoDup keys ->
  exists E P S, matching_descriptors keys ev = E ++ P ++ S
    /\ (E = [] \/ E = [ev])
    /\ (forall k, In k P -> In k keys /\ is_partial_for ev k)
    /\ StronglySorted len_gt P
    /\ (S = [] \/ S = ["*"%string]).
Proof. intros keys ev. rewrite gen_matching_eq. exact (matching_order keys ev). Qed.
Print Assumptions C20_order.

(* synthetic events (prefix done. error. after. xstate.) see only their exact key *)
Theorem C20_internal_exact_only : forall keys ev,
  is_internal ev = true ->
  matching_descriptors keys ev = if in_list ev keys then [ev] else [].
Proof. intros keys ev. rewrite gen_matching_eq. exact (matching_internal keys ev). Qed.
Print Assumptions C20_internal_exact_only.

(* non-vacuity / sanity: concrete instances *)
Example C20_ex_order :
  matching_descriptors ["a.*"; "*"; "a.b.*"; "a.b.c"; "a.c.*"]%string "a.b.c"
  = ["a.b.c"; "a.b.*"; "a.*"; "*"]%string.
Proof. vm_compute. reflexivity. Qed.
Example C20_ex_internal :
  is_internal "done.state.m.a" = true /\
  matching_descriptors ["*"; "done.*"; "done.state.m.a"]%string "done.state.m.a" = ["done.state.m.a"]%string /\
  matching_descriptors ["*"; "done.*"]%string "done.state.m.a" = [].
Proof. vm_compute. auto. Qed.
Example C20_ex_partial_self :
  is_partial_for "a.b" "a.b.*" /\ is_partial_for "a.b.c" "a.*" /\ NoDup ["a.*"; "*"; "a.b.*"]%string.
Proof.
  split; [exists "a.b"%string; split; [reflexivity | now left]|].
  split; [exists "a"%string; split; [reflexivity | right; exists "b.c"%string; reflexivity]|].
  repeat constructor; simpl; intuition discriminate.
Qed.
