(* C20 - event descriptors: exact > partial > wildcard; internal private.
   Statements only.  `matching_descriptors` is the function as translated
   from the current source (coq/Gen/GenMatch.v); every theorem below is
   about it, via the bridge Proofs/GenBridge.gen_matching_eq.
   keys = the keys of a state's `on` map in insertion order (a Python dict:
   duplicate-free, hence the NoDup hypothesis where order is strict). *)
From XSM Require Import Model.Match Gen.GenMatch Proofs.PyLibP Proofs.MatchP Proofs.GenBridge Model.TreeLib Gen.GenGeom Proofs.SelectBridge.
From Coq Require Import Sorting.Sorted.

(* soundness: every returned key is a key of the map and is the event type
   itself, a partial descriptor p.* with ev = p or ev = p.<more>, or "*" *)
Theorem C20_sound : forall keys ev k,
  In k (matching_descriptors keys ev) ->
  In k keys /\ (k = ev \/ is_partial_for ev k \/ k = "*"%string).
Proof. intros keys ev k. rewrite gen_matching_eq. exact (matching_sound keys ev k). Qed.
Print Assumptions C20_sound.

(* completeness for external events: every such key is returned *)
Theorem C20_complete : forall keys ev k,
  ev <> ""%string -> is_internal ev = false -> In k keys ->
  (k = ev \/ is_partial_for ev k \/ k = "*"%string) ->
  In k (matching_descriptors keys ev).
Proof. intros keys ev k. rewrite gen_matching_eq. exact (matching_complete keys ev k). Qed.
Print Assumptions C20_complete.

(* an exact handler is always found, internal event or not *)
Theorem C20_exact_found : forall keys ev,
  ev <> ""%string -> In ev keys -> In ev (matching_descriptors keys ev).
Proof. intros keys ev. rewrite gen_matching_eq. exact (matching_exact keys ev). Qed.
Print Assumptions C20_exact_found.

(* order: exact first, then partials by STRICTLY decreasing length, "*" last *)
Theorem C20_order : forall keys ev,
  NoDup keys ->
  exists E P S, matching_descriptors keys ev = E ++ P ++ S
    /\ (E = [] \/ E = [ev])
    /\ (forall k, In k P -> In k keys /\ is_partial_for ev k)
    /\ StronglySorted len_gt P
    /\ (S = [] \/ S = ["*"%string]).
Proof. intros keys ev. rewrite gen_matching_eq. exact (matching_order keys ev). Qed.
Print Assumptions C20_order.

(* synthetic events (prefix done. error. after. xstate.) see only their exact key *)
Theorem C20_internal_exact_only : forall keys ev,
  is_internal ev = true ->
  matching_descriptors keys ev = if in_list ev keys then [ev] else [].
Proof. intros keys ev. rewrite gen_matching_eq. exact (matching_internal keys ev). Qed.
Print Assumptions C20_internal_exact_only.

(* "a transition declared as null consumes its event at that state so that no ancestor's handler runs": stated over BOTH
   functions as re-translated from the current source - the descriptor order (_matching_descriptors) and the upward walk
   that consults it (_collect_eligible_transitions, Gen/GenGeom.v).  If, at a state s on the ancestor chain of an active
   leaf, the first matching descriptor's first candidate is a forbidden (null) transition, the candidates collected for
   that leaf are those of the chain UP TO s only: nothing declared on an ancestor of s is collected, whatever its guards say *)
Theorem C20_null_forbids : forall gpass m ev leaf pre s post k ks t r,
  anc_self m leaf = pre ++ s :: post ->
  String.eqb (e_type ev) "" = false ->
  matching_descriptors (map fst (n_on (nd m s))) (e_type ev) = k :: ks ->
  lookup_on (n_on (nd m s)) k = t :: r -> t_forbidden t = true ->
  Some (GenGeom.collect_eligible_transitions m gpass leaf ev) = collect_chain (fun t => Some (gpass t)) m ev (pre ++ [s]).
Proof. exact null_forbids_source. Qed.
Print Assumptions C20_null_forbids.

(* the walk consults the descriptors in exactly the order C20_order describes: the translated walk is the model's *)
Theorem C20_walk_is_the_source : forall gpass m ev leaf,
  collect (fun t => Some (gpass t)) m ev leaf = Some (GenGeom.collect_eligible_transitions m gpass leaf ev).
Proof. exact collect_bridge. Qed.
Print Assumptions C20_walk_is_the_source.

(* non-vacuity / sanity: concrete instances *)
Example C20_ex_order :
  matching_descriptors ["a.*"; "*"; "a.b.*"; "a.b.c"; "a.c.*"]%string "a.b.c"
  = ["a.b.c"; "a.b.*"; "a.*"; "*"]%string.
Proof. vm_compute. reflexivity. Qed.
Example C20_ex_internal :
  is_internal "done.state.m.a" = true /\
  matching_descriptors ["*"; "done.*"; "done.state.m.a"]%string "done.state.m.a" = ["done.state.m.a"]%string /\
  matching_descriptors ["*"; "done.*"]%string "done.state.m.a" = [].
Proof. vm_compute. auto. Qed.
Definition nf_n id par k ch ini d on : node := Build_node id par k ch ini d [] [] on None [] [] None None.
Definition nf_m : machine := Build_machine
  [ nf_n "m" None KCompound [1; 2] (Some 1) 0 [("E"%string, [Build_trans 1 0 "E" (TState 2) None [] false false])];
    nf_n "m.a" (Some 0) KAtomic [] None 1 [("E"%string, [Build_trans 2 1 "E" TNone None [] false true])];
    nf_n "m.b" (Some 0) KAtomic [] None 1 [] ] 10 None.
Example C20_ex_null_forbids :
  GenGeom.collect_eligible_transitions nf_m (fun _ => true) 1 (Build_event "E" EPlain 0) = [] /\
  map t_id (GenGeom.collect_eligible_transitions nf_m (fun _ => true) 2 (Build_event "E" EPlain 0)) = [1].
Proof. vm_compute. split; reflexivity. Qed.
Example C20_ex_partial_self :
  is_partial_for "a.b" "a.b.*" /\ is_partial_for "a.b.c" "a.*" /\ NoDup ["a.*"; "*"; "a.b.*"]%string.
Proof.
  split; [exists "a.b"%string; split; [reflexivity | now left]|].
  split; [exists "a"%string; split; [reflexivity | right; exists "b.c"%string; reflexivity]|].
  repeat constructor; simpl; intuition discriminate.
Qed.
