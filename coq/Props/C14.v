(* C14 - the interpreter lifecycle is a strict state machine; stop() releases everything.  Statements only.
   Model: Macro.sync_start / sync_send / sync_send_events / async_start / async_step / async_loop, stop_interp,
   Exec.complete / fail_machine.  Tied to the code by K-life (arbitrary sequences of start / send / stop, waits on
   the virtual clock, concurrent start(), on timer, service and random machines; harness/props/c14.py). *)
From XSM Require Import Model.Macro Proofs.FrameP Proofs.DoneP Proofs.LifeP.
From XSM Require Import Model.TreeLib Gen.GenGeom Proofs.LifeBridge.

(* `reach` is reachability along the edges uninitialized -> running -> (done | error) -> stopped, running -> stopped *)
Theorem C14_reach_is_edge_closure : forall a b, reach a b = true ->
  a = b \/ edge a b = true \/ exists c, edge a c = true /\ (c = b \/ edge c b = true \/ exists d, edge c d = true /\ edge d b = true).
Proof. exact reach_is_closure. Qed.
Print Assumptions C14_reach_is_edge_closure.

(* whatever an operation does - any machine, any event, any interpreter state - the status only moves along those
   edges: through all of entry, exit, actions, done events, scheduling, services failing, settling and draining *)
Theorem C14_send_edges : forall m ev s, reach (s_status s) (s_status (fst (sync_send m ev s))) = true.
Proof. exact send_status_path. Qed.
Print Assumptions C14_send_edges.
Theorem C14_send_events_edges : forall m evs s, reach (s_status s) (s_status (fst (sync_send_events m evs s))) = true.
Proof. exact send_events_status_path. Qed.
Print Assumptions C14_send_events_edges.
Theorem C14_sync_start_edges : forall m s, reach (s_status s) (s_status (fst (sync_start m s))) = true.
Proof. exact start_status_path. Qed.
Print Assumptions C14_sync_start_edges.
Theorem C14_async_start_edges : forall m s, reach (s_status s) (s_status (fst (async_start m s))) = true.
Proof. exact async_start_status_path. Qed.
Print Assumptions C14_async_start_edges.
Theorem C14_async_loop_edges : forall fuel m s, reach (s_status s) (s_status (fst (async_loop fuel m s))) = true.
Proof. exact async_loop_status_path. Qed.
Print Assumptions C14_async_loop_edges.

(* the two places that set a terminal status do so by a single edge *)
Theorem C14_complete_edge : forall o s,
  s_status (complete o s) = s_status s \/ (s_status s = Running /\ s_status (complete o s) = Exec.Done).
Proof. exact complete_edge. Qed.
Print Assumptions C14_complete_edge.

(* start(): idempotent while running, refuses to revive a stopped interpreter *)
Theorem C14_start_idempotent : forall m s,
  s_status s = Running -> sync_start m s = (s, None) /\ async_start m s = (s, None).
Proof. exact start_idempotent_running. Qed.
Print Assumptions C14_start_idempotent.
Theorem C14_start_stopped_errors : forall m s,
  s_status s = Stopped -> sync_start m s = (s, Some EInvalidConfig) /\ async_start m s = (s, Some EInvalidConfig).
Proof. exact start_stopped_errors. Qed.
Print Assumptions C14_start_stopped_errors.

(* send() on an interpreter that is done, failed or stopped changes nothing and queues nothing *)
Theorem C14_send_inert_sync : forall m ev s, s_status s <> Running -> sync_send m ev s = (s, None).
Proof. exact sync_send_inert. Qed.
Print Assumptions C14_send_inert_sync.
Theorem C14_send_inert_async : forall ev s,
  s_status s = Exec.Done \/ s_status s = Errored \/ s_status s = Stopped -> async_send ev s = s.
Proof. exact async_send_inert. Qed.
Print Assumptions C14_send_inert_async.

(* stop(): a single edge to stopped (or a no-op), idempotent, and nothing stays armed *)
Theorem C14_stop_edge : forall s,
  s_status (stop_interp s) = s_status s \/ (s_status (stop_interp s) = Stopped /\ edge (s_status s) Stopped = true).
Proof. exact stop_status_edge. Qed.
Print Assumptions C14_stop_edge.
Theorem C14_stop_idempotent : forall s, stop_interp (stop_interp s) = stop_interp s.
Proof. exact stop_idempotent. Qed.
Print Assumptions C14_stop_idempotent.
Theorem C14_stop_releases : forall s,
  s_status s <> Uninit -> s_status s <> Stopped -> s_pending (stop_interp s) = [] /\ s_status (stop_interp s) = Stopped.
Proof. exact stop_releases. Qed.
Print Assumptions C14_stop_releases.
Theorem C14_failed_start_releases : forall m s s' e,
  async_start m s = (s', Some e) -> s_status s = Uninit -> s_status s' = Stopped /\ s_pending s' = [].
Proof. exact async_start_failure_releases. Qed.
Print Assumptions C14_failed_start_releases.

(* TIE T: in which status send() drops the event and stop() returns at once is re-translated from the first statement of the
   four methods in the current source (Gen/GenGeom.v) and is the model's `accepts` and the no-op cases of `stop_interp`, through
   the names the code gives the five statuses *)
Theorem C14_send_test_is_the_source_sync : forall m x, GenGeom.send_drops_sync m (status_name x) = negb (accepts Sync x).
Proof. exact send_drops_sync_bridge. Qed.
Print Assumptions C14_send_test_is_the_source_sync.
Theorem C14_send_test_is_the_source_async : forall m x, GenGeom.send_drops_async m (status_name x) = negb (accepts Async x).
Proof. exact send_drops_async_bridge. Qed.
Print Assumptions C14_send_test_is_the_source_async.
Theorem C14_stop_test_is_the_source : forall m s,
  (GenGeom.stop_returns_sync m (status_name (s_status s)) = true -> stop_interp s = s) /\
  (GenGeom.stop_returns_async m (status_name (s_status s)) = true -> stop_interp s = s) /\
  (GenGeom.stop_returns_sync m (status_name (s_status s)) = false -> s_status (stop_interp s) = Stopped) /\
  (GenGeom.stop_returns_async m (status_name (s_status s)) = false -> s_status (stop_interp s) = Stopped).
Proof. exact stop_returns_bridge. Qed.
Print Assumptions C14_stop_test_is_the_source.

(* non-vacuity: a machine that completes during start() *)
Definition n_ id par k ch ini d : node := Build_node id par k ch ini d [] [] [] None [] [] None None.
Example C14_ex :
  let m := Build_machine [n_ "m" None KCompound [1] (Some 1) 0; n_ "m.f" (Some 0) KFinal [] None 1] 5 None in
  s_status (fst (sync_start m (st_init []))) = Exec.Done /\
  s_status (stop_interp (fst (sync_start m (st_init [])))) = Stopped.
Proof. vm_compute. auto. Qed.
