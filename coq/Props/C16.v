(* C16 - behaviour is deterministic.  Statements only.
   The model is a function, so two model runs always agree; what C16 adds is ORACLE INDEPENDENCE: in the
   implementation the active configuration is a Python set of objects hashed by address, so anything computed by
   iterating it could depend on hash seed and heap layout.  In the model the configuration is a list, and these
   theorems show that everything the engine derives from it - the selected transitions and their order, can(), the
   exit order, what history remembers and in which order, and what hooks / snapshots report - is the same for every
   listing order of the same set, because each is obtained through membership tests or through a sort with a total
   order ((depth, id) or (-depth, id), state ids being pairwise distinct).
   Tied to the code by K-macro (the model sorts where, and only where, the code sorts: the logs agree run by run) and
   by the C16 check, which re-runs the implementation in subprocesses under different PYTHONHASHSEED values and heap
   layouts and on both engines and compares the traces byte for byte (harness/props/c16.py).
   PARTIAL: region entry order follows document order in code and model alike (no set involved); generated identifiers
   (actor ids, timer keys) are outside the model and only covered by the subprocess comparison. *)
From XSM Require Import Model.Macro Proofs.SortP Proofs.OrderP Proofs.HistP.
From Coq Require Import Permutation.

(* sorting with a strict total order gives one result per SET *)
Theorem C16_sort_canonical : forall (lt : nat -> nat -> bool) (D : nat -> Prop),
  (forall a, lt a a = false) ->
  (forall a b c, D a -> D b -> D c -> lt a b = true -> lt b c = true -> lt a c = true) ->
  (forall a b, D a -> D b -> a <> b -> lt a b = true \/ lt b a = true) ->
  forall l1 l2, Forall D l1 -> NoDup l1 -> Permutation l1 l2 -> sort_by lt l1 = sort_by lt l2.
Proof. exact sort_by_canonical. Qed.
Print Assumptions C16_sort_canonical.

(* the transitions selected for an event, and their order *)
Theorem C16_selection_independent : forall m, ids_distinct m -> forall C1 C2,
  Forall (fun s => s < size m) C1 -> NoDup C1 -> Permutation C1 C2 ->
  forall cx ev, select m C1 cx ev = select m C2 cx ev.
Proof. exact select_independent. Qed.
Print Assumptions C16_selection_independent.

Theorem C16_can_independent : forall m, ids_distinct m -> forall C1 C2,
  Forall (fun s => s < size m) C1 -> NoDup C1 -> Permutation C1 C2 ->
  forall cx ev, can m C1 cx ev = can m C2 cx ev.
Proof. exact can_independent. Qed.
Print Assumptions C16_can_independent.

(* the order in which states are exited (and hence the order of exit actions across parallel regions) *)
Theorem C16_exit_order_independent : forall m, ids_distinct m -> forall C1 C2,
  Forall (fun s => s < size m) C1 -> NoDup C1 -> Permutation C1 C2 ->
  forall d tgt, sort_by (lt_depth_id m) (exit_set m C1 d tgt) = sort_by (lt_depth_id m) (exit_set m C2 d tgt).
Proof. exact exit_order_independent. Qed.
Print Assumptions C16_exit_order_independent.

(* what a history state remembers, in order (hence the entry order when history is restored) *)
Theorem C16_history_independent : forall m, ids_distinct m -> forall C1 C2,
  Forall (fun s => s < size m) C1 -> NoDup C1 -> Permutation C1 C2 ->
  forall p, remembered m C1 p = remembered m C2 p.
Proof. exact remembered_independent. Qed.
Print Assumptions C16_history_independent.

(* what plugins, subscribers and snapshots are shown *)
Theorem C16_reported_independent : forall C1 C2, NoDup C1 -> Permutation C1 C2 -> sort_nat C1 = sort_nat C2.
Proof. exact sort_nat_canonical. Qed.
Print Assumptions C16_reported_independent.

(* `in` guards only test membership *)
Theorem C16_guards_independent : forall m C1 C2 cx g, Permutation C1 C2 -> geval m C1 cx g = geval m C2 cx g.
Proof. exact geval_perm. Qed.
Print Assumptions C16_guards_independent.

(* the side condition is decidable, and holds of every machine the harness builds (ids are dotted paths) *)
Theorem C16_ids_distinct_checkable : forall m, ids_distinctb m = true -> ids_distinct m.
Proof. exact ids_distinctb_ok. Qed.
Print Assumptions C16_ids_distinct_checkable.

(* non-vacuity: two listings of one configuration of a parallel machine; and the theorem is not trivial - an
   UNSORTED filter of the configuration does depend on the listing *)
Definition n_ id par k ch ini d : node := Build_node id par k ch ini d [] [] [] None [] [] None None.
Definition ex_m : machine := Build_machine
  [ n_ "m" None KCompound [1; 8] (Some 1) 0;
    n_ "m.p" (Some 0) KParallel [2; 5; 7] None 1;
    n_ "m.p.r1" (Some 1) KCompound [3; 4] (Some 3) 2;
    n_ "m.p.r1.x" (Some 2) KAtomic [] None 3;
    n_ "m.p.r1.y" (Some 2) KAtomic [] None 3;
    n_ "m.p.r2" (Some 1) KCompound [6] (Some 6) 2;
    n_ "m.p.r2.z" (Some 5) KAtomic [] None 3;
    n_ "m.p.h" (Some 1) (KHistory true) [] None 2;
    n_ "m.o" (Some 0) KAtomic [] None 1 ] 10 None.
Example C16_ex :
  ids_distinctb ex_m = true /\
  let C1 := [0; 1; 2; 4; 5; 6] in let C2 := [6; 5; 4; 2; 1; 0] in
  Permutation C1 C2 /\ NoDup C1 /\
  sort_by (lt_depth_id ex_m) (exit_set ex_m C1 0 8) = [1; 2; 5; 4; 6] /\
  sort_by (lt_depth_id ex_m) (exit_set ex_m C2 0 8) = [1; 2; 5; 4; 6] /\
  exit_set ex_m C1 0 8 <> exit_set ex_m C2 0 8 /\
  remembered ex_m C2 1 = [2; 5; 4; 6].
Proof.
  split; [vm_compute; reflexivity|]. cbv zeta. split; [|split].
  - change [6; 5; 4; 2; 1; 0] with (rev [0; 1; 2; 4; 5; 6]). apply Permutation_rev.
  - repeat constructor; simpl; intuition discriminate.
  - vm_compute. repeat split; try reflexivity. discriminate.
Qed.
