(* C16 - behaviour is deterministic.  Statements only.
   The model is a function, so two model runs always agree; what C16 adds is ORACLE INDEPENDENCE: in the
   implementation the active configuration is a Python set of objects hashed by address, so anything computed by
   iterating it could depend on hash seed and heap layout.  In the model the configuration is a list, and these
   theorems show that everything the engine derives from it - the selected transitions and their order, can(), the
   exit order, what history remembers and in which order, and what hooks / snapshots report - is the same for every
   listing order of the same set, because each is obtained through membership tests or through a sort with a total
   order ((depth, id) or (-depth, id), state ids being pairwise distinct).
   Tied to the code by K-macro (the model sorts where, and only where, the code sorts: the logs agree run by run) and
   by the C16 check, which re-runs the implementation in subprocesses under different PYTHONHASHSEED values and heap
   layouts and on both engines and compares the traces byte for byte (harness/props/c16.py).
   Beyond the individual reads, C16_event_oracle_independent / C16_runs_oracle_independent lift this to whole steps and
   whole runs (relational proof through selection, exit, actions, history, entry, done events, scheduling, rollback).
   C16_event_oracle_independent_h / C16_runs_oracle_independent_h do the same with transitions to HISTORY pseudo-states
   allowed (the order in which deep history restores regions was the defect F3): the invariant carried along is legality
   plus the consistency of the history store (Proofs/HistoryP.v, PermHP.v).
   PARTIAL: region entry order follows document order in code and model alike (no set involved); generated identifiers (actor ids, timer keys) are outside the
   model and only covered by the subprocess comparison. *)
From XSM Require Import Model.Macro Proofs.SortP Proofs.OrderP Proofs.HistP Proofs.LegalP Proofs.DescentP Proofs.InvariantP Proofs.PermP Proofs.SelectP Proofs.HistoryP Proofs.InvariantHP Proofs.PermHP.
From XSM Require Import Model.TreeLib Gen.GenGeom Proofs.EntryBridge.
From Coq Require Import Permutation.

(* TIE T: the regions of a parallel state that are entered by default are, in BOTH engines' _enter_states as re-translated
   from the current source on every run (Gen/GenGeom.v), the state's children in DOCUMENT order - a filter of an ordered list,
   no set and no hash order - minus history children and the regions the entry list names *)
Theorem C16_regions_entered_in_document_order : forall m l x rs,
  kind_of m x = KParallel -> (GenGeom.descent_sync m l x = DescendInto rs \/ GenGeom.descent_async m l x = DescendInto rs) ->
  rs = filter (fun c => negb (is_history m c) && negb (mem c (with_parent m l))) (children m x).
Proof. exact source_regions_in_document_order. Qed.
Print Assumptions C16_regions_entered_in_document_order.

(* sorting with a strict total order gives one result per SET *)
Theorem C16_sort_canonical : forall (lt : nat -> nat -> bool) (D : nat -> Prop),
  (forall a, lt a a = false) ->
  (forall a b c, D a -> D b -> D c -> lt a b = true -> lt b c = true -> lt a c = true) ->
  (forall a b, D a -> D b -> a <> b -> lt a b = true \/ lt b a = true) ->
  forall l1 l2, Forall D l1 -> NoDup l1 -> Permutation l1 l2 -> sort_by lt l1 = sort_by lt l2.
Proof. exact sort_by_canonical. Qed.
Print Assumptions C16_sort_canonical.

(* the transitions selected for an event, and their order *)
Theorem C16_selection_independent : forall m, ids_distinct m -> forall C1 C2,
  Forall (fun s => s < size m) C1 -> NoDup C1 -> Permutation C1 C2 ->
  forall cx ev, select m C1 cx ev = select m C2 cx ev.
Proof. exact select_independent. Qed.
Print Assumptions C16_selection_independent.

Theorem C16_can_independent : forall m, ids_distinct m -> forall C1 C2,
  Forall (fun s => s < size m) C1 -> NoDup C1 -> Permutation C1 C2 ->
  forall cx ev, can m C1 cx ev = can m C2 cx ev.
Proof. exact can_independent. Qed.
Print Assumptions C16_can_independent.

(* the order in which states are exited (and hence the order of exit actions across parallel regions) *)
Theorem C16_exit_order_independent : forall m, ids_distinct m -> forall C1 C2,
  Forall (fun s => s < size m) C1 -> NoDup C1 -> Permutation C1 C2 ->
  forall H d tgt, sort_by (lt_depth_id m) (exit_set_h m C1 H d tgt) = sort_by (lt_depth_id m) (exit_set_h m C2 H d tgt).
Proof. exact exit_order_independent_h. Qed.
Print Assumptions C16_exit_order_independent.

(* what a history state remembers, in order (hence the entry order when history is restored) *)
Theorem C16_history_independent : forall m, ids_distinct m -> forall C1 C2,
  Forall (fun s => s < size m) C1 -> NoDup C1 -> Permutation C1 C2 ->
  forall p, remembered m C1 p = remembered m C2 p.
Proof. exact remembered_independent. Qed.
Print Assumptions C16_history_independent.

(* what plugins, subscribers and snapshots are shown *)
Theorem C16_reported_independent : forall C1 C2, NoDup C1 -> Permutation C1 C2 -> sort_nat C1 = sort_nat C2.
Proof. exact sort_nat_canonical. Qed.
Print Assumptions C16_reported_independent.

(* `in` guards only test membership *)
Theorem C16_guards_independent : forall m C1 C2 cx g, Permutation C1 C2 -> geval m C1 cx g = geval m C2 cx g.
Proof. exact geval_perm. Qed.
Print Assumptions C16_guards_independent.

(* WHOLE STEPS AND WHOLE RUNS.  Two interpreter states that differ only in the order in which the active set is listed
   (`eqv`: configurations are permutations of each other, every other field - log, context, history, queue, status,
   output, clock, timers - is EQUAL) are taken by the processing of any event, and by any sequence of sends, to two
   states that again differ only in that order: the logs (every action with its event, every entry and exit, every hook
   and subscriber call with the configuration it is shown) are identical.  For every well-formed machine with distinct
   state ids, declared non-history initials and no transition targeting the root or a history state, from any legal
   configuration.  The one order-sensitive read of the code - the search for "the" active child in the done-ness check -
   is shown harmless because the configuration is, at that point, contained in a legal one. *)
Theorem C16_event_oracle_independent : forall m, wf m = true -> twf m = true -> good_initials m = true -> safe_targets m -> ids_distinct m ->
  forall eng pr ev s1 s2, eqv m s1 s2 -> Legal m (s_cfg s1) ->
  eqv m (fst (process_event eng pr m ev s1)) (fst (process_event eng pr m ev s2))
  /\ snd (process_event eng pr m ev s1) = snd (process_event eng pr m ev s2).
Proof. exact PermP.process_event_eqv. Qed.
Print Assumptions C16_event_oracle_independent.

Theorem C16_runs_oracle_independent : forall m, wf m = true -> twf m = true -> good_initials m = true -> safe_targets m -> ids_distinct m ->
  forall evs s1 s2, eqv m s1 s2 -> Legal m (s_cfg s1) ->
  eqv m (fold_left (fun s ev => catch (sync_send m ev) s) evs s1) (fold_left (fun s ev => catch (sync_send m ev) s) evs s2).
Proof. exact PermP.sends_eqv. Qed.
Print Assumptions C16_runs_oracle_independent.

(* ... and with transitions to history pseudo-states allowed *)
Theorem C16_event_oracle_independent_h : forall m, wf m = true -> twf m = true -> good_initials m = true -> safe_targets_h m -> ids_distinct m ->
  forall eng pr ev s1 s2, eqv m s1 s2 -> Legal m (s_cfg s1) /\ HistOK m (s_hist s1) ->
  eqv m (fst (process_event eng pr m ev s1)) (fst (process_event eng pr m ev s2))
  /\ snd (process_event eng pr m ev s1) = snd (process_event eng pr m ev s2).
Proof. exact PermHP.process_event_eqv. Qed.
Print Assumptions C16_event_oracle_independent_h.

Theorem C16_runs_oracle_independent_h : forall m, wf m = true -> twf m = true -> good_initials m = true -> safe_targets_h m -> ids_distinct m ->
  forall evs s1 s2, eqv m s1 s2 -> Legal m (s_cfg s1) /\ HistOK m (s_hist s1) ->
  eqv m (fold_left (fun s ev => catch (sync_send m ev) s) evs s1) (fold_left (fun s ev => catch (sync_send m ev) s) evs s2).
Proof. exact PermHP.sends_eqv. Qed.
Print Assumptions C16_runs_oracle_independent_h.

Theorem C16_eqv_means_same_observations : forall m s1 s2, eqv m s1 s2 ->
  s_log s1 = s_log s2 /\ s_ctx s1 = s_ctx s2 /\ s_hist s1 = s_hist s2 /\ s_status s1 = s_status s2 /\ s_output s1 = s_output s2
  /\ sort_nat (s_cfg s1) = sort_nat (s_cfg s2).
Proof.
  intros m s1 s2 H. destruct (eqv_fields m s1 s2 H) as [Hh [Hc [_ [Hs [Ho [Hl _]]]]]]. repeat split; try assumption. now apply (eqv_sorted m).
Qed.
Print Assumptions C16_eqv_means_same_observations.

(* the side condition is decidable, and holds of every machine the harness builds (ids are dotted paths) *)
Theorem C16_ids_distinct_checkable : forall m, ids_distinctb m = true -> ids_distinct m.
Proof. exact ids_distinctb_ok. Qed.
Print Assumptions C16_ids_distinct_checkable.

(* non-vacuity: two listings of one configuration of a parallel machine; and the theorem is not trivial - an
   UNSORTED filter of the configuration does depend on the listing *)
Definition n_ id par k ch ini d : node := Build_node id par k ch ini d [] [] [] None [] [] None None.
Definition ex_m : machine := Build_machine
  [ n_ "m" None KCompound [1; 8] (Some 1) 0;
    n_ "m.p" (Some 0) KParallel [2; 5; 7] None 1;
    n_ "m.p.r1" (Some 1) KCompound [3; 4] (Some 3) 2;
    n_ "m.p.r1.x" (Some 2) KAtomic [] None 3;
    n_ "m.p.r1.y" (Some 2) KAtomic [] None 3;
    n_ "m.p.r2" (Some 1) KCompound [6] (Some 6) 2;
    n_ "m.p.r2.z" (Some 5) KAtomic [] None 3;
    n_ "m.p.h" (Some 1) (KHistory true) [] None 2;
    n_ "m.o" (Some 0) KAtomic [] None 1 ] 10 None.
Example C16_ex :
  ids_distinctb ex_m = true /\
  let C1 := [0; 1; 2; 4; 5; 6] in let C2 := [6; 5; 4; 2; 1; 0] in
  Permutation C1 C2 /\ NoDup C1 /\
  sort_by (lt_depth_id ex_m) (exit_set_h ex_m C1 [] 0 8) = [1; 2; 5; 4; 6] /\
  sort_by (lt_depth_id ex_m) (exit_set_h ex_m C2 [] 0 8) = [1; 2; 5; 4; 6] /\
  exit_set_h ex_m C1 [] 0 8 <> exit_set_h ex_m C2 [] 0 8 /\
  remembered ex_m C2 1 = [2; 5; 4; 6].
Proof.
  split; [vm_compute; reflexivity|]. cbv zeta. split; [|split].
  - change [6; 5; 4; 2; 1; 0] with (rev [0; 1; 2; 4; 5; 6]). apply Permutation_rev.
  - repeat constructor; simpl; intuition discriminate.
  - vm_compute. repeat split; try reflexivity. discriminate.
Qed.
