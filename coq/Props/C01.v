(* C01 - the active configuration is always a legal statechart configuration.  Statements only.
   Model: the configuration field of Exec.st; Tree.legal is the boolean test the monitor and K-macro evaluate at every
   observation point (return of start / send, drained queue, every on_transition hook and subscriber call, every
   snapshot, every pure snapshot).
   What is proved: (1) the boolean test IS the property's definition (root active, parents active, exactly one active
   child per active compound state, every non-history region of an active parallel state active, no history
   pseudo-state active); (2) legality is a property of the active SET and is preserved by snapshot / restore;
   (3) the steps that do not execute a transition keep the configuration: unhandled events, action lists, aborted
   transitions (rollback); (4) what a transition exits and what it enters is confined to the transition domain.
   (1b) THE INVARIANT ITSELF, by induction over runs: C01_sync_runs_stay_legal / C01_async_runs_stay_legal - built from
   C01_initial_configuration_legal (default descent), C01_transition_effect (closed formula for one transition),
   C01_transition_preserves_legality (replacement lemma over the state tree) and C01_event_preserves_legality;
   (1c) HISTORY TARGETS INCLUDED: C01_sync_runs_stay_legal_h / C01_async_runs_stay_legal_h strengthen the invariant with
   what the history store holds (every remembered list is the set of proper descendants of its parent in some legal
   configuration, C01_history_store_invariant) and allow transitions that target history pseudo-states (deep and
   shallow, recorded or never recorded, domain = the parent itself or any ancestor, compound or parallel): the combined
   entry path is a tree below the domain (Proofs/TreeEntryP.v, HistoryP.v).  Former finding F34 - the history child of an
   active parallel state targeted from inside it, found by the correspondence while this case was still outside the
   theorems - is repaired in /repo; before the repair this theorem was false of the model.
   (1d) ANY TARGET: a transition that targets the machine root (former finding F5: everything was exited and nothing
   entered - repaired in /repo) has the whole machine as its domain and restarts it: C01_root_transition_restarts; the
   run theorems of (1c) therefore place NO restriction on which states transitions may target.
   The remaining side conditions are necessary: `initial` naming a history pseudo-state (F35), a history default target that
   is itself a history pseudo-state (F36) or lies outside the history state's parent (F37) each make the code leave an
   illegal configuration - kernel-checked witnesses below, recorded findings. *)
From XSM Require Import Model.Macro Model.Snap Proofs.LegalP Proofs.ExecP Proofs.FaultP Proofs.StepP Proofs.DescentP Proofs.EffectP Proofs.PreserveP Proofs.InvariantP Proofs.SelectP Proofs.HistoryP Proofs.InvariantHP Proofs.SortP Proofs.IdP Proofs.GeomBridge Proofs.SourceGeomP Proofs.SourceStepP Proofs.EntryBridge Model.TreeLib Gen.GenTree Gen.GenGeom.
From Coq Require Import Permutation.

Theorem C01_legal_is_the_definition : forall m C, legal m C = true <-> Legal m C.
Proof. exact legal_spec. Qed.
Print Assumptions C01_legal_is_the_definition.

(* 'exactly one active child' as a unique witness *)
Theorem C01_one_active_child : forall m C s,
  wf m = true -> Legal m C -> In s C -> kind_of m s = KCompound -> children m s <> [] ->
  exists c, In c (children m s) /\ In c C /\ forall c', In c' (children m s) -> In c' C -> c' = c.
Proof. exact legal_one_active_child. Qed.
Print Assumptions C01_one_active_child.

Theorem C01_set_property : forall m C C', Permutation C C' -> Legal m C -> Legal m C'.
Proof. exact Legal_perm. Qed.
Print Assumptions C01_set_property.

Theorem C01_snapshot_restores_legal : forall m s r,
  Legal m (s_cfg s) -> restore m (persist m s) = Some r -> Legal m (s_cfg r).
Proof. exact restore_legal. Qed.
Print Assumptions C01_snapshot_restores_legal.

(* the configuration start() builds by entering the root is legal: for EVERY well-formed machine whose compound states
   declare a (non-history) initial child, both engines, whatever the entry actions do - if the entry does not fail *)
Theorem C01_initial_configuration_legal : forall m, wf m = true -> good_initials m = true ->
  forall eng pr ev s s', s_cfg s = [] -> enter eng pr m [0] ev s = (s', None) -> Legal m (s_cfg s').
Proof. exact initial_entry_legal. Qed.
Print Assumptions C01_initial_configuration_legal.

(* ... and it is exactly the default descent from the root *)
Theorem C01_entry_is_default_descent : forall m, wf m = true -> forall eng pr f l ev s s',
  ok_list m l -> enter_states f eng pr m l ev s = (s', None) ->
  s_cfg s' = add_all (List.concat (map (descent f m) l)) (s_cfg s).
Proof. exact enter_states_cfg. Qed.
Print Assumptions C01_entry_is_default_descent.

Theorem C01_default_descent_legal : forall m, wf m = true -> good_initials m = true -> forall f, size m < f -> Legal m (descent f m 0).
Proof. exact descent_legal. Qed.
Print Assumptions C01_default_descent_legal.

(* THE INVARIANT.  For every well-formed machine whose compound states declare a non-history initial child and none of
   whose transitions targets the machine root or a history pseudo-state (four decidable conditions: wf, twf,
   good_initials, safe_targetsb), if start() does not fail then after ANY sequence of events the configuration is
   legal - on the sync engine and on the async engine (observed whenever its queue is drained). *)
Theorem C01_sync_runs_stay_legal : forall m, wf m = true -> twf m = true -> good_initials m = true -> safe_targets m ->
  forall cx evs, snd (sync_start m (st_init cx)) = None -> Legal m (s_cfg (sync_run m cx evs)).
Proof. exact InvariantP.sync_run_inv. Qed.
Print Assumptions C01_sync_runs_stay_legal.

Theorem C01_async_runs_stay_legal : forall m, wf m = true -> twf m = true -> good_initials m = true -> safe_targets m ->
  forall fuel cx evs, snd (async_start m (st_init cx)) = None -> Legal m (s_cfg (fst (async_run fuel m cx evs))).
Proof. exact InvariantP.async_run_inv. Qed.
Print Assumptions C01_async_runs_stay_legal.

(* ... and with transitions to ANY state allowed - the machine root and history pseudo-states included (decidable
   conditions: wf, twf, good_initials, safe_targets_hb, the last one only constraining the default targets of targeted
   history states); the invariant carried through the run is legality AND the consistency of the history store *)
Theorem C01_sync_runs_stay_legal_h : forall m, wf m = true -> twf m = true -> good_initials m = true -> safe_targets_h m ->
  forall cx evs, snd (sync_start m (st_init cx)) = None ->
  Legal m (s_cfg (sync_run m cx evs)) /\ HistOK m (s_hist (sync_run m cx evs)).
Proof. exact InvariantHP.sync_run_inv. Qed.
Print Assumptions C01_sync_runs_stay_legal_h.

Theorem C01_async_runs_stay_legal_h : forall m, wf m = true -> twf m = true -> good_initials m = true -> safe_targets_h m ->
  forall fuel cx evs, snd (async_start m (st_init cx)) = None ->
  Legal m (s_cfg (fst (async_run fuel m cx evs))) /\ HistOK m (s_hist (fst (async_run fuel m cx evs))).
Proof. exact InvariantHP.async_run_inv. Qed.
Print Assumptions C01_async_runs_stay_legal_h.

Theorem C01_safe_targets_h_checkable : forall m, safe_targets_hb m = true -> safe_targets_h m.
Proof. exact safe_targets_hb_ok. Qed.
Print Assumptions C01_safe_targets_h_checkable.
Theorem C01_safe_targets_is_special_case : forall m, safe_targets m -> safe_targets_h m.
Proof. exact safe_targets_weaken. Qed.
Print Assumptions C01_safe_targets_is_special_case.

(* the steps: a completed transition to a history pseudo-state out of a legal configuration with a consistent history
   store leaves a legal configuration ... *)
Theorem C01_history_transition_preserves_legality : forall m, wf m = true -> good_initials m = true ->
  forall eng pr t tgt ev s0 s1,
  Legal m (s_cfg s0) -> HistOK m (s_hist s0) -> In (t_src t) (s_cfg s0) ->
  tgt < size m -> is_history m tgt = true -> hist_static_ok m tgt ->
  exec_external eng pr m t tgt ev s0 = (s1, None) -> Legal m (s_cfg s1).
Proof. exact history_transition_legal. Qed.
Print Assumptions C01_history_transition_preserves_legality.

(* ... a completed transition to the machine ROOT restarts the machine: whatever the configuration was, the one it
   leaves is the default descent from the root, hence legal ... *)
Theorem C01_root_transition_restarts : forall m, wf m = true -> good_initials m = true -> forall eng pr t ev s0 s1,
  exec_external eng pr m t 0 ev s0 = (s1, None) -> Legal m (s_cfg s1).
Proof. exact root_transition_legal. Qed.
Print Assumptions C01_root_transition_restarts.

(* ... the history store is rewritten by _record_history only, which copies from the (legal) configuration the
   transition starts in: completed or aborted, the store stays consistent *)
Theorem C01_history_store_invariant : forall m eng pr t tgt ev s0,
  Legal m (s_cfg s0) -> HistOK m (s_hist s0) -> HistOK m (s_hist (fst (exec_external eng pr m t tgt ev s0))).
Proof. exact external_keeps_histok. Qed.
Print Assumptions C01_history_store_invariant.

(* ... and what entering a TREE of explicit states activates is, below each of its roots, a complete sub-configuration *)
Theorem C01_tree_entry_legal : forall m, wf m = true -> good_initials m = true -> forall d l, d < size m ->
  (forall x, In x l -> x < size m) -> (forall x, In x l -> is_history m x = false) ->
  (forall x, In x l -> exists q, parent m x = Some q /\ (q = d \/ In q l)) ->
  (forall x c c', In x l -> kind_of m x = KCompound -> In c (children m x) -> In c' (children m x) -> In c l -> In c' l -> c = c') ->
  forall C Bs, Legal m C -> In d C -> l <> [] ->
  (forall b, In b Bs -> In b (children m d)) -> (forall r, In r l /\ parent m r = Some d -> In r Bs) ->
  (kind_of m d = KCompound -> (forall c, In c (children m d) -> In c Bs) /\
                              (forall r r', In r l /\ parent m r = Some d -> In r' l /\ parent m r' = Some d -> r = r')) ->
  (kind_of m d = KParallel -> forall b, In b Bs -> is_history m b = false -> In b l /\ parent m b = Some d) ->
  Legal m (add_all (entered (S (size m)) m l) (kept m Bs C)).
Proof. exact TreeEntryP.tree_entry_legal. Qed.
Print Assumptions C01_tree_entry_legal.

Theorem C01_safe_targets_checkable : forall m, safe_targetsb m = true -> safe_targets m.
Proof. exact safe_targetsb_ok. Qed.
Print Assumptions C01_safe_targets_checkable.

(* the steps the invariant is built from: one event on either engine (also when it fails half-way: rollback) ... *)
Theorem C01_event_preserves_legality : forall m, wf m = true -> twf m = true -> good_initials m = true -> safe_targets m ->
  forall eng pr ev s, Legal m (s_cfg s) -> Legal m (s_cfg (fst (process_event eng pr m ev s))).
Proof. exact InvariantP.process_event_inv. Qed.
Print Assumptions C01_event_preserves_legality.

(* ... one external transition from an active source to a target that is neither the root nor a history state
   (this is also the state every on_transition hook and subscriber observes) ... *)
Theorem C01_transition_preserves_legality : forall m, wf m = true -> good_initials m = true ->
  forall eng pr t tgt ev s0 s1,
  Legal m (s_cfg s0) -> In (t_src t) (s_cfg s0) -> tgt < size m -> tgt <> 0 -> is_history m tgt = false ->
  exec_external eng pr m t tgt ev s0 = (s1, None) -> Legal m (s_cfg s1).
Proof. exact transition_preserves_legal. Qed.
Print Assumptions C01_transition_preserves_legality.

(* ... whose effect on the configuration is a closed formula: minus the exit list, plus the entered set *)
Theorem C01_transition_effect : forall m eng pr t tgt ev s0 s1,
  exec_external eng pr m t tgt ev s0 = (s1, None) ->
  let d := find_domain m (t_src t) tgt in
  let xs := rev (sort_by (lt_depth_id m) (ext_exit_set m (s_cfg s0) (s_hist s0) d tgt)) in
  let hist := is_history m tgt in
  let path := if hist then [] else ext_path m tgt d in
  let cp := if hist then combined_path m d (resolve_history m (s_hist s0) tgt) else [] in
  s_cfg s1 = add_all (entered (S (size m)) m cp) (add_all (entered (S (size m)) m path) (remove_all xs (s_cfg s0))).
Proof. exact external_effect. Qed.
Print Assumptions C01_transition_effect.

(* TIE T for the ancestry oracle: _is_descendant - the string test on ids by which the code decides what lies below the
   transition domain / inside a region (exit set, history recording) - as RE-TRANSLATED from the current source on every
   run (Gen/GenTree.v) equals the model's tree test, for every machine whose ids are distinct dotted paths (a decidable
   condition the harness evaluates for every machine of the C01 families) *)
Theorem C01_ancestry_oracle_is_the_source : forall m, ancestry_side_ok m = true ->
  forall s a, s < size m -> a < size m -> GenTree.is_descendant (id_of m s) (Some (id_of m a)) = is_desc m s a.
Proof. exact ancestry_oracle_of_source. Qed.
Print Assumptions C01_ancestry_oracle_is_the_source.

(* TIE T for the GEOMETRY of a transition: the three functions by which the engine decides what a transition exits and
   enters - _find_transition_domain, _compute_states_to_exit (with _resolve_history_target for history targets) and
   _get_path_to_state - are RE-TRANSLATED from the current source on every run (Gen/GenGeom.v, harness/py2coq_tree.py) and
   proved equal to the model functions `find_domain`, `exit_set_h` / `ext_exit_set`, `path_to` / `ext_path` that
   C01_transition_effect, C01_transition_preserves_legality and the run theorems below are stated over. *)
Theorem C01_domain_is_the_source : forall m src tgt, wf m = true -> src < size m -> tgt < size m ->
  GenGeom.find_transition_domain m src tgt = if Nat.eqb tgt 0 then None else Some (find_domain m src tgt).
Proof. exact find_domain_bridge. Qed.
Print Assumptions C01_domain_is_the_source.

Theorem C01_exit_set_is_the_source : forall m, ancestry_side_ok m = true -> forall C H d tgt,
  (forall s, In s C -> s < size m) -> d < size m ->
  GenGeom.compute_states_to_exit m C H (Some d) tgt = exit_set_h m C H d tgt.
Proof. exact exit_set_bridge. Qed.
Print Assumptions C01_exit_set_is_the_source.

(* domain None - "the whole machine", which the source returns exactly for a transition to the root - exits everything *)
Theorem C01_exit_set_of_whole_machine : forall m C H tgt, GenGeom.compute_states_to_exit m C H None tgt = C.
Proof. exact exit_set_none. Qed.
Print Assumptions C01_exit_set_of_whole_machine.

Theorem C01_entry_path_is_the_source : forall m t d, GenGeom.get_path_to_state m t (Some d) = path_to m t d.
Proof. exact get_path_bridge. Qed.
Print Assumptions C01_entry_path_is_the_source.

Theorem C01_entry_path_of_whole_machine : forall m d, wf m = true -> GenGeom.get_path_to_state m 0 None = ext_path m 0 d.
Proof. exact get_path_root. Qed.
Print Assumptions C01_entry_path_of_whole_machine.

Theorem C01_ancestors_are_the_source : forall m s, wf m = true -> s < size m -> GenGeom.get_ancestors m s = anc_self m s.
Proof. exact get_ancestors_bridge. Qed.
Print Assumptions C01_ancestors_are_the_source.

(* ... composed the way _execute_transition / _process_single_transition compose them: `exec_external_src` is one external
   transition executed with the geometry THE SOURCE computes (domain, exit set, entry path, expansion of a history target,
   combined entry path of the restored states - all five from Gen/GenGeom.v).  Out of a legal configuration it is the
   model's `exec_external`, so the preservation theorems above hold of the transition as the source computes it: *)
(* TIE T for default descent (what C01_initial_configuration_legal and every entry rest on): for one state of the list being
   entered, WHAT is entered below it by default - its initial child unless the list names one of its children, the regions the
   list does not name (history children are not regions), nothing, or an error (children but no initial) - as decided by
   _enter_states in BOTH engines' copies, re-translated from the current source on every run with the effects dropped
   (Gen/GenGeom.v: descent_async, descent_sync), is the decision the model's `enter_one` acts on *)
Theorem C01_descent_is_the_source_async : forall m l x, GenGeom.descent_async m l x = model_descent m l x.
Proof. exact descent_async_bridge. Qed.
Print Assumptions C01_descent_is_the_source_async.
Theorem C01_descent_is_the_source_sync : forall m l x, GenGeom.descent_sync m l x = model_descent m l x.
Proof. exact descent_sync_bridge. Qed.
Print Assumptions C01_descent_is_the_source_sync.
Theorem C01_entry_acts_on_the_decision : forall eng pr m rec l ev x,
  enter_one eng pr m rec (parents_of m l) (with_parent m l) ev x =
  (lift (fun s => logo (OEnter x) (with_cfg (cadd x (s_cfg s)) s)) ;;
   (fun s => exec_actions eng pr (n_entry (nd m x)) (entry_event eng m ev x) s) ;;
   sched_before eng m x ;;
   (if is_final m x then lift (fire_on_done eng pr m x) else ret) ;;
   match model_descent m l x with
   | DescendInto below => rec below (match eng with Async => Some (entry_event eng m ev x) | _ => ev end) ;; sched_after eng m x
   | DescendNone => sched_after eng m x
   | DescendError => raise EInvalidConfig
   end).
Proof. exact enter_one_decides. Qed.
Print Assumptions C01_entry_acts_on_the_decision.

(* the PLAN of an external transition - domain, exit order, entry path, combined entry path of a history target - is SLICED OUT
   of the effects of _execute_transition (asyncio engine) and of SyncInterpreter._process_single_transition by the translator
   on every run (Gen/GenGeom.v: xt_* and pst_*; the translator refuses unless the effects around the plan are, in this order,
   exit(<exit order>), actions(transition.actions), enter(path_to_enter), enter(combined_path) and a rollback handler that
   assigns nothing and re-raises); both engines plan alike, and `exec_external_src` executes exactly that plan *)
Theorem C01_engines_plan_alike : forall m C H src tgt,
  pst_domain m C H src tgt = xt_domain m C H src tgt /\ pst_exit_order m C H src tgt = xt_exit_order m C H src tgt /\
  pst_path m C H src tgt = xt_path m C H src tgt /\ pst_combined m C H src tgt = xt_combined m C H src tgt.
Proof. exact plans_agree. Qed.
Print Assumptions C01_engines_plan_alike.

Theorem C01_plan_is_the_translated_geometry : forall m C H src tgt,
  xt_exit_order m C H src tgt = rev (sort_by (lt_depth_id m) (GenGeom.compute_states_to_exit m C H (GenGeom.find_transition_domain m src tgt) tgt)) /\
  xt_path m C H src tgt = (if is_history m tgt then [] else GenGeom.get_path_to_state m tgt (GenGeom.find_transition_domain m src tgt)).
Proof. exact plan_is_geometry. Qed.
Print Assumptions C01_plan_is_the_translated_geometry.

Theorem C01_transition_is_the_source : forall m, ancestry_side_ok m = true -> forall eng pr t tgt ev s0,
  Legal m (s_cfg s0) -> In (t_src t) (s_cfg s0) -> tgt < size m ->
  exec_external_src eng pr m t tgt ev s0 = exec_external eng pr m t tgt ev s0.
Proof. exact exec_external_src_eq. Qed.
Print Assumptions C01_transition_is_the_source.

Theorem C01_source_transition_preserves_legality : forall m, ancestry_side_ok m = true -> good_initials m = true ->
  forall eng pr t tgt ev s0 s1,
  Legal m (s_cfg s0) -> In (t_src t) (s_cfg s0) -> tgt < size m -> tgt <> 0 -> is_history m tgt = false ->
  exec_external_src eng pr m t tgt ev s0 = (s1, None) -> Legal m (s_cfg s1).
Proof. exact source_transition_preserves_legal. Qed.
Print Assumptions C01_source_transition_preserves_legality.

Theorem C01_source_history_transition_preserves_legality : forall m, ancestry_side_ok m = true -> good_initials m = true ->
  forall eng pr t tgt ev s0 s1,
  Legal m (s_cfg s0) -> HistOK m (s_hist s0) -> In (t_src t) (s_cfg s0) ->
  tgt < size m -> is_history m tgt = true -> hist_static_ok m tgt ->
  exec_external_src eng pr m t tgt ev s0 = (s1, None) -> Legal m (s_cfg s1).
Proof. exact source_history_transition_legal. Qed.
Print Assumptions C01_source_history_transition_preserves_legality.

Theorem C01_source_root_transition_restarts : forall m, ancestry_side_ok m = true -> good_initials m = true ->
  forall eng pr t ev s0 s1, Legal m (s_cfg s0) -> In (t_src t) (s_cfg s0) ->
  exec_external_src eng pr m t 0 ev s0 = (s1, None) -> Legal m (s_cfg s1).
Proof. exact source_root_transition_legal. Qed.
Print Assumptions C01_source_root_transition_restarts.

(* ... and one whole EVENT: `process_event_src` selects with the re-translated _select_transitions (each guard through the
   model's evaluation of it), skips a stale winner by the re-translated test of _process_event, DISPATCHES each selected transition
   by the re-translated decision of _execute_transition / _execute_transition_sync (actions only / not found / internal /
   external) and executes an external one along the re-translated plan.  On every state that
   satisfies the run invariant - hence on every state of every run - and whenever every consulted guard answers (no missing
   implementation), it is the model's `process_event`; so the event step AS THE SOURCE DECIDES IT keeps the configuration
   legal and the history store consistent.  What stays hand-modelled in this step are the effects (entering, exiting, running
   actions, queues, scheduling), tied to the code by the K-macro correspondence. *)
Theorem C01_event_step_is_the_source : forall m, ancestry_side_ok m = true -> twf m = true -> good_initials m = true ->
  safe_targets_h m -> forall eng pr ev s,
  Legal m (s_cfg s) /\ HistOK m (s_hist s) -> (forall t, passes m (s_cfg s) (s_ctx s) t <> None) ->
  process_event_src eng pr m ev s = process_event eng pr m ev s.
Proof. exact process_event_src_eq. Qed.
Print Assumptions C01_event_step_is_the_source.

Theorem C01_source_event_preserves_legality : forall m, ancestry_side_ok m = true -> twf m = true -> good_initials m = true ->
  safe_targets_h m -> forall eng pr ev s,
  Legal m (s_cfg s) /\ HistOK m (s_hist s) -> (forall t, passes m (s_cfg s) (s_ctx s) t <> None) ->
  Legal m (s_cfg (fst (process_event_src eng pr m ev s))) /\ HistOK m (s_hist (fst (process_event_src eng pr m ev s))).
Proof. exact process_event_src_inv. Qed.
Print Assumptions C01_source_event_preserves_legality.

(* steps that keep the configuration *)
Theorem C01_unhandled_keeps : forall eng pr m ev s,
  select m (s_cfg s) (s_ctx s) ev = Some [] -> process_event eng pr m ev s = (s, None).
Proof. exact process_unhandled. Qed.
Print Assumptions C01_unhandled_keeps.
Theorem C01_actions_keep : forall eng pr acts ev s, same_cfg s (fst (exec_actions eng pr acts ev s)).
Proof. exact exec_actions_same. Qed.
Print Assumptions C01_actions_keep.
Theorem C01_abort_restores : forall eng pr m t tgt ev s0 s2 e,
  exec_external eng pr m t tgt ev s0 = (s2, Some e) -> s_cfg s2 = s_cfg s0.
Proof. exact abort_restores_configuration. Qed.
Print Assumptions C01_abort_restores.

(* what a transition may remove: active proper descendants of its domain only; out of a parallel domain towards a
   target inside one region, that region only *)
Theorem C01_exit_confined : forall m C H d tgt x,
  In x (exit_set_h m C H d tgt) -> In x C /\ is_desc m x d = true /\ x <> d.
Proof. exact exit_set_h_sub. Qed.
Print Assumptions C01_exit_confined.
Theorem C01_exit_region_scoped : forall m C H d tgt b x,
  is_history m tgt = false ->
  is_parallel m d = true -> branch_of m d tgt = Some b -> In x (exit_set_h m C H d tgt) -> is_desc m x b = true.
Proof. intros m C H d tgt b x Hh. rewrite (exit_set_h_plain m C H d tgt Hh). exact (exit_set_parallel_scoped m C d tgt b x). Qed.
Print Assumptions C01_exit_region_scoped.
(* a history target: the regions exited are those holding a state the pseudo-state resolves to, i.e. about to be entered *)
Theorem C01_exit_region_scoped_history : forall m C H d tgt x,
  is_history m tgt = true -> is_parallel m d = true -> In x (exit_set_h m C H d tgt) ->
  exists y b, In y (resolve_history m H tgt) /\ branch_of m d y = Some b /\ is_desc m x b = true.
Proof. exact exit_set_h_scoped. Qed.
Print Assumptions C01_exit_region_scoped_history.
Theorem C01_entry_path_confined : forall m tgt d x,
  In x (path_to m tgt d) -> In x (anc_self m tgt) /\ x <> d.
Proof. exact path_to_sub. Qed.
Print Assumptions C01_entry_path_confined.

(* the machine of former finding F5 (repaired in /repo): {m: initial a; a: on RESET -> #m; b}.  RESET used to leave only
   the root active; the whole machine is now the domain: everything, the root included, is exited and the root re-entered. *)
Definition n_ id par k ch ini d on_ : node := Build_node id par k ch ini d [] [] on_ None [] [] None None.
Definition f5 : machine := Build_machine
  [ n_ "m" None KCompound [1; 2] (Some 1) 0 [];
    n_ "m.a" (Some 0) KAtomic [] None 1 [("RESET"%string, [Build_trans 0 1 "RESET" (TState 0) None [] false false])];
    n_ "m.b" (Some 0) KAtomic [] None 1 [] ] 10 None.
Example C01_root_target_restarts_the_machine :
  wf f5 = true /\ safe_targets_hb f5 = true /\ safe_targetsb f5 = false /\
  let s0 := fst (sync_start f5 (st_init [])) in
  let s1 := fst (sync_send f5 (Build_event "RESET" EPlain 0) (with_log [] s0)) in
  legal f5 (s_cfg s0) = true /\ s_cfg s1 = [0; 1] /\ legal f5 (s_cfg s1) = true /\
  filter (fun o => match o with OEnter _ | OLeave _ => true | _ => false end) (rev (s_log s1)) = [OLeave 1; OLeave 0; OEnter 0; OEnter 1].
Proof. vm_compute. repeat split; reflexivity. Qed.

(* the machine of former finding F34 (repaired in /repo, see known_findings.json): a parallel state with a deep-history
   child h and regions r {x, y}, q {u, v}.  GO (x -> y) records history [q; r; u; x]; BACK (y -> #m.h) used to exit
   nothing (the exit set was scoped to the history node's own, empty, branch) and to activate x next to y: the
   illegal configuration {m, q, u, r, x, y}.  The regions about to be restored are now exited first. *)
Definition f34 : machine := Build_machine
  [ n_ "m" None KParallel [1; 2; 5] None 0 [];
    Build_node "m.h" (Some 0) (KHistory true) [] None 1 [] [] [] None [] [] None None;
    n_ "m.r" (Some 0) KCompound [3; 4] (Some 3) 1 [];
    n_ "m.r.x" (Some 2) KAtomic [] None 2 [("GO"%string, [Build_trans 0 3 "GO" (TState 4) None [] false false]);
                                           ("BACK"%string, [Build_trans 1 3 "BACK" (TState 1) None [] false false])];
    n_ "m.r.y" (Some 2) KAtomic [] None 2 [("BACK"%string, [Build_trans 2 4 "BACK" (TState 1) None [] false false])];
    n_ "m.q" (Some 0) KCompound [6; 7] (Some 6) 1 [];
    n_ "m.q.u" (Some 5) KAtomic [] None 2 [];
    n_ "m.q.v" (Some 5) KAtomic [] None 2 [] ] 10 None.
Example C01_history_of_active_parallel_restored_legally :
  wf f34 = true /\
  let s0 := fst (sync_start f34 (st_init [])) in
  let s1 := fst (sync_send f34 (Build_event "GO" EPlain 0) s0) in
  let s2 := fst (sync_send f34 (Build_event "BACK" EPlain 0) s1) in
  s_cfg s1 = [0; 2; 5; 6; 4] /\ s_cfg s2 = [0; 5; 6; 2; 3] /\ legal f34 (s_cfg s2) = true /\
  exit_set_h f34 (s_cfg s1) (s_hist s1) 0 1 = [2; 5; 6; 4].
Proof. vm_compute. repeat split; reflexivity. Qed.
(* ... and it meets the hypotheses of C01_sync_runs_stay_legal_h (non-vacuity: a machine with history targets) while
   falling outside C01_sync_runs_stay_legal *)
Example C01_history_theorem_applies :
  wf f34 = true /\ twf f34 = true /\ good_initials f34 = true /\ safe_targets_hb f34 = true /\ safe_targetsb f34 = false /\
  snd (sync_start f34 (st_init [])) = None /\ ancestry_side_ok f34 = true.
Proof. vm_compute. repeat split; reflexivity. Qed.
(* ... and the functions translated from the source compute on it: BACK (y -> the deep-history child h of the parallel root) *)
Example C01_translated_geometry_computes :
  let s0 := fst (sync_start f34 (st_init [])) in
  let s1 := fst (sync_send f34 (Build_event "GO" EPlain 0) s0) in
  GenGeom.find_transition_domain f34 4 1 = Some 0 /\
  GenGeom.compute_states_to_exit f34 (s_cfg s1) (s_hist s1) (Some 0) 1 = [2; 5; 6; 4] /\
  GenGeom.resolve_history_target f34 (s_hist s1) 1 = [6; 3] /\
  GenGeom.get_path_to_state f34 3 (Some 0) = [2; 3] /\ GenGeom.get_ancestors f34 6 = [6; 5; 0] /\
  GenGeom.find_transition_domain f34 3 4 = Some 2 /\ GenGeom.find_transition_domain f34 3 0 = None.
Proof. vm_compute. repeat split; reflexivity. Qed.
Example C01_source_event_computes :
  let s0 := fst (sync_start f34 (st_init [])) in
  let s1 := fst (sync_send f34 (Build_event "GO" EPlain 0) s0) in
  twf f34 = true /\ safe_targets_hb f34 = true /\
  s_cfg (fst (process_event_src Sync true f34 (Build_event "BACK" EPlain 0) s1)) = [0; 5; 6; 2; 3] /\
  process_event_src Sync true f34 (Build_event "BACK" EPlain 0) s1 = process_event Sync true f34 (Build_event "BACK" EPlain 0) s1.
Proof. vm_compute. repeat split; reflexivity. Qed.
Example C01_source_transition_computes :
  let s0 := fst (sync_start f34 (st_init [])) in
  let s1 := fst (sync_send f34 (Build_event "GO" EPlain 0) s0) in
  let t := Build_trans 2 4 "BACK" (TState 1) None [] false false in
  legal f34 (s_cfg s1) = true /\ mem 4 (s_cfg s1) = true /\
  s_cfg (fst (exec_external_src Sync true f34 t 1 (Build_event "BACK" EPlain 0) s1)) = [0; 5; 6; 2; 3] /\
  snd (exec_external_src Sync true f34 t 1 (Build_event "BACK" EPlain 0) s1) = None.
Proof. vm_compute. repeat split; reflexivity. Qed.

(* THE SIDE CONDITIONS ARE NECESSARY - three more kernel-checked witnesses on which the code at HEAD (and the model)
   leaves an illegal configuration; each violates exactly one hypothesis of C01_sync_runs_stay_legal_h and is a recorded
   finding (known_findings.json, demos under findings/). *)
Definition hn_ id par deep d dflt : node := Build_node id par (KHistory deep) [] None d [] [] [] None [] [] dflt None.
(* F35: `initial` names a history pseudo-state (good_initials fails): the default descent enters it like a state *)
Definition f35 : machine := Build_machine
  [ n_ "m" None KCompound [1] (Some 1) 0 [];
    n_ "m.p" (Some 0) KCompound [2; 3; 4] (Some 2) 1 [];
    hn_ "m.p.h" (Some 1) false 2 None;
    n_ "m.p.x" (Some 1) KAtomic [] None 2 [];
    n_ "m.p.y" (Some 1) KAtomic [] None 2 [] ] 10 None.
Theorem C01_initial_names_history_refuted :
  wf f35 = true /\ good_initials f35 = false /\ snd (sync_start f35 (st_init [])) = None /\
  s_cfg (fst (sync_start f35 (st_init []))) = [0; 1; 2] /\ legal f35 [0; 1; 2] = false.
Proof. vm_compute. repeat split; reflexivity. Qed.
Print Assumptions C01_initial_names_history_refuted.
(* F36: the default target of a history pseudo-state is itself a history pseudo-state (safe_targets_hb fails) *)
Definition f36 : machine := Build_machine
  [ n_ "m" None KCompound [1; 2] (Some 1) 0 [];
    n_ "m.a" (Some 0) KAtomic [] None 1 [("GO"%string, [Build_trans 0 1 "GO" (TState 3) None [] false false])];
    n_ "m.p" (Some 0) KCompound [3; 4; 8] (Some 4) 1 [];
    hn_ "m.p.h" (Some 2) false 2 (Some 5);
    n_ "m.p.x" (Some 2) KCompound [5; 6; 7] (Some 6) 2 [];
    hn_ "m.p.x.h2" (Some 4) false 3 None;
    n_ "m.p.x.u" (Some 4) KAtomic [] None 3 [];
    n_ "m.p.x.v" (Some 4) KAtomic [] None 3 [];
    n_ "m.p.y" (Some 2) KAtomic [] None 2 [] ] 10 None.
Theorem C01_history_default_is_history_refuted :
  wf f36 = true /\ twf f36 = true /\ good_initials f36 = true /\ safe_targets_hb f36 = false /\
  let s0 := fst (sync_start f36 (st_init [])) in
  let s1 := fst (sync_send f36 (Build_event "GO" EPlain 0) s0) in
  legal f36 (s_cfg s0) = true /\ s_cfg s1 = [0; 2; 4; 5] /\ legal f36 (s_cfg s1) = false.
Proof. vm_compute. repeat split; reflexivity. Qed.
Print Assumptions C01_history_default_is_history_refuted.
(* F37: the default target of a history pseudo-state lies outside its parent, and it is targeted from inside *)
Definition f37 : machine := Build_machine
  [ n_ "m" None KCompound [1; 5] (Some 1) 0 [];
    n_ "m.p" (Some 0) KCompound [2; 3; 4] (Some 3) 1 [];
    hn_ "m.p.h" (Some 1) false 2 (Some 5);
    n_ "m.p.x" (Some 1) KAtomic [] None 2 [("GO"%string, [Build_trans 0 3 "GO" (TState 2) None [] false false])];
    n_ "m.p.y" (Some 1) KAtomic [] None 2 [];
    n_ "m.q" (Some 0) KAtomic [] None 1 [] ] 10 None.
Theorem C01_history_default_outside_parent_refuted :
  wf f37 = true /\ twf f37 = true /\ good_initials f37 = true /\ safe_targets_hb f37 = false /\
  let s0 := fst (sync_start f37 (st_init [])) in
  let s1 := fst (sync_send f37 (Build_event "GO" EPlain 0) s0) in
  legal f37 (s_cfg s0) = true /\ s_cfg s1 = [0; 1; 5] /\ legal f37 (s_cfg s1) = false.
Proof. vm_compute. repeat split; reflexivity. Qed.
Print Assumptions C01_history_default_outside_parent_refuted.

(* non-vacuity: a legal configuration of a machine with a parallel state, and illegal neighbours of it *)
Definition ex_m : machine := Build_machine
  [ n_ "m" None KCompound [1; 8] (Some 1) 0 [];
    n_ "m.p" (Some 0) KParallel [2; 5; 7] None 1 [];
    n_ "m.p.r1" (Some 1) KCompound [3; 4] (Some 3) 2 [];
    n_ "m.p.r1.x" (Some 2) KAtomic [] None 3 [];
    n_ "m.p.r1.y" (Some 2) KAtomic [] None 3 [];
    n_ "m.p.r2" (Some 1) KCompound [6] (Some 6) 2 [];
    n_ "m.p.r2.z" (Some 5) KAtomic [] None 3 [];
    Build_node "m.p.h" (Some 1) (KHistory true) [] None 2 [] [] [] None [] [] None None;
    n_ "m.o" (Some 0) KAtomic [] None 1 [] ] 10 None.
Example C01_ex :
  wf ex_m = true /\ twf ex_m = true /\ safe_targetsb ex_m = true /\ good_initials ex_m = true /\ descent 10 ex_m 0 = [0; 1; 2; 3; 5; 6] /\
  s_cfg (fst (enter Sync true ex_m [0] None (st_init []))) = [0; 1; 2; 3; 5; 6] /\
  legal ex_m [0; 1; 2; 4; 5; 6] = true /\ legal ex_m [6; 5; 4; 2; 1; 0] = true
  /\ legal ex_m [0; 1; 2; 3; 4; 5; 6] = false      (* two active children of a compound state *)
  /\ legal ex_m [0; 1; 2; 4] = false               (* a region of an active parallel state missing *)
  /\ legal ex_m [0; 1; 2; 4; 5; 6; 7] = false      (* an active history pseudo-state *)
  /\ legal ex_m [1; 2; 4; 5; 6] = false            (* the root missing *)
  /\ legal ex_m [0; 1; 2; 5; 6] = false.           (* a compound state without active child *)
Proof. vm_compute. repeat split; reflexivity. Qed.
