(* C15 - actor messaging and supervision are exact.  Statements only.
   Model: Model/Actors.v - the bookkeeping of _resolve_actor_target, _register_in_system, _deliver (delays, send ids,
   supersede), _cancel_scheduled_send, stopChild, stop() and spawn (id scheme, children map, service keys, registry)
   over a tree of interpreters, for both engines.  Tied to the code by K-actor: scenarios of spawn / send / forward /
   escalate / cancel / stopChild / stop over trees of actors are run on the implementation (both engines, virtual
   time) and evaluated in Coq; liveness, every actor's ordered inbox, children maps, service keys, send registries,
   the actor-system registry and the dropped / ambiguous warning counts are compared (harness/actors.py).
   PARTIAL: every actor runs a recording machine, so "processing" is appending to an inbox; handlers of different
   actors never interleave inside one macrostep.  The cascade theorem covers the stopped actor and its children map;
   deeper descendants are covered by the recursion of the same function and checked by K-actor, not by a separate
   induction over the tree.
   REFUTED at HEAD: 'the parent's stop() stops every child it spawned' - a child whose explicit id was reused while it
   was alive is orphaned (finding F30), kernel-checked witnesses below.  (Sync engine, thread-managed child: since the
   repair of F40 its runner thread stops it at the next poll - runner_polls - but it stays in the registry.) *)
From XSM Require Import Model.Actors Proofs.ActorP.

(* addressing: a resolved target is the actor registered under that systemId, one of MY children, or my parent *)
Theorem C15_addressed_actor_only : forall s me spec t,
  resolve s me spec = RActor t ->
  dget (registry s) spec = Some t
  \/ (exists k, In (k, t) (a_children (aget s me)))
  \/ ((spec = "parent" \/ spec = "#parent")%string /\ a_parent (aget s me) = Some t).
Proof. exact resolve_sound. Qed.
Print Assumptions C15_addressed_actor_only.

Theorem C15_system_id_wins : forall s me spec i, dget (registry s) spec = Some i -> resolve s me spec = RActor i.
Proof. exact resolve_registry_first. Qed.
Print Assumptions C15_system_id_wins.

(* an ambiguous key and an unknown name resolve to nobody: the event is dropped (with a warning) *)
Theorem C15_ambiguous_is_dropped : forall s me spec p q r,
  dget (registry s) spec = None -> dget (a_children (aget s me)) spec = None ->
  filter (fun c => in_list spec (tl (a_id (aget s (snd c))))) (a_children (aget s me)) = p :: q :: r ->
  resolve s me spec = RAmbiguous.
Proof. exact resolve_ambiguous. Qed.
Print Assumptions C15_ambiguous_is_dropped.
Theorem C15_unknown_is_dropped : forall s me spec,
  dget (registry s) spec = None -> dget (a_children (aget s me)) spec = None ->
  filter (fun c => in_list spec (tl (a_id (aget s (snd c))))) (a_children (aget s me)) = [] ->
  (forall p, In p (a_sources (aget s me)) -> snd p <> spec) ->
  spec <> "parent"%string -> spec <> "#parent"%string ->
  resolve s me spec = RNone.
Proof. exact resolve_unknown. Qed.
Print Assumptions C15_unknown_is_dropped.

(* delivery: exactly once, to exactly the addressed actor, nothing else changes; a stopped actor receives nothing *)
Theorem C15_delivered_exactly_once : forall s t tag j,
  t < List.length (actors s) ->
  a_inbox (aget (recv ASync t tag s) j) =
  if Nat.eqb j t && a_running (aget s t) then tag :: a_inbox (aget s j) else a_inbox (aget s j).
Proof. exact recv_sync_exact. Qed.
Print Assumptions C15_delivered_exactly_once.
Theorem C15_delivery_frame : forall eng s t tag,
  registry (recv eng t tag s) = registry s /\ pending (recv eng t tag s) = pending s /\
  List.length (actors (recv eng t tag s)) = List.length (actors s) /\
  forall j, a_running (aget (recv eng t tag s) j) = a_running (aget s j)
            /\ a_children (aget (recv eng t tag s) j) = a_children (aget s j)
            /\ a_sends (aget (recv eng t tag s) j) = a_sends (aget s j).
Proof. exact recv_frame. Qed.
Print Assumptions C15_delivery_frame.
Theorem C15_stopped_receives_nothing : forall eng s t tag, a_running (aget s t) = false -> recv eng t tag s = s.
Proof. exact recv_stopped. Qed.
Print Assumptions C15_stopped_receives_nothing.

(* cancel(id): that pending send and only that one; an unknown id is a no-op; what is no longer pending never fires *)
Theorem C15_cancel_only_that_one : forall eng me trigger k s q,
  dget (a_sends (aget s me)) k = Some q ->
  forall d, In d (pending (do_op eng me trigger (OpCancel k) s)) <-> In d (pending s) /\ d_seq d <> q.
Proof. exact cancel_only_that_one. Qed.
Print Assumptions C15_cancel_only_that_one.
Theorem C15_cancel_unknown_noop : forall eng me trigger k s,
  dget (a_sends (aget s me)) k = None -> do_op eng me trigger (OpCancel k) s = s.
Proof. exact cancel_unknown_is_noop. Qed.
Print Assumptions C15_cancel_unknown_noop.
Theorem C15_only_pending_sends_fire : forall fuel eng t s d,
  In d (pending (advance_to fuel eng t s)) -> In d (pending s).
Proof. exact advance_fires_pending_only. Qed.
Print Assumptions C15_only_pending_sends_fire.

(* stop: the actor and every actor in its children map are stopped, its map is emptied, none of its delayed sends is
   left, nobody is revived, and it is idempotent *)
Theorem C15_stop_stops : forall eng i s, i < List.length (actors s) -> a_running (aget (stop eng i s) i) = false.
Proof. exact stop_stops. Qed.
Print Assumptions C15_stop_stops.
Theorem C15_stop_stops_children : forall eng i s k c,
  a_running (aget s i) = true -> In (k, c) (a_children (aget s i)) -> i < List.length (actors s) -> c < List.length (actors s) ->
  0 < List.length (actors s) -> a_running (aget (stop eng i s) c) = false.
Proof. exact stop_stops_children. Qed.
Print Assumptions C15_stop_stops_children.
Theorem C15_stop_clears_children : forall eng i s,
  a_running (aget s i) = true -> i < List.length (actors s) -> a_children (aget (stop eng i s) i) = [].
Proof. exact stop_clears_children. Qed.
Print Assumptions C15_stop_clears_children.
Theorem C15_stopped_emits_nothing : forall eng i s d,
  a_running (aget s i) = true -> In d (pending (stop eng i s)) -> d_sender d <> i.
Proof. exact stop_silences. Qed.
Print Assumptions C15_stopped_emits_nothing.
Theorem C15_stop_never_revives : forall eng i s x, a_running (aget (stop eng i s) x) = true -> a_running (aget s x) = true.
Proof. exact stop_never_revives. Qed.
Print Assumptions C15_stop_never_revives.
Theorem C15_stop_idempotent : forall eng i s, a_running (aget s i) = false -> stop eng i s = s.
Proof. exact stop_idempotent. Qed.
Print Assumptions C15_stop_idempotent.

(* the runner thread of a thread-managed child (sync engine): its poll never starts anybody and is the identity on the
   async engine, while the clock stands still, and as long as every thread-managed child still is its parent's entry *)
Theorem C15_runner_poll_never_revives : forall eng t s x,
  a_running (aget (runner_polls eng t s) x) = true -> a_running (aget s x) = true.
Proof. exact runner_polls_never_revives. Qed.
Print Assumptions C15_runner_poll_never_revives.
Theorem C15_runner_poll_touches_orphans_only : forall eng t s,
  (eng = AAsync \/ t <= now s \/ forall i, orphaned s i = false) -> runner_polls eng t s = s.
Proof. exact runner_polls_noop. Qed.
Print Assumptions C15_runner_poll_touches_orphans_only.

(* ... and it does stop every thread-managed child that is running and no longer its parent's entry *)
Theorem C15_runner_poll_stops_orphans : forall s i,
  i < List.length (actors s) -> orphaned s i = true -> a_running (aget (reap_orphans ASync s) i) = false.
Proof. exact reap_stops_orphans. Qed.
Print Assumptions C15_runner_poll_stops_orphans.
Example C15_orphan_ex :
  let s := run_actors ASync [SDo 0 1 [OpSpawn "spawn_w" (Some "a") None]; SDo 0 2 [OpSpawn "spawn_w" (Some "a") None]] in
  1 < List.length (actors s) /\ orphaned s 1 = true /\ orphaned s 2 = false /\ a_running (aget s 1) = true.
Proof. vm_compute. repeat split; auto. Qed.
(* any stop only ever removes entries from children maps and leaves ids, parents and spawn modes alone *)
Theorem C15_stop_only_removes_entries : forall eng i s p k j,
  dget (a_children (aget (stop eng i s) p)) k = Some j -> dget (a_children (aget s p)) k = Some j.
Proof. intros eng i s. exact (proj1 (stop_actor_shrink _ eng i s)). Qed.
Print Assumptions C15_stop_only_removes_entries.

(* REFUTED at HEAD (finding F30): the root spawns "a" twice under the same explicit id, then stops: the first child
   is still running and still registered - async engine, and sync engine when the first spawn was a blocking one *)
Theorem C15_stop_cascade_refuted_for_reused_id :
  forall eng atype, (eng, atype) = (AAsync, "spawn_w"%string) \/ (eng, atype) = (ASync, "spawn_blocking_w"%string) ->
  let s := run_actors eng [SDo 0 1 [OpSpawn atype (Some "a") (Some "sysA")]; SAdvance 100;
                           SDo 0 2 [OpSpawn "spawn_w" (Some "a") (Some "sysB")]; SAdvance 200; SStop 0; SAdvance 300] in
  a_parent (aget s 1) = Some 0 /\ a_running (aget s 0) = false /\ a_running (aget s 1) = true /\ dget (registry s) "sysA" = Some 1.
Proof. intros eng atype [H|H]; inversion H; subst; vm_compute; auto. Qed.
Print Assumptions C15_stop_cascade_refuted_for_reused_id.
(* same history, sync engine, first spawn thread-managed: the first child's runner stops it at its next poll (it is
   stopped before the parent is), but it is never taken out of the actor-system registry - not by the poll, not by
   the parent's stop() *)
Theorem C15_reused_id_threaded_child_stopped_but_registered :
  let h := [SDo 0 1 [OpSpawn "spawn_w" (Some "a") (Some "sysA")]; SAdvance 100;
            SDo 0 2 [OpSpawn "spawn_w" (Some "a") (Some "sysB")]; SAdvance 200] in
  let s1 := run_actors ASync h in
  let s2 := run_actors ASync (h ++ [SStop 0; SAdvance 300]) in
  a_running (aget s1 0) = true /\ a_running (aget s1 1) = false /\ a_running (aget s1 2) = true /\ dget (registry s1) "sysA" = Some 1 /\
  a_running (aget s2 0) = false /\ a_running (aget s2 2) = false /\ dget (registry s2) "sysA" = Some 1 /\ dget (registry s2) "sysB" = None.
Proof. vm_compute. repeat split; reflexivity. Qed.
Print Assumptions C15_reused_id_threaded_child_stopped_but_registered.

(* non-vacuity: prefix-related ids, an ambiguous key, a cancel that hits one of three pending sends, a stop cascade *)
Example C15_ex :
  let s1 := run_actors ASync [SDo 0 1 [OpSpawn "spawn_w" (Some "w1") None; OpSpawn "spawn_w" (Some "w10") None;
                                       OpSpawn "spawn_kid" None None; OpSpawn "spawn_kid" None None]] in
  resolve s1 0 "w1" = RActor 1 /\ resolve s1 0 "w10" = RActor 2 /\ resolve s1 0 "kid" = RAmbiguous /\ resolve s1 0 "w" = RActor 1
  /\ resolve s1 0 "ki" = RNone /\ resolve s1 1 "parent" = RActor 0 /\
  let s2 := run_actors ASync [SDo 0 1 [OpSpawn "spawn_w" (Some "a") None];
                              SDo 0 2 [OpSendTo "a" 2 150 (Some "s1"); OpSendTo "a" 4 150 (Some "s2"); OpSendTo "a" 6 150 None];
                              SAdvance 100; SDo 0 3 [OpCancel "s1"]; SAdvance 500] in
  rev (a_inbox (aget s2 1)) = [4; 6] /\
  let s3 := run_actors ASync [SDo 0 1 [OpSpawn "spawn_w" (Some "a") (Some "sysA")]; SDo 1 2 [OpSpawn "spawn_g" None (Some "sysG"); OpSendParent 2 150 None];
                              SDo 0 3 [OpStopChild "a"]; SAdvance 500] in
  map a_running (actors s3) = [true; false; false] /\ registry s3 = [] /\ a_inbox (aget s3 0) = [].
Proof. vm_compute. repeat split; reflexivity. Qed.
