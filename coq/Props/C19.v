(* C19 - Python-defined machines and discovered logic equal their JSON counterparts.  Statements only.
   Same certificate scheme as C17: the machine built through the class-based, functional or builder API and
   create_machine() of the config the definition denotes (written independently in harness/props/c19.py) are
   extracted as labelled trees and compared by the kernel; second builds, builds after the first result was mutated,
   and a second definition reusing the same State objects are compared the same way.  The theorems turn an empty
   `bad_pairs` answer into equality of every pair and equality into equal behaviour.
   The required-name clause of logic discovery is stated over the guard tree: the names a machine requires are the
   leaves of its guards - composite and stateIn guards themselves are not required.
   REFUTED at HEAD (finding F16): the DSL refers to states by bare name. *)
From XSM Require Import Model.Generic Proofs.GenericP.

Theorem C19_tree_equality_reflects : forall a b, gt_eqb a b = true <-> a = b.
Proof. exact gt_eqb_spec. Qed.
Print Assumptions C19_tree_equality_reflects.

Theorem C19_equal_machines_equal_runs : forall (Trace : Type) (run : gt -> Trace) m1 m2, gt_eqb m1 m2 = true -> run m1 = run m2.
Proof. exact @equal_trees_equal_behaviour. Qed.
Print Assumptions C19_equal_machines_equal_runs.

Theorem C19_batch_certificate : forall l, bad_pairs l = [] -> forall a b, In (a, b) l -> a = b.
Proof. exact bad_pairs_empty_all_equal. Qed.
Print Assumptions C19_batch_certificate.

(* independence of builds: if two builds both equal the denoted machine, they equal each other *)
Theorem C19_builds_agree : forall d b1 b2, gt_eqb d b1 = true -> gt_eqb d b2 = true -> gt_eqb b1 b2 = true.
Proof.
  intros d b1 b2 H1 H2. apply gt_eqb_spec in H1, H2. subst. apply gt_eqb_refl.
Qed.
Print Assumptions C19_builds_agree.

(* the names a guard requires: its leaves; composite (and / or / not) and stateIn nodes require nothing themselves *)
Definition is_builtin_guard (ty : string) : bool :=
  String.eqb ty "and" || String.eqb ty "or" || String.eqb ty "not" || String.eqb ty "stateIn".
Fixpoint guard_leaves (fuel : nat) (g : gt) : list string :=
  match fuel with
  | 0 => []
  | S f =>
    match g with
    | G "guard" [G ty _; _; G "children" kids] =>
        if is_builtin_guard ty then List.concat (map (guard_leaves f) kids) else [ty]
    | _ => []
    end
  end.
Example C19_required_leaves :
  guard_leaves 9 (G "guard" [G "and" []; G "null" []; G "children" [
                     G "guard" [G "isReady" []; G "null" []; G "children" []];
                     G "guard" [G "not" []; G "null" []; G "children" [G "guard" [G "isBlocked" []; G "null" []; G "children" []]]]]])
  = ["isReady"; "isBlocked"].
Proof. reflexivity. Qed.

(* REFUTED at HEAD (finding F16): the transition a.to(<State b.deep>) of findings/f16_dsl_bare_names.py, as denoted
   and as built *)
Definition f16_denoted : gt := G "trans" [G "DIVE" []; G "m2.b.deep" []; G "noguard" []; G "actions" []; G "noreenter" []; G "allowed" []].
Definition f16_built : gt := G "trans" [G "DIVE" []; G "<unresolved:deep>" []; G "noguard" []; G "actions" []; G "noreenter" []; G "allowed" []].
Theorem C19_head_dsl_refuted : gt_eqb f16_denoted f16_built = false.
Proof. vm_compute. reflexivity. Qed.
Print Assumptions C19_head_dsl_refuted.
