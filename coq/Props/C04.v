(* C04 - run-to-completion and lossless, ordered event processing.  Statements only.
   Model: Macro.drain (SyncInterpreter._process_event_queue), sync_send, async_step (_run_event_loop body).
   Tied to the code by K-macro with bursts (send_events), raising actions and start-up raises (harness/props/c04.py). *)
From XSM Require Import Model.Macro Proofs.FrameP Proofs.QueueP.
From XSM Require Import Model.TreeLib Gen.GenGeom Proofs.SettleBridge.

(* processing an event (with all its eventless follow-ups) never takes anything out of the queue: it only appends *)
Theorem C04_processing_only_appends : forall eng m ev s,
  exists ext, s_queue (fst (macrostep eng m ev s)) = s_queue s ++ ext.
Proof. exact macrostep_appends. Qed.
Print Assumptions C04_processing_only_appends.

(* ... and never starts another event: events raised or sent during processing wait for it to finish *)
Theorem C04_not_reentrant : forall eng m ev s, begins (fst (macrostep eng m ev s)) = begins s.
Proof. exact macrostep_no_begin. Qed.
Print Assumptions C04_not_reentrant.

(* the sync drain loop, for EVERY machine and state: the events begun are, in order and each exactly once, a prefix
   of (the queue as it was ++ the events that processing appended); the remainder is still queued - unless the
   per-drain bound was exhausted with events pending, the only case in which anything is discarded *)
Theorem C04_sync_fifo_once : forall n eng m s,
  exists done_ rest raised,
    s_queue s ++ raised = done_ ++ rest
    /\ begins (fst (drain n eng m s)) = begins s ++ map ev_id done_
    /\ List.length done_ <= n
    /\ (s_queue (fst (drain n eng m s)) = rest \/ (List.length done_ = n /\ rest <> [] /\ s_queue (fst (drain n eng m s)) = [])).
Proof. exact drain_fifo. Qed.
Print Assumptions C04_sync_fifo_once.

Theorem C04_sync_send_fifo : forall m ev s,
  s_status s = Running ->
  exists done_ rest raised,
    (s_queue s ++ [ev]) ++ raised = done_ ++ rest
    /\ begins (fst (sync_send m ev s)) = begins s ++ map ev_id done_
    /\ List.length done_ <= m_max_iter m.
Proof. exact sync_send_fifo. Qed.
Print Assumptions C04_sync_send_fifo.

(* the async consumer begins exactly one event per iteration and nothing inside it *)
Theorem C04_async_one_at_a_time : forall m ev s,
  s_raise_depth s <= m_max_iter m -> begins (async_step m ev s) = begins s ++ [ev_id ev].
Proof. exact async_step_one_begin. Qed.
Print Assumptions C04_async_one_at_a_time.

(* What does NOT hold at HEAD (recorded findings, see known_findings.json): "nothing is discarded" - the last
   disjunct of C04_sync_fifo_once is reachable with events sent from outside (F11), and async_step drops whichever
   event is dequeued while the raise depth exceeds the bound (F23): *)
Definition n_ id par k ch ini d on : node := Build_node id par k ch ini d [] [] on None [] [] None None.
Definition ex_m : machine := Build_machine
  [ n_ "m" None KCompound [1] (Some 1) 0 [];
    n_ "m.a" (Some 0) KAtomic [] None 1 [("T"%string, [Build_trans 1 1 "T" TNone None [AMark 1] false false])] ] 2 None.
Definition evT (tag : nat) : event := Build_event "T" EPlain tag.
Theorem C04_sync_external_discard_refuted :
  let s0 := fst (sync_start ex_m (st_init [])) in
  begins (fst (sync_send_events ex_m [evT 1; evT 2; evT 3; evT 4] s0)) = [("T"%string, 1); ("T"%string, 2)].
Proof. vm_compute. reflexivity. Qed.
Print Assumptions C04_sync_external_discard_refuted.
(* TIE T: the drain loop these theorems are about is the loop of SyncInterpreter._process_event_queue - its shape (re-entrancy
   guard; while the queue is not empty: count, cut when the count exceeds maxIterations, pop, hooks, process the event, settle)
   is checked on every run and its cut test re-translated from the current source; on explicit fuel it is the model's `drain` *)
Theorem C04_drain_loop_is_the_source : forall eng m s,
  drain_src GenGeom.drain_cut_sync (S (m_max_iter m)) 0 (m_max_iter m) eng m s = drain (m_max_iter m) eng m s.
Proof. exact drain_sync_bridge. Qed.
Print Assumptions C04_drain_loop_is_the_source.

