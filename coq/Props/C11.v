(* C11 - history states restore the last active sub-configuration.  Statements only.
   Model: Exec.record_history (_record_history), resolve_history (_resolve_history_target), Snap.persist / restore.
   Tied to the code by K-macro on history machines (shallow / deep, compound / parallel parents, nested, with default
   targets; never / once / repeatedly visited) and by C12's snapshot check (harness/props/c11.py).
   These theorems say WHAT is remembered and WHAT a history target expands to; C11_restored_states_active: every
   state the target expands to is active after the transition; C11_restore_is_legal: the configuration the transition
   leaves is legal (so exactly one leaf per region: the restored one), and what is remembered is always taken from a legal
   configuration (C11_store_consistent) - Proofs/HistoryP.v.
   PARTIAL: 'each restored state is entered once' is the tree characterisation of the entered set (C01_tree_entry_legal)
   plus the monitor; that the restored sub-configuration equals the remembered one state by state is decided by the
   correspondence. *)
From XSM Require Import Model.Macro Model.Snap Proofs.HistP Proofs.LegalP Proofs.DescentP Proofs.HistoryP Proofs.IdP Proofs.GeomBridge Model.TreeLib Gen.GenGeom.

(* what is recorded is the active sub-configuration at the LAST exit that involved the parent: each time states are
   about to be exited, every history-owning state on their ancestor chains that has active proper descendants gets
   exactly those descendants (as they are before anything is removed); nothing else changes *)
Theorem C11_record_is_last_exit : forall m exiting s p,
  hist_get (s_hist (record_history m exiting s)) p =
  if existsb (Nat.eqb p) (dedup (List.concat (map (anc_self m) exiting))) && records m (s_cfg s) p
  then remembered m (s_cfg s) p else hist_get (s_hist s) p.
Proof. exact record_history_spec. Qed.
Print Assumptions C11_record_is_last_exit.

(* never exited: the history state's default target, else the parent's normal entry - the initial child of a
   compound parent, (the regions of) a parallel parent *)
Theorem C11_unvisited_default : forall m H h p t,
  parent m h = Some p -> hist_get H p = [] -> n_hist_default (nd m h) = Some t -> resolve_history m H h = [t].
Proof. exact resolve_unvisited_default. Qed.
Print Assumptions C11_unvisited_default.
Theorem C11_unvisited_initial : forall m H h p i,
  parent m h = Some p -> hist_get H p = [] -> n_hist_default (nd m h) = None -> n_initial (nd m p) = Some i ->
  resolve_history m H h = [i].
Proof. exact resolve_unvisited_initial. Qed.
Print Assumptions C11_unvisited_initial.
Theorem C11_unvisited_parallel : forall m H h p,
  parent m h = Some p -> hist_get H p = [] -> n_hist_default (nd m h) = None -> n_initial (nd m p) = None ->
  is_parallel m p = true -> resolve_history m H h = [p].
Proof. exact resolve_unvisited_parallel. Qed.
Print Assumptions C11_unvisited_parallel.

(* visited: deep history expands to exactly the remembered leaves, shallow history to the remembered child(ren) of
   the parent (whose own initial descent then applies) *)
Theorem C11_deep : forall m H h p x rest,
  parent m h = Some p -> hist_get H p = x :: rest -> kind_of m h = KHistory true ->
  resolve_history m H h = match filter (is_leaf m) (x :: rest) with [] => x :: rest | l => l end.
Proof. exact resolve_deep. Qed.
Print Assumptions C11_deep.
Theorem C11_shallow : forall m H h p x rest,
  parent m h = Some p -> hist_get H p = x :: rest -> kind_of m h = KHistory false ->
  resolve_history m H h =
  match filter (fun n => match parent m n with Some q => Nat.eqb q p | None => false end) (x :: rest) with
  | [] => x :: rest | l => l end.
Proof. exact resolve_shallow. Qed.
Print Assumptions C11_shallow.

(* every state the history target expands to is active when the transition completes ... *)
Theorem C11_restored_states_active : forall m, wf m = true -> forall eng pr t tgt ev s0 s1 y,
  exec_external eng pr m t tgt ev s0 = (s1, None) -> is_history m tgt = true ->
  In y (resolve_history m (s_hist s0) tgt) -> y < size m -> In (find_domain m (t_src t) tgt) (ancestors m y) ->
  In y (s_cfg s1).
Proof. exact history_targets_active. Qed.
Print Assumptions C11_restored_states_active.

(* ... in a LEGAL configuration (one active child per compound state, every region of a parallel state: the restored
   states and nothing beside them in their regions) ... *)
Theorem C11_restore_is_legal : forall m, wf m = true -> good_initials m = true -> forall eng pr t tgt ev s0 s1,
  Legal m (s_cfg s0) -> HistOK m (s_hist s0) -> In (t_src t) (s_cfg s0) ->
  tgt < size m -> is_history m tgt = true -> hist_static_ok m tgt ->
  exec_external eng pr m t tgt ev s0 = (s1, None) -> Legal m (s_cfg s1).
Proof. exact history_transition_legal. Qed.
Print Assumptions C11_restore_is_legal.

(* ... and what is remembered always comes from a legal configuration *)
Theorem C11_store_consistent : forall m l s,
  Legal m (s_cfg s) -> HistOK m (s_hist s) -> HistOK m (s_hist (record_history m l s)).
Proof. exact record_history_histok. Qed.
Print Assumptions C11_store_consistent.

(* the same whether the history was recorded in this interpreter or came back from a snapshot *)
Theorem C11_snapshot_same : forall m s r,
  Forall (fun e => snd e <> []) (s_hist s) -> restore m (persist m s) = Some r -> s_hist r = s_hist s.
Proof. exact snapshot_keeps_history. Qed.
Print Assumptions C11_snapshot_same.

(* TIE T: what a history target expands to (_resolve_history_target) and what is remembered when states are exited
   (_record_history), as RE-TRANSLATED from the current source on every run (Gen/GenGeom.v), are the model functions
   `resolve_history` and `record_history` the theorems above are stated over - the former as a function, the latter
   entry by entry of the history store (the source walks its candidate set in an order the model does not fix) *)
Theorem C11_resolve_is_the_source : forall m H h, GenGeom.resolve_history_target m H h = resolve_history m H h.
Proof. exact resolve_history_bridge. Qed.
Print Assumptions C11_resolve_is_the_source.
Theorem C11_record_is_the_source : forall m, ancestry_side_ok m = true -> forall exiting s p,
  (forall x, In x (s_cfg s) -> x < size m) ->
  hist_get (GenGeom.record_history_src m (s_cfg s) (s_hist s) exiting) p = hist_get (s_hist (record_history m exiting s)) p.
Proof. exact record_history_bridge. Qed.
Print Assumptions C11_record_is_the_source.

(* non-vacuity: a deep history child of a parallel state *)
Definition n_ id par k ch ini d : node := Build_node id par k ch ini d [] [] [] None [] [] None None.
Definition ex_m : machine := Build_machine
  [ n_ "m" None KCompound [1; 8] (Some 1) 0;
    n_ "m.p" (Some 0) KParallel [2; 5; 7] None 1;
    n_ "m.p.r1" (Some 1) KCompound [3; 4] (Some 3) 2;
    n_ "m.p.r1.x" (Some 2) KAtomic [] None 3;
    n_ "m.p.r1.y" (Some 2) KAtomic [] None 3;
    n_ "m.p.r2" (Some 1) KCompound [6] (Some 6) 2;
    n_ "m.p.r2.z" (Some 5) KAtomic [] None 3;
    n_ "m.p.h" (Some 1) (KHistory true) [] None 2;
    n_ "m.o" (Some 0) KAtomic [] None 1 ] 10 None.
Example C11_ex :
  let s := mk [0; 1; 2; 4; 5; 6] [] [] [] Running None [] 0 0 [] 0 in
  let s' := record_history ex_m [6; 4; 5; 2; 1] s in
  hist_get (s_hist s') 1 = [2; 5; 4; 6] /\ resolve_history ex_m (s_hist s') 7 = [4; 6] /\
  resolve_history ex_m [] 7 = [1] /\
  ancestry_side_ok ex_m = true /\
  hist_get (GenGeom.record_history_src ex_m (s_cfg s) (s_hist s) [6; 4; 5; 2; 1]) 1 = [2; 5; 4; 6] /\
  GenGeom.resolve_history_target ex_m (s_hist s') 7 = [4; 6].
Proof. vm_compute. repeat split; reflexivity. Qed.
