(* C13 - every macrostep terminates and never starves the host.  Statements only.
   Every function of the model is total (Coq accepts no other), and the loops the CODE bounds recurse on the code's
   own counters, so "start() and send() return" is carried by the definitions themselves; the theorems below say
   what the bounds are and when they bite.  The async consumer loop, which the code does not bound, carries explicit
   fuel and an out-of-fuel flag: it cannot be made to terminate by construction.
   Tied to the code by K-macro on self-feeding machines at / below / above maxIterations (harness/props/c13.py). *)
From XSM Require Import Model.Macro Proofs.FrameP Proofs.QueueP.
From XSM Require Import Model.TreeLib Gen.GenGeom Proofs.SettleBridge.

(* one drain (one send() / send_events() / the drain at start) begins at most maxIterations events *)
Theorem C13_drain_bounded : forall n eng m s,
  List.length (begins (fst (drain n eng m s))) <= List.length (begins s) + n.
Proof. exact drain_bounded. Qed.
Print Assumptions C13_drain_bounded.

(* the eventless (always) loop takes at most maxIterations steps ... *)
Theorem C13_settle_bounded : forall n eng pr m s, settle_steps n eng pr m s <= n.
Proof. exact settle_steps_le. Qed.
Print Assumptions C13_settle_bounded.

(* ... a chain shorter than the bound runs to its natural end and is not cut: the loop stops, unchanged, as soon
   as no eventless transition is selected, whatever is left of the counter ... *)
Theorem C13_short_chains_complete : forall n eng pr m s ts,
  select m (s_cfg s) (s_ctx s) transient_event = Some ts ->
  existsb (fun t => String.eqb (t_event t) "") ts = false ->
  settle (S n) eng pr m s = (s, None).
Proof. exact settle_stable. Qed.
Print Assumptions C13_short_chains_complete.

(* ... and the cut, when the counter is used up, is recorded (the error log) and is not an error of send() *)
Theorem C13_settle_cut : forall eng pr m s, settle 0 eng pr m s = (logo (OCut 1) s, None).
Proof. exact settle_cut. Qed.
Print Assumptions C13_settle_cut.

(* async: once the raise chain exceeds maxIterations the next dequeued event is dropped and the chain counter reset;
   nothing else changes *)
Theorem C13_async_raise_cut : forall m ev s,
  m_max_iter m < s_raise_depth s -> async_step m ev s = logo (OCut 2) (with_rd 0 s).
Proof. exact async_step_cut. Qed.
Print Assumptions C13_async_raise_cut.

(* the bound never discards events unless it is exhausted - but when it is, events sent from outside ARE discarded
   (recorded finding F11; see Props/C04.v C04_sync_external_discard_refuted).  And the async engine does not bound a
   chain with fan-out >= 2 (recorded finding F24): with maxIterations = 2 the consumer is still busy after 300
   iterations on an action that raises its own trigger twice. *)
Definition n_ id par k ch ini d on : node := Build_node id par k ch ini d [] [] on None [] [] None None.
Definition storm : machine := Build_machine
  [ n_ "m" None KCompound [1] (Some 1) 0 [];
    n_ "m.a" (Some 0) KAtomic [] None 1
       [("GO"%string, [Build_trans 1 1 "GO" TNone None [ARaise "GO" 1; ARaise "GO" 1] false false])] ] 2 None.
Theorem C13_async_fanout_refuted :
  let s0 := fst (async_loop 50 storm (fst (async_start storm (st_init [])))) in
  snd (async_loop 300 storm (async_send (Build_event "GO" EPlain 1) s0)) = true.
Proof. vm_compute. reflexivity. Qed.
Print Assumptions C13_async_fanout_refuted.

(* the sync engine does cut the same storm *)
(* TIE T for the settle loop: the loop of _process_transient_transitions (sync engine) and _settle_transient_transitions
   (asyncio engine) has its SHAPE checked on every run (count a microstep; cut when the counter exceeds maxIterations; select for
   the empty event type; go on while something eventless is selected) and its two TESTS re-translated from the current source
   (Gen/GenGeom.v).  That loop, on explicit fuel around the model's select / process_event (`settle_src`), IS the model's `settle`,
   which recurses on the code's own counter - the bound theorems above are about the loop as the source writes it *)
Theorem C13_settle_loop_is_the_source_sync : forall eng pr m s,
  settle_src GenGeom.settle_cut_sync GenGeom.settle_goes_on_sync (S (m_max_iter m)) 0 (m_max_iter m) eng pr m s
  = settle (m_max_iter m) eng pr m s.
Proof. exact settle_sync_bridge. Qed.
Print Assumptions C13_settle_loop_is_the_source_sync.
Theorem C13_settle_loop_is_the_source_async : forall eng pr m s,
  settle_src GenGeom.settle_cut_async GenGeom.settle_goes_on_async (S (m_max_iter m)) 0 (m_max_iter m) eng pr m s
  = settle (m_max_iter m) eng pr m s.
Proof. exact settle_async_bridge. Qed.
Print Assumptions C13_settle_loop_is_the_source_async.

(* ... and the drain loop of the sync engine (_process_event_queue): shape checked on every run (re-entrancy guard; while the
   queue is not empty: count, cut when the count exceeds maxIterations - the queue is cleared -, pop, on_event_received hooks,
   process the event, settle), cut test re-translated; that loop is the model's `drain` *)
Theorem C13_drain_loop_is_the_source : forall eng m s,
  drain_src GenGeom.drain_cut_sync (S (m_max_iter m)) 0 (m_max_iter m) eng m s = drain (m_max_iter m) eng m s.
Proof. exact drain_sync_bridge. Qed.
Print Assumptions C13_drain_loop_is_the_source.

(* ... and one iteration of the consumer loop of the asyncio engine (_run_event_loop): shape checked on every run (dequeue;
   chain breaker: log, reset the counter, drop the event; hooks; process the event and settle with the counter remembered; reset
   the counter if the step raised nothing; an exception of the step is logged and the loop goes on), both tests re-translated *)
Theorem C13_async_step_is_the_source : forall m ev s,
  async_step_src GenGeom.async_chain_cut GenGeom.async_chain_reset m ev s = async_step m ev s.
Proof. exact async_step_bridge. Qed.
Print Assumptions C13_async_step_is_the_source.

Example C13_sync_storm_is_cut :
  let s0 := fst (sync_start storm (st_init [])) in
  s_queue (fst (sync_send storm (Build_event "GO" EPlain 1) s0)) = [] /\
  In (OCut 0) (s_log (fst (sync_send storm (Build_event "GO" EPlain 1) s0))).
Proof. vm_compute. auto. Qed.
