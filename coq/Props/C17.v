(* C17 - code generator: the output rebuilds the source machine exactly, or nothing is written.  Statements only.
   A Coq model of the string-templating generator is out of reach; what is proved is the step from 'same extracted
   structure' to 'same behaviour', and the comparison itself is executed by the kernel: for every CLI run that exits 0
   the machine built by the generated module (in a fresh process) and create_machine(json) are extracted as labelled
   trees (harness/tomodel.py: kinds, initial / history settings, RESOLVED targets, full guard trees with params,
   actions with params, delays, invoke definitions with ids and handlers, tags, meta, context) and
   `bad_pairs [(source, generated); ...]` is evaluated with vm_compute - by C17_batch_certificate an empty answer
   means every pair is EQUAL, by C17_equal_machines_equal_runs equal trees behave alike for every event sequence.
   Exit status vs files written, valid Python, byte-identical regeneration under another hash seed, a silent --check,
   no import side effects, no JSON string executed as code and complete logic binding are harness checks, not theorems.
   REFUTED at HEAD (findings F17, F17b): the generator exits 0 for machines whose guards it does not reproduce. *)
From XSM Require Import Model.Generic Proofs.GenericP.

Theorem C17_tree_equality_reflects : forall a b, gt_eqb a b = true <-> a = b.
Proof. exact gt_eqb_spec. Qed.
Print Assumptions C17_tree_equality_reflects.

Theorem C17_equal_machines_equal_runs : forall (Trace : Type) (run : gt -> Trace) m1 m2, gt_eqb m1 m2 = true -> run m1 = run m2.
Proof. exact @equal_trees_equal_behaviour. Qed.
Print Assumptions C17_equal_machines_equal_runs.

Theorem C17_batch_certificate : forall l, bad_pairs l = [] -> forall a b, In (a, b) l -> a = b.
Proof. exact bad_pairs_empty_all_equal. Qed.
Print Assumptions C17_batch_certificate.

Theorem C17_comparison_symmetric : forall a b, gt_eqb a b = gt_eqb b a.
Proof. exact gt_eqb_sym. Qed.
Print Assumptions C17_comparison_symmetric.

(* REFUTED at HEAD (finding F17): the transition GO of findings/f17_generated_guards.py as extracted from
   create_machine(json) and from the module `xsm generate-template -t pythonic-builder` wrote with exit status 0 *)
Definition f17_source : gt :=
  G "trans" [G "GO" []; G "m.b" []; G "guard" [G "limit" []; G "{""max"": 3}" []; G "children" []]; G "actions" []; G "noreenter" []; G "allowed" []].
Definition f17_generated : gt :=
  G "trans" [G "GO" []; G "m.b" []; G "guard" [G "limit" []; G "null" []; G "children" []]; G "actions" []; G "noreenter" []; G "allowed" []].
Theorem C17_head_generator_refuted : gt_eqb f17_source f17_generated = false /\ gt_diff 10 f17_source f17_generated = Some [2; 1].
Proof. vm_compute. split; reflexivity. Qed.
Print Assumptions C17_head_generator_refuted.

(* non-vacuity *)
Example C17_ex :
  bad_pairs [(f17_source, f17_source); (f17_source, f17_generated); (f17_generated, f17_generated)] = [1].
Proof. vm_compute. reflexivity. Qed.
