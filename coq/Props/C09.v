(* C09 - invoked services: one start per activation, one outcome, no zombie results.  Statements only.
   Model: start_service (per invoke, at _schedule_state_tasks), PSvcStart / PSvc activation records, deliver.
   Tied to the code by K-macro on service machines on the virtual clock, both engines (harness/props/c09.py).
   PARTIAL: bookkeeping proved; "a result of an exited activation is discarded" is REFUTED for a completion event
   that is already queued (finding F9); a rolled-back entry leaves its services running (finding F19). *)
From XSM Require Import Model.Macro Proofs.TimerP Proofs.LifeP.
From XSM Require Import Model.TreeLib Gen.GenGeom Proofs.SkeletonBridge Proofs.LifeBridge Proofs.ServiceBridge.

(* a service that is referenced but not registered is fatal at entry *)
Theorem C09_missing_service_is_fatal : forall eng x i s,
  i_src i = 0 -> start_service eng x i s = (s, Some EImplMissing).
Proof. intros eng x i s H. unfold start_service. now rewrite H. Qed.
Print Assumptions C09_missing_service_is_fatal.

(* a finished service delivers exactly one completion event: done.invoke.<id> if it returned, error.platform.<id>
   if it raised ... *)
Theorem C09_one_outcome : forall eng iid ok val handled p s,
  p_kind p = PSvc iid ok val handled -> accepts eng (s_status s) = true ->
  s_queue (deliver eng p s) = s_queue s ++ [svc_event iid ok].
Proof. exact completion_delivers. Qed.
Print Assumptions C09_one_outcome.

(* ... a failure with no onError handler puts the interpreter into the error status ... *)
Theorem C09_unhandled_error_status : forall eng iid val p s,
  p_kind p = PSvc iid false val false -> s_status s = Running -> s_status (deliver eng p s) = Errored.
Proof. exact unhandled_failure_fails. Qed.
Print Assumptions C09_unhandled_error_status.

(* ... and one with a handler does not *)
Theorem C09_handled_error_keeps_running : forall eng iid val p s,
  p_kind p = PSvc iid false val true -> s_status (deliver eng p s) = s_status s.
Proof. exact handled_failure_keeps_running. Qed.
Print Assumptions C09_handled_error_keeps_running.

(* TIE T: _has_error_handler, the test both engines consult before they put the machine into the error status, re-translated from
   the current source on every build, is the `handled` flag every invoked service is armed with ... *)
Theorem C09_handled_test_is_the_source : forall m i,
  has_error_handler_src m i = match i_onerror i with [] => false | _ => true end.
Proof. exact has_error_handler_bridge. Qed.
Print Assumptions C09_handled_test_is_the_source.

Theorem C09_async_service_carries_the_source_test : forall m x i s, Nat.eqb (i_src i) 0 = false ->
  start_service Async x i s
  = lift (fun s => arm x (s_now s) (PSvcStart (i_id i) (i_dur i) (i_ok i) (i_val i) (has_error_handler_src m i) (i_machine i)) s) s.
Proof. exact start_service_async_flag_is_the_source. Qed.
Print Assumptions C09_async_service_carries_the_source_test.

Theorem C09_sync_service_carries_the_source_test : forall m x i s, Nat.eqb (i_src i) 0 = false ->
  start_service Sync x i s
  = (lift (logo (OSvc (i_id i))) ;;
     lift (fun s => deliver Sync {| p_owner := x; p_due := s_now s; p_seq := 0;
                                    p_kind := PSvc (i_id i) (i_ok i) (i_val i) (has_error_handler_src m i) |} s)) s.
Proof. exact start_service_sync_flag_is_the_source. Qed.
Print Assumptions C09_sync_service_carries_the_source_test.

(* ... so: a service that fails, invoked by a definition for which the SOURCE's test says 'no handler', ends the machine in error *)
Theorem C09_unhandled_per_source_test : forall eng m i val p s,
  has_error_handler_src m i = false -> p_kind p = PSvc (i_id i) false val (has_error_handler_src m i) ->
  s_status s = Running -> s_status (deliver eng p s) = Errored.
Proof. intros eng m i val p s H Hk Hs. rewrite H in Hk. exact (unhandled_failure_fails eng (i_id i) val p s Hk Hs). Qed.
Print Assumptions C09_unhandled_per_source_test.

(* once the state is exited no task started for it remains; once the interpreter is stopped none remains at all *)
Theorem C09_exit_cancels : forall x s,
  (forall p, In p (s_pending (fst (cancel x s))) <-> In p (s_pending s) /\ p_owner p <> x) /\ snd (cancel x s) = None.
Proof. exact cancel_spec. Qed.
Print Assumptions C09_exit_cancels.
Theorem C09_stop_cancels : forall s,
  s_status s <> Uninit -> s_status s <> Stopped -> s_pending (stop_interp s) = [] /\ s_status (stop_interp s) = Stopped.
Proof. exact stop_releases. Qed.
Print Assumptions C09_stop_cancels.

(* REFUTED at HEAD (finding F9): the completion event is matched by invoke id and type only.  State work invokes
   job (50 ms); while a slow action (80 ms) runs with LEAVE and BACK queued behind it the job finishes and its
   done.invoke.job queues behind them; work is left and re-entered at t = 80 (a second job starts), and the stale
   completion of the FIRST job then drives onDone of the new activation at once. *)
Definition n_ id par k ch ini d on inv : node := Build_node id par k ch ini d [] [] on None [] inv None None.
Definition tr i s e tg : trans := Build_trans i s e (TState tg) None [] false false.
Definition f9 : machine := Build_machine
  [ n_ "m" None KCompound [1; 2; 3] (Some 1) 0
       [("SLOW"%string, [Build_trans 1 0 "SLOW" TNone None [ASlow 1 80] false false]);
        ("LEAVE"%string, [tr 2 0 "LEAVE" 2]); ("BACK"%string, [tr 3 0 "BACK" 1])] [];
    n_ "m.work" (Some 0) KAtomic [] None 1 [] [Build_invoke "job" 1 [tr 4 1 "done.invoke.job" 3] [] 50 true 7%Z false];
    n_ "m.idle" (Some 0) KAtomic [] None 1 [] [];
    n_ "m.finished" (Some 0) KAtomic [] None 1 [] [] ] 10 None.
Definition e_ ty : event := Build_event ty EPlain 0.
Theorem C09_current_activation_only_refuted :
  let s00 := fst (async_loop 50 f9 (fst (async_start f9 (st_init [])))) in
  let s0 := fst (advance_idle 20 Async f9 1 s00) in                          (* the first job is running *)
  let s1 := fst (async_loop 50 f9 (fold_left (fun s ev => async_send ev s) [e_ "SLOW"; e_ "LEAVE"; e_ "BACK"] s0)) in
  sort_nat (s_cfg s1) = [0; 3] /\ s_now s1 = 81.       (* onDone taken at t = 81: the second job (50 ms) started at 81 *)
Proof. vm_compute. auto. Qed.
Print Assumptions C09_current_activation_only_refuted.

(* TIE T for the ORDER OF EFFECTS: the effect skeletons of _exit_states and _enter_states are extracted from BOTH engines' copies
   in the current source on every run (Gen/GenGeom.v; for _enter_states every path through the loop body must agree with one
   total order of the five effects) and, interpreted over the model's own effect primitives, ARE the model's exit_states and
   enter_one - so "a state's tasks are cancelled before its exit actions run", "exit actions before the state leaves the
   configuration", "entry actions before the default descent", "where the state's tasks are scheduled relative to the
   descent" are read off the source, per engine *)
Theorem C09_exit_order_is_the_source_async : forall pr m l ev s,
  run_exit_skeleton GenGeom.exit_skeleton_async Async pr m l ev s = exit_states Async pr m l ev s.
Proof. exact exit_skeleton_async_bridge. Qed.
Print Assumptions C09_exit_order_is_the_source_async.
Theorem C09_exit_order_is_the_source_sync : forall eng pr m l ev s, eng <> Async ->
  run_exit_skeleton GenGeom.exit_skeleton_sync eng pr m l ev s = exit_states eng pr m l ev s.
Proof. exact exit_skeleton_sync_bridge. Qed.
Print Assumptions C09_exit_order_is_the_source_sync.

(* "a failure with no onError handler puts the interpreter into the error status": _fail (shared by both engines) acts unless
   the status is neither running nor uninitialized - the test it starts with, re-translated from the current source *)
Theorem C09_fail_test_is_the_source : forall m s,
  (GenGeom.fail_ignored m (status_name (s_status s)) = true -> fail_machine s = s) /\
  (GenGeom.fail_ignored m (status_name (s_status s)) = false -> s_status (fail_machine s) = Errored).
Proof. exact fail_ignored_bridge. Qed.
Print Assumptions C09_fail_test_is_the_source.

(* what is scheduled when a state is entered - first one timer per delayed transition in the order of the `after` map, then the
   invoked services in order, a service that is not registered raising ImplementationMissingError before it is started - is read
   off _schedule_state_tasks (shared by both engines) on every run and is the model's sched_run *)
Theorem C09_schedule_is_the_source : forall eng m x s,
  run_schedule_skeleton GenGeom.schedule_skeleton eng m x s = sched_run eng m x s.
Proof. exact schedule_skeleton_bridge. Qed.
Print Assumptions C09_schedule_is_the_source.


