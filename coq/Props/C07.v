(* C07 - failure containment and transition atomicity.  Statements only.
   Model: Exec.run_actions / exec_actions (_execute_actions of both engines), Exec.exec_external (the
   exit -> actions -> enter transaction with rollback).  Tied to the code by K-macro on machines with failing /
   missing / raising-callback actions, missing guards and unresolvable targets, with and without every hook,
   subscriber and emit listener raising (harness/props/c07.py). *)
From XSM Require Import Model.Macro Proofs.StepP Proofs.FaultP.

(* An exception raised by a user action skips only the remainder of THAT list: what follows the failing
   action in the list is irrelevant ... *)
Theorem C07_fault_skips_only_the_rest : forall eng pr pre k post ev s,
  run_actions eng pr (pre ++ AFail k :: post) ev s = run_actions eng pr (pre ++ [AFail k]) ev s.
Proof. exact fail_skips_rest. Qed.
Print Assumptions C07_fault_skips_only_the_rest.

(* ... and the run IS the fault-free run of the list truncated after the failing action, plus the
   on_action_error notification (OActErr); nothing is raised to the caller *)
Theorem C07_action_fault_is_truncation : forall eng pr pre k post ev s,
  runs_through pre = true ->
  run_actions eng pr (pre ++ AFail k :: post) ev s =
  (logo (OActErr k) (fst (run_actions eng pr (pre ++ [AMark k]) ev s)), None).
Proof. exact fail_is_truncation. Qed.
Print Assumptions C07_action_fault_is_truncation.

(* the same for a built-in action whose callback raises (it has no effect of its own) *)
Theorem C07_builtin_fault_is_truncation : forall eng pr pre k post ev s,
  runs_through pre = true ->
  run_actions eng pr (pre ++ ABadBuiltin k :: post) ev s =
  (logo (OActErr k) (fst (run_actions eng pr pre ev s)), None).
Proof. exact bad_builtin_is_truncation. Qed.
Print Assumptions C07_builtin_fault_is_truncation.

(* no action list, faulty or not, touches the configuration or the history *)
Theorem C07_actions_keep_configuration : forall eng pr l ev s,
  s_cfg (fst (exec_actions eng pr l ev s)) = s_cfg s /\ s_hist (fst (exec_actions eng pr l ev s)) = s_hist s.
Proof. exact actions_keep_configuration. Qed.
Print Assumptions C07_actions_keep_configuration.

(* an error that aborts a transition midway (missing action or service, ...) leaves the configuration
   exactly as it was before that transition, whatever had been exited or entered *)
Theorem C07_atomic : forall eng pr m t tgt ev s0 s2 e,
  exec_external eng pr m t tgt ev s0 = (s2, Some e) -> s_cfg s2 = s_cfg s0.
Proof. exact abort_restores_configuration. Qed.
Print Assumptions C07_atomic.

(* hooks, subscribers and listeners have no effect in the model by construction: for them the assurance is
   the correspondence run under injected hook faults, not a theorem (said in DESIGN.md section 8) *)

(* non-vacuity *)
Example C07_ex :
  let acts := [AMark 1; AAssign 0 5%Z; AFail 2; AMark 3; AAssign 0 9%Z] in
  let r := run_actions Sync true acts (Build_event "E" EPlain 7) (st_init []) in
  runs_through [AMark 1; AAssign 0 5%Z] = true /\
  snd r = None /\ ctx_get (s_ctx (fst r)) 0 = 5%Z /\
  rev (s_log (fst r)) = [OAct 1 "E" 7; OAct 2 "E" 7; OActErr 2].
Proof. vm_compute. auto. Qed.
