(* C06 - guards gate transitions exactly.  Statements only.
   geval is BaseInterpreter._is_guard_satisfied over the Recorder guard
   language (context predicates incl. parameterised ones, raising and
   missing predicates, stateIn, and / or / not); None = ImplementationMissingError.
   Tied to the code by the K-macro correspondence on exhaustively
   enumerated formulas (harness/props/c06.py). *)
From XSM Require Import Model.Select Proofs.GuardP Proofs.SelectP Model.TreeLib Gen.GenGuard Proofs.GuardBridge Gen.GenStateIn Proofs.StateInBridge.

(* and / or / not have their ordinary boolean meaning at ANY nesting depth;
   a raising predicate counts as false *)
Theorem C06_eval_bool : forall m C cx g,
  no_missing g = true -> geval m C cx g = Some (gden m C cx g).
Proof. exact geval_bool. Qed.
Print Assumptions C06_eval_bool.

Theorem C06_raise_is_false : forall m C cx k, geval m C cx (GRaises k) = Some false.
Proof. exact geval_raises. Qed.
Print Assumptions C06_raise_is_false.

(* a named-but-unimplemented predicate that evaluation reaches is an error,
   whatever comes after it *)
Theorem C06_missing_is_error_and : forall m C cx l1 k l2,
  Forall (fun g => geval m C cx g = Some true) l1 ->
  geval m C cx (GAnd (l1 ++ GMissing k :: l2)) = None.
Proof. exact geval_and_reaches_missing. Qed.
Print Assumptions C06_missing_is_error_and.

Theorem C06_missing_is_error_or : forall m C cx l1 k l2,
  Forall (fun g => geval m C cx g = Some false) l1 ->
  geval m C cx (GOr (l1 ++ GMissing k :: l2)) = None.
Proof. exact geval_or_reaches_missing. Qed.
Print Assumptions C06_missing_is_error_or.

(* ... and one that short-circuiting skips is not consulted *)
Theorem C06_short_circuit_and : forall m C cx l1 g l2,
  Forall (fun g => geval m C cx g = Some true) l1 -> geval m C cx g = Some false ->
  geval m C cx (GAnd (l1 ++ g :: l2)) = Some false.
Proof. exact geval_and_short. Qed.
Print Assumptions C06_short_circuit_and.

Theorem C06_short_circuit_or : forall m C cx l1 g l2,
  Forall (fun g => geval m C cx g = Some false) l1 -> geval m C cx g = Some true ->
  geval m C cx (GOr (l1 ++ g :: l2)) = Some true.
Proof. exact geval_or_short. Qed.
Print Assumptions C06_short_circuit_or.

(* stateIn is true exactly when a state the name designates is active ... *)
Theorem C06_statein_spec : forall m C target,
  target <> ""%string ->
  (geval m C [] (GStateIn target) = Some true <-> exists s, In s C /\ names_state m s target).
Proof.
  intros m C target H. simpl. rewrite <- (state_in_spec m C target H).
  split; [intros E; now inversion E | intros ->; reflexivity].
Qed.
Print Assumptions C06_statein_spec.

(* ... and, when the name designates one state only, it is membership of that state *)
Theorem C06_statein_exact : forall m C cx target s,
  target <> ""%string -> names_state m s target ->
  (forall s', In s' C -> names_state m s' target -> s' = s) ->
  geval m C cx (GStateIn target) = Some (mem s C).
Proof. intros. simpl. f_equal. now apply state_in_exact. Qed.
Print Assumptions C06_statein_exact.

(* TIE T: the part of _is_state_in after the decoding of the guard's params, re-translated from the current source on every build
   (Gen/GenStateIn.v, a function of the target string and the ids of the active states), is the model's stateIn *)
Theorem C06_statein_is_the_source : forall m C target,
  state_in_src target (map (id_of m) C) = state_in m C target.
Proof. exact state_in_bridge. Qed.
Print Assumptions C06_statein_is_the_source.

Theorem C06_statein_leaf_is_the_source : forall m C cx target,
  geval m C cx (GStateIn target) = Some (state_in_src target (map (id_of m) C)).
Proof. exact geval_statein_is_the_source. Qed.
Print Assumptions C06_statein_leaf_is_the_source.

(* hence the specification holds of the SOURCE's function: true exactly when a state the name designates is active *)
Theorem C06_source_statein_spec : forall m C target,
  target <> ""%string ->
  (state_in_src target (map (id_of m) C) = true <-> exists s, In s C /\ names_state m s target).
Proof. intros m C target H. rewrite state_in_bridge. exact (state_in_spec m C target H). Qed.
Print Assumptions C06_source_statein_spec.

Example C06_source_statein_runs :
  state_in_src "#b.c" ["m"; "m.a"; "m.b"; "m.b.c"] = true /\ state_in_src "b" ["m"; "m.ab"] = false /\ state_in_src "" ["m"] = false.
Proof. vm_compute. repeat split. Qed.

(* a candidate whose guard raises is skipped and later candidates stay eligible:
   the eligible list of a bucket is exactly the candidates whose guard is true *)
Theorem C06_later_candidates_stay : forall (fb : trans -> bool) l,
  filter_pass (fun t => Some (fb t)) l = Some (filter fb l).
Proof. exact filter_pass_total. Qed.
Print Assumptions C06_later_candidates_stay.

(* a missing guard on any candidate that is consulted aborts selection *)
Theorem C06_missing_aborts_selection : forall f l1 t l2,
  (forall x, In x l1 -> f x <> None) -> f t = None ->
  filter_pass f (l1 ++ t :: l2) = None.
Proof. exact filter_pass_missing. Qed.
Print Assumptions C06_missing_aborts_selection.

(* TIE T: the and / or / not part of _is_guard_satisfied is RE-TRANSLATED from the current source on every run
   (Gen/GenGuard.v, harness/py2coq_guard.py: `all(...)` / `any(...)` over the recursing generator in Python's short-circuit
   order with exceptions in the option monad, `not` on children[0]) and computes the model's `geval` at ANY nesting depth,
   given the model's evaluation of the non-composite guards as oracle (those - stateIn, user predicate, raise = false,
   missing = error - are tied to the code by the K-macro correspondence) *)
Theorem C06_composites_are_the_source : forall m C cx g fuel, gdepth g < fuel ->
  GenGuard.is_guard_satisfied fuel (geval m C cx) (Some g) = geval m C cx g.
Proof. exact guard_bridge. Qed.
Print Assumptions C06_composites_are_the_source.

Theorem C06_transition_guard_is_the_source : forall m C cx t,
  GenGuard.is_guard_satisfied (S (match t_guard t with Some g => gdepth g | None => 0 end)) (geval m C cx) (t_guard t)
  = passes m C cx t.
Proof. exact passes_bridge. Qed.
Print Assumptions C06_transition_guard_is_the_source.

(* non-vacuity *)
Example C06_ex_source_nested :
  let g := GAnd [GOr [GRaises 1; GCtxGe 0 1]; GNot (GAnd [GCtxGe 1 5; GMissing 9])] in
  let m0 := Build_machine [] 10 None in
  gdepth g = 3 /\
  GenGuard.is_guard_satisfied 4 (geval m0 [] [(0, 1%Z)]) (Some g) = Some true /\
  GenGuard.is_guard_satisfied 4 (geval m0 [] [(0, 1%Z); (1, 7%Z)]) (Some g) = None /\
  GenGuard.is_guard_satisfied 4 (geval m0 [] []) (Some g) = Some false.
Proof. vm_compute. repeat split; reflexivity. Qed.
Example C06_ex_nested :
  let g := GAnd [GOr [GRaises 1; GCtxGe 0 1]; GNot (GAnd [GCtxGe 1 5; GMissing 9])] in
  no_missing g = false /\
  geval (Build_machine [] 10 None) [] [(0, 1%Z)] g = Some true /\
  geval (Build_machine [] 10 None) [] [(0, 1%Z); (1, 7%Z)] g = None.
Proof. vm_compute. auto. Qed.
