(* C05 - sync, async and pure engines compute the same behaviour.  Statements only.
   In the implementation the sync engine re-implements entry, exit, done-checking, action execution and transition
   execution; the model has ONE definition of each that branches on `engine` exactly where the two code paths differ
   (order of cancel / exit actions, task scheduling before or after the descent, synthetic entry / exit events,
   order of hook and subscriber notification, raise-depth accounting).  K-macro ties each engine of the implementation
   to the model instantiated at that engine.  The theorems show that those branches cannot make the engines disagree
   on configuration, history, context or on whether the step fails.
   PARTIAL: the action LOG differs between engines in the model exactly where the implementation differs (recorded as
   findings F12, F25 where the property text forbids it); agreement of the logs is therefore decided by the three-way
   differential check (harness/props/c05.py), and agreement with the pure API by K-pure, not by a theorem.  Macro-step
   drivers (sync drain inside send, async consumer loop) are compared at quiescence by the check only. *)
From XSM Require Import Model.Macro Proofs.EngineP.

(* every microstep: if the two interpreters agree on configuration, history and context before an event, they agree
   after it and raise the same error or none - for every machine whose invoked services are all registered *)
Theorem C05_microstep_agrees : forall m, services_ok m -> forall p1 p2 ev s1 s2,
  core s1 = core s2 ->
  core (fst (process_event Sync p1 m ev s1)) = core (fst (process_event Async p2 m ev s2))
  /\ snd (process_event Sync p1 m ev s1) = snd (process_event Async p2 m ev s2).
Proof. exact process_event_rel. Qed.
Print Assumptions C05_microstep_agrees.

(* every single transition *)
Theorem C05_transition_agrees : forall m, services_ok m -> forall p1 p2 t ev s1 s2,
  core s1 = core s2 ->
  core (fst (exec_transition Sync p1 m t ev s1)) = core (fst (exec_transition Async p2 m t ev s2))
  /\ snd (exec_transition Sync p1 m t ev s1) = snd (exec_transition Async p2 m t ev s2).
Proof. exact exec_transition_rel. Qed.
Print Assumptions C05_transition_agrees.

(* entry of any list of states, from any pair of engines that run actions, whatever synthetic event they pass *)
Theorem C05_entry_agrees : forall m, services_ok m -> forall e1 e2, e1 <> Pure -> e2 <> Pure ->
  forall p1 p2 l ev1 ev2 s1 s2, core s1 = core s2 ->
  core (fst (enter e1 p1 m l ev1 s1)) = core (fst (enter e2 p2 m l ev2 s2))
  /\ snd (enter e1 p1 m l ev1 s1) = snd (enter e2 p2 m l ev2 s2).
Proof. exact enter_rel. Qed.
Print Assumptions C05_entry_agrees.

(* exit: cancelling all tasks first (sync) or state by state (async) makes no difference *)
Theorem C05_exit_agrees : forall m p1 p2 l ev1 ev2 s1 s2, core s1 = core s2 ->
  core (fst (exit_states Sync p1 m l ev1 s1)) = core (fst (exit_states Async p2 m l ev2 s2))
  /\ snd (exit_states Sync p1 m l ev1 s1) = snd (exit_states Async p2 m l ev2 s2).
Proof. exact exit_states_rel. Qed.
Print Assumptions C05_exit_agrees.

(* action lists: the effect on the context and the failure do not depend on engine, event or processing flag *)
Theorem C05_actions_agree : forall e1 e2 p1 p2 acts ev1 ev2 s1 s2, core s1 = core s2 ->
  core (fst (run_actions e1 p1 acts ev1 s1)) = core (fst (run_actions e2 p2 acts ev2 s2))
  /\ snd (run_actions e1 p1 acts ev1 s1) = snd (run_actions e2 p2 acts ev2 s2).
Proof. exact run_actions_rel. Qed.
Print Assumptions C05_actions_agree.

(* the pure engine runs no user action and schedules nothing *)
Theorem C05_pure_reports_only : forall pr acts ev s,
  exec_actions Pure pr acts ev s = (pure_actions acts s, None).
Proof. reflexivity. Qed.
Print Assumptions C05_pure_reports_only.
Theorem C05_pure_schedules_nothing : forall m x,
  sched Pure m x = ret /\ sched_before Pure m x = ret /\ sched_after Pure m x = ret.
Proof. intros m x. repeat split; reflexivity. Qed.
Print Assumptions C05_pure_schedules_nothing.

(* non-vacuity: a transition out of a parallel state with entry / exit actions; the cores agree, the logs do not
   (so the theorem is not an artefact of the engines being literally the same function) *)
Definition n_ id par k ch ini d en ex on_ : node := Build_node id par k ch ini d en ex on_ None [] [] None None.
Definition ex_t : trans := Build_trans 0 3 "GO" (TState 6) None [AAssign 0 5%Z; AMark 9] false false.
Definition ex_m : machine := Build_machine
  [ n_ "m" None KCompound [1; 6] (Some 1) 0 [] [] [];
    n_ "m.p" (Some 0) KParallel [2; 4] None 1 [AMark 1] [AMark 2] [];
    n_ "m.p.r1" (Some 1) KCompound [3] (Some 3) 2 [] [AMark 3] [];
    n_ "m.p.r1.x" (Some 2) KAtomic [] None 3 [] [AAssign 1 7%Z] [("GO", [ex_t])];
    n_ "m.p.r2" (Some 1) KCompound [5] (Some 5) 2 [] [AMark 4] [];
    n_ "m.p.r2.z" (Some 4) KAtomic [] None 3 [] [] [];
    n_ "m.o" (Some 0) KAtomic [] None 1 [AMark 5] [] [] ] 10 None.
Example C05_ex :
  let s := mk [0; 1; 2; 3; 4; 5] [] [] [] Running None [] 0 0 [] 0 in
  let ev := Build_event "GO" EPlain 1 in
  let a := process_event Sync true ex_m ev s in
  let b := process_event Async true ex_m ev s in
  core (fst a) = ([0; 6], [], [(0, 5%Z); (1, 7%Z)]) /\ core (fst a) = core (fst b) /\ snd a = None
  /\ s_log (fst a) <> s_log (fst b).
Proof. vm_compute. repeat split; try reflexivity. discriminate. Qed.
