"""F39 (C14 / C15, repaired): when async start() fails behind a spawned child actor the child is stopped (repair F28) but its
systemId stayed in the actor-system registry: system.get('the-kid') went on answering with the stopped actor, and stop() - a no-op
on the already 'stopped' interpreter - could not remove it either.  stop() itself drops the registration (repair F20); the
failed-start path did not."""
import asyncio
import logging
logging.disable(logging.CRITICAL)
from xstate_statemachine import create_machine, MachineLogic, Interpreter
kid = create_machine({"id": "kid", "initial": "on", "states": {"on": {}}})
cfg = {"id": "m", "initial": "a", "states": {
    "a": {"entry": [{"type": "spawn_kid", "params": {"systemId": "the-kid"}}, "thisActionHasNoImplementation"]}}}
async def main():
    it = Interpreter(create_machine(cfg, logic=MachineLogic(services={"kid": kid})))
    try:
        await it.start()
    except Exception as exc:
        print("start() failed:", type(exc).__name__)
    await it.stop()
    return it.status, sorted(it._system_registry().keys())
status, registry = asyncio.run(main())
ok = not registry
print("PASS" if ok else "FAIL", "status", status, "systemIds still registered after the failed start() and stop():", registry)
raise SystemExit(0 if ok else 1)
