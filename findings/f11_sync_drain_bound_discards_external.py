"""F11 (C04/C13, recorded finding): the sync per-drain bound counts and DISCARDS externally sent events."""
from xstate_statemachine import create_machine, MachineLogic, SyncInterpreter
seen = []
cfg = {"id": "m", "initial": "a", "maxIterations": 10, "states": {"a": {"on": {"T": {"actions": "n"}}}}}
it = SyncInterpreter(create_machine(cfg, logic=MachineLogic(actions={"n": lambda i, c, e, a: seen.append(e.payload.get("k"))}))).start()
it.send_events([{"type": "T", "k": k} for k in range(25)])
ok = seen == list(range(25))
print("PASS" if ok else "FAIL", "processed", len(seen), "of 25")
raise SystemExit(0 if ok else 1)
