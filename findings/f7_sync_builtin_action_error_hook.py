"""F7 (C07/C05): sync engine does not call on_action_error when a built-in action's callback raises."""
from xstate_statemachine import create_machine, MachineLogic, SyncInterpreter, PluginBase
errs = []
class P(PluginBase):
    def on_action_error(self, interp, action, exc): errs.append(action.type)
def boom(args): raise RuntimeError("x")
cfg = {"id": "m", "initial": "a", "states": {"a": {"on": {"GO": {"target": "b", "actions": [{"type": "xstate.assign", "params": boom}]}}}, "b": {}}}
it = SyncInterpreter(create_machine(cfg, logic=MachineLogic()))
it.use(P()); it.start(); it.send("GO")
ok = errs == ["xstate.assign"] and it.current_state_ids == {"m.b"}
print("PASS" if ok else "FAIL", errs, it.current_state_ids)
raise SystemExit(0 if ok else 1)
