"""F17e (C17, recorded finding): a guard / action name with consecutive capitals is stubbed by the JSON templates under a
snake_case name that auto-discovery maps back to a DIFFERENT camelCase name; the CLI exits 0, the generated logic does
not bind the machine."""
import json, os, subprocess, sys, tempfile, shutil
cfg = {"id": "m", "initial": "a", "states": {"a": {"on": {"GO": {"target": "b", "guard": "isCCIUser"}}}, "b": {}}}
d = tempfile.mkdtemp()
try:
    json.dump(cfg, open(os.path.join(d, "m.json"), "w"))
    p = subprocess.run([sys.executable, "-m", "xstate_statemachine.cli", "generate-template", os.path.join(d, "m.json"), "-o", d,
                        "-t", "function-json", "-f"], capture_output=True, text=True)
    sys.path.insert(0, d)
    import m_logic
    from xstate_statemachine import create_machine
    try:
        create_machine(cfg, logic_modules=[m_logic])
        ok, why = True, "bound"
    except Exception as exc:
        ok, why = p.returncode != 0, "%s: %s" % (type(exc).__name__, str(exc)[:90])
    print("PASS" if ok else "FAIL", "cli exit", p.returncode, "|", why)
finally:
    shutil.rmtree(d, ignore_errors=True)
raise SystemExit(0 if ok else 1)
