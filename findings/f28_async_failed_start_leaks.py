"""F28 (C14, recorded finding): when async start() fails half-way the status is set to 'stopped' directly; stop() then
returns early, so timers and services armed by the partial entry are never released and still deliver afterwards."""
import asyncio
from xstate_statemachine import create_machine, MachineLogic, Interpreter
fired = []
cfg = {"id": "m", "initial": "a", "states": {
    "a": {"initial": "x", "invoke": {"id": "job", "src": "job"},
          "states": {"x": {"invoke": {"id": "nope", "src": "not_registered"}}}}}}
async def job(i, ctx, ev):
    await asyncio.sleep(0.02); fired.append("job finished"); return 1
async def main():
    it = Interpreter(create_machine(cfg, logic=MachineLogic(services={"job": job})))
    try:
        await it.start()
    except Exception:
        pass
    await it.stop()
    alive = sum(1 for ts in it.task_manager._tasks_by_owner.values() for t in ts if not t.done())
    await asyncio.sleep(0.05)
    return it.status, alive
status, alive = asyncio.run(main())
ok = alive == 0 and not fired
print("PASS" if ok else "FAIL", "status", status, "tasks alive after stop():", alive, fired)
raise SystemExit(0 if ok else 1)
