"""F27 (C04/C01/C14): async start() launched the consumer loop BEFORE the initial entry, so an event already queued
(sent while uninitialized) - or arriving while an entry action awaits - was processed in the middle of the initial
entry: two branches of a compound state ended up active."""
import asyncio
from xstate_statemachine import create_machine, MachineLogic, Interpreter
cfg = {"id": "m", "initial": "a", "entry": "slow", "states": {"a": {}, "b": {}}, "on": {"GO": "#m.b"}}
async def slow(i, ctx, ev, a):
    await asyncio.sleep(0.01)
async def main():
    it = Interpreter(create_machine(cfg, logic=MachineLogic(actions={"slow": slow})))
    await it.send("GO")              # accepted and queued while uninitialized
    await it.start()
    await asyncio.sleep(0.05)
    ids = sorted(n.id for n in it._active_state_nodes)
    await it.stop()
    return ids
ids = asyncio.run(main())
ok = ids == ["m", "m.b"]
print("PASS" if ok else "FAIL", ids)
raise SystemExit(0 if ok else 1)
