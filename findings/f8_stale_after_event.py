"""F8 (C08, recorded finding): an expiry notification already queued behind events that leave and re-enter the
state fires the delayed transition on the NEW activation, 0 ms after its entry (after-events are matched by type only)."""
import asyncio
from xstate_statemachine import create_machine, MachineLogic, Interpreter
cfg = {"id": "m", "initial": "a", "states": {
    "a": {"after": {"50": "timeout"}}, "c": {}, "timeout": {}},
    "on": {"SLOW": {"actions": "slow"}, "LEAVE": "#m.c", "BACK": "#m.a"}}
async def slow(i, ctx, ev, a):
    await asyncio.sleep(0.08)          # spans the 50 ms deadline: the expiry is queued behind LEAVE and BACK
async def main():
    it = Interpreter(create_machine(cfg, logic=MachineLogic(actions={"slow": slow})))
    await it.start()
    await it.send_events(["SLOW", "LEAVE", "BACK"])
    await asyncio.sleep(0.10)           # 20 ms after re-entry: the new activation's 50 ms have NOT elapsed
    ids = set(it.current_state_ids)
    await it.stop()
    return ids
ids = asyncio.run(main())
ok = ids == {"m.a"}
print("PASS" if ok else "FAIL", sorted(ids))
raise SystemExit(0 if ok else 1)
