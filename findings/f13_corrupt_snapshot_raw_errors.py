"""F13 (C12): a snapshot with missing keys or wrong value types surfaced as raw KeyError / TypeError / AttributeError
instead of a library error."""
import json
from xstate_statemachine import create_machine, MachineLogic, SyncInterpreter
from xstate_statemachine.exceptions import XStateMachineError
m = create_machine({"id": "m", "initial": "a", "states": {"a": {}}}, logic=MachineLogic())
good = json.loads(SyncInterpreter(m).start().get_snapshot())
bad = []
muts = [{k: v for k, v in good.items() if k != drop} for drop in ("context", "status", "state_ids")]
muts[2].pop("configuration", None)
muts += [dict(good, configuration=5, state_ids=5), dict(good, configuration="m.a"), dict(good, context=[1]), dict(good, status=7),
         dict(good, history=[1]), dict(good, history={"m": 3}), dict(good, actors=[1]), dict(good, configuration=[1])]
for mut in muts:
    try:
        SyncInterpreter.from_snapshot(json.dumps(mut), m)
    except XStateMachineError:
        pass
    except Exception as exc:
        bad.append(type(exc).__name__)
print("PASS" if not bad else "FAIL", bad)
raise SystemExit(0 if not bad else 1)
