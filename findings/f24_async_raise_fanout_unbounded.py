"""F24 (C13, recorded finding): async engine - an action that raises its own trigger TWICE is never cut:
the breaker drops one event and resets the depth while the queue keeps growing; the loop never yields."""
import asyncio, sys, os
from xstate_statemachine import create_machine, MachineLogic, Interpreter
cfg = {"id": "m", "initial": "a", "maxIterations": 5, "states": {"a": {"on": {"GO": {"actions": [
    "n", {"type": "xstate.raise", "params": {"event": {"type": "GO"}}}, {"type": "xstate.raise", "params": {"event": {"type": "GO"}}}]}}}}}
count = [0]
def n(i, c, e, a):
    count[0] += 1
    if count[0] > 20000:
        print("FAIL raise storm not cut after", count[0], "rounds"); sys.stdout.flush(); os._exit(1)
async def main():
    it = Interpreter(create_machine(cfg, logic=MachineLogic(actions={"n": n})))
    await it.start()
    await it.send("GO")
    for _ in range(500):
        await asyncio.sleep(0)
    await it.stop()
asyncio.run(main())
print("PASS rounds", count[0])
