"""F14 / F31 / F32 / F33 (C18, fixed): wrong-typed config values surfaced as raw TypeError / AttributeError / ValueError, or
were silently accepted when falsy."""
from xstate_statemachine import create_machine, MachineLogic, SyncInterpreter
from xstate_statemachine.exceptions import XStateMachineError
base = lambda: {"id": "m", "initial": "a", "states": {"a": {"on": {"GO": {"target": "b", "actions": ["x"]}}}, "b": {}}}


def outcome(cfg):
    try:
        m = create_machine(cfg, logic=MachineLogic(actions={"x": lambda i, c, e, a: None}, services={"s": lambda i, c, e: 1}))
        it = SyncInterpreter(m).start()
        it.send("GO")
        it.stop()
        return "accepted"
    except XStateMachineError as e:
        return "library error " + type(e).__name__
    except Exception as e:  # noqa
        return "RAW " + type(e).__name__
cases = {}
cases["config is a list"] = []
c = base(); c["states"]["a"]["on"]["GO"]["target"] = 7; cases["target is a number"] = c
c = base(); c["states"]["a"]["invoke"] = {"src": ["s"]}; cases["invoke src is a list"] = c
c = base(); c["states"]["a"]["on"]["GO"]["actions"] = [{"type": 0}]; cases["action type is a number"] = c
c = base(); c["states"]["a"]["on"]["GO"]["guard"] = {"type": "and", "children": 7}; cases["guard children is a number"] = c
c = base(); c["states"]["a"]["on"]["GO"]["guard"] = {"type": "and", "params": {"guards": 7}}; cases["params.guards is a number"] = c
c = base(); c["maxIterations"] = []; cases["maxIterations is a list"] = c
c = base(); c["states"]["b"]["states"] = 0; cases["nested states is 0"] = c
c = base(); c["states"]["a"]["entry"] = 0; cases["entry is 0"] = c
c = base(); c["states"]["a"]["on"]["GO"]["actions"] = False; cases["actions is false"] = c
ok = True
for name, cfg in cases.items():
    o = outcome(cfg)
    good = o.startswith("library error")
    ok &= good
    print("PASS" if good else "FAIL", name, "->", o)
raise SystemExit(0 if ok else 1)
