"""F22 (C10): a parallel state's onDone fires while one of its regions is NOT final, when that region
contains a nested parallel state of which only one sub-region has completed: _is_state_done treats a
region as done if ANY active descendant of it is done."""
from xstate_statemachine import create_machine, MachineLogic, SyncInterpreter
cfg = {"id": "m", "initial": "P", "states": {
  "P": {"type": "parallel", "onDone": "finished", "states": {
     "R1": {"initial": "Q", "states": {"Q": {"type": "parallel", "states": {
           "S1": {"initial": "x", "states": {"x": {"on": {"A": "f"}}, "f": {"type": "final"}}},
           "S2": {"initial": "y", "states": {"y": {"on": {"B": "f"}}, "f": {"type": "final"}}}}}}},
     "R2": {"initial": "z", "states": {"z": {"on": {"C": "f"}}, "f": {"type": "final"}}}}},
  "finished": {}}}
it = SyncInterpreter(create_machine(cfg, logic=MachineLogic())).start()
it.send("C")   # R2 final
it.send("A")   # only S1 of the nested parallel is final; S2 (hence Q, hence R1) is not
ok = "m.finished" not in it.current_state_ids
print("PASS" if ok else "FAIL", sorted(it.current_state_ids))
raise SystemExit(0 if ok else 1)
