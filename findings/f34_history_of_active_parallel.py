"""F34 (C01, repaired): targeting the history child of a PARALLEL state from inside one of its regions exited nothing
(the exit set was scoped to the history node's own, empty, branch) and then activated the remembered states next to
the ones still active: two active children of one compound state.  Both engines (shared base method).
Also repairs F21 (C03): the re-entered regions ran their entry actions while active, with no exit in between."""
from xstate_statemachine import create_machine, MachineLogic, SyncInterpreter

cfg = {"id": "m", "type": "parallel", "states": {
    "h": {"type": "history", "history": "deep"},
    "r": {"initial": "x", "states": {"x": {"on": {"GO": "y", "BACK": "#m.h"}}, "y": {"on": {"BACK": "#m.h"}}}},
    "q": {"initial": "u", "states": {"u": {}, "v": {}}}}}
it = SyncInterpreter(create_machine(cfg, logic=MachineLogic())).start()
it.send("GO")      # x -> y: records history for m (x, u)
it.send("BACK")    # y -> #m.h: restore (x, u)
active = sorted(s.id for s in it._active_state_nodes)
in_r = [a for a in active if a.startswith("m.r.")]
ok = len(in_r) == 1
print("PASS" if ok else "FAIL", active)
raise SystemExit(0 if ok else 1)
