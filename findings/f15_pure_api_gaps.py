"""F15 (C05, recorded finding): the pure API (initial_transition / transition) differs from a real run:
(a) it keeps no history between calls, (b) it does not process events raised by actions,
(c) it re-activates a snapshot whose status is done."""
from xstate_statemachine import create_machine, MachineLogic, SyncInterpreter
from xstate_statemachine.helpers import initial_transition, transition
bad = []
# (a) history
cfg = {"id": "m", "initial": "w", "states": {"w": {"initial": "s1", "states": {"s1": {"on": {"N": "s2"}}, "s2": {}, "hist": {"type": "history"}},
       "on": {"OUT": "#m.o"}}, "o": {"on": {"BACK": "#m.w.hist"}}}}
m = create_machine(cfg, logic=MachineLogic())
it = SyncInterpreter(m).start(); [it.send(e) for e in ("N", "OUT", "BACK")]
snap, _ = initial_transition(m)
for e in ("N", "OUT", "BACK"): snap, _ = transition(m, snap, e)
if set(snap.state_ids) != set(it.current_state_ids): bad.append(("history", sorted(snap.state_ids), sorted(it.current_state_ids)))
# (b) raise
cfg = {"id": "m", "initial": "a", "states": {"a": {"on": {"GO": {"target": "b", "actions": [{"type": "xstate.raise", "params": {"event": {"type": "NEXT"}}}]}}},
       "b": {"on": {"NEXT": "c"}}, "c": {}}}
m = create_machine(cfg, logic=MachineLogic())
it = SyncInterpreter(m).start(); it.send("GO")
snap, _ = initial_transition(m); snap, _ = transition(m, snap, "GO")
if set(snap.state_ids) != set(it.current_state_ids): bad.append(("raise", sorted(snap.state_ids), sorted(it.current_state_ids)))
# (c) done snapshot re-activated
cfg = {"id": "m", "initial": "a", "states": {"a": {"on": {"F": "fin"}}, "fin": {"type": "final"}}, "on": {"X": {"actions": "n"}}}
m = create_machine(cfg, logic=MachineLogic(actions={"n": lambda *a: None}))
snap, _ = initial_transition(m); snap, _ = transition(m, snap, "F"); snap2, acts = transition(m, snap, "X")
if snap.status == "done" and (snap2.status != "done" or acts): bad.append(("done-reactivated", snap2.status, [a.type for a in acts]))
print("PASS" if not bad else "FAIL", bad)
raise SystemExit(0 if not bad else 1)
