"""F17 / F17b (C17, recorded findings): the code generator exits 0 ('Verified ... exactly') for machines whose guards it
does not reproduce."""
import json, os, subprocess, sys, tempfile, shutil
cfg = {"id": "m", "initial": "a", "states": {
    "a": {"on": {"GO": {"target": "b", "guard": {"type": "limit", "params": {"max": 3}}},
                 "IN": {"target": "b", "guard": {"type": "stateIn", "params": {"state": "#m.a"}}},
                 "BOTH": {"target": "b", "guard": {"type": "and", "children": ["g1", "g2"]}}}},
    "b": {}}}
d = tempfile.mkdtemp()
try:
    json.dump(cfg, open(os.path.join(d, "m.json"), "w"))
    env = dict(os.environ)
    p = subprocess.run([sys.executable, "-m", "xstate_statemachine.cli", "generate-template", os.path.join(d, "m.json"), "-o", d,
                        "-t", "pythonic-builder", "-f"], env=env, capture_output=True, text=True)
    sys.path.insert(0, d)
    import m_logic
    built = m_logic.build()
    a = built.states["a"]
    g = a.on["GO"][0].guard_def
    both = a.on["BOTH"][0].guard_def
    ok = p.returncode != 0 or (g.params == {"max": 3} and len(both.children or []) == 2)
    print("PASS" if ok else "FAIL", "cli exit", p.returncode, "| limit params:", g.params, "| and-children:", len(both.children or []))
    p2 = subprocess.run([sys.executable, "-m", "xstate_statemachine.cli", "generate-template", os.path.join(d, "m.json"), "-o", d,
                         "-t", "class-json", "-f"], env=env, capture_output=True, text=True)
    src = open(os.path.join(d, "m_logic.py")).read()
    ok2 = p2.returncode != 0 or ("def g1" in src and "def g2" in src)
    print("PASS" if ok2 else "FAIL", "class-json exit", p2.returncode, "| stubs for g1/g2:", "def g1" in src, "def g2" in src)
finally:
    shutil.rmtree(d, ignore_errors=True)
raise SystemExit(0 if ok and ok2 else 1)
