"""F9 (C09, recorded finding): a service result produced by an activation that has since been exited - the completion
event was already queued when the state was left and re-entered - drives onDone of the NEW activation."""
import asyncio
from xstate_statemachine import create_machine, MachineLogic, Interpreter
calls = []
cfg = {"id": "m", "initial": "work", "states": {
    "work": {"invoke": {"id": "job", "src": "job", "onDone": "finished"}}, "idle": {}, "finished": {}},
    "on": {"SLOW": {"actions": "slow"}, "LEAVE": "#m.idle", "BACK": "#m.work"}}
async def job(i, ctx, ev):
    calls.append(1); await asyncio.sleep(0.05); return len(calls)
async def slow(i, ctx, ev, a):
    await asyncio.sleep(0.08)          # spans the first job's completion: done.invoke.job is queued behind LEAVE and BACK
async def main():
    it = Interpreter(create_machine(cfg, logic=MachineLogic(actions={"slow": slow}, services={"job": job})))
    await it.start()
    await asyncio.sleep(0.01)
    await it.send_events(["SLOW", "LEAVE", "BACK"])
    await asyncio.sleep(0.10)           # the second activation's job (50 ms) has had only ~20 ms
    ids = set(it.current_state_ids)
    await it.stop()
    return ids
ids = asyncio.run(main())
ok = ids == {"m.work"}
print("PASS" if ok else "FAIL", sorted(ids), "service calls:", len(calls))
raise SystemExit(0 if ok else 1)
