"""F16 (C19, recorded finding): the Python DSL refers to states by bare name."""
from xstate_statemachine.pythonic import State, build_machine
inner_idle = State("idle", initial=True)
work = State("work", states=[inner_idle, State("busy")])
idle = State("idle", initial=True)
t = idle.to(work, event="GO")            # declared on the OUTER idle only
m = build_machine(id="m", states=[idle, work], transitions=[t])
leak = "GO" in m.states["work"].states["idle"].on
deep = State("deep")
a = State("a", initial=True)
b = State("b", states=[State("x", initial=True), deep])
m2 = build_machine(id="m2", states=[a, b], transitions=[a.to(deep, event="DIVE")])
from xstate_statemachine.resolver import resolve_target_state
tr = m2.states["a"].on["DIVE"][0]
try:
    ok2 = resolve_target_state(tr.target_str, tr.source).id == "m2.b.deep"
except Exception as exc:  # noqa
    ok2 = False
print("PASS" if not leak else "FAIL", "transition of the outer 'idle' also on work.idle:", leak)
print("PASS" if ok2 else "FAIL", "a.to(<State b.deep>) compiles to target", repr(tr.target_str))
raise SystemExit(0 if (not leak and ok2) else 1)
