"""F37 (C01, recorded finding): a history pseudo-state whose default target lies OUTSIDE its parent, targeted from inside
the parent before anything was recorded: the domain is the parent, whose children are exited, and the outside target is
entered on a path that never meets the domain - the parent stays active without a child next to its sibling."""
from xstate_statemachine import create_machine, MachineLogic, SyncInterpreter

cfg = {"id": "m", "initial": "p", "states": {
    "p": {"initial": "x", "states": {"h": {"type": "history", "target": "#m.q"}, "x": {"on": {"GO": "h"}}, "y": {}}},
    "q": {}}}
it = SyncInterpreter(create_machine(cfg, logic=MachineLogic())).start()
it.send("GO")
active = sorted(s.id for s in it._active_state_nodes)
ok = not ("m.p" in active and "m.q" in active)
print("PASS" if ok else "FAIL", active)
raise SystemExit(0 if ok else 1)
