"""F35 (C01, recorded finding): a state whose `initial` names a history pseudo-state is accepted, and the default
descent ENTERS the pseudo-state as if it were an ordinary state: a history pseudo-state is active and the compound
parent has no real active child (both engines; a parallel parent that declares such an `initial` activates it too when
its never-recorded history is targeted)."""
from xstate_statemachine import create_machine, MachineLogic, SyncInterpreter

cfg = {"id": "m", "initial": "p", "states": {"p": {"initial": "h", "states": {"h": {"type": "history"}, "x": {}, "y": {}}}}}
it = SyncInterpreter(create_machine(cfg, logic=MachineLogic())).start()
active = sorted(s.id for s in it._active_state_nodes)
ok = "m.p.h" not in active
print("PASS" if ok else "FAIL", active)
raise SystemExit(0 if ok else 1)
