"""F5 (C01, repaired in /repo b9c3c88): a transition targeting the machine root used to exit everything and enter nothing."""
from xstate_statemachine import create_machine, MachineLogic, SyncInterpreter
cfg = {"id": "m", "initial": "a", "states": {"a": {"on": {"RESET": "#m"}}, "b": {}}}
it = SyncInterpreter(create_machine(cfg, logic=MachineLogic())).start()
it.send("RESET")
ok = it.current_state_ids == {"m.a"}
print("PASS" if ok else "FAIL", sorted(n.id for n in it._active_state_nodes))
raise SystemExit(0 if ok else 1)
