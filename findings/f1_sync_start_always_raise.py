"""F1 (C04/C01): sync start() settles `always` outside the re-entrancy guard, so an
event raised by an always-transition's action is processed re-entrantly mid-transition."""
from xstate_statemachine import create_machine, MachineLogic, SyncInterpreter
log = []
cfg = {"id": "m", "initial": "a", "states": {
    "a": {"always": {"target": "b", "actions": [{"type": "xstate.raise", "params": {"event": {"type": "E"}}}, "mark"]}},
    "b": {"on": {"E": "c"}}, "c": {}}}
def mark(i, ctx, ev, a): log.append(sorted(i.current_state_ids))
it = SyncInterpreter(create_machine(cfg, logic=MachineLogic(actions={"mark": mark}))).start()
ok = it.current_state_ids == {"m.c"}
print("PASS" if ok else "FAIL", it.current_state_ids, log)
raise SystemExit(0 if ok else 1)
