"""F38 (C17, repaired in /repo e088249): an event name containing a line break was written raw into a single-line string
literal of the generated runner: the CLI exited 0 and the file was not valid Python."""
import ast, json, os, subprocess, sys, tempfile, shutil
cfg = {"id": "m", "initial": "a", "states": {"a": {"on": {"EV c\nopen('": "b"}}, "b": {"on": {"BACK": "a"}}}}
d = tempfile.mkdtemp()
try:
    json.dump(cfg, open(os.path.join(d, "m.json"), "w"))
    p = subprocess.run([sys.executable, "-m", "xstate_statemachine.cli", "generate-template", os.path.join(d, "m.json"), "-o", d,
                        "-t", "pythonic-class", "-fc", "2", "-f"], capture_output=True, text=True)
    bad = []
    for f in sorted(os.listdir(d)):
        if f.endswith(".py"):
            try:
                ast.parse(open(os.path.join(d, f), encoding="utf-8").read())
            except SyntaxError as exc:
                bad.append("%s line %s: %s" % (f, exc.lineno, exc.msg))
    ok = p.returncode != 0 or not bad
    print("PASS" if ok else "FAIL", "cli exit", p.returncode, "|", bad or "every generated file parses")
finally:
    shutil.rmtree(d, ignore_errors=True)
raise SystemExit(0 if ok else 1)
