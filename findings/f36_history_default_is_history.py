"""F36 (C01, recorded finding): a history pseudo-state whose default target is itself a history pseudo-state: when the
first is targeted before anything was recorded, the second is entered as an ordinary state and stays active."""
from xstate_statemachine import create_machine, MachineLogic, SyncInterpreter

cfg = {"id": "m", "initial": "a", "states": {
    "a": {"on": {"GO": "#m.p.h"}},
    "p": {"initial": "x", "states": {
        "h": {"type": "history", "target": "#m.p.x.h2"},
        "x": {"initial": "u", "states": {"h2": {"type": "history"}, "u": {}, "v": {}}},
        "y": {}}}}}
it = SyncInterpreter(create_machine(cfg, logic=MachineLogic())).start()
it.send("GO")
active = sorted(s.id for s in it._active_state_nodes)
ok = "m.p.x.h2" not in active
print("PASS" if ok else "FAIL", active)
raise SystemExit(0 if ok else 1)
