"""F23 (C04/C13, recorded finding): the async raise-chain breaker drops WHICHEVER event is dequeued next once
_raise_depth exceeds maxIterations - including an event sent from outside that was queued behind the chain."""
import asyncio
from xstate_statemachine import create_machine, MachineLogic, Interpreter
seen = []
cfg = {"id": "m", "initial": "a", "maxIterations": 3, "states": {"a": {"on": {
    "PING": {"actions": [{"type": "xstate.raise", "params": {"event": {"type": "X"}}}] * 5},
    "EXT": {"actions": "n"}}}}}
async def main():
    it = Interpreter(create_machine(cfg, logic=MachineLogic(actions={"n": lambda i, c, e, a: seen.append(e.payload.get("k"))})))
    await it.start()
    await it.send_events([{"type": "PING"}] + [{"type": "EXT", "k": k} for k in range(6)])
    for _ in range(200):
        await asyncio.sleep(0)
    await it.stop()
asyncio.run(main())
ok = seen == list(range(6))
print("PASS" if ok else "FAIL", "external events processed:", seen)
raise SystemExit(0 if ok else 1)
