"""F26 (C12): the snapshot stored each history list sorted by id, not in the recorded order, so after a restore a
deep-history transition entered the remembered regions in a different order than the uninterrupted run."""
import json
from xstate_statemachine import create_machine, MachineLogic, SyncInterpreter
def build(log):
    cfg = {"id": "m", "initial": "p", "states": {
        "p": {"type": "parallel", "on": {"OUT": "#m.o"}, "states": {
            "a": {"initial": "deep", "states": {"deep": {"initial": "x", "states": {"x": {"entry": "e"}}}}},
            "b": {"entry": "e2", "initial": "y", "states": {"y": {"entry": "e"}}},
            "h": {"type": "history", "history": "deep"}}},
        "o": {"on": {"BACK": "#m.p.h"}}}}
    return create_machine(cfg, logic=MachineLogic(actions={"e": lambda i, c, ev, a: log.append(sorted(i.current_state_ids)[-1] if False else a.type + ":" + ev.type),
                                                          "e2": lambda i, c, ev, a: None}))
def trace(restore):
    log = []
    order = []
    m = build(log)
    m.logic.actions["e"] = lambda i, c, ev, a: order.append(len(order))
    seen = []
    def e(i, c, ev, a):
        seen.append(sorted(n.id for n in i._active_state_nodes)[-1])
    m.logic.actions["e"] = e
    it = SyncInterpreter(m).start(); it.send("OUT")
    if restore:
        it = SyncInterpreter.from_snapshot(it.get_snapshot(), m)
    del seen[:]
    it.send("BACK")
    return list(seen)
a, b = trace(False), trace(True)
ok = a == b
print("PASS" if ok else "FAIL", "uninterrupted:", a, "restored:", b)
raise SystemExit(0 if ok else 1)
