"""F21 (C03, repaired by the same fix as F34): targeting the history child of a PARALLEL state from inside that state
re-entered active regions without exiting them (entry actions ran twice, no exit in between)."""
from xstate_statemachine import create_machine, MachineLogic, SyncInterpreter
log = []
cfg = {"id": "m", "type": "parallel", "states": {
    "a": {"entry": "en", "exit": "ex", "on": {"H": "#m.h", "OUT": {"target": "#m.a", "reenter": True}}},
    "h": {"type": "history"}}}
logic = MachineLogic(actions={"en": lambda i, c, e, a: log.append("entry"), "ex": lambda i, c, e, a: log.append("exit")})
it = SyncInterpreter(create_machine(cfg, logic=logic)).start()
it.send("OUT")   # leave and re-enter region a once so that history is recorded
n = len(log)
it.send("H")
ok = log[n:] in ([], ["exit", "entry"])
print("PASS" if ok else "FAIL", log[n:])
raise SystemExit(0 if ok else 1)
