"""F2 (C03/C05): sync default descent passes Event('entry.<id>') instead of the triggering event."""
from xstate_statemachine import create_machine, MachineLogic, SyncInterpreter
seen = []
cfg = {"id": "m", "initial": "a", "states": {"a": {"on": {"GO": "p"}},
    "p": {"initial": "x", "entry": "e", "states": {"x": {"entry": "e"}}}}}
def e(i, ctx, ev, a): seen.append((ev.type, dict(ev.payload)))
it = SyncInterpreter(create_machine(cfg, logic=MachineLogic(actions={"e": e}))).start()
it.send("GO", n=7)
ok = seen == [("GO", {"n": 7}), ("GO", {"n": 7})]
print("PASS" if ok else "FAIL", seen)
raise SystemExit(0 if ok else 1)
