"""F4 (C11/C01): history child of a PARALLEL parent, never visited: nothing was entered
(configuration {root}); the parent's normal entry (every region) is expected."""
from xstate_statemachine import create_machine, MachineLogic, SyncInterpreter
cfg = {"id": "m", "initial": "o", "states": {
    "o": {"on": {"GO": "#m.p.h"}},
    "p": {"type": "parallel", "states": {
        "r1": {"initial": "x", "states": {"x": {}, "y": {}}},
        "r2": {"initial": "x", "states": {"x": {}}},
        "h": {"type": "history", "history": "deep"}}}}}
it = SyncInterpreter(create_machine(cfg, logic=MachineLogic())).start()
it.send("GO")
ok = it.current_state_ids == {"m.p.r1.x", "m.p.r2.x"}
print("PASS" if ok else "FAIL", sorted(it.current_state_ids), sorted(n.id for n in it._active_state_nodes))
raise SystemExit(0 if ok else 1)
