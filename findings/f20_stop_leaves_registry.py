"""F20 (C15, fixed): stop() - of the root, or of a child hit by stopChild that has children of its own - left the
stopped descendants in the actor-system registry."""
from xstate_statemachine import create_machine, MachineLogic, SyncInterpreter
leaf = {"id": "g", "initial": "on", "states": {"on": {}}}
logic = MachineLogic(services={})
mid = {"id": "c", "initial": "on", "states": {"on": {"entry": [{"type": "xstate.spawnChild", "params": {"src": "g", "id": "x", "systemId": "sysG"}}]}}}
logic.services["g"] = lambda i, c, e: create_machine(leaf, logic=logic)
logic.services["w"] = lambda i, c, e: create_machine(mid, logic=logic)
cfg = {"id": "m", "initial": "on", "states": {"on": {"on": {
    "A": {"actions": [{"type": "xstate.spawnChild", "params": {"src": "w", "id": "a", "systemId": "sysA"}}]},
    "K": {"actions": [{"type": "xstate.stopChild", "params": {"id": "a"}}]}}}}}
it = SyncInterpreter(create_machine(cfg, logic=logic)).start()
it.send("A")
import time; time.sleep(0.1)
before = sorted(it._system)
it.send("K")
time.sleep(0.05)
ok = sorted(it._system) == []
print("PASS" if ok else "FAIL", "registry before:", before, "after stopChild(a):", sorted(it._system))
raise SystemExit(0 if ok else 1)
