"""F10 (C13): async engine - an onDone that re-completes its own state feeds itself forever and never yields
(done.state events were not counted by the raise-chain breaker)."""
import asyncio, sys
from xstate_statemachine import create_machine, MachineLogic, Interpreter
cfg = {"id": "m", "initial": "idle", "maxIterations": 5, "states": {
    "idle": {"on": {"GO": "w"}},
    "w": {"initial": "f", "states": {"f": {"type": "final"}}, "onDone": {"target": "w", "reenter": True, "actions": "n"}}}}
count = [0]
beats = [0]
def n(i, c, e, a):
    count[0] += 1
    if count[0] > 20000:
        print("FAIL onDone chain not cut after", count[0], "rounds; heartbeats:", beats[0]); sys.stdout.flush()
        import os; os._exit(1)
async def heart():
    while True:
        beats[0] += 1
        await asyncio.sleep(0)
async def main():
    it = Interpreter(create_machine(cfg, logic=MachineLogic(actions={"n": n})))
    await it.start()
    h = asyncio.create_task(heart())
    await it.send("GO")
    for _ in range(500):
        await asyncio.sleep(0)
    h.cancel()
    await it.stop()
asyncio.run(main())
ok = count[0] <= 10 and beats[0] > 100
print("PASS" if ok else "FAIL", "rounds", count[0], "heartbeats", beats[0])
raise SystemExit(0 if ok else 1)
