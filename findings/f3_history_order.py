"""F3 (C16/C11): _record_history keeps set-iteration order; deep-history restore enters leaves in that order."""
import subprocess, sys, os
prog = r'''
from xstate_statemachine import create_machine, MachineLogic, SyncInterpreter
log=[]
regions={f"r{i}":{"initial":"x","states":{"x":{"entry":"e","on":{"N":"y"}},"y":{"entry":"e"}}} for i in range(6)}
cfg={"id":"m","initial":"p","states":{"p":{"type":"parallel","states":{**regions,"h":{"type":"history","history":"deep"}},"on":{"OUT":"o"}},"o":{"on":{"BACK":"p.h"}}}}
def e(i,c,ev,a): pass
it=SyncInterpreter(create_machine(cfg,logic=MachineLogic(actions={"e":e}))).start()
it.send("N"); it.send("OUT")
print([n.id for n in it._history["m.p"]])
'''
outs=set()
for seed in ("1","2","3","4"):
    env=dict(os.environ, PYTHONHASHSEED=seed)
    outs.add(subprocess.run([sys.executable,"-c",prog],env=env,capture_output=True,text=True).stdout)
ok = len(outs)==1
print("PASS" if ok else "FAIL", len(outs), "distinct orders")
raise SystemExit(0 if ok else 1)
