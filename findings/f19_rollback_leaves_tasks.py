"""F19 (C09/C07, recorded finding): a transition that aborts during entry rolls the configuration back but leaves the
service started by an already-entered state running; its completion event arrives in a state that never invoked it."""
import asyncio
from xstate_statemachine import create_machine, MachineLogic, Interpreter
cfg = {"id": "m", "initial": "a", "states": {
    "a": {"on": {"GO": "#m.w", "done.invoke.job": "hijacked"}},
    "w": {"initial": "x", "invoke": {"id": "job", "src": "job", "onDone": "#m.ok"},
          "states": {"x": {"invoke": {"id": "nope", "src": "not_registered"}}}},
    "ok": {}, "hijacked": {}}}
async def job(i, ctx, ev):
    await asyncio.sleep(0.02); return 1
async def main():
    it = Interpreter(create_machine(cfg, logic=MachineLogic(services={"job": job})))
    await it.start()
    await it.send("GO")            # entering w starts `job`, entering w.x aborts: configuration rolled back to {a}
    await asyncio.sleep(0.05)
    ids = set(it.current_state_ids); tasks = sum(len(v) for v in it.task_manager._tasks_by_owner.values())
    await it.stop()
    return ids
ids = asyncio.run(main())
ok = ids == {"m.a"}
print("PASS" if ok else "FAIL", sorted(ids))
raise SystemExit(0 if ok else 1)
