"""F40 (C14, repaired): SyncInterpreter.stop() called before the runner thread of a non-blocking spawned child got to run: stop() on the
not-yet-started child was a no-op, the parent forgot it, and the thread then started it - an actor that ran on (timers, actions) after
the parent's stop() had returned and that nobody could reach any more.  The interleaving is forced here by holding the runner thread."""
import logging, threading, time, types
logging.disable(logging.CRITICAL)
import xstate_statemachine.sync_interpreter as si
from xstate_statemachine import create_machine, SyncInterpreter, MachineLogic
gate = threading.Event()
RealThread = threading.Thread
class HeldThread(RealThread):
    """an actor runner thread that the OS schedules late: it starts running only when `gate` is set"""
    def run(self):
        if self.name.startswith("actor-"):
            gate.wait()
        super().run()
si.threading = types.SimpleNamespace(**{k: getattr(threading, k) for k in dir(threading) if not k.startswith("__")})
si.threading.Thread = HeldThread
ticks = []
kid = create_machine({"id": "kid", "initial": "on", "states": {"on": {"after": {"30": {"target": "on", "reenter": True, "actions": ["tick"]}}}}},
                     logic=MachineLogic(actions={"tick": lambda i, c, e, a: ticks.append(time.time())}))
parent = create_machine({"id": "m", "initial": "a", "states": {"a": {"entry": ["spawn_kid"]}}}, logic=MachineLogic(services={"kid": kid}))
it = SyncInterpreter(parent); it.start()
child = list(it._actors.values())[0]
print("before stop: child", child.status)
it.stop()
print("after stop: parent", it.status, "child", child.status, "children map", len(it._actors))
gate.set()                      # now the runner thread gets the CPU
time.sleep(0.3)
print("later: child", child.status, "ticks after the parent's stop():", len(ticks))
ok = child.status != "running" and not ticks
print("PASS" if ok else "FAIL")
child.stop()
raise SystemExit(0 if ok else 1)
