"""F30 (C15, recorded finding): spawning a child under an explicit id that a LIVE child already has overwrites the
children-map entry; the earlier child keeps running, unreachable by id, is not stopped by the parent's stop() and stays
in the actor-system registry."""
from xstate_statemachine import create_machine, MachineLogic, SyncInterpreter
child = {"id": "c", "initial": "on", "states": {"on": {}}}
logic = MachineLogic(services={})
logic.services["w"] = lambda i, c, e: create_machine(child, logic=MachineLogic())
cfg = {"id": "m", "initial": "on", "states": {"on": {"on": {
    "A": {"actions": [{"type": "xstate.spawnChild", "params": {"src": "w", "id": "a", "systemId": "sysA"}}]},
    "B": {"actions": [{"type": "xstate.spawnChild", "params": {"src": "w", "id": "a", "systemId": "sysB"}}]}}}}}
it = SyncInterpreter(create_machine(cfg, logic=logic)).start()
it.send("A")
first = it._actors["m:a"]
it.send("B")
import time; time.sleep(0.05)
it.stop()
time.sleep(0.05)
ok = first.status != "running" and "sysA" not in it._system
print("PASS" if ok else "FAIL", "first child status:", first.status, "registry:", sorted(it._system))
raise SystemExit(0 if ok else 1)
