"""F30 (C15, recorded finding): spawning a child under an explicit id that a LIVE child already has overwrites the
children-map entry; the earlier child can no longer be addressed by id, is not stopped by the parent's stop() and stays
in the actor-system registry.  Blocking spawn (and the async engine): the earlier child keeps RUNNING after the parent's
stop().  Thread-managed spawn on the sync engine: since the repair of F40 the earlier child's runner thread stops it at
its next poll, but its systemId is never taken out of the registry."""
import time
from xstate_statemachine import create_machine, MachineLogic, SyncInterpreter
child = {"id": "c", "initial": "on", "states": {"on": {}}}
bad = []
for first in ("spawn_blocking_w", "spawn_w"):
    logic = MachineLogic(services={})
    logic.services["w"] = lambda i, c, e: create_machine(child, logic=MachineLogic())
    cfg = {"id": "m", "initial": "on", "states": {"on": {"on": {
        "A": {"actions": [{"type": first, "params": {"id": "a", "systemId": "sysA"}}]},
        "B": {"actions": [{"type": "xstate.spawnChild", "params": {"src": "w", "id": "a", "systemId": "sysB"}}]}}}}}
    it = SyncInterpreter(create_machine(cfg, logic=logic)).start()
    it.send("A")
    earlier = it._actors["m:a"]
    it.send("B")
    time.sleep(0.05)
    it.stop()
    time.sleep(0.05)
    ok = earlier.status != "running" and "sysA" not in it._system
    bad.append(not ok)
    print("PASS" if ok else "FAIL", first, "- earlier child status after the parent's stop():", earlier.status, "registry:", sorted(it._system))
    earlier.stop()
raise SystemExit(1 if any(bad) else 0)
