"""F12 (C05/C10, recorded finding): after the machine completed, the sync engine keeps processing events that were
already queued (their actions run); the async engine leaves them unprocessed."""
import asyncio
from xstate_statemachine import create_machine, MachineLogic, SyncInterpreter, Interpreter
cfg = {"id": "m", "initial": "a", "states": {"a": {"on": {"F": "fin"}}, "fin": {"type": "final"}}, "on": {"X": {"actions": "n"}}}
def run_sync():
    seen = []
    it = SyncInterpreter(create_machine(cfg, logic=MachineLogic(actions={"n": lambda i, c, e, a: seen.append(1)}))).start()
    it.send_events(["F", "X"])
    return seen, it.status
async def run_async():
    seen = []
    it = Interpreter(create_machine(cfg, logic=MachineLogic(actions={"n": lambda i, c, e, a: seen.append(1)})))
    await it.start(); await it.send_events(["F", "X"])
    for _ in range(50): await asyncio.sleep(0)
    st = it.status; await it.stop()
    return seen, st
s = run_sync(); a = asyncio.run(run_async())
ok = s == a and s[0] == []
print("PASS" if ok else "FAIL", "sync", s, "async", a)
raise SystemExit(0 if ok else 1)
