"""F29 (C15, fixed): sync engine - when a thread-managed child stopped, its runner thread popped the parent's
children-map entry by id, even if that id had meanwhile been reused by a newer, live child."""
from xstate_statemachine import create_machine, MachineLogic, SyncInterpreter
child = {"id": "c", "initial": "on", "states": {"on": {}}}
logic = MachineLogic(services={})
logic.services["w"] = lambda i, c, e: create_machine(child, logic=MachineLogic())
cfg = {"id": "m", "initial": "on", "states": {"on": {"on": {
    "A": {"actions": [{"type": "spawn_w", "params": {"id": "a"}}]},
    "K": {"actions": [{"type": "xstate.stopChild", "params": {"id": "a"}}, {"type": "spawn_w", "params": {"id": "a"}}]}}}}}
it = SyncInterpreter(create_machine(cfg, logic=logic)).start()
it.send("A")
import time; time.sleep(0.05)
it.send("K")
time.sleep(0.1)
ok = "m:a" in it._actors and it._actors["m:a"].status == "running"
print("PASS" if ok else "FAIL", "children map:", list(it._actors))
it.stop()
raise SystemExit(0 if ok else 1)
