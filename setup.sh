#!/bin/bash
# MANIFEST.setup_cmd: offline build of the Coq development (full .vo build).
set -e
cd "$(dirname "$0")"
export PYTHONPATH=${XSM_REPO:-/repo}/src:$(pwd) PYTHONDONTWRITEBYTECODE=1
/venv/bin/python - <<'PY'
from harness import core
b = core.coq_build()
print("gen:", b["gen"]); print("make rc:", b["rc"], "failed:", b["failed"])
import sys; sys.exit(0 if b["rc"] == 0 else 1)
PY
