#!/bin/bash
# every registered check, one after the other, on the unchanged tree: build/all_<tier>.txt     usage: tools/run_all.sh [quick|thorough]
cd "$(dirname "$0")/.."
tier=${1:-quick}
mkdir -p build
[ -f coq/Props/C01.vo ] || ./setup.sh > build/_setup.log 2>&1
: > build/all_$tier.txt
for p in C01 C02 C03 C04 C05 C06 C07 C08 C09 C10 C11 C12 C13 C14 C15 C16 C17 C18 C19 C20; do
  s=$(date +%s)
  timeout 7200 ./check $p --tier $tier > build/all_${tier}_$p.log 2>&1
  rc=$?
  echo "$p rc=$rc $(( $(date +%s) - s ))s viol=$(grep -c '^VIOLATION' build/all_${tier}_$p.log) known=$(grep -c '^KNOWN-FINDING' build/all_${tier}_$p.log) seed=${VERIF_SEED:-0}" | tee -a build/all_$tier.txt
done
echo ALL-DONE | tee -a build/all_$tier.txt
