"""Copy confirmed seeded changes from /tmp/wt/<pid>/_out + /tmp/cs/<pid><v>.json into /verif/seeded/<pid>-<v>/"""
import json, os, shutil, glob, sys
for f in sorted(glob.glob('/tmp/cs/*.json')):
    c = json.load(open(f))
    pid, v = c['pid'], c['variant']
    d = f'/verif/seeded/{pid}-{v}'
    src = f'/tmp/wt/{pid}/_out'
    ok = c['demo_clean_rc'] == 0 and c['demo_mutant_rc'] != 0 and c['apply_rc'] == 0 and ' failed' not in c['suite'] and 'passed' in c['suite']
    if not ok or not os.path.exists(f'{src}/{v}.diff'):
        if not os.path.exists(d):
            print('not saved:', pid, v, c['suite'][:60])
        continue
    if os.path.exists(d):
        continue
    rep = json.load(open(f'{src}/report.json'))[v]
    os.makedirs(d, exist_ok=True)
    shutil.copy(f'{src}/{v}.diff', f'{d}/patch.diff')
    shutil.copy(f'{src}/demo_{v}.py', f'{d}/demo.py')
    meta = dict(property=pid, summary=rep.get('summary'), needs_to_manifest=rep.get('needs_to_manifest'), files=rep.get('files'),
                origin="written by an independent sub-agent given only the property text and a scratch worktree",
                confirmed=dict(how="tools/confirm_seed.sh in a scratch worktree of /repo HEAD (with the fix: commits): demo on clean tree, demo with patch, full test suite with patch",
                               demo_clean_rc=c['demo_clean_rc'], demo_with_patch_rc=c['demo_mutant_rc'], suite_with_patch=c['suite'].strip('= ')),
                detected_by=None)
    json.dump(meta, open(f'{d}/meta.json', 'w'), indent=1)
    print('saved', pid, v)
