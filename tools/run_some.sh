#!/bin/bash
# tools/run_some.sh <tier> <ids...> : the named checks, one after the other, on the unchanged tree: build/some_<tier>.txt
cd "$(dirname "$0")/.."
tier=$1; shift
mkdir -p build
[ -f coq/Props/C01.vo ] || ./setup.sh > build/_setup.log 2>&1
for p in "$@"; do
  s=$(date +%s)
  timeout 7200 ./check $p --tier $tier > build/some_${tier}_$p.log 2>&1
  rc=$?
  echo "$p rc=$rc $(( $(date +%s) - s ))s viol=$(grep -c '^VIOLATION' build/some_${tier}_$p.log) known=$(grep -c '^KNOWN-FINDING' build/some_${tier}_$p.log) tier=$tier seed=${VERIF_SEED:-0}" | tee -a build/some_$tier.txt
done
echo ALL-DONE | tee -a build/some_$tier.txt
