#!/bin/bash
# usage: tools/run_some.sh <tier> <out-tag> C01 C03 ... : the listed checks, one after the other (VERIF_SEED respected)
cd /verif
tier=$1; tag=$2; shift 2
: > build/some_$tag.txt
for p in "$@"; do
  s=$(date +%s)
  timeout 7200 ./check $p --tier $tier > build/some_${tag}_$p.log 2>&1
  rc=$?
  echo "$p rc=$rc $(( $(date +%s) - s ))s viol=$(grep -c '^VIOLATION' build/some_${tag}_$p.log) known=$(grep -c '^KNOWN-FINDING' build/some_${tag}_$p.log)" >> build/some_$tag.txt
done
echo ALL-DONE >> build/some_$tag.txt
