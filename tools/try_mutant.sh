#!/bin/bash
# tools/try_mutant.sh <patch.diff> <property...>  : apply to /repo, run the quick checks, undo.
diff=$1; shift
git -C /repo apply "$diff" || { echo "patch does not apply"; exit 2; }
for p in "$@"; do
  (cd /verif && timeout 1500 ./check $p 2>&1 | grep -E "^VIOLATION|^KNOWN|^C[0-9]+:" | head -8)
done
git -C /repo checkout -- .
git -C /repo status --short | head -3
