#!/bin/bash
# Independent re-check of every compiled property file (and everything it depends on) with coqchk; prints the axiom
# summary.  Not part of the registered checks (it takes ~30 s and re-verifies what coqc already accepted).
cd /verif/coq
timeout 3000 coqchk -silent -o -Q . XSM $(ls Props/*.v | sed 's#Props/\(.*\)\.v#XSM.Props.\1#') 2>&1 | tail -14
