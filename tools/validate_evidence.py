"""Validate MANIFEST.json and every evidence/<id>.json against the schemas under /root/.vp (run with python3-vt)."""
import json, sys, os
import jsonschema
root = os.path.dirname(os.path.dirname(os.path.abspath(__file__)))
man = json.load(open(os.path.join(root, "MANIFEST.json")))
jsonschema.validate(man, json.load(open("/root/.vp/MANIFEST.schema.json")))
es = json.load(open("/root/.vp/EVIDENCE.schema.json"))
bad = 0
for c in man["checks"]:
    p = os.path.join(root, c["evidence_file"])
    try:
        e = json.load(open(p))
        jsonschema.validate(e, es)
        lvl_ok = e["level"] == c["level_claimed"]["category"]
        print(c["property_id"], "ok" if lvl_ok else "LEVEL MISMATCH", e["tier"], e["seed"], e["level"], "violations=%s" % e.get("violations"))
        bad += 0 if lvl_ok else 1
    except Exception as exc:
        print(c["property_id"], "INVALID", str(exc)[:200]); bad += 1
sys.exit(1 if bad else 0)
