#!/bin/bash
# Applies every seeded change in turn to the repository, runs the quick check of its property, undoes it, records the outcome.
# usage: tools/run_seeds.sh [ids...]   -> build/seed_results/<id>.txt
# The repository is /repo, or $XSM_REPO (a scratch copy: `vp run --with-repo -- bash -c 'XSM_REPO=$VP_RUN_REPO tools/run_seeds.sh'`),
# so that a sweep over all seeds does not occupy /repo itself.
cd "$(dirname "$0")/.."
R=${XSM_REPO:-/repo}
export XSM_REPO=$R
mkdir -p build/seed_results
[ -d coq/Gen ] && [ -f coq/Props/C01.vo ] || ./setup.sh > build/seed_results/_setup.log 2>&1
ids="$@"
[ -z "$ids" ] && ids=$(ls seeded)
for id in $ids; do
  prop=${id%%-*}
  if ! git -C $R apply --check $(pwd)/seeded/$id/patch.diff 2>/dev/null; then echo "$id does-not-apply" | tee build/seed_results/$id.txt; continue; fi
  git -C $R apply $(pwd)/seeded/$id/patch.diff
  # the evidence file of the property must keep describing the UNCHANGED tree: set it aside while the seeded tree is checked
  [ -f evidence/$prop.json ] && cp evidence/$prop.json build/seed_results/.evidence_$prop.json
  timeout 3600 ./check $prop --tier quick > build/seed_results/$id.log 2>&1    # always rebuilds: tie T re-translates the source
  rc=$?
  cp evidence/$prop.json build/seed_results/$id.evidence.json 2>/dev/null
  [ -f build/seed_results/.evidence_$prop.json ] && mv build/seed_results/.evidence_$prop.json evidence/$prop.json
  git -C $R checkout -- .
  what=$(/venv/bin/python - "$id" <<'PY'
import json, re, sys, os
log = open(f"build/seed_results/{sys.argv[1]}.log").read()
v = re.findall(r"^VIOLATION property=\S+ replay=(\S+)(.*)$", log, re.M)
concrete = [p for p, tail in v if "no-failing-input-found" not in tail]
kinds = []
for p in (concrete or [p for p, _ in v])[:1]:
    try:
        d = json.load(open(p)); kinds.append(d.get("kind", "?") + ": " + str(d.get("what") or d.get("broken") or "")[:160])
    except Exception as e:
        kinds.append("unreadable replay")
print(("concrete-failing-input" if concrete else ("tie-broken-no-failing-input" if v else "NOT-DETECTED")), "|", "; ".join(kinds))
PY
)
  echo "$id rc=$rc $(grep -c '^VIOLATION' build/seed_results/$id.log) violations; $what" | tee build/seed_results/$id.txt
done
./setup.sh > /dev/null 2>&1
echo ALL-DONE
