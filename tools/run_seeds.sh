#!/bin/bash
# Applies every seeded change in turn to /repo, runs the quick check of its property, undoes it, records the outcome.
# usage: tools/run_seeds.sh [ids...]   -> build/seed_results/<id>.txt
cd /verif
mkdir -p build/seed_results
ids="$@"
[ -z "$ids" ] && ids=$(ls seeded)
for id in $ids; do
  prop=${id%%-*}
  if ! git -C /repo apply --check /verif/seeded/$id/patch.diff 2>/dev/null; then echo "$id does-not-apply" > build/seed_results/$id.txt; continue; fi
  git -C /repo apply /verif/seeded/$id/patch.diff
  flag=""   # always rebuild: tie T re-translates the source (coq/Gen) on every run
  timeout 3600 ./check $prop --tier quick $flag > build/seed_results/$id.log 2>&1
  rc=$?
  git -C /repo checkout -- .
  echo "$id rc=$rc $(grep -c '^VIOLATION' build/seed_results/$id.log) violations; $(grep '^VIOLATION' build/seed_results/$id.log | head -1 | cut -c1-120)" > build/seed_results/$id.txt
  cat build/seed_results/$id.txt
done
./setup.sh > /dev/null 2>&1
echo ALL-DONE
