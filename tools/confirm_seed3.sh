#!/bin/bash
# tools/confirm_seed3.sh <Cxx> <letter> : confirm a third-round seeded change (sub-agent output in /tmp/wt/<Cxx>/_out) in a fresh
# scratch worktree of /repo HEAD: demo passes on clean HEAD, fails with the patch, full test suite passes with the patch.
# On success the change is saved as /verif/seeded/<Cxx>-<letter>/ (patch.diff, demo.py, meta.json).
pid=$1; v=$2; src=/tmp/wt/$pid/_out; wt=/tmp/cs/$pid$v; out=/tmp/cs/$pid$v.json
mkdir -p /tmp/cs; rm -rf $wt; git -C /repo worktree prune
git -C /repo worktree add -q --detach $wt HEAD || exit 2
cd $wt
export PYTHONPATH=$wt/src PYTHONDONTWRITEBYTECODE=1
clean=$( timeout 300 /venv/bin/python $src/demo.py >/tmp/cs/$pid$v.clean.log 2>&1; echo $? )
if git apply $src/patch.diff 2>/tmp/cs/$pid$v.apply.log; then applied=0; else applied=1; fi
mut=$( timeout 300 /venv/bin/python $src/demo.py >/tmp/cs/$pid$v.mut.log 2>&1; echo $? )
/venv/bin/python -m pytest -q -p no:cacheprovider --timeout=900 --continue-on-collection-errors > /tmp/cs/$pid$v.suite.log 2>&1
suite=$(tail -n 1 /tmp/cs/$pid$v.suite.log)
cd /; git -C /repo worktree remove --force $wt
/venv/bin/python - "$pid" "$v" "$clean" "$applied" "$mut" "$suite" <<'PY'
import json, os, shutil, sys
pid, v, clean, applied, mut, suite = sys.argv[1:7]
clean, applied, mut = int(clean), int(applied), int(mut)
src = f"/tmp/wt/{pid}/_out"
ok = clean == 0 and applied == 0 and mut != 0 and "passed" in suite and " failed" not in suite and " error" not in suite
res = dict(pid=pid, variant=v, demo_clean_rc=clean, apply_rc=applied, demo_mutant_rc=mut, suite=suite, ok=ok)
json.dump(res, open(f"/tmp/cs/{pid}{v}.json", "w"))
print(res)
if ok:
    d = f"/verif/seeded/{pid}-{v}"
    os.makedirs(d, exist_ok=True)
    shutil.copy(f"{src}/patch.diff", f"{d}/patch.diff")
    shutil.copy(f"{src}/demo.py", f"{d}/demo.py")
    notes = json.load(open(f"{src}/notes.json"))
    head = os.popen("git -C /repo rev-parse --short HEAD").read().strip()
    meta = dict(property=pid, summary=notes.get("summary"), needs_to_manifest=notes.get("needs_to_manifest"), files=notes.get("files"),
                origin=f"{os.environ.get('SEED_ROUND', 'third')} round: written by an independent sub-agent given only the property text and a scratch worktree, at /repo {head}",
                confirmed=dict(how="tools/confirm_seed3.sh in a fresh scratch worktree of /repo HEAD: demo on the clean tree, demo with the patch, full test suite with the patch",
                               demo_clean_rc=clean, demo_with_patch_rc=mut, suite_with_patch=suite.strip("= ")),
                detected_by=None)
    json.dump(meta, open(f"{d}/meta.json", "w"), indent=1)
    print("saved", d)
PY
