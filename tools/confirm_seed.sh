#!/bin/bash
# tools/confirm_seed.sh <Cxx> <A|B> : confirm a seeded change in a scratch worktree of /repo HEAD:
#   demo passes on clean HEAD, fails with the patch, full test suite passes with the patch.
pid=$1; v=$2; src=/tmp/wt/$pid/_out; wt=/tmp/cs/$pid$v; out=/tmp/cs/$pid$v.json
mkdir -p /tmp/cs; rm -rf $wt; git -C /repo worktree prune
git -C /repo worktree add -q --detach $wt HEAD || exit 2
cd $wt
export PYTHONPATH=$wt/src
clean=$( /venv/bin/python $src/demo_$v.py >/tmp/cs/$pid$v.clean.log 2>&1; echo $? )
if git apply $src/$v.diff 2>/tmp/cs/$pid$v.apply.log; then applied=0; else applied=1; fi
mut=$( /venv/bin/python $src/demo_$v.py >/tmp/cs/$pid$v.mut.log 2>&1; echo $? )
/venv/bin/python -m pytest -q -p no:cacheprovider --timeout=900 --continue-on-collection-errors > /tmp/cs/$pid$v.suite.log 2>&1
suite=$(tail -n 1 /tmp/cs/$pid$v.suite.log)
echo "{\"pid\":\"$pid\",\"variant\":\"$v\",\"demo_clean_rc\":$clean,\"apply_rc\":$applied,\"demo_mutant_rc\":$mut,\"suite\":\"$suite\"}" > $out
cd /; git -C /repo worktree remove --force $wt
cat $out
