"""tools/record_seed_results.py <dir with build/seed_results> : copy the outcome of a tools/run_seeds.sh sweep (possibly run on a scratch
copy by `vp run`) into seeded/<id>/meta.json: detected_by."""
import glob, json, os, re, sys
src = sys.argv[1]
head = os.popen("git -C /repo rev-parse --short HEAD").read().strip()
for f in sorted(glob.glob(os.path.join(src, "build/seed_results/C??-?.txt"))):
    sid = os.path.basename(f)[:-4]
    line = open(f).read().strip()
    meta_p = f"/verif/seeded/{sid}/meta.json"
    if not os.path.exists(meta_p):
        continue
    meta = json.load(open(meta_p))
    prop = sid.split("-")[0]
    if "concrete-failing-input" in line:
        how = "concrete failing input"
    elif "tie-broken-no-failing-input" in line:
        how = "tie broken, no-failing-input-found"
    elif "does-not-apply" in line:
        how = None
        meta["obsolete"] = f"the patch no longer applies at /repo {head}"
    else:
        how = "NOT DETECTED"
    if how:
        meta["detected_by"] = [f"./check {prop} --tier quick ({how})"]
        meta["detected_detail"] = line.split("|", 1)[-1].strip()[:300]
        meta["detected_at_repo"] = head
    json.dump(meta, open(meta_p, "w"), indent=1)
    print(sid, how)
