"""Runs a fixed family of cases in THIS process (whose PYTHONHASHSEED the parent chose) and prints one digest per run.
Usage: python -m harness.det_worker <verif_seed> <n_machines>"""
import hashlib
import json
import random
import sys

from harness import impl
from harness.props import common, c11, c10


def main():
    seed, n = int(sys.argv[1]), int(sys.argv[2])
    rng = random.Random(seed * 7919 + 16)
    cases = common.random_family(rng, n, features=dict(history=True, parallel=True), max_nodes=10)
    cases += c11.family(rng, n // 2)
    cases += c10.family(rng, n // 3)
    cases += common.nested_parallel_family(rng, n // 2)
    out = []
    for am, engine, runs, opts in cases:
        for cx, events in runs:
            for eng in ("sync", "async"):
                fn = impl.run_sync if eng == "sync" else impl.run_async
                snaps = fn(am, events, seed_ctx={"v%d" % k: v for k, v in (cx or {}).items()}, raw_rearm=True)
                text = json.dumps(snaps)
                # in-process rebuild: the same case again must give the same trace
                snaps2 = fn(am, events, seed_ctx={"v%d" % k: v for k, v in (cx or {}).items()}, raw_rearm=True)
                text2 = json.dumps(snaps2)
                if '"TIMEOUT"' in text or '"TIMEOUT"' in text2:
                    # the wall-clock watchdog cut this run (a livelocking machine, or a slow host): where it cut depends on
                    # the host's speed, not on the library - inconclusive, never compared
                    out.append("TIMEOUT")
                    continue
                out.append(hashlib.sha256(text.encode()).hexdigest()[:16])
                if text2 != text:
                    out[-1] += "!rebuild"
    print(json.dumps(out))


if __name__ == "__main__":
    main()
