"""Runs in a FRESH subprocess: imports a generated logic module from a directory and reports what it builds.

usage: python -m harness.gen_driver <outdir> <module> <template> <config.json>
prints one JSON line: {"ok":..., "tree":..., "stdout_on_import":..., "bound":..., "error":...}"""
import contextlib
import importlib
import importlib.util
import io
import json
import logging
import os
import sys


def main():
    outdir, modname, template, cfg_path = sys.argv[1:5]
    logging.disable(logging.CRITICAL)
    sys.path.insert(0, outdir)
    os.chdir(outdir)
    res = dict(ok=False)
    before = set(os.listdir(outdir))
    buf = io.StringIO()
    try:
        with contextlib.redirect_stdout(buf):
            if modname in sys.stdlib_module_names or modname in sys.modules:
                # a machine called "Token" generates token.py: importing it BY NAME would return the standard library's
                # module of that name - load the generated file itself, under an alias
                spec = importlib.util.spec_from_file_location("generated_" + modname, os.path.join(outdir, modname + ".py"))
                mod = importlib.util.module_from_spec(spec)
                sys.modules["generated_" + modname] = mod
                spec.loader.exec_module(mod)
            else:
                mod = importlib.import_module(modname)
    except BaseException as exc:  # noqa
        res["error"] = "import raised %s: %s" % (type(exc).__name__, str(exc)[:200])
        print(json.dumps(res))
        return
    res["stdout_on_import"] = buf.getvalue()[:200]
    res["new_files"] = sorted(f for f in set(os.listdir(outdir)) - before if not f.startswith("__pycache__"))
    from xstate_statemachine.models import MachineNode
    from harness import tomodel
    cfg = json.load(open(cfg_path))
    machine = None
    try:
        if template.startswith("pythonic"):
            cands = [v for v in vars(mod).values() if isinstance(v, MachineNode)]
            if cands:
                machine = cands[0]
            elif callable(getattr(mod, "build", None)):
                machine = mod.build()
            else:
                for name, value in vars(mod).items():
                    if isinstance(value, type) and getattr(value, "__module__", None) == mod.__name__ and callable(getattr(value, "create_machine", None)):
                        machine = value.create_machine()
                        break
        else:
            from xstate_statemachine import create_machine
            if template == "class-json":
                provider = None
                for name, value in vars(mod).items():
                    if isinstance(value, type) and getattr(value, "__module__", None) == mod.__name__:
                        provider = value()
                        break
                machine = create_machine(cfg, logic_providers=[provider] if provider is not None else [])
            else:
                machine = create_machine(cfg, logic_modules=[mod])
    except BaseException as exc:  # noqa
        res["error"] = "building raised %s: %s" % (type(exc).__name__, str(exc)[:300])
        print(json.dumps(res))
        return
    if not isinstance(machine, MachineNode):
        res["error"] = "no machine produced"
        print(json.dumps(res))
        return
    res["ok"] = True
    res["tree"] = tomodel.deep(machine)
    nm = tomodel.names(machine)
    lg = machine.logic
    res["unbound"] = dict(actions=sorted(a for a in nm[0] if a not in lg.actions), guards=sorted(g for g in nm[1] if g not in lg.guards),
                          services=sorted(s for s in nm[2] if s not in lg.services))
    print(json.dumps(res))


if __name__ == "__main__":
    main()
