"""Deterministic threads for the sync engine (DESIGN.md 4.4).

Drop-in `Thread` / `Event` installed in xstate_statemachine.sync_interpreter's namespace, in the harness process
only.  Virtual threads are real daemon threads serialised by a baton: exactly one runs at a time.  A thread gives
the baton back when it blocks in Event.wait(timeout) or finishes; the scheduler (driven by the main thread) resumes
sleepers in wake-time order while advancing a virtual clock (ms)."""
from __future__ import annotations

import heapq
import threading as _real
import types


class Sched:
    def __init__(self):
        self.cv = _real.Condition()
        self.current = "main"
        self.clock = 0.0           # virtual ms
        self.heap = []             # (wake_ms, seq, name)
        self.seq = 0
        self.waiters = {}          # name -> VEvent it sleeps on
        self.alive = set()
        self.shutting_down = False
        self.resumer = {}

    # ---- baton ----
    def _me(self):
        n = _real.current_thread().name
        return n if n in self.alive else "main"

    def _run_until_back(self, name):
        """current thread -> name; wait until the baton comes back to the current thread"""
        me = self._me()
        with self.cv:
            self.resumer[name] = me
            self.current = name
            self.cv.notify_all()
            while self.current != me:
                self.cv.wait()

    def _yield_back(self, me):
        """`me` blocks: the baton returns to whoever resumed it; wait to be resumed again"""
        with self.cv:
            self.current = self.resumer.get(me, "main")
            self.cv.notify_all()
            while self.current != me:
                self.cv.wait()

    def _finish(self, me):
        with self.cv:
            self.alive.discard(me)
            self.current = self.resumer.get(me, "main")
            self.cv.notify_all()

    # ---- clock ----
    def advance(self, t_ms):
        """main thread: let virtual time reach t_ms, resuming due sleepers in (time, creation) order"""
        while self.heap and self.heap[0][0] <= t_ms:
            wake, _, name = heapq.heappop(self.heap)
            if name not in self.alive:
                continue
            self.clock = max(self.clock, wake)
            self._run_until_back(name)
        self.clock = max(self.clock, t_ms)

    def sleep(self, d_ms):
        """main thread, from inside an action: a slow action"""
        self.advance(self.clock + d_ms)

    def shutdown(self):
        self.shutting_down = True
        for ev in list(self.waiters.values()):
            ev._flag = True
        while self.heap:
            _, _, name = heapq.heappop(self.heap)
            if name in self.alive:
                self._run_until_back(name)


class VEvent:
    sched = None

    def __init__(self):
        self._flag = False

    def set(self):
        self._flag = True

    def is_set(self):
        return self._flag

    def clear(self):
        self._flag = False

    def wait(self, timeout=None):
        s = self.sched
        me = _real.current_thread().name
        if self._flag or me not in s.alive:
            return self._flag
        wake = s.clock + (timeout * 1000.0 if timeout is not None else 1e15)
        s.seq += 1
        heapq.heappush(s.heap, (wake, s.seq, me))
        s.waiters[me] = self
        s._yield_back(me)
        s.waiters.pop(me, None)
        return self._flag


class VThread:
    sched = None
    _n = 0

    def __init__(self, target=None, daemon=None, name=None, args=(), kwargs=None):
        VThread._n += 1
        self.name = "%s#%d" % (name or "vthread", VThread._n)
        self._target, self._args, self._kwargs = target, args, kwargs or {}
        self.daemon = True

    def start(self):
        s = self.sched
        s.alive.add(self.name)

        def body():
            with s.cv:
                while s.current != self.name:
                    s.cv.wait()
            try:
                self._target(*self._args, **self._kwargs)
            finally:
                s._finish(self.name)
        t = _real.Thread(target=body, name=self.name, daemon=True)
        self._t = t
        t.start()
        # run the new thread until it blocks (the timer body immediately waits on its cancel event)
        s._run_until_back(self.name)

    def is_alive(self):
        return self.name in self.sched.alive

    def join(self, timeout=None):
        return None


def install():
    """Returns (sched, uninstall).  Patches xstate_statemachine.sync_interpreter.threading."""
    import xstate_statemachine.sync_interpreter as si
    sched = Sched()
    VEvent.sched = sched
    VThread.sched = sched
    old = si.threading
    si.threading = types.SimpleNamespace(Thread=VThread, Event=VEvent, current_thread=_real.current_thread,
                                         Lock=_real.Lock, RLock=_real.RLock, Timer=_real.Timer, enumerate=_real.enumerate)

    def uninstall():
        try:
            sched.shutdown()
        finally:
            si.threading = old
    return sched, uninstall
