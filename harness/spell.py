"""Spelling rewrites of a machine config (property C18): every documented way of writing the same thing.

Input: a CANONICAL config as harness/am.py emits it (every target absolute '#root.path', transitions as lists of
objects, actions as lists).  The rewriter knows what each target denotes from the canonical spelling alone and chooses
among the spellings the documentation declares equivalent, under side conditions computed on the config tree here
(not with the library's resolver):
  transitions : "t" | {"target": "t"} | [{"target": "t"}]            (string form only when nothing else is declared)
  always      : "always": [...]  <->  "on": {"": [...]}
  guards      : "guard" <-> "cond"
  actions     : "a" | {"type": "a"} | ["a"] | [{"type": "a"}]
  delays      : "500" <-> 500
  initial     : omitted when the state has exactly one non-history child
  invoke      : {...} <-> [{...}]
  targets     : '#root.path' | sibling key | dotted path below the parent | '.rel' (relative to the parent) |
                path below the source itself | '.' for the parent
"""
from __future__ import annotations

import copy


def children_keys(state_cfg):
    st = state_cfg.get("states")
    return list(st.keys()) if isinstance(st, dict) else []


def find(cfg, path):
    cur = cfg
    for k in path:
        cur = cur["states"][k]
    return cur


def target_spellings(root_cfg, root_id, src_path, tgt):
    """All spellings of the absolute target `tgt` ('#root.a.b') that denote the same state from the state at src_path."""
    if not isinstance(tgt, str) or not tgt.startswith("#" + root_id):
        return [tgt]
    rest = tgt[len(root_id) + 1:]
    if rest and not rest.startswith("."):
        return [tgt]
    T = [s for s in rest.split(".") if s]
    try:
        find(root_cfg, T)
    except Exception:  # noqa  (an unresolvable target stays as it is)
        return [tgt]
    out = [tgt]
    S = list(src_path)
    src_cfg = find(root_cfg, S)
    src_children = children_keys(src_cfg)
    # below the source itself: plain path, first thing the bubbling lookup tries
    if len(T) > len(S) and T[:len(S)] == S:
        out.append(".".join(T[len(S):]))
    if S:
        P = S[:-1]
        if T == P and P:
            out.append(".")
        if len(T) > len(P) and T[:len(P)] == P:
            rel = T[len(P):]
            out.append("." + ".".join(rel))
            # plain (bubbling) spelling: the lookup first tries the source's own subtree, then the source's own key,
            # then the parent's subtree - the first two must not catch it (unless they name the same state)
            caught_below = True
            try:
                find(src_cfg, rel)
            except Exception:  # noqa
                caught_below = False
            names_source = len(rel) == 1 and rel[0] == S[-1]
            if not caught_below and (not names_source or T == S):
                out.append(".".join(rel))
    seen = []
    for s in out:
        if s not in seen:
            seen.append(s)
    return seen


class Respeller:
    def __init__(self, cfg, rng, targets=True, p=0.6):
        self.cfg, self.rng, self.targets, self.p = cfg, rng, targets, p
        self.root_id = cfg.get("id")
        self.used = set()

    def flip(self, tag):
        r = self.rng.random() < self.p
        if r:
            self.used.add(tag)
        return r

    def action(self, a):
        if isinstance(a, dict) and set(a) == {"type"} and isinstance(a["type"], str) and self.flip("action-string"):
            return a["type"]
        if isinstance(a, str) and self.flip("action-object"):
            return {"type": a}
        return copy.deepcopy(a)

    def actions(self, v):
        if v is None:
            return None
        L = v if isinstance(v, list) else [v]
        L = [self.action(a) for a in L]
        if len(L) == 1 and self.flip("actions-single"):
            return L[0]
        return L

    def target(self, tgt, src_path):
        if not self.targets:
            return tgt
        opts = target_spellings(self.cfg, self.root_id, src_path, tgt)
        c = self.rng.choice(opts)
        if c != tgt:
            self.used.add("target:" + ("dot" if c == "." else "rel" if c.startswith(".") else "plain"))
        return c

    def trans(self, t, src_path):
        if t is None or isinstance(t, str):
            t = {"target": t} if isinstance(t, str) else None
        if t is None:
            return None
        d = {}
        for k, v in t.items():
            if k in ("guard", "cond"):
                d[("cond" if k == "guard" else "guard") if self.flip("guard-cond") else k] = copy.deepcopy(v)
            elif k == "actions":
                d[k] = self.actions(v)
            elif k == "target":
                d[k] = self.target(v, src_path)
            else:
                d[k] = copy.deepcopy(v)
        if set(d) == {"target"} and isinstance(d["target"], str) and self.flip("transition-string"):
            return d["target"]
        return d

    def transitions(self, v, src_path):
        if v is None:
            return None
        L = v if isinstance(v, list) else [v]
        L = [self.trans(t, src_path) for t in L]
        if len(L) == 1 and L[0] is not None and self.flip("transition-single"):
            return L[0]
        return L

    def state(self, s, path):
        d = {}
        for k, v in s.items():
            if k == "states":
                d[k] = {ck: self.state(cv, path + [ck]) for ck, cv in v.items()}
            elif k in ("entry", "exit"):
                d[k] = self.actions(v)
            elif k == "on":
                d[k] = {ev: self.transitions(ts, path) for ev, ts in v.items()}
            elif k == "always":
                d[k] = self.transitions(v, path)
            elif k == "onDone":
                d[k] = self.transitions(v, path)
            elif k == "after":
                nd = {}
                for dk, ts in v.items():
                    nk = dk
                    if isinstance(dk, str) and dk.isdigit() and self.flip("delay-number"):
                        nk = int(dk)
                    elif isinstance(dk, int) and self.flip("delay-string"):
                        nk = str(dk)
                    nd[nk] = self.transitions(ts, path)
                d[k] = nd
            elif k == "invoke":
                L = v if isinstance(v, list) else [v]
                L2 = []
                for inv in L:
                    i2 = {}
                    for ik, iv in inv.items():
                        i2[ik] = self.transitions(iv, path) if ik in ("onDone", "onError") else copy.deepcopy(iv)
                    L2.append(i2)
                d[k] = L2[0] if len(L2) == 1 and self.flip("invoke-single") else L2
            elif k == "target" and s.get("type") == "history":
                d[k] = self.target(v, path)
            else:
                d[k] = copy.deepcopy(v)
        # always <-> on[""]
        if "always" in d and "" not in d.get("on", {}) and self.flip("always-as-empty-event"):
            on = dict(d.get("on", {}))
            on[""] = d.pop("always")
            d["on"] = on
        elif "" in d.get("on", {}) and "always" not in d and self.flip("empty-event-as-always"):
            on = dict(d["on"])
            d["always"] = on.pop("")
            if on:
                d["on"] = on
            else:
                d.pop("on")
        # omitted initial with a single child
        st = d.get("states")
        if isinstance(st, dict) and "initial" in d and d.get("type") != "parallel":
            real = [k for k, c in st.items() if not (isinstance(c, dict) and c.get("type") == "history")]
            if len(st) == 1 and real == [d["initial"]] and self.flip("initial-omitted"):
                d.pop("initial")
        return d


def rewrite(cfg, rng, targets=True, p=0.6):
    r = Respeller(cfg, rng, targets, p)
    out = r.state(cfg, [])
    return out, sorted(r.used)


# ------------------------------------------------------------------ single-point corruptions
WRONG = [None, 7, 0, "zz", "", ["q"], [], {"q": 1}, {}, True, False]


def paths(v, pre=()):
    yield pre
    if isinstance(v, dict):
        for k, x in v.items():
            yield from paths(x, pre + (k,))
    elif isinstance(v, list):
        for i, x in enumerate(v):
            yield from paths(x, pre + (i,))


def get_path(c, path):
    for k in path:
        c = c[k]
    return c


def set_path(c, path, val):
    c = copy.deepcopy(c)
    if not path:
        return val
    cur = c
    for k in path[:-1]:
        cur = cur[k]
    cur[path[-1]] = val
    return c


def jtype(v):
    if v is None:
        return "null"
    if isinstance(v, bool):
        return "bool"
    if isinstance(v, (int, float)):
        return "number"
    if isinstance(v, str):
        return "string"
    if isinstance(v, list):
        return "list"
    return "object"
